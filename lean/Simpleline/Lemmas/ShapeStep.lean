/-
  Master lemma of the shape proofs: every machine transition, seen through the shape view, is one of
  a small number of abstract transitions (`SStep`): the head instruction is replaced by a *batch*
  (`Batch`, state otherwise untouched), or one of the few state-changing operations happens, or an
  exception unwinds the code.
-/
import Simpleline.Lemmas.ShapeView

namespace Simpleline

open Shape

/-- acts that only touch queues -/
def Act.silent : Act → Bool
  | .regSource _ | .closeSig _ | .redrawSig _ | .schedRedraw => true
  | _ => false

/-- instructions whose only effect on the shape view is to disappear (when they do not raise) -/
def Instr.passive : Instr → Bool
  | .catchExit | .quitCb | .catchHandler | .catchPS | .catchDraw | .catchPI _ | .endPI | .hret _ | .note _
  | .scrRet .. | .printLines _ | .classify _ | .inputReceived _ | .afterQuit _ | .getInput2 .. | .closeScreen3 _
  | .afterSetupFail _ => true
  | _ => false

/-- the exceptions an instruction can raise -/
def Instr.canRaise : Instr → Kind → Bool
  | .act .raiseExit, .exit => true
  | .act .raiseErr, .err => true
  | .act (.replace ..), .err => true
  | .popLevel, .err => true
  | .closeScreen _, .err => true
  | .closeScreen2 .., .err => true
  | .closeScreen3 _, .exit => true
  | .processScreen, .exit => true
  | .afterSetup _, .err => true
  | .afterSetupFail _, .exit => true
  | .identCheck _, .exit => true
  | .printWidget _, .err => true
  | .getInput2 .., .err => true
  | .blockingInput .., .err => true
  | .inputReceived _, .err => true
  | .countAndAct _, .exit => true
  | .afterQuit _, .exit => true
  | _, _ => false

/-- the instructions at which a run can stop without an exception (blocked, livelock, nothing scheduled) -/
def Instr.canHalt : Instr → Bool
  | .apprun | .getDispatch | .waitStep .. | .printWidget _ | .waitInput _ => true
  | _ => false

/-- `Batch P v h B evs`: in view `v`, head instruction `h` may be replaced by the instructions `B`,
adding the shape events `evs` (newest first), with no other change of the view -/
inductive Batch (P : Prog) (v : SV) : Instr → List Instr → List Tr → Prop
  | passive {h : Instr} : h.passive = true → Batch P v h [] []
  | actSilent {a : Act} : a.silent = true → Batch P v (.act a) [] []
  | actNewLoop (cls : Cls) (prio : Int) (sid : Nat) :
      Batch P v (.act (.newLoop cls prio sid)) [.newLoop { id := sid, cls := cls, prio := prio, src := .none }, .note "new<"] []
  | actCloseLoop : Batch P v (.act .closeLoop) [.closeLoop, .note "closed<"] []
  | actProcNone : Batch P v (.act (.proc none)) [.procIter none, .note "proc<"] [.procBegin]
  | actProcSome (cls : Cls) : Batch P v (.act (.proc (some cls))) [.procWait cls, .note "proc<"] []
  | actPushModal (scr : Nat) (args : Option Nat) :
      Batch P v (.act (.pushModal scr args)) [.pushModal scr args, .note "modal<"] []
  | actCloseDirect : Batch P v (.act .closeDirect) [.closeScreen none] []
  | actGetUserInput (scr : Nat) (hidden : Bool) :
      Batch P v (.act (.getUserInput scr hidden)) [.blockingInput scr false, .note "gui<"] []
  | mainLoop (q : Nat) : v.runLoop = true → Batch P v (.mainCheck q) [.loopCheck, .mainCheck q] []
  | mainExit (q : Nat) : v.runLoop = false → Batch P v (.mainCheck q) [.restoreRun] [.loopReturn q]
  | restoreFQ : v.forceQuit = true → Batch P v .restoreRun [] []
  | loopGo : v.runLoop = true → Batch P v .loopCheck [.getDispatch, .loopCheck] []
  | loopEnd : v.runLoop = false → Batch P v .loopCheck [] []
  | getDispatch (s : Sig) : Batch P v .getDispatch [.processSignal s] [.take v.active s]
  | psDispatch (s : Sig) : Batch P v (.processSignal s) [.dispatch s 0] []
  | psKill (s : Sig) : Batch P v (.processSignal s) [.kill s] []
  | psNone (s : Sig) : Batch P v (.processSignal s) [] []
  | dispCall (s : Sig) (i : Nat) (h : HRef) (d : Option Nat) : v.forceQuit = false →
      Batch P v (.dispatch s i) [.callH h d s, .catchHandler, .dispatch s (i + 1)] []
  | dispDone (s : Sig) (i : Nat) : Batch P v (.dispatch s i) [] []
  | callRender (d : Option Nat) (s : Sig) : Batch P v (.callH .render d s) [.processScreen] []
  | callClose (d : Option Nat) (s : Sig) : Batch P v (.callH .close d s) [.closeScreen (some s.src)] []
  | callItm (d : Option Nat) (s : Sig) : Batch P v (.callH .itm d s) [.inputReceived s] []
  | callIh (n : Nat) (d : Option Nat) (s : Sig) : Batch P v (.callH (.ih n) d s) [.inputReady n s] []
  | callExc (d : Option Nat) (s : Sig) : Batch P v (.callH .exc d s) [] []
  | callUser (hid : Nat) (d : Option Nat) (s : Sig) (n : Nat) :
      Batch P v (.callH (.user hid) d s) ((P.handlerScript hid n).map .act ++ [.hret hid]) []
  | procWait (cls : Cls) (t : Nat) : Batch P v (.procWait cls) [.waitStep cls t] []
  | waitTake (cls : Cls) (t : Nat) (s : Sig) : v.runLoop = true →
      Batch P v (.waitStep cls t) [.processSignal s, .waitCheck cls t] [.take v.active s]
  | waitEnd (cls : Cls) (t : Nat) : v.runLoop = false → Batch P v (.waitStep cls t) [] []
  | waitCheckDone (cls : Cls) (t : Nat) : Batch P v (.waitCheck cls t) [] []
  | waitCheckAgain (cls : Cls) (t : Nat) : Batch P v (.waitCheck cls t) [.waitStep cls t] []
  | procEnd (p : Option Int) : Batch P v (.procIter p) [] [.procEnd]
  | procTake (p : Option Int) (s : Sig) (p' : Int) : v.runLoop = true →
      Batch P v (.procIter p) [.processSignal s, .procIter (some p')] [.take v.active s]
  | newLoopFQ (s : Sig) : v.forceQuit = true → Batch P v (.newLoop s) [] []
  | closeLoop (n : Nat) : Batch P v .closeLoop [.procIter none, .popLevel] [.procBegin, .closeReq v.runLoop n]
  | modalRet (e : Entry) : Batch P v (.modalRet e) [] [.modalEnd e]
  | close2Modal (e : Entry) (frm : Option Src) : e.modal = true →
      Batch P v (.closeScreen2 e frm) [.closeLoop, .closeScreen3 e] []
  | close2Plain (e : Entry) (frm : Option Src) : e.modal = false →
      Batch P v (.closeScreen2 e frm) [.closeScreen3 e] []
  | psReady (top : Entry) : v.stack.getLast? = some top → Batch P v .processScreen [.afterSetup2 top] []
  | psSetup (top : Entry) : v.stack.getLast? = some top →
      Batch P v .processScreen [.callScr top.screen .setup top.args none, .afterSetup top] []
  | afterSetupOk (top : Entry) : Batch P v (.afterSetup top) [.afterSetup2 top] []
  | afterSetup2 (top : Entry) :
      Batch P v (.afterSetup2 top) [.callScr top.screen .refresh top.args none, .identCheck top, .catchPS] [.refresh top]
  | identOk (top l : Entry) : v.stack.getLast? = some l → l.eid = top.eid →
      Batch P v (.identCheck top) [.drawScreen top, .maybeInput top] []
  | drawScreen (top : Entry) :
      Batch P v (.drawScreen top) [.callScr top.screen .show none none, .catchDraw] [.show top]
  | maybeInputYes (top : Entry) : Batch P v (.maybeInput top) [.getInput top.screen top.args] []
  | maybeInputNo (top : Entry) : Batch P v (.maybeInput top) [] []
  | callScr (scr : Nat) (cb : Cb) (arg : Option Nat) (key : Option Str) (n : Nat) :
      Batch P v (.callScr scr cb arg key)
        ((if cb = .show then [.printWidget scr] else []) ++ (P.screenScript scr cb n).acts.map .act ++
          [.scrRet scr cb (P.screenScript scr cb n).ret key]) []
  | printWidget (scr : Nat) (B : List Instr) :
      (∀ i ∈ B, (∃ ls, i = .printLines ls) ∨ i = .blockingInput scr true) → Batch P v (.printWidget scr) B []
  | getInput (scr : Nat) (args : Option Nat) :
      Batch P v (.getInput scr args) [.callScr scr .prompt args none, .getInput2 scr args] []
  | blockingInput (scr : Nat) (cont : Bool) (ih : Nat) : Batch P v (.blockingInput scr cont) [.waitInput ih] []
  | waitInputDone (ih : Nat) : Batch P v (.waitInput ih) [] []
  | waitInputWait (ih : Nat) : v.runLoop = true →
      Batch P v (.waitInput ih) [.procWait .inputReady, .waitInput ih] []
  | inputReadyNone (n : Nat) (s : Sig) : Batch P v (.inputReady n s) [] []
  | inputReadyCb (n : Nat) (s : Sig) (scr : Nat) : Batch P v (.inputReady n s) [.processInput scr s.line] []
  | processInput (scr : Nat) (key : Str) (a : Option Nat) :
      Batch P v (.processInput scr key)
        [.callScr scr .input a (some key), .classify scr, .catchPI scr, .countAndAct scr, .endPI] []
  | caaNone (scr : Nat) : Batch P v (.countAndAct scr) [] []
  | caaInput (scr : Nat) (top : Entry) : v.stack.getLast? = some top →
      Batch P v (.countAndAct scr) [.getInput top.screen top.args] []
  | caaClose (scr : Nat) : Batch P v (.countAndAct scr) [.closeScreen none] []
  | caaQuit (scr q : Nat) : P.quitScreen = some q → Batch P v (.countAndAct scr) [.pushModal q none, .afterQuit q] []

def notCatchPS : Instr → Bool
  | .catchPS => false
  | _ => true

/-- the abstract transitions of the shape view: `SStepE P v evs v'` — from `v` to `v'`, adding the shape
events `evs` (newest first) -/
inductive SStepE (P : Prog) : SV → List Tr → SV → Prop
  | stutter (v : SV) : SStepE P v [] v
  | batch {v : SV} {h : Instr} {rest B : List Instr} {evs : List Tr} :
      v.code = h :: rest → Batch P v h B evs → SStepE P v evs { v with code := B ++ rest, ev := evs ++ v.ev }
  | halt {v : SV} {h : Instr} {rest : List Instr} :
      v.code = h :: rest → h.canHalt = true → SStepE P v [] { v with code := rest }
  | raise {v : SV} {h : Instr} {rest : List Instr} {k : Kind} :
      v.code = h :: rest → h.canRaise k = true → SStepE P v (exitEv k) (raisedSV k { v with code := rest })
  | kill {v : SV} {s : Sig} {rest : List Instr} :
      v.code = .kill s :: rest → SStepE P v [.kill] { v with code := [], ev := .kill :: v.ev }
  | forceQuit {v : SV} {rest : List Instr} :
      v.code = .act .forceQuit :: rest →
      SStepE P v [.forceQuit]
        { v with code := rest, forceQuit := true, levels := [], runLoop := false, ev := .forceQuit :: v.ev }
  | schedule {v : SV} {rest : List Instr} {scr : Nat} {args : Option Nat} :
      v.code = .act (.schedule scr args) :: rest →
      SStepE P v [.stackOp "schedule" (⟨v.nextEid, scr, args, false⟩ :: v.stack)]
        { v with code := rest, stack := ⟨v.nextEid, scr, args, false⟩ :: v.stack, nextEid := v.nextEid + 1,
                 ev := .stackOp "schedule" (⟨v.nextEid, scr, args, false⟩ :: v.stack) :: v.ev }
  | pushScr {v : SV} {rest : List Instr} {scr : Nat} {args : Option Nat} :
      v.code = .act (.push scr args) :: rest →
      SStepE P v [.stackOp "push" (v.stack ++ [⟨v.nextEid, scr, args, false⟩])]
        { v with code := rest, stack := v.stack ++ [⟨v.nextEid, scr, args, false⟩], nextEid := v.nextEid + 1,
                 ev := .stackOp "push" (v.stack ++ [⟨v.nextEid, scr, args, false⟩]) :: v.ev }
  | replace {v : SV} {rest : List Instr} {scr : Nat} {args : Option Nat} {old : Entry} :
      v.code = .act (.replace scr args) :: rest → v.stack.getLast? = some old →
      SStepE P v [.stackOp "replace" (v.stack.dropLast ++ [⟨v.nextEid, scr, args, old.modal⟩])]
        { v with code := rest, stack := v.stack.dropLast ++ [⟨v.nextEid, scr, args, old.modal⟩],
                 nextEid := v.nextEid + 1,
                 ev := .stackOp "replace" (v.stack.dropLast ++ [⟨v.nextEid, scr, args, old.modal⟩]) :: v.ev }
  | apprun {v : SV} {rest : List Instr} :
      v.code = .apprun :: rest →
      SStepE P v [] { v with code := [.mainCheck 0, .catchExit, .quitCb] ++ rest, forceQuit := false, runLoop := true }
  | restore {v : SV} {rest : List Instr} :
      v.code = .restoreRun :: rest → v.forceQuit = false → SStepE P v [] { v with code := rest, runLoop := true }
  | enqAct {v : SV} {rest : List Instr} {cls : Cls} {prio : Int} {src : Src} {sid : Nat} :
      v.code = .act (.enq cls prio src sid) :: rest →
      SStepE P v [] (SV.noteExc { v with code := rest } (cls == .exception))
  | «open» {v : SV} {rest : List Instr} {s : Sig} :
      v.code = .newLoop s :: rest → v.forceQuit = false →
      SStepE P v [.openLevel v.nq v.runLoop]
        (SV.noteExc { v with code := .mainCheck v.nq :: rest, levels := v.levels ++ [v.nq], active := v.nq,
                             nq := v.nq + 1, ev := .openLevel v.nq v.runLoop :: v.ev } (s.cls == .exception))
  | pop {v : SV} {rest : List Instr} {q a : Nat} :
      v.code = .popLevel :: rest → v.levels.getLast? = some q → v.levels.dropLast.getLast? = some a →
      SStepE P v [.closeLevel q]
        { v with code := rest, levels := v.levels.dropLast, active := a, runLoop := false,
                 ev := .closeLevel q :: v.ev }
  | popExit {v : SV} {rest : List Instr} {q : Nat} :
      v.code = .popLevel :: rest → v.levels.getLast? = some q → v.levels.dropLast.getLast? = none →
      SStepE P v [.exit, .closeLevel q]
        (raisedSV .exit { v with code := rest, levels := [], ev := .closeLevel q :: v.ev })
  | pushModal {v : SV} {rest : List Instr} {scr : Nat} {args : Option Nat} {s : Sig} :
      v.code = .pushModal scr args :: rest →
      SStepE P v [.modalBegin ⟨v.nextEid, scr, args, true⟩, .stackOp "pushModal" (v.stack ++ [⟨v.nextEid, scr, args, true⟩])]
        { v with code := .newLoop s :: .modalRet ⟨v.nextEid, scr, args, true⟩ :: rest,
                 stack := v.stack ++ [⟨v.nextEid, scr, args, true⟩], nextEid := v.nextEid + 1,
                 ev := .modalBegin ⟨v.nextEid, scr, args, true⟩ ::
                       .stackOp "pushModal" (v.stack ++ [⟨v.nextEid, scr, args, true⟩]) :: v.ev }
  | closeScreen {v : SV} {rest : List Instr} {frm : Option Src} {e : Entry} :
      v.code = .closeScreen frm :: rest → v.stack.getLast? = some e →
      SStepE P v [.stackOp "close" v.stack.dropLast]
        { v with code := .callScr e.screen .closed none none :: .closeScreen2 e frm :: rest,
                 stack := v.stack.dropLast, ev := .stackOp "close" v.stack.dropLast :: v.ev }
  | discard {v : SV} {rest : List Instr} {top e : Entry} :
      v.code = .afterSetup top :: rest → v.stack.getLast? = some e →
      SStepE P v [.stackOp "discard" v.stack.dropLast]
        { v with code := (if e.modal then [.closeLoop, .afterSetupFail e] else []) ++ rest,
                 stack := v.stack.dropLast, ev := .stackOp "discard" v.stack.dropLast :: v.ev }
  | identSkip {v : SV} {rest : List Instr} {top l : Entry} :
      v.code = .identCheck top :: rest → v.stack.getLast? = some l → l.eid ≠ top.eid →
      SStepE P v [] { v with code := rest.dropWhile notCatchPS }

/-- an abstract transition, whatever events it adds -/
def SStep (P : Prog) (v v' : SV) : Prop := ∃ evs, SStepE P v evs v'

namespace Shape

theorem SStep.stutter {P : Prog} (v : SV) : SStep P v v := ⟨_, .stutter v⟩
theorem SStep.kill {P : Prog} {v : SV} {s : Sig} {rest : List Instr} (h : v.code = .kill s :: rest) :
    SStep P v { v with code := [], ev := .kill :: v.ev } := ⟨_, .kill h⟩
theorem SStep.forceQuit {P : Prog} {v : SV} {rest : List Instr} (h : v.code = .act .forceQuit :: rest) :
    SStep P v { v with code := rest, forceQuit := true, levels := [], runLoop := false, ev := .forceQuit :: v.ev } :=
  ⟨_, .forceQuit h⟩
theorem SStep.schedule {P : Prog} {v : SV} {rest : List Instr} {scr : Nat} {args : Option Nat}
    (h : v.code = .act (.schedule scr args) :: rest) :
    SStep P v { v with code := rest, stack := ⟨v.nextEid, scr, args, false⟩ :: v.stack, nextEid := v.nextEid + 1,
                       ev := .stackOp "schedule" (⟨v.nextEid, scr, args, false⟩ :: v.stack) :: v.ev } :=
  ⟨_, .schedule h⟩
theorem SStep.pushScr {P : Prog} {v : SV} {rest : List Instr} {scr : Nat} {args : Option Nat}
    (h : v.code = .act (.push scr args) :: rest) :
    SStep P v { v with code := rest, stack := v.stack ++ [⟨v.nextEid, scr, args, false⟩], nextEid := v.nextEid + 1,
                       ev := .stackOp "push" (v.stack ++ [⟨v.nextEid, scr, args, false⟩]) :: v.ev } :=
  ⟨_, .pushScr h⟩
theorem SStep.replace {P : Prog} {v : SV} {rest : List Instr} {scr : Nat} {args : Option Nat} {old : Entry}
    (h : v.code = .act (.replace scr args) :: rest) (ho : v.stack.getLast? = some old) :
    SStep P v { v with code := rest, stack := v.stack.dropLast ++ [⟨v.nextEid, scr, args, old.modal⟩],
                       nextEid := v.nextEid + 1,
                       ev := .stackOp "replace" (v.stack.dropLast ++ [⟨v.nextEid, scr, args, old.modal⟩]) :: v.ev } :=
  ⟨_, .replace h ho⟩
theorem SStep.apprun {P : Prog} {v : SV} {rest : List Instr} (h : v.code = .apprun :: rest) :
    SStep P v { v with code := [.mainCheck 0, .catchExit, .quitCb] ++ rest, forceQuit := false, runLoop := true } :=
  ⟨_, .apprun h⟩
theorem SStep.restore {P : Prog} {v : SV} {rest : List Instr} (h : v.code = .restoreRun :: rest)
    (hf : v.forceQuit = false) : SStep P v { v with code := rest, runLoop := true } := ⟨_, .restore h hf⟩
theorem SStep.enqAct {P : Prog} {v : SV} {rest : List Instr} {cls : Cls} {prio : Int} {src : Src} {sid : Nat}
    (h : v.code = .act (.enq cls prio src sid) :: rest) :
    SStep P v (SV.noteExc { v with code := rest } (cls == .exception)) := ⟨_, .enqAct h⟩
theorem SStep.open {P : Prog} {v : SV} {rest : List Instr} {s : Sig} (h : v.code = .newLoop s :: rest)
    (hf : v.forceQuit = false) :
    SStep P v (SV.noteExc { v with code := .mainCheck v.nq :: rest, levels := v.levels ++ [v.nq], active := v.nq,
                                   nq := v.nq + 1, ev := .openLevel v.nq v.runLoop :: v.ev } (s.cls == .exception)) :=
  ⟨_, .open h hf⟩
theorem SStep.pop {P : Prog} {v : SV} {rest : List Instr} {q a : Nat} (h : v.code = .popLevel :: rest)
    (hq : v.levels.getLast? = some q) (ha : v.levels.dropLast.getLast? = some a) :
    SStep P v { v with code := rest, levels := v.levels.dropLast, active := a, runLoop := false,
                       ev := .closeLevel q :: v.ev } := ⟨_, .pop h hq ha⟩
theorem SStep.popExit {P : Prog} {v : SV} {rest : List Instr} {q : Nat} (h : v.code = .popLevel :: rest)
    (hq : v.levels.getLast? = some q) (ha : v.levels.dropLast.getLast? = none) :
    SStep P v (raisedSV .exit { v with code := rest, levels := [], ev := .closeLevel q :: v.ev }) :=
  ⟨_, .popExit h hq ha⟩
theorem SStep.pushModal {P : Prog} {v : SV} {rest : List Instr} {scr : Nat} {args : Option Nat} {s : Sig}
    (h : v.code = .pushModal scr args :: rest) :
    SStep P v { v with code := .newLoop s :: .modalRet ⟨v.nextEid, scr, args, true⟩ :: rest,
                       stack := v.stack ++ [⟨v.nextEid, scr, args, true⟩], nextEid := v.nextEid + 1,
                       ev := .modalBegin ⟨v.nextEid, scr, args, true⟩ ::
                             .stackOp "pushModal" (v.stack ++ [⟨v.nextEid, scr, args, true⟩]) :: v.ev } :=
  ⟨_, .pushModal h⟩
theorem SStep.closeScreen {P : Prog} {v : SV} {rest : List Instr} {frm : Option Src} {e : Entry}
    (h : v.code = .closeScreen frm :: rest) (he : v.stack.getLast? = some e) :
    SStep P v { v with code := .callScr e.screen .closed none none :: .closeScreen2 e frm :: rest,
                       stack := v.stack.dropLast, ev := .stackOp "close" v.stack.dropLast :: v.ev } :=
  ⟨_, .closeScreen h he⟩
theorem SStep.discard {P : Prog} {v : SV} {rest : List Instr} {top e : Entry}
    (h : v.code = .afterSetup top :: rest) (he : v.stack.getLast? = some e) :
    SStep P v { v with code := (if e.modal then [.closeLoop, .afterSetupFail e] else []) ++ rest,
                       stack := v.stack.dropLast, ev := .stackOp "discard" v.stack.dropLast :: v.ev } :=
  ⟨_, .discard h he⟩
theorem SStep.identSkip {P : Prog} {v : SV} {rest : List Instr} {top l : Entry}
    (h : v.code = .identCheck top :: rest) (hl : v.stack.getLast? = some l) (hne : l.eid ≠ top.eid) :
    SStep P v { v with code := rest.dropWhile notCatchPS } := ⟨_, .identSkip h hl hne⟩

theorem SStep.batch' {P : Prog} {v v' : SV} {h : Instr} {rest B : List Instr} {evs : List Tr}
    (hc : v.code = h :: rest) (hb : Batch P v h B evs) (hv : v' = { v with code := B ++ rest, ev := evs ++ v.ev }) :
    SStep P v v' := hv ▸ ⟨_, SStepE.batch hc hb⟩

theorem SStep.raise' {P : Prog} {v v' : SV} {h : Instr} {rest : List Instr} (k : Kind)
    (hc : v.code = h :: rest) (hr : h.canRaise k = true) (hv : v' = raisedSV k { v with code := rest }) :
    SStep P v v' := hv ▸ ⟨_, SStepE.raise hc hr⟩

theorem SStep.halt' {P : Prog} {v v' : SV} {h : Instr} {rest : List Instr}
    (hc : v.code = h :: rest) (hr : h.canHalt = true) (hv : v' = { v with code := rest }) :
    SStep P v v' := hv ▸ ⟨_, SStepE.halt hc hr⟩

/-- the step and its trace growth, packaged -/
def StepOK (P : Prog) (c : Cfg) : Prop :=
  SStep P c.sv (outCfg (step P c)).sv ∧ Grow c (outCfg (step P c))

end Shape

end Simpleline
