/-
  Proof of the master lemma: every `step` is an `SStep` of the shape view and only adds trace events
  (one small lemma per instruction).
-/
import Simpleline.Lemmas.ShapeStep

namespace Simpleline

namespace Shape

variable {P : Prog} {c : Cfg} {rest : List Instr}

theorem bfalse {b : Bool} (h : ¬ b = true) : b = false := by simpa using h

theorem grow0 (c : Cfg) (r : List Instr) : Grow c { c with code := r } := ⟨[], rfl⟩

theorem sv_setA (c : Cfg) (f : AppSt → AppSt) (h : ∀ A, (f A).stack = A.stack ∧ (f A).nextEid = A.nextEid) :
    Cfg.sv { c with A := f c.A } = c.sv := by
  simp [Cfg.sv, h]

theorem sv_setFirst (c : Cfg) : Cfg.sv { c with A := { c.A with firstScheduled := true } } = c.sv := rfl

/-! ### user actions -/

theorem sstep_act_enq {cls : Cls} {prio : Int} {src : Src} {sid : Nat}
    (hc : c.code = .act (.enq cls prio src sid) :: rest) : StepOK P c := by
  unfold StepOK step; simp only [hc, doAct]
  refine ⟨?_, grow_enqueue _ (grow0 c rest)⟩
  simp only [outCfg_ok, sv_enqueue]
  exact SStep.enqAct (v := c.sv) hc

theorem sstep_act_regSource {src : Src} (hc : c.code = .act (.regSource src) :: rest) : StepOK P c := by
  unfold StepOK step; simp only [hc, doAct]
  refine ⟨SStep.batch' (v := c.sv) hc (.actSilent rfl) ?_, ⟨[], rfl⟩⟩
  simp [Cfg.sv, listSet]

theorem sstep_act_newLoop {cls : Cls} {prio : Int} {sid : Nat}
    (hc : c.code = .act (.newLoop cls prio sid) :: rest) : StepOK P c := by
  unfold StepOK step; simp only [hc, doAct]
  exact ⟨SStep.batch' (v := c.sv) hc (.actNewLoop cls prio sid) rfl, ⟨[], rfl⟩⟩

theorem sstep_act_closeLoop (hc : c.code = .act .closeLoop :: rest) : StepOK P c := by
  unfold StepOK step; simp only [hc, doAct]
  exact ⟨SStep.batch' (v := c.sv) hc .actCloseLoop rfl, ⟨[], rfl⟩⟩

theorem sstep_act_proc {cls : Option Cls} (hc : c.code = .act (.proc cls) :: rest) : StepOK P c := by
  unfold StepOK step
  cases cls with
  | none =>
    simp only [hc, doAct]
    exact ⟨SStep.batch' (v := c.sv) hc .actProcNone rfl, ⟨[_], rfl⟩⟩
  | some cls =>
    simp only [hc, doAct]
    exact ⟨SStep.batch' (v := c.sv) hc (.actProcSome cls) rfl, ⟨[], rfl⟩⟩

theorem sstep_act_forceQuit (hc : c.code = .act .forceQuit :: rest) : StepOK P c := by
  unfold StepOK step; simp only [hc, doAct]
  exact ⟨SStep.forceQuit (v := c.sv) hc, ⟨[_], rfl⟩⟩

theorem sstep_act_raiseExit (hc : c.code = .act .raiseExit :: rest) : StepOK P c := by
  unfold StepOK step; simp only [hc, doAct]
  exact ⟨SStep.raise' (v := c.sv) .exit hc rfl (by rw [sv_raise]; rfl), grow_raise _ (grow0 c rest)⟩

theorem sstep_act_raiseErr (hc : c.code = .act .raiseErr :: rest) : StepOK P c := by
  unfold StepOK step; simp only [hc, doAct]
  exact ⟨SStep.raise' (v := c.sv) .err hc rfl (by rw [sv_raise]; rfl), grow_raise _ (grow0 c rest)⟩

theorem sstep_act_schedule {scr : Nat} {args : Option Nat}
    (hc : c.code = .act (.schedule scr args) :: rest) : StepOK P c := by
  unfold StepOK step; simp only [hc, doAct]
  split
  · exact ⟨SStep.schedule (v := c.sv) hc, ⟨[_], rfl⟩⟩
  · refine ⟨?_, ?_⟩
    · simp only [outCfg_ok]
      rw [sv_setFirst, sv_redraw]
      exact SStep.schedule (v := c.sv) hc
    · exact Grow.of_tr_eq (b := Cfg.redraw _) rfl (grow_redraw ⟨[_], rfl⟩)

theorem sstep_act_push {scr : Nat} {args : Option Nat}
    (hc : c.code = .act (.push scr args) :: rest) : StepOK P c := by
  unfold StepOK step; simp only [hc, doAct]
  refine ⟨?_, grow_redraw ⟨[_], rfl⟩⟩
  simp only [outCfg_ok, sv_redraw]
  exact SStep.pushScr (v := c.sv) hc

theorem sstep_act_pushModal {scr : Nat} {args : Option Nat}
    (hc : c.code = .act (.pushModal scr args) :: rest) : StepOK P c := by
  unfold StepOK step; simp only [hc, doAct]
  exact ⟨SStep.batch' (v := c.sv) hc (.actPushModal scr args) rfl, ⟨[], rfl⟩⟩

theorem sstep_act_replace {scr : Nat} {args : Option Nat}
    (hc : c.code = .act (.replace scr args) :: rest) : StepOK P c := by
  unfold StepOK step; simp only [hc, doAct]
  split
  · exact ⟨SStep.raise' (v := c.sv) .err hc rfl (by rw [sv_raise]; rfl), grow_raise _ (grow0 c rest)⟩
  · rename_i old hold
    refine ⟨?_, grow_redraw ⟨[_], rfl⟩⟩
    simp only [outCfg_ok, sv_redraw]
    exact SStep.replace (v := c.sv) hc hold

theorem sstep_act_closeDirect (hc : c.code = .act .closeDirect :: rest) : StepOK P c := by
  unfold StepOK step; simp only [hc, doAct]
  exact ⟨SStep.batch' (v := c.sv) hc .actCloseDirect rfl, ⟨[], rfl⟩⟩

theorem sstep_act_closeSig {scr : Nat} (hc : c.code = .act (.closeSig scr) :: rest) : StepOK P c := by
  unfold StepOK step; simp only [hc, doAct, Cfg.newSig]
  refine ⟨SStep.batch' (v := c.sv) hc (.actSilent rfl) ?_, grow_enqueue _ ⟨[], rfl⟩⟩
  simp only [outCfg_ok, sv_enqueue]; rfl

theorem sstep_act_redrawSig {scr : Nat} (hc : c.code = .act (.redrawSig scr) :: rest) : StepOK P c := by
  unfold StepOK step; simp only [hc, doAct, Cfg.newSig]
  refine ⟨SStep.batch' (v := c.sv) hc (.actSilent rfl) ?_, grow_enqueue _ ⟨[], rfl⟩⟩
  simp only [outCfg_ok, sv_enqueue]; rfl

theorem sstep_act_schedRedraw (hc : c.code = .act .schedRedraw :: rest) : StepOK P c := by
  unfold StepOK step; simp only [hc, doAct]
  refine ⟨SStep.batch' (v := c.sv) hc (.actSilent rfl) ?_, grow_redraw (grow0 c rest)⟩
  simp only [outCfg_ok, sv_redraw]; rfl

theorem sstep_act_getUserInput {scr : Nat} {hidden : Bool}
    (hc : c.code = .act (.getUserInput scr hidden) :: rest) : StepOK P c := by
  unfold StepOK step; simp only [hc, doAct]
  exact ⟨SStep.batch' (v := c.sv) hc (.actGetUserInput scr hidden) rfl, ⟨[], rfl⟩⟩

theorem sstep_act {a : Act} (hc : c.code = .act a :: rest) : StepOK P c := by
  cases a with
  | enq => exact sstep_act_enq hc
  | regSource => exact sstep_act_regSource hc
  | newLoop => exact sstep_act_newLoop hc
  | closeLoop => exact sstep_act_closeLoop hc
  | proc => exact sstep_act_proc hc
  | forceQuit => exact sstep_act_forceQuit hc
  | raiseExit => exact sstep_act_raiseExit hc
  | raiseErr => exact sstep_act_raiseErr hc
  | schedule => exact sstep_act_schedule hc
  | push => exact sstep_act_push hc
  | pushModal => exact sstep_act_pushModal hc
  | replace => exact sstep_act_replace hc
  | closeDirect => exact sstep_act_closeDirect hc
  | closeSig => exact sstep_act_closeSig hc
  | redrawSig => exact sstep_act_redrawSig hc
  | schedRedraw => exact sstep_act_schedRedraw hc
  | getUserInput => exact sstep_act_getUserInput hc

/-! ### run, the main loop, dispatch -/

theorem sstep_apprun (hc : c.code = .apprun :: rest) : StepOK P c := by
  unfold StepOK step; simp only [hc]
  split
  · exact ⟨SStep.halt' (v := c.sv) hc rfl rfl, ⟨[], rfl⟩⟩
  · exact ⟨SStep.apprun (v := c.sv) hc, ⟨[], rfl⟩⟩

theorem sstep_passive {h : Instr} (hp : h.passive = true) (hc : c.code = h :: rest)
    (hs : step P c = .ok { c with code := rest }) : StepOK P c := by
  unfold StepOK; rw [hs]
  exact ⟨SStep.batch' (v := c.sv) hc (.passive hp) rfl, ⟨[], rfl⟩⟩

theorem sstep_catchExit (hc : c.code = .catchExit :: rest) : StepOK P c :=
  sstep_passive rfl hc (by unfold step; simp only [hc])
theorem sstep_catchHandler (hc : c.code = .catchHandler :: rest) : StepOK P c :=
  sstep_passive rfl hc (by unfold step; simp only [hc])
theorem sstep_catchPS (hc : c.code = .catchPS :: rest) : StepOK P c :=
  sstep_passive rfl hc (by unfold step; simp only [hc])
theorem sstep_catchDraw (hc : c.code = .catchDraw :: rest) : StepOK P c :=
  sstep_passive rfl hc (by unfold step; simp only [hc])
theorem sstep_catchPI {scr : Nat} (hc : c.code = .catchPI scr :: rest) : StepOK P c :=
  sstep_passive rfl hc (by unfold step; simp only [hc])
theorem sstep_endPI (hc : c.code = .endPI :: rest) : StepOK P c :=
  sstep_passive rfl hc (by unfold step; simp only [hc])

theorem sstep_quitCb (hc : c.code = .quitCb :: rest) : StepOK P c := by
  unfold StepOK step; simp only [hc]
  split
  · refine ⟨SStep.batch' (v := c.sv) hc (.passive rfl) ?_, grow_emit _ _ (grow0 c rest)⟩
    simp only [outCfg_ok, sv_emit]; rfl
  · exact ⟨SStep.batch' (v := c.sv) hc (.passive rfl) rfl, ⟨[], rfl⟩⟩

theorem sstep_mainCheck {q : Nat} (hc : c.code = .mainCheck q :: rest) : StepOK P c := by
  unfold StepOK step; simp only [hc]
  split
  · exact ⟨SStep.batch' (v := c.sv) hc (.mainLoop q ‹_›) rfl, ⟨[], rfl⟩⟩
  · exact ⟨SStep.batch' (v := c.sv) hc (.mainExit q (bfalse ‹_›)) rfl, ⟨[_], rfl⟩⟩

theorem sstep_restoreRun (hc : c.code = .restoreRun :: rest) : StepOK P c := by
  unfold StepOK step; simp only [hc]
  split
  · exact ⟨SStep.batch' (v := c.sv) hc (.restoreFQ ‹_›) rfl, ⟨[], rfl⟩⟩
  · exact ⟨SStep.restore (v := c.sv) hc (bfalse ‹_›), ⟨[], rfl⟩⟩

theorem sstep_loopCheck (hc : c.code = .loopCheck :: rest) : StepOK P c := by
  unfold StepOK step; simp only [hc]
  split
  · exact ⟨SStep.batch' (v := c.sv) hc (.loopGo ‹_›) rfl, ⟨[], rfl⟩⟩
  · exact ⟨SStep.batch' (v := c.sv) hc (.loopEnd (bfalse ‹_›)) rfl, ⟨[], rfl⟩⟩

theorem sstep_getDispatch (hc : c.code = .getDispatch :: rest) : StepOK P c := by
  unfold StepOK step; simp only [hc]
  cases ht : Cfg.take { c with code := rest } with
  | error e =>
    obtain ⟨o, c1⟩ := e
    simp only [bind, Except.bind, outCfg_error]
    exact ⟨SStep.halt' (v := c.sv) hc rfl (by rw [sv_take_err ht]; rfl), grow_take_err ht ⟨[], rfl⟩⟩
  | ok p =>
    obtain ⟨s, c1⟩ := p
    simp only [bind, Except.bind, pure, Except.pure, outCfg_ok]
    refine ⟨SStep.batch' (v := c.sv) hc (.getDispatch s) ?_, grow_push _ (grow_take_ok ht ⟨[], rfl⟩)⟩
    simp only [sv_push, sv_take_ok ht]; rfl

theorem sstep_processSignal {s : Sig} (hc : c.code = .processSignal s :: rest) : StepOK P c := by
  unfold StepOK step; simp only [hc]
  split
  · exact ⟨SStep.batch' (v := c.sv) hc (.psDispatch s) rfl, ⟨[], rfl⟩⟩
  · split
    · exact ⟨SStep.batch' (v := c.sv) hc (.psKill s) rfl, ⟨[], rfl⟩⟩
    · exact ⟨SStep.batch' (v := c.sv) hc (.psNone s) rfl, ⟨[_], rfl⟩⟩

theorem sstep_dispatch {s : Sig} {i : Nat} (hc : c.code = .dispatch s i :: rest) : StepOK P c := by
  unfold StepOK step; simp only [hc]
  split
  · split
    · exact ⟨SStep.batch' (v := c.sv) hc (.dispDone s i) rfl, ⟨[_], rfl⟩⟩
    · exact ⟨SStep.batch' (v := c.sv) hc (.dispCall s i _ _ (bfalse ‹_›)) rfl, ⟨[], rfl⟩⟩
  · exact ⟨SStep.batch' (v := c.sv) hc (.dispDone s i) rfl, ⟨[_], rfl⟩⟩

theorem sstep_kill {s : Sig} (hc : c.code = .kill s :: rest) : StepOK P c := by
  unfold StepOK step; simp only [hc]
  refine ⟨?_, grow_raise _ ⟨[_], rfl⟩⟩
  rw [sv_raise]
  have h := SStep.kill (P := P) (v := c.sv) hc
  have hu : ∀ l : List Instr, unwindTo .sysexit l = none := by
    intro l; induction l with
    | nil => rfl
    | cons a l ih => unfold unwindTo; exact ih
  simp only [raisedSV, hu, Option.getD_none, exitEv, List.nil_append]
  exact h

theorem sstep_callH {h : HRef} {d : Option Nat} {s : Sig} (hc : c.code = .callH h d s :: rest) : StepOK P c := by
  unfold StepOK step
  cases h with
  | render =>
    simp only [hc]
    exact ⟨SStep.batch' (v := c.sv) hc (.callRender d s) rfl, ⟨[_], rfl⟩⟩
  | close =>
    simp only [hc]
    exact ⟨SStep.batch' (v := c.sv) hc (.callClose d s) rfl, ⟨[_], rfl⟩⟩
  | itm =>
    simp only [hc]
    exact ⟨SStep.batch' (v := c.sv) hc (.callItm d s) rfl, ⟨[_], rfl⟩⟩
  | ih n =>
    simp only [hc]
    exact ⟨SStep.batch' (v := c.sv) hc (.callIh n d s) rfl, ⟨[_], rfl⟩⟩
  | exc =>
    simp only [hc]
    refine ⟨SStep.batch' (v := c.sv) hc (.callExc d s) ?_, grow_emit _ _ ⟨[_], rfl⟩⟩
    simp only [outCfg_ok, sv_emit]; rfl
  | user hid =>
    simp only [hc]
    refine ⟨?_, grow_push _ (grow_emit _ _ ⟨[_], rfl⟩)⟩
    simp only [outCfg_ok, sv_push, sv_emit]
    exact SStep.batch' (v := c.sv) hc (.callUser hid d s _) rfl

theorem sstep_hret {hid : Nat} (hc : c.code = .hret hid :: rest) : StepOK P c := by
  unfold StepOK step; simp only [hc]
  refine ⟨SStep.batch' (v := c.sv) hc (.passive rfl) ?_, grow_emit _ _ (grow0 c rest)⟩
  simp only [outCfg_ok, sv_emit]; rfl

theorem sstep_note {w : String} (hc : c.code = .note w :: rest) : StepOK P c := by
  unfold StepOK step; simp only [hc]
  refine ⟨SStep.batch' (v := c.sv) hc (.passive rfl) ?_, grow_emit _ _ (grow0 c rest)⟩
  simp only [outCfg_ok, sv_emit]; rfl

/-! ### waiting / non-waiting processing -/

theorem sstep_procWait {cls : Cls} (hc : c.code = .procWait cls :: rest) : StepOK P c := by
  unfold StepOK step; simp only [hc]
  exact ⟨SStep.batch' (v := c.sv) hc (.procWait cls c.L.tcounter) rfl, ⟨[_], rfl⟩⟩

theorem sstep_waitStep {cls : Cls} {t : Nat} (hc : c.code = .waitStep cls t :: rest) : StepOK P c := by
  unfold StepOK step; simp only [hc]
  split
  · rename_i hr
    cases ht : Cfg.take { c with code := rest } with
    | error e =>
      obtain ⟨o, c1⟩ := e
      simp only [bind, Except.bind, outCfg_error]
      exact ⟨SStep.halt' (v := c.sv) hc rfl (by rw [sv_take_err ht]; rfl), grow_take_err ht ⟨[], rfl⟩⟩
    | ok p =>
      obtain ⟨s, c1⟩ := p
      simp only [bind, Except.bind, pure, Except.pure, outCfg_ok]
      refine ⟨SStep.batch' (v := c.sv) hc (.waitTake cls t s hr) ?_, grow_push _ (grow_take_ok ht ⟨[], rfl⟩)⟩
      simp only [sv_push, sv_take_ok ht]; rfl
  · exact ⟨SStep.batch' (v := c.sv) hc (.waitEnd cls t (bfalse ‹_›)) rfl, ⟨[_], rfl⟩⟩

theorem sstep_waitCheck {cls : Cls} {t : Nat} (hc : c.code = .waitCheck cls t :: rest) : StepOK P c := by
  unfold StepOK step; simp only [hc]
  split
  · exact ⟨SStep.batch' (v := c.sv) hc (.waitCheckDone cls t) rfl, ⟨[_], rfl⟩⟩
  · exact ⟨SStep.batch' (v := c.sv) hc (.waitCheckAgain cls t) rfl, ⟨[], rfl⟩⟩

theorem sstep_procIter {p : Option Int} (hc : c.code = .procIter p :: rest) : StepOK P c := by
  unfold StepOK step; simp only [hc]
  split
  · exact ⟨SStep.batch' (v := c.sv) hc (.procEnd p) rfl, ⟨[_], rfl⟩⟩
  · rename_i e es he
    split
    · exact ⟨SStep.batch' (v := c.sv) hc (.procEnd p) rfl, ⟨[_], rfl⟩⟩
    · rename_i hr
      have hr' : c.L.runLoop = true := by simpa using hr
      cases p with
      | none =>
        refine ⟨SStep.batch' (v := c.sv) hc (.procTake none e.2.2 e.2.2.prio hr') ?_, ⟨[_], rfl⟩⟩
        simp [Cfg.sv, listSet, shapeTr_cons, Tr.shape, push, cleanTr_cons, Tr.isExc]
      | some pr =>
        dsimp only
        split
        · refine ⟨SStep.batch' (v := c.sv) hc (.procTake (some pr) e.2.2 pr hr') ?_, ⟨[_], rfl⟩⟩
          simp [Cfg.sv, listSet, shapeTr_cons, Tr.shape, push, cleanTr_cons, Tr.isExc]
        · exact ⟨SStep.batch' (v := c.sv) hc (.procEnd (some pr)) rfl, ⟨[_, _], rfl⟩⟩

/-! ### nested loops -/

theorem sstep_newLoop {s : Sig} (hc : c.code = .newLoop s :: rest) : StepOK P c := by
  unfold StepOK step; simp only [hc]
  split
  · exact ⟨SStep.batch' (v := c.sv) hc (.newLoopFQ s ‹_›) rfl, ⟨[], rfl⟩⟩
  · rename_i hf
    refine ⟨?_, grow_push _ (grow_enqueue _ ⟨[_], rfl⟩)⟩
    simp only [outCfg_ok, sv_push, sv_enqueue]
    rw [sv_trace_shape _ _ rfl]
    have h := SStep.open (P := P) (v := c.sv) (s := s) hc (bfalse hf)
    refine (congrArg (SStep P c.sv) ?_).mp h
    simp [Cfg.sv, SV.noteExc]

/-- `execute_new_loop`, not force-quit: the step itself -/
theorem step_newLoop {s : Sig} (hc : c.code = .newLoop s :: rest) (hf : c.L.forceQuit = false) :
    ∃ c1, step P c = .ok c1 ∧
      c1.sv = SV.noteExc { c.sv with code := .mainCheck c.sv.nq :: rest, levels := c.sv.levels ++ [c.sv.nq],
                                     active := c.sv.nq, nq := c.sv.nq + 1,
                                     ev := .openLevel c.sv.nq c.sv.runLoop :: c.sv.ev } (s.cls == .exception) := by
  unfold step; simp only [hc, hf]
  refine ⟨_, rfl, ?_⟩
  simp only [sv_push, sv_enqueue]
  rw [sv_trace_shape _ _ rfl]
  simp [Cfg.sv, SV.noteExc, hf]

/-- the end of `execute_new_loop` / `run`: `_run_loop` is set again -/
theorem step_restoreRun (hc : c.code = .restoreRun :: rest) (hf : c.L.forceQuit = false) :
    step P c = .ok { c with code := rest, L := { c.L with runLoop := true } } := by
  unfold step; simp only [hc, hf]; rfl

theorem sstep_closeLoop (hc : c.code = .closeLoop :: rest) : StepOK P c := by
  unfold StepOK step; simp only [hc]
  exact ⟨SStep.batch' (v := c.sv) hc (.closeLoop _) rfl, ⟨[_, _], rfl⟩⟩

theorem sstep_popLevel (hc : c.code = .popLevel :: rest) : StepOK P c := by
  unfold StepOK step; simp only [hc]
  split
  · refine ⟨SStep.raise' (v := c.sv) .err hc rfl ?_, grow_raise _ ⟨[], rfl⟩⟩
    rw [sv_raise]; rfl
  · rename_i q hq
    split
    · rename_i hn
      refine ⟨?_, grow_raise _ ⟨[_], rfl⟩⟩
      rw [sv_raise]
      exact SStep.popExit (v := c.sv) hc hq hn
    · rename_i a ha
      exact ⟨SStep.pop (v := c.sv) hc hq ha, ⟨[_], rfl⟩⟩

/-! ### scheduler -/

theorem sstep_pushModal {scr : Nat} {args : Option Nat} (hc : c.code = .pushModal scr args :: rest) : StepOK P c := by
  unfold StepOK step; simp only [hc, Cfg.newSig]
  exact ⟨SStep.pushModal (v := c.sv) hc, ⟨[_, _], rfl⟩⟩

/-- `push_screen_modal`: the step itself -/
theorem step_pushModal {scr : Nat} {args : Option Nat} (hc : c.code = .pushModal scr args :: rest) :
    ∃ c1 s, step P c = .ok c1 ∧
      c1.sv = { c.sv with code := .newLoop s :: .modalRet ⟨c.sv.nextEid, scr, args, true⟩ :: rest,
                          stack := c.sv.stack ++ [⟨c.sv.nextEid, scr, args, true⟩], nextEid := c.sv.nextEid + 1,
                          ev := .modalBegin ⟨c.sv.nextEid, scr, args, true⟩ ::
                                .stackOp "pushModal" (c.sv.stack ++ [⟨c.sv.nextEid, scr, args, true⟩]) :: c.sv.ev } := by
  unfold step; simp only [hc, Cfg.newSig]
  exact ⟨_, _, rfl, rfl⟩

theorem sstep_modalRet {e : Entry} (hc : c.code = .modalRet e :: rest) : StepOK P c := by
  unfold StepOK step; simp only [hc]
  exact ⟨SStep.batch' (v := c.sv) hc (.modalRet e) rfl, ⟨[_], rfl⟩⟩

theorem sstep_closeScreen {frm : Option Src} (hc : c.code = .closeScreen frm :: rest) : StepOK P c := by
  unfold StepOK step; simp only [hc]
  split
  · exact ⟨SStep.raise' (v := c.sv) .err hc rfl (by rw [sv_raise]; rfl), grow_raise _ (grow0 c rest)⟩
  · rename_i e he
    split
    · exact ⟨SStep.raise' (v := c.sv) .err hc rfl (by rw [sv_raise]; rfl), grow_raise _ (grow0 c rest)⟩
    · exact ⟨SStep.closeScreen (v := c.sv) hc he, ⟨[_], rfl⟩⟩

theorem sstep_closeScreen2 {e : Entry} {frm : Option Src} (hc : c.code = .closeScreen2 e frm :: rest) : StepOK P c := by
  unfold StepOK step; simp only [hc]
  split
  · exact ⟨SStep.raise' (v := c.sv) .err hc rfl (by rw [sv_raise]; rfl), grow_raise _ (grow0 c rest)⟩
  · split
    · exact ⟨SStep.batch' (v := c.sv) hc (.close2Modal e frm ‹_›) rfl, ⟨[], rfl⟩⟩
    · exact ⟨SStep.batch' (v := c.sv) hc (.close2Plain e frm (bfalse ‹_›)) rfl, ⟨[], rfl⟩⟩

theorem sstep_closeScreen3 {e : Entry} (hc : c.code = .closeScreen3 e :: rest) : StepOK P c := by
  unfold StepOK step; simp only [hc]
  generalize hd : (if ({ c with code := rest } : Cfg).A.stack ≠ [] ∧ ¬e.modal = true then
      ({ c with code := rest } : Cfg).redraw else { c with code := rest }) = d
  have hsv : d.sv = ({ c with code := rest } : Cfg).sv := by
    subst hd; split
    · exact sv_redraw _
    · rfl
  have hg : Grow c d := by
    subst hd; split
    · exact grow_redraw (grow0 c rest)
    · exact grow0 c rest
  split
  · exact ⟨SStep.raise' (v := c.sv) .exit hc rfl (by rw [sv_raise, hsv]; rfl), grow_raise _ hg⟩
  · exact ⟨SStep.batch' (v := c.sv) hc (.passive rfl) (by rw [outCfg_ok, hsv]; rfl), hg⟩

theorem sstep_processScreen (hc : c.code = .processScreen :: rest) : StepOK P c := by
  unfold StepOK step; simp only [hc]
  split
  · exact ⟨SStep.raise' (v := c.sv) .exit hc rfl (by rw [sv_raise]; rfl), grow_raise _ (grow0 c rest)⟩
  · rename_i top ht
    split
    · exact ⟨SStep.batch' (v := c.sv) hc (.psReady top ht) rfl, ⟨[], rfl⟩⟩
    · exact ⟨SStep.batch' (v := c.sv) hc (.psSetup top ht) rfl, ⟨[], rfl⟩⟩

theorem sstep_afterSetup {top : Entry} (hc : c.code = .afterSetup top :: rest) : StepOK P c := by
  unfold StepOK step; simp only [hc]
  split
  · exact ⟨SStep.batch' (v := c.sv) hc (.afterSetupOk top) rfl, ⟨[], rfl⟩⟩
  · split
    · exact ⟨SStep.raise' (v := c.sv) .err hc rfl (by rw [sv_raise]; rfl), grow_raise _ (grow0 c rest)⟩
    · rename_i e he
      have h := SStep.discard (P := P) (v := c.sv) (top := top) hc he
      split
      · rename_i hm
        rw [if_pos hm] at h
        exact ⟨h, ⟨[_], rfl⟩⟩
      · rename_i hm
        rw [if_neg hm] at h
        refine ⟨?_, grow_redraw ⟨[_], rfl⟩⟩
        simp only [outCfg_ok, sv_redraw]
        exact h

theorem sstep_afterSetupFail {e : Entry} (hc : c.code = .afterSetupFail e :: rest) : StepOK P c := by
  unfold StepOK step; simp only [hc]
  split
  · exact ⟨SStep.raise' (v := c.sv) .exit hc rfl (by rw [sv_raise]; rfl), grow_raise _ (grow0 c rest)⟩
  · exact ⟨SStep.batch' (v := c.sv) hc (.passive rfl) rfl, ⟨[], rfl⟩⟩

theorem sstep_afterSetup2 {top : Entry} (hc : c.code = .afterSetup2 top :: rest) : StepOK P c := by
  unfold StepOK step; simp only [hc]
  refine ⟨SStep.batch' (v := c.sv) hc (.afterSetup2 top) ?_, ⟨[_], rfl⟩⟩
  simp [Cfg.sv, listSet, shapeTr_cons, Tr.shape, push, Cfg.trace, cleanTr_cons, Tr.isExc]

theorem notCatchPS_eq : (fun i : Instr => match i with | .catchPS => false | _ => true) = notCatchPS := by
  funext i; cases i <;> rfl

theorem sstep_identCheck {top : Entry} (hc : c.code = .identCheck top :: rest) : StepOK P c := by
  unfold StepOK step; simp only [hc]
  split
  · exact ⟨SStep.raise' (v := c.sv) .exit hc rfl (by rw [sv_raise]; rfl), grow_raise _ (grow0 c rest)⟩
  · rename_i l hl
    split
    · rename_i hne
      have h := SStep.identSkip (P := P) (v := c.sv) hc hl hne
      rw [← notCatchPS_eq] at h
      exact ⟨h, ⟨[], rfl⟩⟩
    · rename_i heq
      exact ⟨SStep.batch' (v := c.sv) hc (.identOk top l hl (by simpa using heq)) rfl, ⟨[], rfl⟩⟩

theorem sstep_drawScreen {top : Entry} (hc : c.code = .drawScreen top :: rest) : StepOK P c := by
  unfold StepOK step; simp only [hc]
  refine ⟨SStep.batch' (v := c.sv) hc (.drawScreen top) ?_, ?_⟩
  · split <;> rfl
  · split <;> exact ⟨[_], rfl⟩

theorem sstep_maybeInput {top : Entry} (hc : c.code = .maybeInput top :: rest) : StepOK P c := by
  unfold StepOK step; simp only [hc]
  split
  · exact ⟨SStep.batch' (v := c.sv) hc (.maybeInputYes top) rfl, ⟨[], rfl⟩⟩
  · exact ⟨SStep.batch' (v := c.sv) hc (.maybeInputNo top) rfl, ⟨[], rfl⟩⟩

/-! ### screen callbacks -/

theorem sstep_callScr {scr : Nat} {cb : Cb} {arg : Option Nat} {key : Option Str}
    (hc : c.code = .callScr scr cb arg key :: rest) : StepOK P c := by
  unfold StepOK step; simp only [hc]
  refine ⟨SStep.batch' (v := c.sv) hc (.callScr scr cb arg key (countOf (c.A.scr scr).counts cb)) ?_, ?_⟩
  · simp only [outCfg_ok, sv_push, sv_emit]; rfl
  · exact grow_push _ (grow_emit _ _ ⟨[], rfl⟩)

theorem sstep_scrRet {scr : Nat} {cb : Cb} {ret : Ret} {key : Option Str}
    (hc : c.code = .scrRet scr cb ret key :: rest) : StepOK P c := by
  unfold StepOK step
  cases cb with
  | setup =>
    simp only [hc]
    split
    · exact ⟨SStep.batch' (v := c.sv) hc (.passive rfl) rfl, ⟨[], rfl⟩⟩
    · refine ⟨SStep.batch' (v := c.sv) hc (.passive rfl) ?_, ⟨[], rfl⟩⟩
      simp [Cfg.sv, listSet, AppSt.setScr]
  | prompt => simp only [hc]; exact ⟨SStep.batch' (v := c.sv) hc (.passive rfl) rfl, ⟨[], rfl⟩⟩
  | input => simp only [hc]; exact ⟨SStep.batch' (v := c.sv) hc (.passive rfl) rfl, ⟨[], rfl⟩⟩
  | refresh => simp only [hc]; exact ⟨SStep.batch' (v := c.sv) hc (.passive rfl) rfl, ⟨[], rfl⟩⟩
  | «show» => simp only [hc]; exact ⟨SStep.batch' (v := c.sv) hc (.passive rfl) rfl, ⟨[], rfl⟩⟩
  | closed => simp only [hc]; exact ⟨SStep.batch' (v := c.sv) hc (.passive rfl) rfl, ⟨[], rfl⟩⟩

theorem printWidget_go (scr : Nat) (evs : List OutEv) (cur : List Str) (acc : List Instr)
    (hacc : ∀ i ∈ acc, (∃ ls, i = Instr.printLines ls) ∨ i = .blockingInput scr true) :
    ∀ i ∈ step.go scr evs cur acc, (∃ ls, i = Instr.printLines ls) ∨ i = .blockingInput scr true := by
  induction evs generalizing cur acc with
  | nil =>
    unfold step.go
    split
    · exact hacc
    · intro i hi
      rcases List.mem_append.1 hi with h | h
      · exact hacc i h
      · simp only [List.mem_singleton] at h
        exact .inl ⟨_, h⟩
  | cons e r ih =>
    cases e with
    | line l => unfold step.go; exact ih _ _ hacc
    | ask =>
      unfold step.go
      apply ih
      intro i hi
      rcases List.mem_append.1 hi with h | h
      · split at h
        · exact hacc i h
        · rcases List.mem_append.1 h with h | h
          · exact hacc i h
          · simp only [List.mem_singleton] at h
            exact .inl ⟨_, h⟩
      · simp only [List.mem_singleton] at h
        exact .inr h

theorem sstep_printWidget {scr : Nat} (hc : c.code = .printWidget scr :: rest) : StepOK P c := by
  unfold StepOK step; simp only [hc]
  split
  · exact ⟨SStep.raise' (v := c.sv) .err hc rfl (by rw [sv_raise]; rfl), grow_raise _ (grow0 c rest)⟩
  · split
    · exact ⟨SStep.halt' (v := c.sv) hc rfl rfl, ⟨[], rfl⟩⟩
    · exact ⟨SStep.batch' (v := c.sv) hc (.printWidget scr _ (printWidget_go scr _ _ _ (by simp))) rfl, ⟨[], rfl⟩⟩

theorem sstep_printLines {ls : List Str} (hc : c.code = .printLines ls :: rest) : StepOK P c := by
  unfold StepOK step; simp only [hc]
  exact ⟨SStep.batch' (v := c.sv) hc (.passive rfl) rfl, ⟨[], rfl⟩⟩

/-! ### input -/

theorem sstep_getInput {scr : Nat} {args : Option Nat} (hc : c.code = .getInput scr args :: rest) : StepOK P c := by
  unfold StepOK step; simp only [hc]
  exact ⟨SStep.batch' (v := c.sv) hc (.getInput scr args) rfl, ⟨[], rfl⟩⟩

theorem sstep_getInput2 {scr : Nat} {args : Option Nat} (hc : c.code = .getInput2 scr args :: rest) : StepOK P c := by
  unfold StepOK step; simp only [hc]
  split
  · exact ⟨SStep.batch' (v := c.sv) hc (.passive rfl) rfl, ⟨[], rfl⟩⟩
  · refine ⟨?_, grow_startRequest _ _ _ ⟨[], rfl⟩⟩
    rcases sv_startRequest
      (newIH { c with code := rest, A := ({ c with code := rest } : Cfg).A.setScr scr fun s => { s with inputArgs := args } }
        (.scr scr) (P.spec scr).skipCheck (some scr)).2
      (newIH { c with code := rest, A := ({ c with code := rest } : Cfg).A.setScr scr fun s => { s with inputArgs := args } }
        (.scr scr) (P.spec scr).skipCheck (some scr)).1 (.scr scr) (promptText P defaultPrompt) with h | ⟨h, -⟩
    · exact SStep.batch' (v := c.sv) hc (.passive rfl) h
    · exact SStep.raise' (v := c.sv) .err hc rfl h

theorem sstep_blockingInput {scr : Nat} {cont : Bool} (hc : c.code = .blockingInput scr cont :: rest) : StepOK P c := by
  unfold StepOK step; simp only [hc]
  refine ⟨?_, grow_startRequest _ _ _ ⟨[], rfl⟩⟩
  rcases sv_startRequest
    (push (newIH { c with code := rest } (.im scr) (P.spec scr).skipCheck none).2
      [.waitInput (newIH { c with code := rest } (.im scr) (P.spec scr).skipCheck none).1])
    (newIH { c with code := rest } (.im scr) (P.spec scr).skipCheck none).1 (.im scr)
    (if cont then promptText P contPrompt else
      (match textPrompt P.cc msgPrompt P.width with | .ok s => s | .error _ => [])) with h | ⟨h, -⟩
  · exact SStep.batch' (v := c.sv) hc (.blockingInput scr cont _) h
  · exact SStep.raise' (v := c.sv) .err hc rfl h

theorem sstep_waitInput {ih : Nat} (hc : c.code = .waitInput ih :: rest) : StepOK P c := by
  unfold StepOK step; simp only [hc]
  split
  · exact ⟨SStep.batch' (v := c.sv) hc (.waitInputDone ih) rfl, ⟨[], rfl⟩⟩
  · split
    · exact ⟨SStep.halt' (v := c.sv) hc rfl rfl, ⟨[], rfl⟩⟩
    · rename_i hr
      exact ⟨SStep.batch' (v := c.sv) hc (.waitInputWait ih (show c.L.runLoop = true by simpa using hr)) rfl, ⟨[], rfl⟩⟩

theorem foldl_sv {α : Type} (g : Cfg → α → Cfg) (hg : ∀ c a, (g c a).sv = c.sv ∧ Grow c (g c a))
    (l : List α) (c : Cfg) : (l.foldl g c).sv = c.sv ∧ Grow c (l.foldl g c) := by
  induction l generalizing c with
  | nil => exact ⟨rfl, Grow.refl c⟩
  | cons a l ih =>
    simp only [List.foldl_cons]
    obtain ⟨h1, h2⟩ := ih (g c a)
    exact ⟨h1.trans (hg c a).1, (hg c a).2.trans h2⟩

theorem inputReceived_aux (g : Cfg → Nat → Cfg) (hg : ∀ c a, (g c a).sv = c.sv ∧ Grow c (g c a))
    (l : List Nat) (c0 c : Cfg) (v : SV) (hsv : c.sv = v) (hgrow : Grow c0 c) :
    Cfg.sv { (l.foldl g c) with A := { (l.foldl g c).A with inputStack := [], processing := false } } = v ∧
    Grow c0 { (l.foldl g c) with A := { (l.foldl g c).A with inputStack := [], processing := false } } := by
  obtain ⟨h1, h2⟩ := foldl_sv g hg l c
  exact ⟨(show Cfg.sv _ = (l.foldl g c).sv from rfl).trans (h1.trans hsv),
    Grow.of_tr_eq (b := l.foldl g c) rfl (hgrow.trans h2)⟩

theorem sstep_inputReceived {s : Sig} (hc : c.code = .inputReceived s :: rest) : StepOK P c := by
  unfold StepOK step; simp only [hc]
  split
  · exact ⟨SStep.raise' (v := c.sv) .err hc rfl (by rw [sv_raise]; rfl), grow_raise _ (grow0 c rest)⟩
  · rename_i r hr
    simp only [Cfg.newSig, outCfg_ok]
    have key := inputReceived_aux
      (fun (c : Cfg) (t : Nat) => ({ c with nextSid := c.nextSid + 1 } : Cfg).enqueue
        { id := c.nextSid + 1, cls := .inputReady, prio := 0, src := (c.A.reqs.getD t default).requester, line := [],
          ih := (c.A.reqs.getD t default).ih, ok := false })
      (fun c a => ⟨by rw [sv_enqueue]; rfl, grow_enqueue _ ⟨[], rfl⟩⟩) c.A.inputStack.dropLast c
      (({ c with code := rest, nextSid := c.nextSid + 1 } : Cfg).enqueue
        { id := c.nextSid + 1, cls := .inputReady, prio := 0, src := (c.A.reqs.getD r default).requester, line := s.line,
          ih := (c.A.reqs.getD r default).ih, ok := true })
      ({ c.sv with code := rest }) (by rw [sv_enqueue]; rfl) (grow_enqueue _ ⟨[], rfl⟩)
    exact ⟨SStep.batch' (v := c.sv) hc (.passive rfl) key.1, key.2⟩

theorem sstep_inputReady {n : Nat} {s : Sig} (hc : c.code = .inputReady n s :: rest) : StepOK P c := by
  unfold StepOK step; simp only [hc]
  split
  · exact ⟨SStep.batch' (v := c.sv) hc (.inputReadyNone n s) rfl, ⟨[], rfl⟩⟩
  · split
    · exact ⟨SStep.batch' (v := c.sv) hc (.inputReadyNone n s) rfl, ⟨[], rfl⟩⟩
    · split
      · rename_i scr _
        exact ⟨SStep.batch' (v := c.sv) hc (.inputReadyCb n s scr) rfl, ⟨[], rfl⟩⟩
      · exact ⟨SStep.batch' (v := c.sv) hc (.inputReadyNone n s) rfl, ⟨[], rfl⟩⟩

theorem sstep_processInput {scr : Nat} {key : Str} (hc : c.code = .processInput scr key :: rest) : StepOK P c := by
  unfold StepOK step; simp only [hc]
  exact ⟨SStep.batch' (v := c.sv) hc (.processInput scr key _) rfl, ⟨[], rfl⟩⟩

theorem sstep_classify {scr : Nat} (hc : c.code = .classify scr :: rest) : StepOK P c := by
  unfold StepOK step; simp only [hc]
  exact ⟨SStep.batch' (v := c.sv) hc (.passive rfl) rfl, ⟨[], rfl⟩⟩

theorem sstep_countAndAct {scr : Nat} (hc : c.code = .countAndAct scr :: rest) : StepOK P c := by
  unfold StepOK step
  cases ha : c.retAction <;> simp only [hc, if_true, reduceCtorEq, if_false]
  · -- error
    constructor
    · split
      · exact SStep.raise' (v := c.sv) .exit hc rfl (by rw [sv_raise]; rfl)
      · rename_i top ht
        have ht' : c.sv.stack.getLast? = some top := ht
        split
        · refine SStep.batch' (v := c.sv) hc (.caaNone scr) ?_
          simp only [outCfg_ok, sv_redraw]; rfl
        · exact SStep.batch' (v := c.sv) hc (.caaInput scr top ht') rfl
    · split
      · exact grow_raise _ ⟨[], rfl⟩
      · split
        · exact grow_redraw ⟨[], rfl⟩
        · exact ⟨[], rfl⟩
  · -- noop
    split
    · exact ⟨SStep.raise' (v := c.sv) .exit hc rfl (by rw [sv_raise]; rfl), grow_raise _ ⟨[], rfl⟩⟩
    · exact ⟨SStep.batch' (v := c.sv) hc (.caaNone scr) rfl, ⟨[], rfl⟩⟩
  · -- redraw
    split
    · exact ⟨SStep.raise' (v := c.sv) .exit hc rfl (by rw [sv_raise]; rfl), grow_raise _ ⟨[], rfl⟩⟩
    · refine ⟨SStep.batch' (v := c.sv) hc (.caaNone scr) ?_, grow_redraw ⟨[], rfl⟩⟩
      simp only [outCfg_ok, sv_redraw]; rfl
  · -- close
    split
    · exact ⟨SStep.raise' (v := c.sv) .exit hc rfl (by rw [sv_raise]; rfl), grow_raise _ ⟨[], rfl⟩⟩
    · exact ⟨SStep.batch' (v := c.sv) hc (.caaClose scr) rfl, ⟨[], rfl⟩⟩
  · -- quit
    split
    · exact ⟨SStep.raise' (v := c.sv) .exit hc rfl (by rw [sv_raise]; rfl), grow_raise _ ⟨[], rfl⟩⟩
    · split
      · rename_i q hq
        exact ⟨SStep.batch' (v := c.sv) hc (.caaQuit scr q hq) rfl, ⟨[], rfl⟩⟩
      · exact ⟨SStep.raise' (v := c.sv) .exit hc rfl (by rw [sv_raise]; rfl), grow_raise _ ⟨[], rfl⟩⟩

theorem sstep_afterQuit {q : Nat} (hc : c.code = .afterQuit q :: rest) : StepOK P c := by
  unfold StepOK step; simp only [hc]
  split
  · exact ⟨SStep.raise' (v := c.sv) .exit hc rfl (by rw [sv_raise]; rfl), grow_raise _ (grow0 c rest)⟩
  · exact ⟨SStep.raise' (v := c.sv) .exit hc rfl (by rw [sv_raise]; rfl), grow_raise _ (grow0 c rest)⟩
  · refine ⟨SStep.batch' (v := c.sv) hc (.passive rfl) ?_, grow_redraw (grow0 c rest)⟩
    simp only [outCfg_ok, sv_redraw]; rfl

/-! ### the master lemma -/

theorem stepOK (P : Prog) (c : Cfg) : StepOK P c := by
  rcases hc : c.code with _ | ⟨ins, rest⟩
  · unfold StepOK step; simp only [hc]
    exact ⟨SStep.stutter _, Grow.refl c⟩
  · cases ins with
    | act => exact sstep_act hc
    | apprun => exact sstep_apprun hc
    | catchExit => exact sstep_catchExit hc
    | quitCb => exact sstep_quitCb hc
    | mainCheck => exact sstep_mainCheck hc
    | restoreRun => exact sstep_restoreRun hc
    | loopCheck => exact sstep_loopCheck hc
    | getDispatch => exact sstep_getDispatch hc
    | processSignal => exact sstep_processSignal hc
    | dispatch => exact sstep_dispatch hc
    | catchHandler => exact sstep_catchHandler hc
    | kill => exact sstep_kill hc
    | callH => exact sstep_callH hc
    | hret => exact sstep_hret hc
    | note => exact sstep_note hc
    | procWait => exact sstep_procWait hc
    | waitStep => exact sstep_waitStep hc
    | waitCheck => exact sstep_waitCheck hc
    | procIter => exact sstep_procIter hc
    | newLoop => exact sstep_newLoop hc
    | closeLoop => exact sstep_closeLoop hc
    | popLevel => exact sstep_popLevel hc
    | pushModal => exact sstep_pushModal hc
    | modalRet => exact sstep_modalRet hc
    | closeScreen => exact sstep_closeScreen hc
    | closeScreen2 => exact sstep_closeScreen2 hc
    | closeScreen3 => exact sstep_closeScreen3 hc
    | processScreen => exact sstep_processScreen hc
    | afterSetup => exact sstep_afterSetup hc
    | afterSetupFail => exact sstep_afterSetupFail hc
    | afterSetup2 => exact sstep_afterSetup2 hc
    | identCheck => exact sstep_identCheck hc
    | catchPS => exact sstep_catchPS hc
    | drawScreen => exact sstep_drawScreen hc
    | catchDraw => exact sstep_catchDraw hc
    | maybeInput => exact sstep_maybeInput hc
    | callScr => exact sstep_callScr hc
    | scrRet => exact sstep_scrRet hc
    | printWidget => exact sstep_printWidget hc
    | printLines => exact sstep_printLines hc
    | getInput => exact sstep_getInput hc
    | getInput2 => exact sstep_getInput2 hc
    | blockingInput => exact sstep_blockingInput hc
    | waitInput => exact sstep_waitInput hc
    | inputReceived => exact sstep_inputReceived hc
    | inputReady => exact sstep_inputReady hc
    | processInput => exact sstep_processInput hc
    | classify => exact sstep_classify hc
    | catchPI => exact sstep_catchPI hc
    | countAndAct => exact sstep_countAndAct hc
    | endPI => exact sstep_endPI hc
    | afterQuit => exact sstep_afterQuit hc

theorem SStepE.ev_eq {P : Prog} {v v' : SV} {evs : List Tr} (h : SStepE P v evs v') : v'.ev = evs ++ v.ev := by
  cases h <;> first | rfl | (cases ‹Kind› <;> rfl)

theorem newTr_of_grow {c c' : Cfg} {new : List Tr} (h : c'.tr = new ++ c.tr) : newTr c c' = new := by
  simp [newTr, h]

/-- every transition of an execution, through the shape view -/
theorem trans_sstep {P : Prog} {c c' : Cfg} (h : Trans P c c') :
    ∃ evs, SStepE P c.sv evs c'.sv ∧ shapeTr (newTr c c') = evs ∧ Grow c c' := by
  have key : SStep P c.sv c'.sv ∧ Grow c c' := by
    cases h with
    | step h => have := stepOK P c; unfold StepOK at this; rwa [outCfg_of_ok h] at this
    | deliver h => rw [sv_deliver h]; exact ⟨SStep.stutter _, grow_deliver h (Grow.refl c)⟩
    | halt h => have := stepOK P c; unfold StepOK at this; rwa [outCfg_of_error h] at this
  obtain ⟨⟨evs, hs⟩, hg⟩ := key
  refine ⟨evs, hs, ?_, hg⟩
  obtain ⟨new, hnew⟩ := hg
  rw [newTr_of_grow hnew]
  have h1 := SStepE.ev_eq hs
  have h2 : c'.sv.ev = shapeTr new ++ c.sv.ev := by
    show shapeTr c'.tr = _
    rw [hnew, shapeTr_append]; rfl
  rw [h2] at h1
  exact List.append_cancel_right h1

end Shape

end Simpleline
