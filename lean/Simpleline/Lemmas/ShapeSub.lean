/-
  The "blocks" invariant: the open levels are, innermost first, a subsequence of the activations on
  the call stack, and when `_run_loop` is false the innermost activation serves no open level.
  Needs only: `execute_new_loop` is never called while `_run_loop` is false (`WFOpen`).
-/
import Simpleline.Lemmas.ShapeLevels

namespace Simpleline

/-- the second disjunct of `SubInv` -/
def SubInv' (v : SV) : Prop :=
  v.levels.reverse.Sublist (markersA v.code) ∧
  (v.runLoop = false → headIsRestore v.code = false → ∀ q, (markersA v.code).head? = some q → q ∉ v.levels)

def SubInv (v : SV) : Prop := overCode v.code = true ∨ SubInv' v

namespace Shape

theorem canRaise_sysexit (h : Instr) : h.canRaise .sysexit = false := by
  cases h <;> first | rfl | (rename_i a; cases a <;> rfl)

theorem headIsRestore_of_chained {h : Instr} {rest : List Instr} (hc : Chained (h :: rest)) :
    headIsRestore rest = false := by
  cases rest with
  | nil => rfl
  | cons x rest =>
    have hx : h.fclass.allows x = true := hc.1
    cases x <;> first | rfl | skip
    cases hf : h.fclass <;> rw [hf] at hx <;> cases hx

theorem headIsRestore_append {B : List Instr} (rest : List Instr) (hB : B ≠ []) :
    headIsRestore (B ++ rest) = headIsRestore B := by
  cases B with
  | nil => exact absurd rfl hB
  | cons b B => cases b <;> rfl

theorem headIsRestore_batch {h : Instr} {B rest : List Instr} (hc : Chained (h :: rest))
    (hB : headIsRestore B = false) : headIsRestore (B ++ rest) = false := by
  cases B with
  | nil => exact headIsRestore_of_chained hc
  | cons b B => rw [headIsRestore_append _ (by simp)]; exact hB

theorem overCode_cases {l : List Instr} (h : overCode l = true) : l = [] ∨ l = [.quitCb] := by
  cases l with
  | nil => exact .inl rfl
  | cons a l =>
    cases l with
    | nil => cases a <;> first | exact .inr rfl | (cases h; done)
    | cons b l => cases a <;> cases h

theorem over_step {P : Prog} {v v' : SV} {evs : List Tr} (ho : overCode v.code = true) (hs : SStepE P v evs v') :
    overCode v'.code = true := by
  have hcases : v.code = [] ∨ v.code = [.quitCb] := overCode_cases ho
  cases hs with
  | stutter => exact ho
  | batch hc hb =>
    rcases hcases with h | h <;> rw [h] at hc
    · cases hc
    · cases hc
      cases hb
      rfl
  | kill _ => rfl
  | halt hc _ | raise hc _ | forceQuit hc | enqAct hc | schedule hc | pushScr hc | replace hc _ | apprun hc | restore hc _
  | «open» hc _ | pop hc _ _ | popExit hc _ _ | pushModal hc | closeScreen hc _ | discard hc _ | identSkip hc _ _ =>
    rcases hcases with h | h <;> rw [h] at hc <;> cases hc <;> first | rfl | (rename_i hr; cases hr)

/-- what raising an exception leaves, in `Chained` code -/
theorem raise_cases {v : SV} {h : Instr} {rest : List Instr} {k : Kind} (hch : Chained v.code)
    (hc : v.code = h :: rest) (hr : h.canRaise k = true) :
    overCode (raisedSV k { v with code := rest }).code = true ∨
    (k = .err ∧ h.isLC = false ∧ ∃ pre post, rest = pre ++ post ∧ (raisedSV k { v with code := rest }).code = post ∧
      ∀ i ∈ pre, i.isLC = false ∨ i = .catchHandler) := by
  rw [hc] at hch
  cases k with
  | exit => exact .inl (unwind_exit_chained hch.2)
  | sysexit => rw [canRaise_sysexit] at hr; cases hr
  | err =>
    have hn := canRaise_nonLC hr
    have := unwind_err_chained hch hn
    split at this
    · rename_i post hpost
      obtain ⟨pre, h1, h2⟩ := this
      refine .inr ⟨rfl, hn, pre, post, h1, ?_, h2⟩
      show (unwindTo .err rest).getD [] = post
      rw [hpost]; rfl
    · rename_i hnone
      left
      show overCode ((unwindTo .err rest).getD []) = true
      rw [hnone]; rfl

theorem headIsRestore_nonLC {h : Instr} (rest : List Instr) (hn : h.isLC = false) : headIsRestore (h :: rest) = false := by
  cases h <;> first | rfl | (cases hn; done)

/-- a transition that changes neither markers, levels nor `_run_loop` -/
theorem sub_neutral {v v' : SV} (hm : markersA v'.code = markersA v.code) (hl : v'.levels = v.levels)
    (hr : v'.runLoop = v.runLoop) (hh : headIsRestore v.code = false) (hi : SubInv' v) : SubInv' v' := by
  refine ⟨by rw [hm, hl]; exact hi.1, ?_⟩
  intro h1 _ q hq
  rw [hm] at hq; rw [hl]; rw [hr] at h1
  exact hi.2 h1 hh q hq

theorem sublist_of_cons_not_mem {α} {l m : List α} {a : α} (h : l.Sublist (a :: m)) (ha : a ∉ l) : l.Sublist m := by
  cases h with
  | cons _ h => exact h
  | cons_cons _ h => exact absurd (List.mem_cons_self ..) ha

theorem sorted_head_max {M : List Nat} (hs : M.Pairwise (· > ·)) {q t : Nat} (hq : M.head? = some q) (ht : t ∈ M) :
    t ≤ q := by
  cases M with
  | nil => cases ht
  | cons a M =>
    cases hq
    rcases List.mem_cons.1 ht with rfl | ht
    · exact Nat.le_refl _
    · exact Nat.le_of_lt ((List.pairwise_cons.1 hs).1 t ht)

theorem sub_step {P : Prog} {v v' : SV} {evs : List Tr} (hb : Basic v) (hi : SubInv v) (hs : SStepE P v evs v')
    (hev : evs.all wfOpenEv = true) : SubInv v' := by
  rcases hi with ho | hi
  · exact .inl (over_step ho hs)
  have hch := hb.chained
  cases hs with
  | stutter => exact .inr hi
  | batch hc hbt =>
    rename_i h rest B
    rcases batch_markers hbt with ⟨h1, h2, _⟩ | ⟨q, rfl, rfl, _, hrl⟩
    · right
      have hm : markersA (B ++ rest) = markersA v.code := by
        rw [hc, markersA_append, h1, ← markersA_append]; rfl
      cases hh : headIsRestore v.code with
      | false => exact sub_neutral (v := v) hm rfl rfl hh hi
      | true =>
        -- the head is `restoreRun`: force-quit, no level is open
        rw [hc] at hh
        cases h <;> first | (cases hh; done) | skip
        cases hbt with
        | passive hp => cases hp
        | restoreFQ hf =>
          have hl := (hb.fq hf).1
          refine ⟨by rw [hm]; exact hi.1, ?_⟩
          intro _ _ q _
          show q ∉ v.levels
          rw [hl]; simp
    · right
      have hq : q ∉ v.levels := hi.2 hrl (by rw [hc]; rfl) q (by rw [hc]; rfl)
      refine ⟨?_, ?_⟩
      · have := hi.1
        rw [hc] at this
        exact sublist_of_cons_not_mem this (by simpa using hq)
      · intro _ hh; cases hh
  | halt hc hh =>
    rename_i h rest
    rw [hc] at hch
    by_cases ha : h = .apprun
    · subst ha
      left
      have : rest = [] := by
        have := hch.1
        cases rest with
        | nil => rfl
        | cons x r => cases this
      subst this; rfl
    · right
      have hnm : h.isMarkerA = false := by cases h <;> first | rfl | (cases hh; done) | exact absurd rfl ha
      refine sub_neutral (v := v) (by rw [hc, markersA_cons_of_not _ hnm]) rfl rfl ?_ hi
      rw [hc]; cases h <;> first | rfl | (cases hh; done)
  | raise hc hr =>
    rcases raise_cases hb.chained hc hr with ho | ⟨_, hn, pre, post, h1, h2, h3⟩
    · exact .inl ho
    · right
      refine sub_neutral (v := v) ?_ rfl rfl (by rw [hc]; exact headIsRestore_nonLC _ hn) hi
      rw [h2, hc, h1, markersA_cons_of_not _ (by cases ‹Instr› <;> first | rfl | (cases hn; done)), markersA_append,
        markersA_nil_of_nonLC h3]; rfl
  | kill _ => exact .inl rfl
  | forceQuit hc =>
    right
    exact ⟨List.nil_sublist _, fun _ _ q _ => by simp⟩
  | schedule hc => exact .inr (sub_neutral (v := v) (by rw [hc]; rfl) rfl rfl (by rw [hc]; rfl) hi)
  | enqAct hc => exact .inr (sub_neutral (v := v) (by rw [hc]; rfl) rfl rfl (by rw [hc]; rfl) hi)
  | pushScr hc => exact .inr (sub_neutral (v := v) (by rw [hc]; rfl) rfl rfl (by rw [hc]; rfl) hi)
  | replace hc _ => exact .inr (sub_neutral (v := v) (by rw [hc]; rfl) rfl rfl (by rw [hc]; rfl) hi)
  | apprun hc =>
    right
    refine ⟨?_, fun h => by cases h⟩
    have := hi.1
    rw [hc] at this
    exact this
  | restore hc _ =>
    right
    refine ⟨?_, fun h => by cases h⟩
    have := hi.1
    rw [hc] at this
    exact this
  | «open» hc _ =>
    right
    have hrl : v.runLoop = true := by
      cases hr : v.runLoop with
      | true => rfl
      | false => rw [hr] at hev; cases hev
    refine ⟨?_, ?_⟩
    · show (v.levels ++ [v.nq]).reverse.Sublist (markersA (.mainCheck v.nq :: _))
      rw [List.reverse_append]
      have := hi.1
      rw [hc] at this
      exact this.cons_cons _
    · intro h; rw [hrl] at h; cases h
  | pop hc hq ha =>
    right
    rename_i rest q a
    have hm : markersA rest = markersA v.code := by rw [hc]; rfl
    refine ⟨?_, ?_⟩
    · show v.levels.dropLast.reverse.Sublist (markersA rest)
      rw [hm]
      exact ((List.dropLast_sublist _).reverse).trans hi.1
    · intro _ _ x hx
      show x ∉ v.levels.dropLast
      rw [hm] at hx
      cases hrl : v.runLoop with
      | false =>
        have := hi.2 hrl (by rw [hc]; rfl) x hx
        exact fun h => this (List.dropLast_subset _ h)
      | true =>
        intro hmem
        have hqmem : q ∈ markersA v.code :=
          hi.1.subset (List.mem_reverse.2 (List.mem_of_getLast? hq))
        have h1 : q ≤ x := sorted_head_max hb.msorted hx hqmem
        have h2 : x < q := getLast?_dropLast_lt hb.lsorted hq x hmem
        omega
  | popExit hc _ _ =>
    left
    rw [hc] at hch
    exact unwind_exit_chained hch.2
  | pushModal hc => exact .inr (sub_neutral (v := v) (by rw [hc]; rfl) rfl rfl (by rw [hc]; rfl) hi)
  | closeScreen hc _ => exact .inr (sub_neutral (v := v) (by rw [hc]; rfl) rfl rfl (by rw [hc]; rfl) hi)
  | discard hc _ =>
    right
    refine sub_neutral (v := v) ?_ rfl rfl (by rw [hc]; rfl) hi
    show markersA ((if _ then _ else _) ++ _) = _
    rw [hc]; split <;> rfl
  | identSkip hc _ _ =>
    right
    rw [hc] at hch
    refine sub_neutral (v := v) ?_ rfl rfl (by rw [hc]; rfl) hi
    show markersA (List.dropWhile _ _) = _
    rw [identSkip_chained hch, hc]; rfl

theorem sub_init (init : List Act) (handlers : List (Cls × HRef × Option Nat)) (quitCb : Option Nat)
    (stdin : List Str) : SubInv (initCfg init handlers quitCb stdin).sv := by
  right
  refine ⟨?_, fun h => by cases h⟩
  show [0].reverse.Sublist (markersA (init.map Instr.act ++ [.apprun]))
  rw [markersA_init]; exact List.Sublist.refl _

/-! ### history hypotheses through the shape view -/

theorem all_shapeTr (f : Tr → Bool) (hf : ∀ t, f t = false → t.shape = true) (l : List Tr) :
    (shapeTr l).all f = l.all f := by
  induction l with
  | nil => rfl
  | cons t l ih =>
    rw [shapeTr_cons]
    split
    · simp only [List.all_cons, ih]
    · rename_i hs
      have : f t = true := by
        cases hft : f t with
        | true => rfl
        | false => exact absurd (hf t hft) hs
      simp only [List.all_cons, this, ih, Bool.true_and]

theorem wfOpenEv_shape (t : Tr) (h : wfOpenEv t = false) : t.shape = true := by
  cases t <;> first | rfl | (cases h; done)

theorem wfCloseEv_shape (t : Tr) (h : wfCloseEv t = false) : t.shape = true := by
  cases t <;> first | rfl | (cases h; done)

theorem wfOpen_of_wfClose {t : Tr} (h : wfCloseEv t = true) : wfOpenEv t = true := by
  cases t <;> first | rfl | skip
  all_goals (rename_i q b; cases b <;> first | rfl | (cases h; done))

theorem WFOpen.of_WFClose {c : Cfg} (h : WFClose c) : WFOpen c := by
  unfold WFClose at h; unfold WFOpen
  rw [List.all_eq_true] at h ⊢
  exact fun t ht => wfOpen_of_wfClose (h t ht)

theorem reach_sub {P : Prog} {c0 c : Cfg} (h0 : Started c0) (h : Reach P c0 c) (hw : WFOpen c) : SubInv c.sv := by
  have hw' : c.sv.ev.all wfOpenEv = true := by
    show (shapeTr c.tr).all wfOpenEv = true
    rw [all_shapeTr _ wfOpenEv_shape]; exact hw
  clear hw
  induction h with
  | init =>
    obtain ⟨init, handlers, quitCb, stdin, rfl⟩ := h0
    exact sub_init init handlers quitCb stdin
  | step hr hst ih =>
    obtain ⟨evs, h1, _, _⟩ := trans_sstep (.step hst)
    rw [SStepE.ev_eq h1, List.all_append, Bool.and_eq_true] at hw'
    exact sub_step (reach_basic h0 hr) (ih hw'.2) h1 hw'.1
  | deliver hr hd ih =>
    obtain ⟨evs, h1, _, _⟩ := trans_sstep (P := P) (.deliver hd)
    rw [SStepE.ev_eq h1, List.all_append, Bool.and_eq_true] at hw'
    exact sub_step (reach_basic h0 hr) (ih hw'.2) h1 hw'.1
  | halt hr hst ih =>
    obtain ⟨evs, h1, _, _⟩ := trans_sstep (.halt hst)
    rw [SStepE.ev_eq h1, List.all_append, Bool.and_eq_true] at hw'
    exact sub_step (reach_basic h0 hr) (ih hw'.2) h1 hw'.1

end Shape

end Simpleline
