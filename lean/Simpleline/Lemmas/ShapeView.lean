/-
  The *shape view* of a configuration (proof device for C03 blocks/resumes and C05): the pending
  code, the loop levels and flags, the screen stack and the shape-relevant part of the trace; and
  what the helper functions of `Model/Machine.lean` do to it (frame lemmas).
-/
import Simpleline.Spec.ShapeSpec

namespace Simpleline

/-- the trace events the shape properties talk about -/
def Tr.shape : Tr → Bool
  | .openLevel .. | .closeLevel _ | .loopReturn _ | .closeReq .. | .forceQuit | .exit | .kill
  | .stackOp .. | .show _ | .refresh _ | .modalBegin _ | .modalEnd _ | .take .. | .procBegin | .procEnd => true
  | _ => false

def shapeTr (l : List Tr) : List Tr := l.filter Tr.shape


/-- the shape view -/
structure SV where
  code : List Instr
  levels : List Nat
  runLoop : Bool
  forceQuit : Bool
  active : Nat
  nq : Nat
  stack : List Entry
  nextEid : Nat
  ev : List Tr
  clean : Bool

def Cfg.sv (c : Cfg) : SV :=
  ⟨c.code, c.L.levels, c.L.runLoop, c.L.forceQuit, c.L.active, c.L.queues.length, c.A.stack, c.A.nextEid, shapeTr c.tr,
   cleanTr c.tr⟩

/-- record that a signal of class `exception` (`b = true`) or of another class was enqueued -/
def SV.noteExc (v : SV) (b : Bool) : SV := { v with clean := !b && v.clean }

/-- the configuration inside a step result -/
def outCfg : Except (Outcome × Cfg) Cfg → Cfg
  | .ok c => c
  | .error (_, c) => c

namespace Shape

@[simp] theorem outCfg_ok (c : Cfg) : outCfg (.ok c) = c := rfl
@[simp] theorem outCfg_error (o : Outcome) (c : Cfg) : outCfg (.error (o, c)) = c := rfl

theorem outCfg_of_ok {r : Except (Outcome × Cfg) Cfg} {c : Cfg} (h : r = .ok c) : outCfg r = c := by
  subst h; rfl
theorem outCfg_of_error {r : Except (Outcome × Cfg) Cfg} {o : Outcome} {c : Cfg} (h : r = .error (o, c)) :
    outCfg r = c := by
  subst h; rfl

@[simp] theorem shapeTr_nil : shapeTr [] = [] := rfl
theorem shapeTr_cons (t : Tr) (l : List Tr) : shapeTr (t :: l) = if t.shape then t :: shapeTr l else shapeTr l := by
  simp [shapeTr, List.filter_cons]
theorem shapeTr_append (a b : List Tr) : shapeTr (a ++ b) = shapeTr a ++ shapeTr b := by simp [shapeTr]
theorem mem_shapeTr {t : Tr} {l : List Tr} : t ∈ shapeTr l ↔ t ∈ l ∧ t.shape = true := by simp [shapeTr]

/-! ### trace growth -/

/-- `c'` has the same history as `c` plus new events -/
def Grow (c c' : Cfg) : Prop := ∃ new, c'.tr = new ++ c.tr

theorem Grow.refl (c : Cfg) : Grow c c := ⟨[], rfl⟩
theorem Grow.trans {a b c : Cfg} : Grow a b → Grow b c → Grow a c
  | ⟨n1, h1⟩, ⟨n2, h2⟩ => ⟨n2 ++ n1, by rw [h2, h1, List.append_assoc]⟩
theorem Grow.of_tr_eq {a b c : Cfg} (h : b.tr = c.tr) : Grow a b → Grow a c
  | ⟨n, h1⟩ => ⟨n, by rw [← h, h1]⟩

/-! ### `enqueue` -/

theorem cleanTr_cons (t : Tr) (l : List Tr) : cleanTr (t :: l) = (!t.isExc && cleanTr l) := rfl

theorem noteExc_false (v : SV) : v.noteExc false = v := rfl

theorem shape_not_exc {t : Tr} (h : t.shape = true) : t.isExc = false := by
  cases t <;> first | rfl | (cases h; done)

theorem enqueue_tr (c : Cfg) (s : Sig) :
    ∃ t, t.shape = false ∧ t.isExc = (s.cls == .exception) ∧ (c.enqueue s).tr = t :: c.tr := by
  unfold Cfg.enqueue; split
  · exact ⟨_, rfl, rfl, rfl⟩
  · exact ⟨_, rfl, rfl, rfl⟩

theorem sv_enqueue (c : Cfg) (s : Sig) : (c.enqueue s).sv = c.sv.noteExc (s.cls == .exception) := by
  unfold Cfg.enqueue; split
  · simp [Cfg.sv, Cfg.trace, shapeTr_cons, Tr.shape, SV.noteExc, cleanTr_cons, Tr.isExc]
  · simp [Cfg.sv, shapeTr_cons, Tr.shape, listSet, SV.noteExc, cleanTr_cons, Tr.isExc]

/-- enqueueing a signal that is not an `ExceptionSignal` does not change the view -/
theorem sv_enqueue_ne (c : Cfg) (s : Sig) (h : (s.cls == .exception) = false) : (c.enqueue s).sv = c.sv := by
  rw [sv_enqueue, h]; rfl

theorem grow_enqueue {a c : Cfg} (s : Sig) (h : Grow a c) : Grow a (c.enqueue s) := by
  obtain ⟨t, _, _, ht⟩ := enqueue_tr c s
  exact h.trans ⟨[t], ht⟩

/-! ### `trace`, `push`, `write`, `redraw` -/

theorem sv_trace_shape (c : Cfg) (t : Tr) (h : t.shape = true) : (c.trace t).sv = { c.sv with ev := t :: c.sv.ev } := by
  simp [Cfg.sv, Cfg.trace, shapeTr_cons, h, cleanTr_cons, shape_not_exc h]

theorem grow_trace {a c : Cfg} (t : Tr) (h : Grow a c) : Grow a (c.trace t) := h.trans ⟨[t], rfl⟩

@[simp] theorem sv_push (c : Cfg) (is : List Instr) : (push c is).sv = { c.sv with code := is ++ c.sv.code } := rfl

theorem grow_push {a c : Cfg} (is : List Instr) (h : Grow a c) : Grow a (push c is) := h

@[simp] theorem sv_write (c : Cfg) (t : Str) : (c.write t).sv = c.sv := rfl

theorem grow_write {a c : Cfg} (t : Str) (h : Grow a c) : Grow a (c.write t) := h

@[simp] theorem sv_redraw (c : Cfg) : c.redraw.sv = c.sv := by
  unfold Cfg.redraw Cfg.newSig
  rw [sv_enqueue_ne _ _ rfl]; rfl

theorem grow_redraw {a c : Cfg} (h : Grow a c) : Grow a c.redraw := by
  unfold Cfg.redraw Cfg.newSig
  exact grow_enqueue _ h

/-! ### `deliver`, `emit` -/

theorem sv_deliver {c d : Cfg} (h : c.deliver = some d) : d.sv = c.sv := by
  unfold Cfg.deliver at h
  split at h
  · cases h
  · simp only [Cfg.newSig, Option.some.injEq] at h
    subst h
    rw [sv_enqueue_ne _ _ rfl]; rfl

theorem grow_deliver {a c d : Cfg} (hd : c.deliver = some d) (h : Grow a c) : Grow a d := by
  unfold Cfg.deliver at hd
  split at hd
  · cases hd
  · simp only [Cfg.newSig, Option.some.injEq] at hd
    subst hd
    exact grow_enqueue _ h

@[simp] theorem sv_deliver_getD (c : Cfg) : (c.deliver.getD c).sv = c.sv := by
  cases h : c.deliver with
  | none => rfl
  | some d => exact sv_deliver h

theorem grow_deliver_getD {a c : Cfg} (h : Grow a c) : Grow a (c.deliver.getD c) := by
  cases hd : c.deliver with
  | none => exact h
  | some d => exact grow_deliver hd h

@[simp] theorem sv_emit (P : Prog) (c : Cfg) (e : Ev) : (c.emit P e).sv = c.sv := by
  unfold Cfg.emit
  dsimp only
  split
  · rw [sv_deliver_getD]; rfl
  · rfl

theorem grow_emit {a c : Cfg} (P : Prog) (e : Ev) (h : Grow a c) : Grow a (c.emit P e) := by
  unfold Cfg.emit
  dsimp only
  split
  · exact grow_deliver_getD (c := { c with log := e :: c.log }) h
  · exact h

/-! ### exceptions: the code an unwinding leaves -/

/-- what `unwind` leaves of the code (`none`: no catcher, the run ends) -/
def unwindTo (kind : Kind) : List Instr → Option (List Instr)
  | [] => none
  | ins :: rest =>
    match kind, ins with
    | .err, .catchHandler => some rest
    | .err, .catchPS => some rest
    | .err, .catchDraw => some rest
    | .err, .catchPI _ => some ((rest.dropWhile fun i => match i with | .endPI => false | _ => true).drop 1)
    | .exit, .catchExit => some rest
    | _, _ => unwindTo kind rest

/-- the view after an unwinding: a caught ordinary exception enqueues an `ExceptionSignal` -/
def unwoundSV (kind : Kind) (code : List Instr) (v : SV) : SV :=
  { v with code := (unwindTo kind code).getD [], clean := !(kind == .err && (unwindTo kind code).isSome) && v.clean }

theorem sv_setCode (c : Cfg) (r : List Instr) : Cfg.sv { c with code := r } = { c.sv with code := r } := rfl

theorem sv_unwind (kind : Kind) (code : List Instr) (c : Cfg) :
    (outCfg (unwind kind code c)).sv = unwoundSV kind code c.sv := by
  induction code with
  | nil => unfold unwind; cases kind <;> rfl
  | cons ins rest ih =>
    have key : ∀ (s : Sig) (c1 : Cfg) (r : List Instr), c1.sv = c.sv → s.cls = .exception →
        Cfg.sv { (c1.enqueue s) with code := r } = { c.sv with code := r, clean := false } := by
      intro s c1 r h1 h2
      rw [sv_setCode, sv_enqueue, h1, h2]; rfl
    cases kind <;> cases ins <;>
      first
        | exact ih
        | (simp only [unwind, unwindTo, unwoundSV, Cfg.newSig, outCfg_ok, Option.getD_some]; exact key _ _ _ rfl rfl)
        | rfl

theorem grow_unwind {a : Cfg} (kind : Kind) (code : List Instr) (c : Cfg) (h : Grow a c) :
    Grow a (outCfg (unwind kind code c)) := by
  induction code with
  | nil => unfold unwind; cases kind <;> exact h
  | cons ins rest ih =>
    have key : ∀ (s : Sig) (c1 : Cfg) (r : List Instr), c1.tr = c.tr →
        Grow a { (c1.enqueue s) with code := r } := by
      intro s c1 r h1
      exact Grow.of_tr_eq (b := c1.enqueue s) rfl (grow_enqueue s (h.of_tr_eq h1.symm))
    cases kind <;> cases ins <;>
      first
        | exact ih
        | (simp only [unwind, Cfg.newSig, outCfg_ok]; exact key _ _ _ rfl)
        | exact h

/-- the trace events raising an exception adds by itself -/
def exitEv : Kind → List Tr
  | .exit => [.exit]
  | _ => []

/-- the view after raising an exception of kind `k` -/
def raisedSV (k : Kind) (v : SV) : SV :=
  { v with code := (unwindTo k v.code).getD [], ev := exitEv k ++ v.ev,
           clean := !(k == .err && (unwindTo k v.code).isSome) && v.clean }

theorem sv_raise (c : Cfg) (k : Kind) : (outCfg (c.raise k)).sv = raisedSV k c.sv := by
  unfold Cfg.raise
  cases k
  · show (outCfg (unwind .exit c.code (c.trace .exit))).sv = _
    rw [sv_unwind, sv_trace_shape _ _ rfl]; rfl
  · exact sv_unwind _ _ _
  · exact sv_unwind _ _ _

theorem grow_raise {a c : Cfg} (k : Kind) (h : Grow a c) : Grow a (outCfg (c.raise k)) := by
  unfold Cfg.raise
  cases k
  · exact grow_unwind _ _ _ (grow_trace _ h)
  · exact grow_unwind _ _ _ h
  · exact grow_unwind _ _ _ h

/-! ### `take` -/

theorem sv_take_ok {c c1 : Cfg} {s : Sig} (h : c.take = .ok (s, c1)) :
    c1.sv = { c.sv with ev := .take c.sv.active s :: c.sv.ev } := by
  unfold Cfg.take at h
  dsimp only at h
  split at h
  · cases h
  · simp only [Except.ok.injEq, Prod.mk.injEq] at h
    obtain ⟨rfl, rfl⟩ := h
    have : ∀ (d : Cfg) (es : List (Int × Nat × Sig)) (s : Sig), d.sv = c.sv →
        Cfg.sv { d with L := { d.L with queues := listSet d.L.queues d.L.active fun q => { q with entries := es } },
                        tr := .take d.L.active s :: d.tr } = { c.sv with ev := .take c.sv.active s :: c.sv.ev } := by
      intro d es s hd
      simp only [Cfg.sv, listSet, List.length_modify, shapeTr_cons, Tr.shape, if_true] at hd ⊢
      simp only [SV.mk.injEq] at hd
      obtain ⟨h1, h2, h3, h4, h5, h6, h7, h8, h9, h10⟩ := hd
      simp [h1, h2, h3, h4, h5, h6, h7, h8, h9, h10, cleanTr_cons, Tr.isExc]
    apply this
    split
    · exact sv_deliver_getD c
    · rfl

theorem sv_take_err {c c1 : Cfg} {o : Outcome} (h : c.take = .error (o, c1)) : c1.sv = c.sv := by
  unfold Cfg.take at h
  dsimp only at h
  split at h
  · simp only [Except.error.injEq, Prod.mk.injEq] at h
    obtain ⟨_, rfl⟩ := h
    split
    · exact sv_deliver_getD c
    · rfl
  · cases h

theorem grow_take_ok {a c c1 : Cfg} {s : Sig} (h : c.take = .ok (s, c1)) (g : Grow a c) : Grow a c1 := by
  unfold Cfg.take at h
  dsimp only at h
  split at h
  · cases h
  · simp only [Except.ok.injEq, Prod.mk.injEq] at h
    obtain ⟨_, rfl⟩ := h
    refine Grow.trans (b := if c.L.activeQ.entries = [] then c.deliver.getD c else c) ?_ ⟨[_], rfl⟩
    split
    · exact grow_deliver_getD g
    · exact g

theorem grow_take_err {a c c1 : Cfg} {o : Outcome} (h : c.take = .error (o, c1)) (g : Grow a c) : Grow a c1 := by
  unfold Cfg.take at h
  dsimp only at h
  split at h
  · simp only [Except.error.injEq, Prod.mk.injEq] at h
    obtain ⟨_, rfl⟩ := h
    split
    · exact grow_deliver_getD g
    · exact g
  · cases h

/-! ### input requests -/

@[simp] theorem sv_newIH (c : Cfg) (src : Src) (skip : Bool) (cb : Option Nat) : (newIH c src skip cb).2.sv = c.sv := rfl

theorem grow_newIH {a c : Cfg} (src : Src) (skip : Bool) (cb : Option Nat) (h : Grow a c) :
    Grow a (newIH c src skip cb).2 := h

theorem sv_startRequest (c : Cfg) (ih : Nat) (r : Src) (t : Str) :
    (outCfg (startRequest c ih r t)).sv = c.sv ∨
    ((outCfg (startRequest c ih r t)).sv = raisedSV .err c.sv ∧
      ∃ c1 : Cfg, startRequest c ih r t = c1.raise .err ∧ c1.sv = c.sv) := by
  unfold startRequest
  dsimp only
  split
  · right
    refine ⟨?_, _, rfl, rfl⟩
    rw [sv_raise]; rfl
  · left
    split <;> rfl

theorem grow_startRequest {a c : Cfg} (ih : Nat) (r : Src) (t : Str) (h : Grow a c) :
    Grow a (outCfg (startRequest c ih r t)) := by
  unfold startRequest
  dsimp only
  split
  · exact grow_raise _ h
  · split <;> exact h

end Shape

end Simpleline
