/-
  Opening and closing a modal screen are "atomic" in a screen-level program whose `closed()`
  callbacks are silent, when no exception escaped and the drain of `close_loop` dispatched nothing:
  the pending `execute_new_loop` / `close_loop` is always the head of the code (a *window*), and every
  other configuration is quiescent (nothing pending).
-/
import Simpleline.Lemmas.ShapeFrames

namespace Simpleline

/-- nothing pending -/
def Quiet (l : List Instr) : Prop := pendOpens l = 0 ∧ pendCloses l = 0

/-- the code is quiescent, or its head is one of the straight-line windows between the push of a
modal entry and `execute_new_loop`, or between the pop of a modal entry and the pop of its level -/
inductive Win (v : SV) : Prop
  | quiet : Quiet v.code → Win v
  | w1 {s : Sig} {rest : List Instr} : v.code = .newLoop s :: rest → Quiet rest → Win v
  | w2 {scr : Nat} {e : Entry} {frm : Option Src} {rest : List Instr} :
      v.code = .callScr scr .closed none none :: .closeScreen2 e frm :: rest → Quiet rest → Win v
  | w3 {scr : Nat} {r : Ret} {k : Option Str} {e : Entry} {frm : Option Src} {rest : List Instr} :
      v.code = .scrRet scr .closed r k :: .closeScreen2 e frm :: rest → Quiet rest → Win v
  | w4 {e : Entry} {frm : Option Src} {rest : List Instr} : v.code = .closeScreen2 e frm :: rest → Quiet rest → Win v
  | w5 {rest : List Instr} : v.code = .closeLoop :: rest → Quiet rest → Win v
  | w6 {b : Bool} {n : Nat} {ev0 : List Tr} {rest : List Instr} :
      v.code = .procIter none :: .popLevel :: rest → Quiet rest → v.ev = .procBegin :: .closeReq b n :: ev0 → Win v
  | w7 {rest : List Instr} : v.code = .popLevel :: rest → Quiet rest → Win v

def WinInv (v : SV) : Prop := overCode v.code = true ∨ (v.forceQuit = false ∧ ScreenCode v.code ∧ Win v)

namespace Shape

theorem Quiet.cons_free {i : Instr} {l : List Instr} (hi : Instr.pendFree i = true) (h : Quiet l) : Quiet (i :: l) := by
  unfold Quiet
  rw [pendOpens_cons_free _ hi, pendCloses_cons_free _ hi]; exact h

theorem quiet_tail {i : Instr} {l : List Instr} (h : Quiet (i :: l)) : Quiet l := by
  have h1 := pendOpens_sublist (List.sublist_cons_self i l)
  have h2 := pendCloses_sublist (List.sublist_cons_self i l)
  exact ⟨by have := h.1; omega, by have := h.2; omega⟩

theorem quiet_sublist {l1 l2 : List Instr} (hs : l1.Sublist l2) (h : Quiet l2) : Quiet l1 := by
  have h1 := pendOpens_sublist hs
  have h2 := pendCloses_sublist hs
  exact ⟨by have := h.1; omega, by have := h.2; omega⟩

theorem quiet_head {i : Instr} {l : List Instr} (h : Quiet (i :: l)) : pendOpens [i] = 0 ∧ pendCloses [i] = 0 := by
  have e1 : pendOpens (i :: l) = pendOpens [i] + pendOpens l := pendOpens_append [i] l
  have e2 : pendCloses (i :: l) = pendCloses [i] + pendCloses l := pendCloses_append [i] l
  exact ⟨by have := h.1; omega, by have := h.2; omega⟩

theorem quiet_batch {B rest : List Instr} (h1 : pendOpens B = 0) (h2 : pendCloses B = 0) (h : Quiet rest) :
    Quiet (B ++ rest) := by
  unfold Quiet
  rw [pendOpens_append, pendCloses_append, h1, h2]
  exact ⟨by have := h.1; omega, by have := h.2; omega⟩

theorem drainQuietScan_weaken (l : List Tr) (h : drainQuietScan true l = true) : drainQuietScan false l = true := by
  induction l with
  | nil => rfl
  | cons t l ih =>
    cases t <;> first | exact h | exact ih h | skip
    simp only [drainQuietScan, Bool.not_true, Bool.false_and] at h
    cases h

theorem drainQuietScan_append {a b : List Tr} (s : Bool) (h : drainQuietScan s (a ++ b) = true) :
    drainQuietScan false b = true := by
  induction a generalizing s with
  | nil => cases s; exact h; exact drainQuietScan_weaken _ h
  | cons t a ih =>
    cases t <;> first | exact ih _ h | skip
    simp only [List.cons_append, drainQuietScan, Bool.and_eq_true] at h
    exact ih _ h.2

theorem drainQuietScan_shapeTr (s : Bool) (l : List Tr) : drainQuietScan s (shapeTr l) = drainQuietScan s l := by
  induction l generalizing s with
  | nil => rfl
  | cons t l ih =>
    rw [shapeTr_cons]
    cases t <;> first | exact ih _ | skip
    all_goals simp only [Tr.shape, if_true, drainQuietScan, ih]

/-- from a quiescent configuration (the treatment of a raised exception is left to the caller) -/
theorem win_quiet_step_core {P : Prog} {v v' : SV} {evs : List Tr} (hP : ScreenOnly P) (hb : Basic v)
    (hf : v.forceQuit = false) (hsc : ScreenCode v.code) (hq : Quiet v.code) (hs : SStepE P v evs v')
    (hraise : ∀ {h : Instr} {rest : List Instr} {k : Kind}, v.code = h :: rest → h.canRaise k = true →
      v' = raisedSV k { v with code := rest } → overCode v'.code = true ∨ Win v') :
    overCode v'.code = true ∨ Win v' := by
  have hch := hb.chained
  cases hs with
  | stutter => exact .inr (.quiet hq)
  | batch hc hbt =>
    rename_i h rest B
    rw [hc] at hsc hq
    obtain ⟨h1, h2, _⟩ := batch_pend hbt hP (fun a ha => hsc a (by rw [ha]; exact List.mem_cons_self ..)) hf
    have := quiet_head hq
    exact .inr (.quiet (quiet_batch (by rw [h1]; exact this.1) (by rw [h2]; exact this.2) (quiet_tail hq)))
  | halt hc _ => rw [hc] at hq; exact .inr (.quiet (quiet_tail hq))
  | raise hc hr => exact hraise hc hr rfl
  | kill _ => exact .inl rfl
  | forceQuit hc => have := hsc _ (by rw [hc]; exact List.mem_cons_self ..); cases this
  | enqAct hc => rw [hc] at hq; exact .inr (.quiet (quiet_tail hq))
  | schedule hc => rw [hc] at hq; exact .inr (.quiet (quiet_tail hq))
  | pushScr hc => rw [hc] at hq; exact .inr (.quiet (quiet_tail hq))
  | replace hc _ => rw [hc] at hq; exact .inr (.quiet (quiet_tail hq))
  | apprun hc => rw [hc] at hq; exact .inr (.quiet (quiet_batch rfl rfl (quiet_tail hq)))
  | restore hc _ => rw [hc] at hq; exact .inr (.quiet (quiet_tail hq))
  | «open» hc _ => rw [hc] at hq; have := hq.1; simp [pendOpens] at this
  | pop hc _ _ => rw [hc] at hq; have := hq.2; simp [pendCloses] at this
  | popExit hc _ _ => rw [hc] at hch; exact .inl (unwind_exit_chained hch.2)
  | pushModal hc =>
    rw [hc] at hq
    exact .inr (.w1 rfl (Quiet.cons_free rfl (quiet_tail hq)))
  | closeScreen hc _ =>
    rw [hc] at hq
    exact .inr (.w2 rfl (quiet_tail hq))
  | discard hc hlast =>
    rename_i rest top e
    rw [hc] at hq
    by_cases hm : e.modal = true
    · refine .inr (.w5 (rest := .afterSetupFail e :: rest) ?_ (Quiet.cons_free rfl (quiet_tail hq)))
      show (if e.modal = true then _ else _) ++ rest = _
      rw [if_pos hm]; rfl
    · refine .inr (.quiet ?_)
      show Quiet ((if e.modal = true then _ else _) ++ rest)
      rw [if_neg hm]; exact quiet_tail hq
  | identSkip hc _ _ =>
    rw [hc] at hq hch
    refine .inr (.quiet ?_)
    show Quiet (List.dropWhile _ _)
    rw [identSkip_chained hch]; exact quiet_tail hq

/-- the step lemma of the window invariant, with the treatment of a raised exception left to the caller
(`hraise`) -/
theorem win_step_core {P : Prog} {v v' : SV} {evs : List Tr} (hP : ScreenOnly P) (hC : ClosedSilent P) (hb : Basic v)
    (hi : WinInv v) (hs : SStepE P v evs v') (hdq : drainQuietScan false v'.ev = true)
    (hraise : ∀ {h : Instr} {rest : List Instr} {k : Kind}, v.code = h :: rest → h.canRaise k = true →
      v' = raisedSV k { v with code := rest } → WinInv v') :
    WinInv v' := by
  have hraise' : ∀ {h : Instr} {rest : List Instr} {k : Kind}, v.code = h :: rest → h.canRaise k = true →
      v' = raisedSV k { v with code := rest } → overCode v'.code = true ∨ Win v' := by
    intro h rest k hc hr hv
    rcases hraise hc hr hv with ho | ⟨_, _, hw⟩
    · exact .inl ho
    · exact .inr hw
  rcases hi with ho | ⟨hf, hsc, hw⟩
  · exact .inl (over_step ho hs)
  -- force-quit flag and screen-level code are kept by `match_step`-like reasoning: reuse `MatchInv` is not
  -- possible here (different hypotheses), so redo the two easy parts
  have hkeep : overCode v'.code = true ∨ (v'.forceQuit = false ∧ ScreenCode v'.code) := by
    have hch := hb.chained
    cases hs with
    | stutter => exact .inr ⟨hf, hsc⟩
    | batch hc hbt =>
      rw [hc] at hsc
      by_cases hfq : v.forceQuit = false
      · -- `batch_pend` needs the head not to be a raw loop action and not `newLoopFQ`
        have := batch_pend hbt hP (fun a ha => hsc a (by rw [ha]; exact List.mem_cons_self ..)) hfq
        exact .inr ⟨hf, this.2.2.append hsc.tail⟩
      · exact absurd hf hfq
    | halt hc _ => rw [hc] at hsc; exact .inr ⟨hf, hsc.tail⟩
    | raise hc hr =>
      rcases hraise hc hr rfl with ho | ⟨h1, h2, _⟩
      · exact .inl ho
      · exact .inr ⟨h1, h2⟩
    | kill _ => exact .inl rfl
    | forceQuit hc => have := hsc _ (by rw [hc]; exact List.mem_cons_self ..); cases this
    | enqAct hc => rw [hc] at hsc; exact .inr ⟨hf, hsc.tail⟩
    | schedule hc => rw [hc] at hsc; exact .inr ⟨hf, hsc.tail⟩
    | pushScr hc => rw [hc] at hsc; exact .inr ⟨hf, hsc.tail⟩
    | replace hc _ => rw [hc] at hsc; exact .inr ⟨hf, hsc.tail⟩
    | apprun hc =>
      rw [hc] at hsc
      refine .inr ⟨rfl, ?_⟩
      intro a ha
      simp only [List.cons_append, List.nil_append, List.mem_cons, reduceCtorEq, false_or] at ha
      exact hsc a (List.mem_cons_of_mem _ ha)
    | restore hc _ => rw [hc] at hsc; exact .inr ⟨hf, hsc.tail⟩
    | «open» hc hfq =>
      rename_i rest s
      rw [hc] at hsc
      refine .inr ⟨hf, ?_⟩
      intro a ha
      have ha' : Instr.act a ∈ Instr.mainCheck v.nq :: rest := ha
      simp only [List.mem_cons, reduceCtorEq, false_or] at ha'
      exact hsc a (List.mem_cons_of_mem _ ha')
    | pop hc _ _ => rw [hc] at hsc; exact .inr ⟨hf, hsc.tail⟩
    | popExit hc _ _ => rw [hc] at hch; exact .inl (unwind_exit_chained hch.2)
    | pushModal hc =>
      rename_i rest scr args s
      rw [hc] at hsc
      refine .inr ⟨hf, ?_⟩
      intro a ha
      have ha' : Instr.act a ∈ Instr.newLoop s :: Instr.modalRet _ :: rest := ha
      simp only [List.mem_cons, reduceCtorEq, false_or] at ha'
      exact hsc a (List.mem_cons_of_mem _ ha')
    | closeScreen hc he =>
      rename_i rest frm e
      rw [hc] at hsc
      refine .inr ⟨hf, ?_⟩
      intro a ha
      have ha' : Instr.act a ∈ Instr.callScr e.screen .closed none none :: Instr.closeScreen2 e frm :: rest := ha
      simp only [List.mem_cons, reduceCtorEq, false_or] at ha'
      exact hsc a (List.mem_cons_of_mem _ ha')
    | discard hc he =>
      rw [hc] at hsc
      refine .inr ⟨hf, ?_⟩
      show ScreenCode ((if _ then _ else _) ++ _)
      refine ScreenCode.append ?_ hsc.tail
      intro a ha; split at ha <;> simp at ha
    | identSkip hc _ _ =>
      rw [hc] at hch hsc
      refine .inr ⟨hf, ?_⟩
      show ScreenCode (List.dropWhile _ _)
      rw [identSkip_chained hch]; exact hsc.tail
  rcases hkeep with ho | ⟨hf', hsc'⟩
  · exact .inl ho
  suffices overCode v'.code = true ∨ Win v' by
    rcases this with h | h
    · exact .inl h
    · exact .inr ⟨hf', hsc', h⟩
  have hch := hb.chained
  cases hw with
  | quiet hq => exact win_quiet_step_core hP hb hf hsc hq hs hraise'
  | w1 hc hq =>
    cases hs with
    | stutter => exact .inr (.w1 hc hq)
    | batch hc' hbt =>
      rw [hc] at hc'; cases hc'
      cases hbt with
      | passive hp => cases hp
      | newLoopFQ _ hfq => rw [hf] at hfq; cases hfq
    | «open» hc' _ =>
      rw [hc] at hc'; cases hc'
      exact .inr (.quiet (Quiet.cons_free rfl hq))
    | halt hc' hh => rw [hc] at hc'; cases hc'; cases hh
    | raise hc' hr => rw [hc] at hc'; cases hc'; rename_i k; cases k <;> cases hr
    | kill hc' | forceQuit hc' | enqAct hc' | schedule hc' | pushScr hc' | replace hc' _ | apprun hc' | restore hc' _
    | pop hc' _ _ | popExit hc' _ _ | pushModal hc' | closeScreen hc' _ | discard hc' _ | identSkip hc' _ _ =>
      rw [hc] at hc'; cases hc'
  | w2 hc hq =>
    rename_i scr e frm rest
    cases hs with
    | stutter => exact .inr (.w2 hc hq)
    | batch hc' hbt =>
      rw [hc] at hc'; cases hc'
      cases hbt with
      | passive hp => cases hp
      | callScr _ _ _ _ n =>
        refine .inr (.w3 (scr := scr) (r := (P.screenScript scr .closed n).ret) (k := none) (e := e) (frm := frm) ?_ hq)
        show ((if Cb.closed = Cb.show then _ else _) ++ List.map Instr.act (P.screenScript scr .closed n).acts ++ _) ++ _ = _
        rw [hC scr n]; rfl
    | halt hc' hh => rw [hc] at hc'; cases hc'; cases hh
    | raise hc' hr => rw [hc] at hc'; cases hc'; rename_i k; cases k <;> cases hr
    | kill hc' | forceQuit hc' | enqAct hc' | schedule hc' | pushScr hc' | replace hc' _ | apprun hc' | restore hc' _
    | «open» hc' _ | pop hc' _ _ | popExit hc' _ _ | pushModal hc' | closeScreen hc' _ | discard hc' _
    | identSkip hc' _ _ =>
      rw [hc] at hc'; cases hc'
  | w3 hc hq =>
    cases hs with
    | stutter => exact .inr (.w3 hc hq)
    | batch hc' hbt =>
      rw [hc] at hc'; cases hc'
      cases hbt with
      | passive hp => exact .inr (.w4 rfl hq)
    | halt hc' hh => rw [hc] at hc'; cases hc'; cases hh
    | raise hc' hr => rw [hc] at hc'; cases hc'; rename_i k; cases k <;> cases hr
    | kill hc' | forceQuit hc' | enqAct hc' | schedule hc' | pushScr hc' | replace hc' _ | apprun hc' | restore hc' _
    | «open» hc' _ | pop hc' _ _ | popExit hc' _ _ | pushModal hc' | closeScreen hc' _ | discard hc' _
    | identSkip hc' _ _ =>
      rw [hc] at hc'; cases hc'
  | w4 hc hq =>
    cases hs with
    | stutter => exact .inr (.w4 hc hq)
    | batch hc' hbt =>
      rw [hc] at hc'; cases hc'
      cases hbt with
      | passive hp => cases hp
      | close2Modal _ _ _ => exact .inr (.w5 rfl (Quiet.cons_free rfl hq))
      | close2Plain _ _ _ => exact .inr (.quiet (Quiet.cons_free rfl hq))
    | raise hc' hr => exact hraise' hc' hr rfl
    | halt hc' hh => rw [hc] at hc'; cases hc'; cases hh
    | kill hc' | forceQuit hc' | enqAct hc' | schedule hc' | pushScr hc' | replace hc' _ | apprun hc' | restore hc' _
    | «open» hc' _ | pop hc' _ _ | popExit hc' _ _ | pushModal hc' | closeScreen hc' _ | discard hc' _
    | identSkip hc' _ _ =>
      rw [hc] at hc'; cases hc'
  | w5 hc hq =>
    cases hs with
    | stutter => exact .inr (.w5 hc hq)
    | batch hc' hbt =>
      rw [hc] at hc'; cases hc'
      cases hbt with
      | passive hp => cases hp
      | closeLoop n => exact .inr (.w6 rfl hq rfl)
    | halt hc' hh => rw [hc] at hc'; cases hc'; cases hh
    | raise hc' hr => rw [hc] at hc'; cases hc'; rename_i k; cases k <;> cases hr
    | kill hc' | forceQuit hc' | enqAct hc' | schedule hc' | pushScr hc' | replace hc' _ | apprun hc' | restore hc' _
    | «open» hc' _ | pop hc' _ _ | popExit hc' _ _ | pushModal hc' | closeScreen hc' _ | discard hc' _
    | identSkip hc' _ _ =>
      rw [hc] at hc'; cases hc'
  | w6 hc hq hev =>
    cases hs with
    | stutter => exact .inr (.w6 hc hq hev)
    | batch hc' hbt =>
      rw [hc] at hc'; cases hc'
      cases hbt with
      | passive hp => cases hp
      | procEnd _ => exact .inr (.w7 rfl hq)
      | procTake _ s p' _ =>
        -- the drain dispatches a signal: excluded by the drain-time quiet hypothesis
        exfalso
        have : drainQuietScan false ([Tr.take v.active s] ++ v.ev) = true := hdq
        rw [hev] at this
        simp [drainQuietScan] at this
    | halt hc' hh => rw [hc] at hc'; cases hc'; cases hh
    | raise hc' hr => rw [hc] at hc'; cases hc'; rename_i k; cases k <;> cases hr
    | kill hc' | forceQuit hc' | enqAct hc' | schedule hc' | pushScr hc' | replace hc' _ | apprun hc' | restore hc' _
    | «open» hc' _ | pop hc' _ _ | popExit hc' _ _ | pushModal hc' | closeScreen hc' _ | discard hc' _
    | identSkip hc' _ _ =>
      rw [hc] at hc'; cases hc'
  | w7 hc hq =>
    cases hs with
    | stutter => exact .inr (.w7 hc hq)
    | batch hc' hbt =>
      rw [hc] at hc'; cases hc'
      cases hbt with
      | passive hp => cases hp
    | pop hc' _ _ => rw [hc] at hc'; cases hc'; exact .inr (.quiet hq)
    | popExit hc' _ _ => rw [hc'] at hch; exact .inl (unwind_exit_chained hch.2)
    | raise hc' hr => exact hraise' hc' hr rfl
    | halt hc' hh => rw [hc] at hc'; cases hc'; cases hh
    | kill hc' | forceQuit hc' | enqAct hc' | schedule hc' | pushScr hc' | replace hc' _ | apprun hc' | restore hc' _
    | «open» hc' _ | pushModal hc' | closeScreen hc' _ | discard hc' _ | identSkip hc' _ _ =>
      rw [hc] at hc'; cases hc'

/-- … when no exception escaped: a raise ends the run -/
theorem win_step {P : Prog} {v v' : SV} {evs : List Tr} (hP : ScreenOnly P) (hC : ClosedSilent P) (hb : Basic v)
    (hi : WinInv v) (hs : SStepE P v evs v') (hcl : v'.clean = true) (hdq : drainQuietScan false v'.ev = true) :
    WinInv v' :=
  win_step_core hP hC hb hi hs hdq fun hc hr hv => by
    subst hv
    exact .inl (raise_clean_over hb.chained hc hr hcl)

end Shape

end Simpleline
