/-
  Helper lemmas for the text model (C11). Statements used by `Props/C11.lean`.
-/
import Simpleline.Model.Grid
import Simpleline.Lemmas.TextWrap

namespace Simpleline

theorem wrapStep_decreases (cc : CharClass) (w : Nat) (hw : 1 ≤ w) (haveLines : Bool)
    (chunks : List (List Char)) (hne : chunks ≠ []) (hch : ∀ c ∈ chunks, c ≠ []) :
    wrapMeasure (wrapStep cc w haveLines chunks).2 < wrapMeasure chunks ∧
    (∀ c ∈ (wrapStep cc w haveLines chunks).2, c ≠ []) := by
  sorry

theorem render_width (cc : CharClass) (st : WSt) (t : List Char) (w : Nat) (hw : 1 ≤ w) (s : WSt)
    (h : renderTextSt cc st t w = .ok s) : ∀ l ∈ s.buf, l.length ≤ w := by
  sorry

theorem render_conserve (cc : CharClass) (hs : cc.Sane) (st : WSt) (t : List Char) (w : Nat) (hw : 1 ≤ w)
    (s : WSt) (h : renderTextSt cc st t w = .ok s) :
    (s.buf.flatten.filter fun c => !cc.isSpace c) = t.filter fun c => !cc.isSpace c := by
  sorry

theorem render_breaks (cc : CharClass) (st : WSt) (t : List Char) (w : Nat) (hw : 1 ≤ w) (s : WSt)
    (h : renderTextSt cc st t w = .ok s) :
    s.buf = if wrapWords cc t w = [] then []
            else (splitOn '\n' t).flatMap fun l => if pyWrap cc l w = [] then [[]] else pyWrap cc l w := by
  sorry

theorem pyWrap_nonempty (cc : CharClass) (l : List Char) (w : Nat) (hw : 1 ≤ w) :
    ∀ x ∈ pyWrap cc l w, x ≠ [] := by
  sorry

theorem pyWrap_blank (cc : CharClass) (hs : cc.Sane) (l : List Char) (w : Nat) (hw : 1 ≤ w)
    (hb : ∀ c ∈ l, isWs6 c = true) : pyWrap cc l w = [] := by
  sorry

end Simpleline
