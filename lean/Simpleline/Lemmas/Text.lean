/-
  Helper lemmas for the text model (C11). Statements used by `Props/C11.lean`.

  The proofs are assembled from `Lemmas/TextWrap.lean` (the wrap loop of `textwrap`) and
  `Lemmas/TextType.lean` (`splitOn`/`joinWith`, the typewriter without a width).
-/
import Simpleline.Model.Grid
import Simpleline.Lemmas.TextWrap
import Simpleline.Lemmas.TextType

namespace Simpleline

theorem wrapStep_decreases (cc : CharClass) (w : Nat) (hw : 1 ≤ w) (haveLines : Bool)
    (chunks : List (List Char)) (hne : chunks ≠ []) (hch : ∀ c ∈ chunks, c ≠ []) :
    wrapMeasure (wrapStep cc w haveLines chunks).2 < wrapMeasure chunks ∧
    (∀ c ∈ (wrapStep cc w haveLines chunks).2, c ≠ []) :=
  wrapStep_decreases' cc w hw haveLines chunks hne hch

/-! ### what `TextWidget.render` leaves in the buffer -/

theorem wrapWords_nil (cc : CharClass) (w : Nat) : wrapWords cc [] w = [] := by
  have h1 : splitChunks cc (munge []) = [] := by
    simp only [munge, expandTabsAux, List.map_nil, splitChunks]
    rw [splitAux]
  have h2 : pyWrap cc [] w = [] := by
    rw [pyWrap, h1, wrapLoop]
    simp
  simp [wrapWords, splitOn, joinWith, h2]

/-- the rendered buffer is the wrapped text split at the line breaks (no line at all for an empty
wrapped text) -/
theorem render_buf (cc : CharClass) (st : WSt) (t : List Char) (w : Nat) (hw : 1 ≤ w) (s : WSt)
    (h : renderTextSt cc st t w = .ok s) :
    s.buf = if wrapWords cc t w = [] then [] else splitOn '\n' (wrapWords cc t w) := by
  simp only [renderTextSt, WSt.writeWrapped, WSt.clear] at h
  split at h
  · next ht =>
    subst ht
    simp only [Except.ok.injEq] at h
    subst h
    rw [if_pos (wrapWords_nil cc w)]
  · have hw' : ¬ ((w : Int) ≤ 0) := by omega
    rw [if_neg hw'] at h
    simp only [Except.ok.injEq, Int.toNat_natCast] at h
    subst h
    simp only [WSt.writeAt]
    split
    · rfl
    · next hne => exact typewrite_empty_buf _ hne

/-- the lines of the wrapped text -/
theorem splitOn_wrapWords (cc : CharClass) (t : List Char) (w : Nat) :
    splitOn '\n' (wrapWords cc t w) =
      (splitOn '\n' t).flatMap fun l => if pyWrap cc l w = [] then [[]] else pyWrap cc l w := by
  have hm : (splitOn '\n' t).map (fun l => joinWith '\n' (pyWrap cc l w)) =
      ((splitOn '\n' t).map (fun l => pyWrap cc l w)).map (joinWith '\n') := by
    rw [List.map_map]; rfl
  rw [wrapWords, hm, splitOn_joinWith_join '\n' _ (by simpa using splitOn_ne_nil '\n' t),
    List.flatMap_map]
  · rfl
  · intro ls hls
    simp only [List.mem_map] at hls
    obtain ⟨l, _, rfl⟩ := hls
    exact pyWrap_no_nl cc l w

theorem render_breaks (cc : CharClass) (st : WSt) (t : List Char) (w : Nat) (hw : 1 ≤ w) (s : WSt)
    (h : renderTextSt cc st t w = .ok s) :
    s.buf = if wrapWords cc t w = [] then []
            else (splitOn '\n' t).flatMap fun l => if pyWrap cc l w = [] then [[]] else pyWrap cc l w := by
  rw [render_buf cc st t w hw s h, splitOn_wrapWords]

theorem render_width (cc : CharClass) (st : WSt) (t : List Char) (w : Nat) (hw : 1 ≤ w) (s : WSt)
    (h : renderTextSt cc st t w = .ok s) : ∀ l ∈ s.buf, l.length ≤ w := by
  rw [render_breaks cc st t w hw s h]
  split
  · simp
  · intro l hl
    simp only [List.mem_flatMap] at hl
    obtain ⟨src, _, hl⟩ := hl
    split at hl
    · simp only [List.mem_singleton] at hl
      subst hl
      exact Nat.zero_le _
    · exact pyWrap_length cc src w l hl

theorem nl_space (cc : CharClass) (hs : cc.Sane) : cc.isSpace '\n' = true :=
  hs.ws6_space _ (by decide)

theorem render_conserve (cc : CharClass) (hs : cc.Sane) (st : WSt) (t : List Char) (w : Nat) (hw : 1 ≤ w)
    (s : WSt) (h : renderTextSt cc st t w = .ok s) :
    (s.buf.flatten.filter fun c => !cc.isSpace c) = t.filter fun c => !cc.isSpace c := by
  have h1 : nsp cc s.buf.flatten = nsp cc (wrapWords cc t w) := by
    rw [render_buf cc st t w hw s h]
    split
    · next h0 => rw [h0]; rfl
    · exact nsp_splitOn cc '\n' (nl_space cc hs) _
  have h2 : nsp cc (wrapWords cc t w) = nsp cc t := by
    rw [wrapWords, nsp_joinWith cc '\n' (nl_space cc hs), nsp_flatten_map, nsp_splitOn cc '\n' (nl_space cc hs)]
    intro l _
    rw [nsp_joinWith cc '\n' (nl_space cc hs), pyWrap_conserve cc hs l w hw]
  exact h1.trans h2

theorem pyWrap_nonempty (cc : CharClass) (l : List Char) (w : Nat) (hw : 1 ≤ w) :
    ∀ x ∈ pyWrap cc l w, x ≠ [] :=
  pyWrap_ne cc l w hw

theorem pyWrap_blank (cc : CharClass) (hs : cc.Sane) (l : List Char) (w : Nat) (hw : 1 ≤ w)
    (hb : ∀ c ∈ l, isWs6 c = true) : pyWrap cc l w = [] := by
  have _ := hw  -- holds for every width
  exact pyWrap_blank' cc hs l w hb

end Simpleline
