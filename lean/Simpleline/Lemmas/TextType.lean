/-
  Helper lemmas for the text model (C11), part 2: `splitOn`/`joinWith` and the typewriter without a
  width (`typewrite … none false`), which lays the text out as its lines.
-/
import Simpleline.Model.Grid
import Simpleline.Lemmas.TextWrap

namespace Simpleline

/-! ### `splitOn`, `joinWith` -/

theorem splitOn_ne_nil (sep : Char) (t : List Char) : splitOn sep t ≠ [] := by
  cases t with
  | nil => simp [splitOn]
  | cons c cs =>
    simp only [splitOn]
    split
    · simp
    · split <;> simp

theorem splitOn_cons_sep (sep : Char) (t : List Char) :
    splitOn sep (sep :: t) = [] :: splitOn sep t := by
  simp [splitOn]

theorem splitOn_cons_ne (sep c : Char) (t : List Char) (h : c ≠ sep) :
    ∃ l ls, splitOn sep t = l :: ls ∧ splitOn sep (c :: t) = (c :: l) :: ls := by
  cases hs : splitOn sep t with
  | nil => exact absurd hs (splitOn_ne_nil sep t)
  | cons l ls => exact ⟨l, ls, rfl, by simp [splitOn, h, hs]⟩

theorem splitOn_of_not_mem (sep : Char) (l : List Char) (h : sep ∉ l) : splitOn sep l = [l] := by
  induction l with
  | nil => rfl
  | cons c cs ih =>
    simp only [List.mem_cons, not_or] at h
    obtain ⟨l, ls, h1, h2⟩ := splitOn_cons_ne sep c cs (fun e => h.1 e.symm)
    rw [h2]
    rw [ih h.2] at h1
    simp only [List.cons.injEq] at h1
    rw [← h1.1, ← h1.2]

theorem splitOn_append_sep (sep : Char) (l r : List Char) (h : sep ∉ l) :
    splitOn sep (l ++ sep :: r) = l :: splitOn sep r := by
  induction l with
  | nil => exact splitOn_cons_sep sep r
  | cons c cs ih =>
    simp only [List.mem_cons, not_or] at h
    obtain ⟨l, ls, h1, h2⟩ := splitOn_cons_ne sep c (cs ++ sep :: r) (fun e => h.1 e.symm)
    rw [List.cons_append, h2]
    rw [ih h.2] at h1
    simp only [List.cons.injEq] at h1
    rw [← h1.1, ← h1.2]

theorem joinWith_cons_cons (sep : Char) (l l' : List Char) (ls : List (List Char)) :
    joinWith sep (l :: l' :: ls) = l ++ sep :: joinWith sep (l' :: ls) := rfl

theorem joinWith_cons_of_ne (sep : Char) (l : List Char) (ls : List (List Char)) (h : ls ≠ []) :
    joinWith sep (l :: ls) = l ++ sep :: joinWith sep ls := by
  cases ls with
  | nil => exact absurd rfl h
  | cons l' ls => rfl

/-- an empty list of lines joins to the empty text, which splits to one empty line -/
def orEmptyLine (ls : List (List Char)) : List (List Char) := if ls = [] then [[]] else ls

theorem splitOn_joinWith_append (sep : Char) (ls : List (List Char)) (R : List Char)
    (h : ∀ l ∈ ls, sep ∉ l) :
    splitOn sep (joinWith sep ls ++ sep :: R) = orEmptyLine ls ++ splitOn sep R := by
  induction ls with
  | nil => simp [joinWith, orEmptyLine, splitOn_cons_sep]
  | cons l ls ih =>
    cases ls with
    | nil =>
      simp only [joinWith, orEmptyLine]
      rw [splitOn_append_sep sep l R (h l (by simp))]
      simp
    | cons l' ls =>
      rw [joinWith_cons_cons, List.append_assoc, List.cons_append,
        splitOn_append_sep sep l _ (h l (by simp)), ih (fun x hx => h x (by simp [hx]))]
      simp [orEmptyLine]

theorem splitOn_joinWith (sep : Char) (ls : List (List Char)) (h : ∀ l ∈ ls, sep ∉ l) :
    splitOn sep (joinWith sep ls) = orEmptyLine ls := by
  induction ls with
  | nil => simp [joinWith, orEmptyLine, splitOn]
  | cons l ls ih =>
    cases ls with
    | nil =>
      simp only [joinWith, orEmptyLine]
      rw [splitOn_of_not_mem sep l (h l (by simp))]
      simp
    | cons l' ls =>
      rw [joinWith_cons_cons, splitOn_append_sep sep l _ (h l (by simp)),
        ih (fun x hx => h x (by simp [hx]))]
      simp [orEmptyLine]

theorem splitOn_joinWith_join (sep : Char) (L : List (List (List Char))) (hne : L ≠ [])
    (h : ∀ ls ∈ L, ∀ l ∈ ls, sep ∉ l) :
    splitOn sep (joinWith sep (L.map (joinWith sep))) = L.flatMap orEmptyLine := by
  induction L with
  | nil => exact absurd rfl hne
  | cons ls L ih =>
    cases L with
    | nil =>
      simp only [List.map_cons, List.map_nil, joinWith, List.flatMap_cons, List.flatMap_nil,
        List.append_nil]
      exact splitOn_joinWith sep ls (h ls (by simp))
    | cons ls' L =>
      rw [List.map_cons, joinWith_cons_of_ne sep _ _ (by simp),
        splitOn_joinWith_append sep ls _ (h ls (by simp)),
        ih (by simp) (fun x hx => h x (by simp [hx]))]
      simp

/-! ### conservation -/

theorem nsp_splitOn (cc : CharClass) (sep : Char) (hsep : cc.isSpace sep = true) (t : List Char) :
    nsp cc (splitOn sep t).flatten = nsp cc t := by
  induction t with
  | nil => rfl
  | cons c cs ih =>
    by_cases hc : c = sep
    · subst hc
      rw [splitOn_cons_sep, List.flatten_cons, List.nil_append, ih, nsp_cons_space _ _ _ hsep]
    · obtain ⟨l, ls, h1, h2⟩ := splitOn_cons_ne sep c cs hc
      rw [h2]
      rw [h1] at ih
      simp only [List.flatten_cons, List.cons_append] at ih ⊢
      cases hsp : cc.isSpace c
      · rw [nsp_cons_nonspace _ _ _ hsp, nsp_cons_nonspace _ _ _ hsp, ih]
      · rw [nsp_cons_space _ _ _ hsp, nsp_cons_space _ _ _ hsp, ih]

theorem nsp_joinWith (cc : CharClass) (sep : Char) (hsep : cc.isSpace sep = true)
    (L : List (List Char)) : nsp cc (joinWith sep L) = nsp cc L.flatten := by
  induction L with
  | nil => rfl
  | cons l L ih =>
    cases L with
    | nil => simp [joinWith]
    | cons l' L =>
      rw [joinWith_cons_cons, nsp_append, nsp_cons_space _ _ _ hsep, ih]
      simp

theorem nsp_flatten_map (cc : CharClass) (f : List Char → List Char) (L : List (List Char))
    (h : ∀ l ∈ L, nsp cc (f l) = nsp cc l) : nsp cc (L.map f).flatten = nsp cc L.flatten := by
  induction L with
  | nil => rfl
  | cons l L ih =>
    simp only [List.map_cons, List.flatten_cons, nsp_append]
    rw [h l (by simp), ih (fun x hx => h x (by simp [hx]))]

/-! ### the typewriter without a width -/

/-- continue the last row with the first line -/
def glue (row : List Char) : List (List Char) → List (List Char)
  | [] => [row]
  | l :: ls => (row ++ l) :: ls

theorem glue_nil (L : List (List Char)) (h : L ≠ []) : glue [] L = L := by
  cases L with
  | nil => exact absurd rfl h
  | cons l ls => rfl

theorem modify_length_append {α} (f : α → α) (pre : List α) (a : α) :
    (pre ++ [a]).modify pre.length f = pre ++ [f a] := by
  induction pre with
  | nil => rfl
  | cons b bs ih => simp [ih]

theorem padTo_set_end (row : List Char) (c : Char) :
    (padTo (row.length + 1) row).set row.length c = row ++ [c] := by
  induction row with
  | nil => rfl
  | cons b bs ih =>
    simp only [padTo, List.length_cons, List.cons_append, List.set_cons_succ] at ih ⊢
    simp only [Nat.add_sub_cancel_left] at ih ⊢
    rw [ih]

theorem twStep_nl (col : Nat) (pre : Grid) (row : List Char) :
    twStep col none false { buf := pre ++ [row], x := pre.length, y := row.length } '\n' =
      { buf := (pre ++ [row]) ++ [[]], x := (pre ++ [row]).length, y := ([] : List Char).length } := by
  have : pre.length + 2 - (pre.length + 1) = 1 := by omega
  simp [twStep, extendRows, this]

theorem twStep_char (col : Nat) (pre : Grid) (row : List Char) (c : Char) (h : c ≠ '\n') :
    twStep col none false { buf := pre ++ [row], x := pre.length, y := row.length } c =
      { buf := pre ++ [row ++ [c]], x := pre.length, y := (row ++ [c]).length } := by
  simp only [twStep, if_neg h, extendRows, List.length_append, List.length_cons, List.length_nil,
    Nat.zero_add, Nat.sub_self, List.replicate_zero, List.append_nil, setCell,
    modify_length_append, padTo_set_end]

theorem foldl_twStep_buf (col : Nat) (t : List Char) : ∀ (pre : Grid) (row : List Char),
    (t.foldl (twStep col none false) { buf := pre ++ [row], x := pre.length, y := row.length }).buf =
      pre ++ glue row (splitOn '\n' t) := by
  induction t with
  | nil => intro pre row; simp [splitOn, glue]
  | cons c cs ih =>
    intro pre row
    rw [List.foldl_cons]
    by_cases hc : c = '\n'
    · subst hc
      rw [twStep_nl, ih, splitOn_cons_sep, glue_nil _ (splitOn_ne_nil _ _)]
      simp [glue]
    · obtain ⟨l, ls, h1, h2⟩ := splitOn_cons_ne '\n' c cs hc
      rw [twStep_char col pre row c hc, ih, h2, h1]
      simp [glue]

theorem twStep_empty (col : Nat) (c : Char) :
    twStep col none false { buf := [], x := 0, y := 0 } c =
      twStep col none false { buf := [[]], x := 0, y := 0 } c := by
  simp [twStep, extendRows]

/-- typing a non-empty text without a width into an empty buffer lays out its lines -/
theorem typewrite_empty_buf (t : List Char) (ht : t ≠ []) :
    (typewrite [] t 0 0 none false).buf = splitOn '\n' t := by
  cases t with
  | nil => exact absurd rfl ht
  | cons c cs =>
    rw [typewrite, List.foldl_cons, twStep_empty, ← List.foldl_cons]
    have := foldl_twStep_buf 0 (c :: cs) [] []
    simp only [List.nil_append, List.length_nil] at this
    rw [this, glue_nil _ (splitOn_ne_nil _ _)]

end Simpleline
