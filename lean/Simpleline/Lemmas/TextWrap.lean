/-
  Helper lemmas for the text model (C11), part 1: the wrap loop of `textwrap` (`wrapStep`, `wrapLoop`).
-/
import Simpleline.Model.Text

namespace Simpleline

/-! ### `totalLen`, `wrapMeasure` -/

@[simp] theorem totalLen_nil : totalLen [] = 0 := rfl

@[simp] theorem totalLen_cons (c : List Char) (cs : List (List Char)) :
    totalLen (c :: cs) = c.length + totalLen cs := by
  simp [totalLen]

@[simp] theorem totalLen_append (a b : List (List Char)) :
    totalLen (a ++ b) = totalLen a + totalLen b := by
  simp [totalLen]

theorem totalLen_eq_flatten (cs : List (List Char)) : totalLen cs = cs.flatten.length := by
  induction cs with
  | nil => rfl
  | cons c cs ih => simp [ih]

@[simp] theorem wrapMeasure_nil : wrapMeasure [] = 0 := rfl

@[simp] theorem wrapMeasure_cons (c : List Char) (cs : List (List Char)) :
    wrapMeasure (c :: cs) = c.length + 1 + wrapMeasure cs := by
  simp [wrapMeasure]; omega

@[simp] theorem wrapMeasure_append (a b : List (List Char)) :
    wrapMeasure (a ++ b) = wrapMeasure a + wrapMeasure b := by
  simp [wrapMeasure]; omega

/-! ### `dropLead` -/

theorem dropLead_cases (cc : CharClass) (haveLines : Bool) (chunks : List (List Char)) :
    dropLead cc haveLines chunks = chunks ∨
    ∃ c, chunks = c :: dropLead cc haveLines chunks ∧ blank cc c = true ∧ haveLines = true := by
  cases chunks with
  | nil => left; rfl
  | cons c cs =>
    simp only [dropLead]
    split
    · next h =>
      right
      simp only [Bool.and_eq_true] at h
      exact ⟨c, rfl, h.2, h.1⟩
    · left; rfl

/-! ### `takeFit` -/

theorem takeFit_append (w : Nat) : ∀ (len : Nat) (cs : List (List Char)),
    (takeFit w len cs).1 ++ (takeFit w len cs).2 = cs
  | _, [] => rfl
  | len, c :: cs => by
    unfold takeFit
    split
    · simp [takeFit_append w (len + c.length) cs]
    · rfl

theorem takeFit_len (w : Nat) : ∀ (len : Nat) (cs : List (List Char)), len ≤ w →
    len + totalLen (takeFit w len cs).1 ≤ w
  | _, [], h => by simpa [takeFit] using h
  | len, c :: cs, h => by
    unfold takeFit
    split
    · next hc =>
      have := takeFit_len w (len + c.length) cs hc
      simp only [totalLen_cons]
      omega
    · simpa using h

/-- the chunk at which `takeFit` stops does not fit -/
theorem takeFit_snd (w : Nat) : ∀ (len : Nat) (cs : List (List Char)) (c : List Char)
    (rest : List (List Char)), (takeFit w len cs).2 = c :: rest →
    w < len + totalLen (takeFit w len cs).1 + c.length
  | _, [], c, rest, h => by simp [takeFit] at h
  | len, d :: cs, c, rest, h => by
    unfold takeFit at h ⊢
    split
    · next hc =>
      rw [if_pos hc] at h
      have := takeFit_snd w (len + d.length) cs c rest h
      simp only [totalLen_cons]
      omega
    · next hc =>
      rw [if_neg hc] at h
      simp only [List.cons.injEq] at h
      obtain ⟨rfl, _⟩ := h
      simp only [totalLen_nil]
      omega

/-! ### `cutPoint` -/

theorem rfindHyphen_lt (chunk : List Char) : ∀ (space h : Nat),
    rfindHyphen chunk space = some h → h < space
  | 0, h, hh => by simp [rfindHyphen] at hh
  | space + 1, h, hh => by
    unfold rfindHyphen at hh
    split at hh
    · simp only [Option.some.injEq] at hh; omega
    · have := rfindHyphen_lt chunk space h hh; omega

theorem cutPoint_le (chunk : List Char) (space : Nat) : cutPoint chunk space ≤ space := by
  unfold cutPoint
  split
  · next h hh =>
    have := rfindHyphen_lt chunk space h hh
    split <;> omega
  · exact Nat.le_refl _

theorem cutPoint_pos (chunk : List Char) (space : Nat) (hs : 1 ≤ space) :
    1 ≤ cutPoint chunk space := by
  unfold cutPoint
  split
  · split <;> omega
  · exact hs

/-! ### `breakLong` -/

theorem breakLong_flatten (w curLen : Nat) (cur rest : List (List Char)) :
    (breakLong w curLen cur rest).1.flatten ++ (breakLong w curLen cur rest).2.flatten =
      cur.flatten ++ rest.flatten := by
  cases rest with
  | nil => rfl
  | cons c cs =>
    simp only [breakLong]
    split
    · simp only [List.flatten_append, List.flatten_cons, List.flatten_nil, List.append_nil,
        List.append_assoc]
      rw [← List.append_assoc (c.take _), List.take_append_drop]
    · rfl

theorem breakLong_snd_measure (w curLen : Nat) (cur rest : List (List Char)) :
    wrapMeasure (breakLong w curLen cur rest).2 ≤ wrapMeasure rest := by
  cases rest with
  | nil => simp [breakLong]
  | cons c cs =>
    simp only [breakLong]
    split
    · simp only [wrapMeasure_cons, List.length_drop]; omega
    · exact Nat.le_refl _

theorem breakLong_snd_ne (w curLen : Nat) (cur rest : List (List Char))
    (h : ∀ c ∈ rest, c ≠ []) : ∀ c ∈ (breakLong w curLen cur rest).2, c ≠ [] := by
  cases rest with
  | nil => simp [breakLong]
  | cons c cs =>
    simp only [breakLong]
    split
    · next hc =>
      intro d hd
      simp only [List.mem_cons] at hd
      rcases hd with rfl | hd
      · have := cutPoint_le c (w - curLen)
        intro h0
        have := congrArg List.length h0
        simp only [List.length_drop, List.length_nil] at this
        omega
      · exact h d (by simp [hd])
    · exact h

/-- what `breakLong` appends to the current line has room on it -/
theorem breakLong_fst_len (w curLen : Nat) (cur rest : List (List Char)) (hc : totalLen cur = curLen)
    (hle : curLen ≤ w) : totalLen (breakLong w curLen cur rest).1 ≤ w := by
  cases rest with
  | nil => simpa [breakLong, hc] using hle
  | cons c cs =>
    simp only [breakLong]
    split
    · have := cutPoint_le c (w - curLen)
      simp only [totalLen_append, totalLen_cons, totalLen_nil, List.length_take]
      omega
    · simpa [hc] using hle

/-! ### `wrapStep` decreases the measure -/

theorem fitBreak_measure (w : Nat) (hw : 1 ≤ w) (cs : List (List Char)) (hch : ∀ c ∈ cs, c ≠ []) :
    wrapMeasure (breakLong w (totalLen (takeFit w 0 cs).1) (takeFit w 0 cs).1 (takeFit w 0 cs).2).2
        ≤ wrapMeasure cs ∧
    (cs ≠ [] →
      wrapMeasure (breakLong w (totalLen (takeFit w 0 cs).1) (takeFit w 0 cs).1 (takeFit w 0 cs).2).2
        < wrapMeasure cs) := by
  cases cs with
  | nil => simp [takeFit, breakLong]
  | cons c cs =>
    have hlt : wrapMeasure (breakLong w (totalLen (takeFit w 0 (c :: cs)).1) (takeFit w 0 (c :: cs)).1
        (takeFit w 0 (c :: cs)).2).2 < wrapMeasure (c :: cs) := by
      by_cases hc : 0 + c.length ≤ w
      · have h1 := breakLong_snd_measure w (totalLen (takeFit w 0 (c :: cs)).1)
          (takeFit w 0 (c :: cs)).1 (takeFit w 0 (c :: cs)).2
        have h2 := congrArg wrapMeasure (takeFit_append w 0 (c :: cs))
        have h3 : (takeFit w 0 (c :: cs)).1 = c :: (takeFit w (0 + c.length) cs).1 := by
          rw [takeFit, if_pos hc]
        rw [wrapMeasure_append, h3, wrapMeasure_cons] at h2
        omega
      · have h3 : takeFit w 0 (c :: cs) = ([], c :: cs) := by rw [takeFit, if_neg hc]
        rw [h3]
        have hc' : w < c.length := by omega
        simp only [totalLen_nil, breakLong, if_pos hc', wrapMeasure_cons, List.length_drop]
        have := cutPoint_pos c (w - 0) (by omega)
        omega
    exact ⟨Nat.le_of_lt hlt, fun _ => hlt⟩

theorem wrapStep_snd (cc : CharClass) (w : Nat) (haveLines : Bool) (chunks : List (List Char)) :
    (wrapStep cc w haveLines chunks).2 =
      (breakLong w (totalLen (takeFit w 0 (dropLead cc haveLines chunks)).1)
        (takeFit w 0 (dropLead cc haveLines chunks)).1
        (takeFit w 0 (dropLead cc haveLines chunks)).2).2 := rfl

theorem wrapStep_decreases' (cc : CharClass) (w : Nat) (hw : 1 ≤ w) (haveLines : Bool)
    (chunks : List (List Char)) (hne : chunks ≠ []) (hch : ∀ c ∈ chunks, c ≠ []) :
    wrapMeasure (wrapStep cc w haveLines chunks).2 < wrapMeasure chunks ∧
    (∀ c ∈ (wrapStep cc w haveLines chunks).2, c ≠ []) := by
  rw [wrapStep_snd]
  have hsub : ∀ c ∈ dropLead cc haveLines chunks, c ≠ [] := by
    rcases dropLead_cases cc haveLines chunks with h | ⟨c, h, _⟩
    · rw [h]; exact hch
    · intro d hd; exact hch d (by rw [h]; simp [hd])
  constructor
  · have hm := fitBreak_measure w hw (dropLead cc haveLines chunks) hsub
    rcases dropLead_cases cc haveLines chunks with h | ⟨c, h, _⟩
    · rw [h] at hm ⊢
      exact hm.2 hne
    · have h2 := congrArg wrapMeasure h
      rw [wrapMeasure_cons] at h2
      omega
  · apply breakLong_snd_ne
    intro c hc
    apply hsub
    rw [← takeFit_append w 0 (dropLead cc haveLines chunks)]
    simp [hc]

/-! ### `dropTrail` -/

@[simp] theorem dropTrail_nil (cc : CharClass) : dropTrail cc [] = [] := rfl

theorem dropTrail_concat (cc : CharClass) (cur : List (List Char)) (p : List Char) :
    dropTrail cc (cur ++ [p]) = if blank cc p = true then cur else cur ++ [p] := by
  simp [dropTrail]

theorem dropTrail_cases (cc : CharClass) (cur : List (List Char)) :
    dropTrail cc cur = cur ∨ ∃ l, cur = dropTrail cc cur ++ [l] ∧ blank cc l = true := by
  rcases List.eq_nil_or_concat cur with rfl | ⟨init, l, rfl⟩
  · left; rfl
  · rw [List.concat_eq_append, dropTrail_concat]
    split
    · next h => right; exact ⟨l, rfl, h⟩
    · left; rfl

/-! ### the structure of one step -/

/-- the chunks of the current line before the trailing blank chunk is dropped -/
def stepCur (cc : CharClass) (w : Nat) (haveLines : Bool) (chunks : List (List Char)) :
    List (List Char) :=
  (breakLong w (totalLen (takeFit w 0 (dropLead cc haveLines chunks)).1)
    (takeFit w 0 (dropLead cc haveLines chunks)).1
    (takeFit w 0 (dropLead cc haveLines chunks)).2).1

theorem wrapStep_fst (cc : CharClass) (w : Nat) (haveLines : Bool) (chunks : List (List Char)) :
    (wrapStep cc w haveLines chunks).1 =
      if (dropTrail cc (stepCur cc w haveLines chunks)).isEmpty then none
      else some (dropTrail cc (stepCur cc w haveLines chunks)).flatten := rfl

theorem wrapStep_fst_some (cc : CharClass) (w : Nat) (haveLines : Bool) (chunks : List (List Char))
    (l : List Char) (h : (wrapStep cc w haveLines chunks).1 = some l) :
    dropTrail cc (stepCur cc w haveLines chunks) ≠ [] ∧
    l = (dropTrail cc (stepCur cc w haveLines chunks)).flatten := by
  rw [wrapStep_fst] at h
  split at h
  · cases h
  · next hne =>
    simp only [Option.some.injEq] at h
    exact ⟨by simpa using hne, h.symm⟩

theorem wrapStep_fst_getD (cc : CharClass) (w : Nat) (haveLines : Bool) (chunks : List (List Char)) :
    (wrapStep cc w haveLines chunks).1.getD [] =
      (dropTrail cc (stepCur cc w haveLines chunks)).flatten := by
  rw [wrapStep_fst]
  split
  · next h =>
    simp only [List.isEmpty_iff] at h
    simp [h]
  · rfl

theorem stepCur_flatten (cc : CharClass) (w : Nat) (haveLines : Bool) (chunks : List (List Char)) :
    (stepCur cc w haveLines chunks).flatten ++ (wrapStep cc w haveLines chunks).2.flatten =
      (dropLead cc haveLines chunks).flatten := by
  rw [wrapStep_snd, stepCur, breakLong_flatten, ← List.flatten_append, takeFit_append]

/-- One step splits the characters of the chunks into: a dropped leading blank chunk, the line,
a dropped trailing blank chunk, the characters left. -/
theorem wrapStep_struct (cc : CharClass) (w : Nat) (haveLines : Bool) (chunks : List (List Char)) :
    ∃ lead trail : List Char,
      chunks.flatten = lead ++ (wrapStep cc w haveLines chunks).1.getD [] ++ trail ++
        (wrapStep cc w haveLines chunks).2.flatten ∧
      blank cc lead = true ∧ blank cc trail = true := by
  have h1 := stepCur_flatten cc w haveLines chunks
  rw [wrapStep_fst_getD]
  obtain ⟨lead, hlead, hbl⟩ : ∃ lead, chunks.flatten = lead ++ (dropLead cc haveLines chunks).flatten ∧
      blank cc lead = true := by
    rcases dropLead_cases cc haveLines chunks with h | ⟨c, h, hb, _⟩
    · exact ⟨[], by rw [h]; rfl, rfl⟩
    · exact ⟨c, by conv => lhs; rw [h, List.flatten_cons], hb⟩
  obtain ⟨trail, htrail, hbt⟩ : ∃ trail, (stepCur cc w haveLines chunks).flatten =
      (dropTrail cc (stepCur cc w haveLines chunks)).flatten ++ trail ∧ blank cc trail = true := by
    rcases dropTrail_cases cc (stepCur cc w haveLines chunks) with h | ⟨l, h, hb⟩
    · exact ⟨[], by rw [h]; simp, rfl⟩
    · exact ⟨l, by conv => lhs; rw [h]; simp, hb⟩
  refine ⟨lead, trail, ?_, hbl, hbt⟩
  rw [hlead, ← h1, htrail]
  simp only [List.append_assoc]

/-- the characters of the line are characters of the chunks -/
theorem wrapStep_line_subset (cc : CharClass) (w : Nat) (haveLines : Bool) (chunks : List (List Char))
    (l : List Char) (h : (wrapStep cc w haveLines chunks).1 = some l) : l ⊆ chunks.flatten := by
  obtain ⟨lead, trail, he, _, _⟩ := wrapStep_struct cc w haveLines chunks
  rw [h] at he
  intro x hx
  rw [he]
  simp [hx]

theorem wrapStep_rest_subset (cc : CharClass) (w : Nat) (haveLines : Bool) (chunks : List (List Char)) :
    (wrapStep cc w haveLines chunks).2.flatten ⊆ chunks.flatten := by
  obtain ⟨lead, trail, he, _, _⟩ := wrapStep_struct cc w haveLines chunks
  intro x hx
  rw [he]
  simp [hx]

/-- a produced line has at most `w` characters -/
theorem wrapStep_line_length (cc : CharClass) (w : Nat) (haveLines : Bool) (chunks : List (List Char))
    (l : List Char) (h : (wrapStep cc w haveLines chunks).1 = some l) : l.length ≤ w := by
  obtain ⟨_, rfl⟩ := wrapStep_fst_some cc w haveLines chunks l h
  have h1 : totalLen (stepCur cc w haveLines chunks) ≤ w :=
    breakLong_fst_len w _ _ _ rfl (by simpa using takeFit_len w 0 (dropLead cc haveLines chunks) (Nat.zero_le _))
  rw [← totalLen_eq_flatten]
  rcases dropTrail_cases cc (stepCur cc w haveLines chunks) with h2 | ⟨p, h2, _⟩
  · rw [h2]; exact h1
  · rw [h2, totalLen_append] at h1; omega

theorem breakLong_fst_cases (w curLen : Nat) (cur rest : List (List Char)) :
    (breakLong w curLen cur rest).1 = cur ∨
    ∃ c : List Char, (breakLong w curLen cur rest).1 = cur ++ [c.take (cutPoint c (w - curLen))] := by
  cases rest with
  | nil => left; rfl
  | cons c cs =>
    simp only [breakLong]
    split
    · right; exact ⟨c, rfl⟩
    · left; rfl

theorem blank_nil (cc : CharClass) : blank cc [] = true := rfl

theorem flatten_ne_nil_of {α} (L : List (List α)) (hne : L ≠ []) (h : ∀ x ∈ L, x ≠ []) :
    L.flatten ≠ [] := by
  cases L with
  | nil => exact absurd rfl hne
  | cons x xs =>
    have := h x (by simp)
    simp [this]

/-- a produced line is not empty -/
theorem wrapStep_line_ne (cc : CharClass) (w : Nat) (haveLines : Bool) (chunks : List (List Char))
    (hch : ∀ c ∈ chunks, c ≠ [])
    (l : List Char) (h : (wrapStep cc w haveLines chunks).1 = some l) : l ≠ [] := by
  obtain ⟨hne, rfl⟩ := wrapStep_fst_some cc w haveLines chunks l h
  apply flatten_ne_nil_of _ hne
  have hfit : ∀ c ∈ (takeFit w 0 (dropLead cc haveLines chunks)).1, c ≠ [] := by
    intro c hc
    have h1 : c ∈ dropLead cc haveLines chunks := by
      rw [← takeFit_append w 0 (dropLead cc haveLines chunks)]; simp [hc]
    rcases dropLead_cases cc haveLines chunks with h | ⟨d, h, _⟩
    · rw [h] at h1; exact hch c h1
    · exact hch c (by rw [h]; simp [h1])
  rcases breakLong_fst_cases w (totalLen (takeFit w 0 (dropLead cc haveLines chunks)).1)
    (takeFit w 0 (dropLead cc haveLines chunks)).1
    (takeFit w 0 (dropLead cc haveLines chunks)).2 with h2 | ⟨c, h2⟩
  · intro x hx
    apply hfit
    rw [stepCur, h2] at hx
    rcases dropTrail_cases cc (takeFit w 0 (dropLead cc haveLines chunks)).1 with h3 | ⟨p, h3, _⟩
    · rwa [h3] at hx
    · rw [h3]; simp [hx]
  · intro x hx
    rw [stepCur, h2, dropTrail_concat] at hx
    split at hx
    · exact hfit x hx
    · next hb =>
      simp only [List.mem_append, List.mem_singleton] at hx
      rcases hx with hx | rfl
      · exact hfit x hx
      · intro h0; rw [h0] at hb; exact hb rfl

/-! ### the wrap loop -/

/-- invariant rule for the lines of the wrap loop -/
theorem wrapLoop_forall (cc : CharClass) (w : Nat) (P : List Char → Prop)
    (Q : List (List Char) → Prop)
    (hstep : ∀ haveLines chunks, chunks ≠ [] → Q chunks →
      Q (wrapStep cc w haveLines chunks).2 ∧
      ∀ l, (wrapStep cc w haveLines chunks).1 = some l → P l)
    (haveLines : Bool) (chunks : List (List Char)) (hq : Q chunks) :
    ∀ l ∈ wrapLoop cc w haveLines chunks, P l := by
  induction haveLines, chunks using wrapLoop.induct cc w with
  | case1 hl => simp [wrapLoop]
  | case2 hl chunks hne hlt l hl' ih =>
    rw [wrapLoop, if_neg hne, if_pos hlt, hl']
    have := hstep hl chunks hne hq
    intro x hx
    simp only [List.mem_cons] at hx
    rcases hx with rfl | hx
    · exact this.2 x hl'
    · exact ih this.1 x hx
  | case3 hl chunks hne hlt hl' ih =>
    rw [wrapLoop, if_neg hne, if_pos hlt, hl']
    exact ih (hstep hl chunks hne hq).1
  | case4 hl chunks hne hlt =>
    rw [wrapLoop, if_neg hne, if_neg hlt]
    simp

theorem wrapLoop_ne (cc : CharClass) (w : Nat) (hw : 1 ≤ w) (haveLines : Bool)
    (chunks : List (List Char)) (hch : ∀ c ∈ chunks, c ≠ []) :
    ∀ l ∈ wrapLoop cc w haveLines chunks, l ≠ [] :=
  wrapLoop_forall cc w (fun l => l ≠ []) (fun chunks => ∀ c ∈ chunks, c ≠ [])
    (fun hl chunks hne hq =>
      ⟨(wrapStep_decreases' cc w hw hl chunks hne hq).2, wrapStep_line_ne cc w hl chunks hq⟩)
    haveLines chunks hch

theorem wrapLoop_length (cc : CharClass) (w : Nat) (haveLines : Bool)
    (chunks : List (List Char)) : ∀ l ∈ wrapLoop cc w haveLines chunks, l.length ≤ w :=
  wrapLoop_forall cc w (fun l => l.length ≤ w) (fun _ => True)
    (fun hl chunks _ _ => ⟨trivial, wrapStep_line_length cc w hl chunks⟩)
    haveLines chunks trivial

theorem wrapLoop_subset (cc : CharClass) (w : Nat) (haveLines : Bool)
    (chunks : List (List Char)) (S : List Char) (hS : chunks.flatten ⊆ S) :
    ∀ l ∈ wrapLoop cc w haveLines chunks, l ⊆ S :=
  wrapLoop_forall cc w (fun l => l ⊆ S) (fun chunks => chunks.flatten ⊆ S)
    (fun hl chunks _ hq =>
      ⟨fun _ hx => hq (wrapStep_rest_subset cc w hl chunks hx),
       fun l h _ hx => hq (wrapStep_line_subset cc w hl chunks l h hx)⟩)
    haveLines chunks hS

/-! ### `splitAux` -/

theorem splitAux_flatten (cc : CharClass) (prev rest : List Char) :
    (splitAux cc prev rest).flatten = rest := by
  induction prev, rest using splitAux.induct cc with
  | case1 prev => simp [splitAux]
  | case2 prev c cs n ih =>
    rw [splitAux]
    simp only [List.flatten_cons, ih, List.cons_append, List.take_append_drop, n]

theorem splitAux_ne (cc : CharClass) (prev rest : List Char) :
    ∀ c ∈ splitAux cc prev rest, c ≠ [] := by
  induction prev, rest using splitAux.induct cc with
  | case1 prev => simp [splitAux]
  | case2 prev c cs n ih =>
    rw [splitAux]
    intro y hy
    simp only [List.mem_cons] at hy
    rcases hy with rfl | hy
    · simp
    · exact ih y hy

/-! ### conservation of the non-blank characters -/

/-- the non-blank characters, in order (`nonSpace` of `Props/C11.lean`) -/
def nsp (cc : CharClass) (l : List Char) : List Char := l.filter fun c => !cc.isSpace c

@[simp] theorem nsp_nil (cc : CharClass) : nsp cc [] = [] := rfl

@[simp] theorem nsp_append (cc : CharClass) (a b : List Char) :
    nsp cc (a ++ b) = nsp cc a ++ nsp cc b := by
  simp [nsp]

theorem nsp_cons_space (cc : CharClass) (c : Char) (l : List Char) (h : cc.isSpace c = true) :
    nsp cc (c :: l) = nsp cc l := by
  simp [nsp, h]

theorem nsp_cons_nonspace (cc : CharClass) (c : Char) (l : List Char) (h : cc.isSpace c = false) :
    nsp cc (c :: l) = c :: nsp cc l := by
  simp [nsp, h]

theorem nsp_blank (cc : CharClass) (l : List Char) (h : blank cc l = true) : nsp cc l = [] := by
  simp only [blank, List.all_eq_true] at h
  simp only [nsp, List.filter_eq_nil_iff]
  intro c hc
  simp [h c hc]

theorem wrapStep_conserve (cc : CharClass) (w : Nat) (haveLines : Bool) (chunks : List (List Char)) :
    nsp cc chunks.flatten = nsp cc ((wrapStep cc w haveLines chunks).1.getD []) ++
      nsp cc (wrapStep cc w haveLines chunks).2.flatten := by
  obtain ⟨lead, trail, he, hl, ht⟩ := wrapStep_struct cc w haveLines chunks
  rw [he]
  simp [nsp_blank cc lead hl, nsp_blank cc trail ht]

theorem wrapLoop_conserve (cc : CharClass) (w : Nat) (hw : 1 ≤ w) (haveLines : Bool)
    (chunks : List (List Char)) (hch : ∀ c ∈ chunks, c ≠ []) :
    nsp cc (wrapLoop cc w haveLines chunks).flatten = nsp cc chunks.flatten := by
  induction haveLines, chunks using wrapLoop.induct cc w with
  | case1 hl => simp [wrapLoop]
  | case2 hl chunks hne hlt l hl' ih =>
    rw [wrapLoop, if_neg hne, if_pos hlt, hl']
    have h1 := wrapStep_conserve cc w hl chunks
    rw [hl'] at h1
    simp only [List.flatten_cons, nsp_append, ih (wrapStep_decreases' cc w hw hl chunks hne hch).2]
    simpa using h1.symm
  | case3 hl chunks hne hlt hl' ih =>
    rw [wrapLoop, if_neg hne, if_pos hlt, hl']
    have h1 := wrapStep_conserve cc w hl chunks
    rw [hl'] at h1
    simp only [ih (wrapStep_decreases' cc w hw hl chunks hne hch).2]
    simpa using h1.symm
  | case4 hl chunks hne hlt =>
    exact absurd (wrapStep_decreases' cc w hw hl chunks hne hch).1 hlt

/-! ### a single blank chunk -/

theorem blank_take (cc : CharClass) (c : List Char) (n : Nat) (h : blank cc c = true) :
    blank cc (c.take n) = true := by
  simp only [blank, List.all_eq_true] at h ⊢
  exact fun x hx => h x (List.mem_of_mem_take hx)

theorem blank_drop (cc : CharClass) (c : List Char) (n : Nat) (h : blank cc c = true) :
    blank cc (c.drop n) = true := by
  simp only [blank, List.all_eq_true] at h ⊢
  exact fun x hx => h x (List.mem_of_mem_drop hx)

theorem wrapStep_single_blank (cc : CharClass) (w : Nat) (c : List Char) (hb : blank cc c = true) :
    (wrapStep cc w false [c]).1 = none ∧
    ((wrapStep cc w false [c]).2 = [] ∨
      ∃ d, (wrapStep cc w false [c]).2 = [d] ∧ blank cc d = true) := by
  by_cases h : c.length ≤ w
  · simp [wrapStep, dropLead, takeFit, h, breakLong, dropTrail, hb]
  · have h' : w < c.length := by omega
    simp [wrapStep, dropLead, takeFit, h, breakLong, dropTrail, h', blank_take cc c _ hb,
      blank_drop cc c _ hb]

theorem wrapLoop_single_blank (cc : CharClass) (w : Nat) (haveLines : Bool)
    (chunks : List (List Char)) (hl : haveLines = false)
    (hc : chunks = [] ∨ ∃ c, chunks = [c] ∧ blank cc c = true) :
    wrapLoop cc w haveLines chunks = [] := by
  induction haveLines, chunks using wrapLoop.induct cc w with
  | case1 hl => simp [wrapLoop]
  | case2 hl' chunks hne hlt l hl'' ih =>
    subst hl
    rcases hc with rfl | ⟨c, rfl, hb⟩
    · exact absurd rfl hne
    · rw [(wrapStep_single_blank cc w c hb).1] at hl''
      cases hl''
  | case3 hl' chunks hne hlt hl'' ih =>
    subst hl
    rcases hc with rfl | ⟨c, rfl, hb⟩
    · exact absurd rfl hne
    · rw [wrapLoop, if_neg hne, if_pos hlt, hl'']
      exact ih rfl (wrapStep_single_blank cc w c hb).2
  | case4 hl' chunks hne hlt =>
    rw [wrapLoop, if_neg hne, if_neg hlt]

/-! ### `munge` -/

theorem isWs6_blank : isWs6 ' ' = true := by decide

theorem nsp_replicate_blank (cc : CharClass) (hs : cc.Sane) (n : Nat) :
    nsp cc (List.replicate n ' ') = [] := by
  apply nsp_blank
  simp only [blank, List.all_eq_true]
  intro c hc
  rw [List.eq_of_mem_replicate hc]
  exact hs.ws6_space _ isWs6_blank

theorem nsp_expandTabs (cc : CharClass) (hs : cc.Sane) (t : List Char) :
    ∀ col, nsp cc (expandTabsAux col t) = nsp cc t := by
  induction t with
  | nil => intro col; rfl
  | cons c cs ih =>
    intro col
    simp only [expandTabsAux]
    split
    · next h =>
      subst h
      rw [nsp_append, nsp_replicate_blank cc hs, ih,
        nsp_cons_space cc '\t' cs (hs.ws6_space _ (by decide))]
      rfl
    · split
      · cases hsp : cc.isSpace c
        · rw [nsp_cons_nonspace _ _ _ hsp, nsp_cons_nonspace _ _ _ hsp, ih]
        · rw [nsp_cons_space _ _ _ hsp, nsp_cons_space _ _ _ hsp, ih]
      · cases hsp : cc.isSpace c
        · rw [nsp_cons_nonspace _ _ _ hsp, nsp_cons_nonspace _ _ _ hsp, ih]
        · rw [nsp_cons_space _ _ _ hsp, nsp_cons_space _ _ _ hsp, ih]

theorem nsp_map_ws (cc : CharClass) (hs : cc.Sane) (u : List Char) :
    nsp cc (u.map (fun c => if isWs6 c then ' ' else c)) = nsp cc u := by
  induction u with
  | nil => rfl
  | cons c cs ih =>
    simp only [List.map_cons]
    split
    · next h =>
      rw [nsp_cons_space _ _ _ (hs.ws6_space _ isWs6_blank), nsp_cons_space _ _ _ (hs.ws6_space _ h), ih]
    · cases hsp : cc.isSpace c
      · rw [nsp_cons_nonspace _ _ _ hsp, nsp_cons_nonspace _ _ _ hsp, ih]
      · rw [nsp_cons_space _ _ _ hsp, nsp_cons_space _ _ _ hsp, ih]

theorem nsp_munge (cc : CharClass) (hs : cc.Sane) (t : List Char) : nsp cc (munge t) = nsp cc t := by
  rw [munge, nsp_map_ws cc hs, nsp_expandTabs cc hs]

/-- the munged text has no line break -/
theorem munge_no_nl (t : List Char) : '\n' ∉ munge t := by
  simp only [munge, List.mem_map, not_exists, not_and]
  intro c _
  split
  · decide
  · next h => intro h2; subst h2; exact h (by decide)

theorem expandTabs_ws (t : List Char) (hb : ∀ c ∈ t, isWs6 c = true) :
    ∀ col, ∀ c ∈ expandTabsAux col t, isWs6 c = true := by
  induction t with
  | nil => intro col c hc; simp [expandTabsAux] at hc
  | cons d ds ih =>
    intro col c hc
    have hd := hb d (by simp)
    have ih' := ih (fun c hc => hb c (by simp [hc]))
    simp only [expandTabsAux] at hc
    split at hc
    · simp only [List.mem_append] at hc
      rcases hc with hc | hc
      · rw [List.eq_of_mem_replicate hc]; exact isWs6_blank
      · exact ih' _ c hc
    · split at hc
      · simp only [List.mem_cons] at hc
        rcases hc with rfl | hc
        · exact hd
        · exact ih' _ c hc
      · simp only [List.mem_cons] at hc
        rcases hc with rfl | hc
        · exact hd
        · exact ih' _ c hc

theorem munge_ws (t : List Char) (hb : ∀ c ∈ t, isWs6 c = true) : ∀ c ∈ munge t, isWs6 c = true := by
  intro c hc
  simp only [munge, List.mem_map] at hc
  obtain ⟨d, hd, rfl⟩ := hc
  rw [if_pos (expandTabs_ws t hb 0 d hd)]
  exact isWs6_blank

theorem takeWhile_all {α} (p : α → Bool) (l : List α) (h : ∀ x ∈ l, p x = true) :
    l.takeWhile p = l := by
  induction l with
  | nil => rfl
  | cons a as ih =>
    rw [List.takeWhile_cons, if_pos (h a (by simp)), ih (fun x hx => h x (by simp [hx]))]

/-- a non-empty run of whitespace is one chunk -/
theorem splitAux_ws (cc : CharClass) (prev : List Char) (c : Char) (rest : List Char)
    (hb : ∀ x ∈ c :: rest, isWs6 x = true) : splitAux cc prev (c :: rest) = [c :: rest] := by
  have hc := hb c (by simp)
  have hr : rest.takeWhile isWs6 = rest := by
    exact takeWhile_all _ _ fun x hx => hb x (by simp [hx])
  rw [splitAux]
  simp only [chunkExtra, if_pos hc, hr, List.take_length, List.drop_length]
  rw [splitAux]

/-! ### `pyWrap` -/

theorem pyWrap_ne (cc : CharClass) (l : List Char) (w : Nat) (hw : 1 ≤ w) :
    ∀ x ∈ pyWrap cc l w, x ≠ [] :=
  wrapLoop_ne cc w hw false _ (splitAux_ne cc [] (munge l))

theorem pyWrap_length (cc : CharClass) (l : List Char) (w : Nat) :
    ∀ x ∈ pyWrap cc l w, x.length ≤ w :=
  wrapLoop_length cc w false _

theorem pyWrap_no_nl (cc : CharClass) (l : List Char) (w : Nat) :
    ∀ x ∈ pyWrap cc l w, '\n' ∉ x := by
  intro x hx hn
  have := wrapLoop_subset cc w false (splitChunks cc (munge l)) (munge l)
    (by rw [splitChunks, splitAux_flatten]; exact fun _ h => h) x hx hn
  exact munge_no_nl l this

theorem pyWrap_conserve (cc : CharClass) (hs : cc.Sane) (l : List Char) (w : Nat) (hw : 1 ≤ w) :
    nsp cc (pyWrap cc l w).flatten = nsp cc l := by
  rw [pyWrap, splitChunks, wrapLoop_conserve cc w hw false _ (splitAux_ne cc [] (munge l)),
    splitAux_flatten, nsp_munge cc hs]

theorem pyWrap_blank' (cc : CharClass) (hs : cc.Sane) (l : List Char) (w : Nat)
    (hb : ∀ c ∈ l, isWs6 c = true) : pyWrap cc l w = [] := by
  apply wrapLoop_single_blank cc w false _ rfl
  have hm := munge_ws l hb
  rw [splitChunks]
  cases hml : munge l with
  | nil => left; rw [splitAux]
  | cons c rest =>
    right
    rw [hml] at hm
    refine ⟨c :: rest, splitAux_ws cc [] c rest hm, ?_⟩
    simp only [blank, List.all_eq_true]
    exact fun x hx => hs.ws6_space x (hm x hx)

end Simpleline
