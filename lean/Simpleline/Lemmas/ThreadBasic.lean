/-
  C19 helper lemmas, part 1: the state-update functions of the thread model, the step relation `TStep`
  (one constructor per enabled case of `tstep`), `run` over concatenation, induction over `TReach`.
-/
import Simpleline.Spec.ThreadSpec

namespace Simpleline.Threads

/-! ### `setPc`, `setQ` -/

@[simp] theorem setPc_queues (s : TState) (t p) : (s.setPc t p).queues = s.queues := rfl
@[simp] theorem setPc_levels (s : TState) (t p) : (s.setPc t p).levels = s.levels := rfl
@[simp] theorem setPc_active (s : TState) (t p) : (s.setPc t p).active = s.active := rfl
@[simp] theorem setPc_mainLock (s : TState) (t p) : (s.setPc t p).mainLock = s.mainLock := rfl
@[simp] theorem setPc_dispatched (s : TState) (t p) : (s.setPc t p).dispatched = s.dispatched := rfl
@[simp] theorem setPc_lastTaken (s : TState) (t p) : (s.setPc t p).lastTaken = s.lastTaken := rfl
@[simp] theorem setPc_completed (s : TState) (t p) : (s.setPc t p).completed = s.completed := rfl

@[simp] theorem setQ_levels (s : TState) (q f) : (s.setQ q f).levels = s.levels := rfl
@[simp] theorem setQ_active (s : TState) (q f) : (s.setQ q f).active = s.active := rfl
@[simp] theorem setQ_mainLock (s : TState) (q f) : (s.setQ q f).mainLock = s.mainLock := rfl
@[simp] theorem setQ_pcs (s : TState) (q f) : (s.setQ q f).pcs = s.pcs := rfl
@[simp] theorem setQ_dispatched (s : TState) (q f) : (s.setQ q f).dispatched = s.dispatched := rfl
@[simp] theorem setQ_lastTaken (s : TState) (q f) : (s.setQ q f).lastTaken = s.lastTaken := rfl
@[simp] theorem setQ_completed (s : TState) (q f) : (s.setQ q f).completed = s.completed := rfl
@[simp] theorem setQ_queues_length (s : TState) (q f) : (s.setQ q f).queues.length = s.queues.length := by
  simp [TState.setQ]

/-- `pc` only looks at the `pcs` component -/
theorem pc_congr {s s' : TState} (h : s'.pcs = s.pcs) (t : Nat) : s'.pc t = s.pc t := by
  simp [TState.pc, h]
/-- `q` only looks at the `queues` component -/
theorem q_congr {s s' : TState} (h : s'.queues = s.queues) (q : Nat) : s'.q q = s.q q := by
  simp [TState.q, h]

@[simp] theorem pc_mk_same (s : TState) (qs lv a m d lt c) (t : Nat) :
    (TState.mk qs lv a m s.pcs d lt c).pc t = s.pc t := rfl
@[simp] theorem q_mk_same (s : TState) (lv a m pcs d lt c) (q : Nat) :
    (TState.mk s.queues lv a m pcs d lt c).q q = s.q q := rfl

@[simp] theorem setQ_pc (s : TState) (q f) (t : Nat) : (s.setQ q f).pc t = s.pc t := rfl
@[simp] theorem setPc_q (s : TState) (t p) (q : Nat) : (s.setPc t p).q q = s.q q := rfl

theorem setPc_pc (s : TState) (t p) (t' : Nat) : (s.setPc t p).pc t' = if t' = t then p else s.pc t' := by
  unfold TState.setPc TState.pc
  simp only [List.getD_eq_getElem?_getD, List.getElem?_set, List.length_append, List.length_replicate]
  by_cases h : t = t'
  · subst h
    have : t < s.pcs.length + (t + 1 - s.pcs.length) := by omega
    simp [this]
  · have h' : ¬ t' = t := fun e => h e.symm
    simp only [h, h', if_false]
    rw [List.getElem?_append]
    split
    · rfl
    · rename_i hl
      rw [List.getElem?_replicate]
      split <;> simp_all

@[simp] theorem setPc_pc_self (s : TState) (t p) : (s.setPc t p).pc t = p := by simp [setPc_pc]
theorem setPc_pc_ne (s : TState) (t p) {t' : Nat} (h : t' ≠ t) : (s.setPc t p).pc t' = s.pc t' := by
  simp [setPc_pc, h]

theorem setQ_q (s : TState) (q f) (q' : Nat) :
    (s.setQ q f).q q' = if q' = q ∧ q < s.queues.length then f (s.q q) else s.q q' := by
  unfold TState.setQ TState.q
  simp only [List.getD_eq_getElem?_getD, List.getElem?_modify]
  by_cases h : q = q'
  · subst h
    by_cases hl : q < s.queues.length
    · simp [hl]
    · simp [hl]
  · have h' : ¬ q' = q := fun e => h e.symm
    simp [h, h']

theorem setQ_q_self (s : TState) (q f) (h : q < s.queues.length) : (s.setQ q f).q q = f (s.q q) := by
  simp [setQ_q, h]
theorem setQ_q_ne (s : TState) (q f) {q' : Nat} (h : q' ≠ q) : (s.setQ q f).q q' = s.q q' := by
  simp [setQ_q, h]

theorem q_of_not_lt (s : TState) {q : Nat} (h : ¬ q < s.queues.length) : s.q q = {} := by
  unfold TState.q
  have : s.queues[q]? = none := by simp; omega
  simp [List.getD_eq_getElem?_getD, this]

/-- the queue table after `execute_new_loop` created a queue -/
theorem q_append (qs : List TQ) (q : Nat) :
    (qs ++ [({} : TQ)]).getD q {} = qs.getD q {} := by
  simp only [List.getD_eq_getElem?_getD, List.getElem?_append]
  split
  · rfl
  · rename_i h
    have : qs[q]? = none := by simp; omega
    rw [this]
    by_cases h' : q - qs.length = 0 <;> simp [h']

@[simp] theorem q_mk_append (s : TState) (lv a m pcs d lt c) (q : Nat) :
    (TState.mk (s.queues ++ [({} : TQ)]) lv a m pcs d lt c).q q = s.q q := q_append s.queues q

attribute [grind =] setPc_queues setPc_levels setPc_active setPc_mainLock setPc_dispatched setPc_lastTaken
  setPc_completed setQ_levels setQ_active setQ_mainLock setQ_pcs setQ_dispatched setQ_lastTaken setQ_completed
  setQ_queues_length pc_mk_same q_mk_same setQ_pc setPc_q setPc_pc setQ_q q_mk_append

/-! ### the predicates on code positions compute on constructors (equation lemmas as simp rules; the
predicates are never unfolded on a variable) -/

attribute [simp] PC.holdsMain.eq_1 PC.holdsMain.eq_2 PC.holdsMain.eq_3 PC.holdsMain.eq_4 PC.holdsMain.eq_5
  PC.holdsMain.eq_6 PC.holdsMain.eq_7 PC.holdsMain.eq_8 PC.holdsMain.eq_9 PC.holdsMain.eq_10
  PC.holdsMain.eq_11 PC.holdsMain.eq_12 PC.holdsMain.eq_13 PC.holdsMain.eq_14 PC.holdsMain.eq_15
attribute [simp] PC.holdsSrc.eq_1 PC.holdsSrc.eq_2 PC.holdsSrc.eq_3 PC.holdsSrc.eq_4 PC.holdsSrc.eq_5
attribute [simp] PC.holdsOrd.eq_1 PC.holdsOrd.eq_2 PC.holdsOrd.eq_3
attribute [simp] PC.isSub.eq_1 PC.isSub.eq_2 PC.isSub.eq_3 PC.isSub.eq_4 PC.isSub.eq_5 PC.isSub.eq_6
  PC.isSub.eq_7 PC.isSub.eq_8 PC.isSub.eq_9 PC.isSub.eq_10 PC.isSub.eq_11 PC.isSub.eq_12 PC.isSub.eq_13
attribute [simp] PC.preId.eq_1 PC.preId.eq_2 PC.preId.eq_3 PC.preId.eq_4 PC.preId.eq_5 PC.preId.eq_6
  PC.preId.eq_7 PC.preId.eq_8 PC.preId.eq_9 PC.preId.eq_10 PC.preId.eq_11 PC.preId.eq_12 PC.preId.eq_13
  PC.preId.eq_14
attribute [simp] PC.valid.eq_1 PC.valid.eq_2 PC.valid.eq_3 PC.valid.eq_4 PC.valid.eq_5 PC.valid.eq_6
  PC.valid.eq_7 PC.valid.eq_8 PC.valid.eq_9 PC.valid.eq_10 PC.valid.eq_11 PC.valid.eq_12 PC.valid.eq_13
  PC.valid.eq_14
attribute [simp] PC.snapOK.eq_1 PC.snapOK.eq_2 PC.snapOK.eq_3 PC.snapOK.eq_4 PC.snapOK.eq_5 PC.snapOK.eq_6
  PC.snapOK.eq_7
attribute [simp] PC.postId.eq_1 PC.postId.eq_2 PC.postId.eq_3
attribute [simp] PC.activeOK.eq_1 PC.activeOK.eq_2 PC.activeOK.eq_3 PC.activeOK.eq_4 PC.activeOK.eq_5

/-! ### the step relation -/

/-- `tstep`, one constructor per enabled case -/
inductive TStep (s : TState) (t : Nat) : Ev → TState → Prop
  | submit (sg) (hpc : s.pc t = .idle) : TStep s t (.submit sg) (s.setPc t (.wantMain sg))
  | acqMainSub (sg) (hpc : s.pc t = .wantMain sg) (hl : s.mainLock = none) :
      TStep s t .acqMain ({ s with mainLock := some t }.setPc t (.iterStart sg))
  | lvIter (sg) (hpc : s.pc t = .iterStart sg) :
      TStep s t (.lvIter s.levels) (s.setPc t (.iter sg s.levels.reverse))
  | askAcq (sg q todo) (hpc : s.pc t = .iter sg (q :: todo)) (hl : (s.q q).srcLock = none) :
      TStep s t (.acqQ q) ((s.setQ q fun x => { x with srcLock := some t }).setPc t (.asking sg q todo))
  | contains (sg q todo res) (hpc : s.pc t = .asking sg q todo)
      (hres : res = match sg.src with | some n => (s.q q).sources.contains n | none => false) :
      TStep s t (.contains q sg.src res) (s.setPc t (.asked sg q todo res))
  | askRelYes (sg q todo) (hpc : s.pc t = .asked sg q todo true) :
      TStep s t (.relQ q) ((s.setQ q fun x => { x with srcLock := none }).setPc t (.putAcq sg q true))
  | askRelNo (sg q todo) (hpc : s.pc t = .asked sg q todo false) :
      TStep s t (.relQ q) ((s.setQ q fun x => { x with srcLock := none }).setPc t (.iter sg todo))
  | relMainNotFound (sg) (hpc : s.pc t = .iter sg []) (hl : s.mainLock = some t) :
      TStep s t .relMain ({ s with mainLock := none }.setPc t (.fallback sg))
  | acqO (sg q found) (hpc : s.pc t = .putAcq sg q found) (hl : (s.q q).ordLock = none) :
      TStep s t (.acqO q) ((s.setQ q fun x => { x with ordLock := some t }).setPc t (.putDo sg q found))
  | put (sg q found) (hpc : s.pc t = .putDo sg q found) :
      TStep s t (.put q sg.sid sg.prio (s.q q).seq)
        ((s.setQ q fun x => { x with entries := (sg.prio, x.seq, sg.sid) :: x.entries, seq := x.seq + 1 }).setPc t
          (.putRel sg q found))
  | relOFound (sg q) (hpc : s.pc t = .putRel sg q true) :
      TStep s t (.relO q) ((s.setQ q fun x => { x with ordLock := none }).setPc t (.relFound sg))
  | relONotFound (sg q) (hpc : s.pc t = .putRel sg q false) :
      TStep s t (.relO q)
        ({ (s.setQ q fun x => { x with ordLock := none }) with completed := sg.sid :: s.completed }.setPc t .idle)
  | relMainFound (sg) (hpc : s.pc t = .relFound sg) (hl : s.mainLock = some t) :
      TStep s t .relMain ({ s with mainLock := none, completed := sg.sid :: s.completed }.setPc t .idle)
  | fallbackRead (sg) (hpc : s.pc t = .fallback sg) :
      TStep s t (.activeRead s.active) (s.setPc t (.putAcq sg s.active false))
  | newLoop (seed) (hpc : s.pc t = .idle) (ht : t = 0) :
      TStep s t (.newLoop seed) (s.setPc t (.nlLock s.queues.length seed))
  | nlWrite (seed) (hpc : s.pc t = .nlLock s.queues.length seed) :
      TStep s t (.activeWrite s.queues.length)
        ({ s with queues := s.queues ++ [({} : TQ)], active := s.queues.length }.setPc t
          (.nlRead s.queues.length seed))
  | nlAcq (q seed) (hpc : s.pc t = .nlRead q seed) (hl : s.mainLock = none) :
      TStep s t .acqMain ({ s with mainLock := some t }.setPc t (.nlAppend q seed))
  | nlReadActive (seed) (hpc : s.pc t = .nlAppend s.active seed) : TStep s t (.activeRead s.active) s
  | nlAppend (q seed) (hpc : s.pc t = .nlAppend q seed) (hl : s.mainLock = some t) :
      TStep s t (.lvAppend q) ({ s with levels := s.levels ++ [q] }.setPc t (.nlRel q seed))
  | nlRel (q seed) (hpc : s.pc t = .nlRel q seed) (hl : s.mainLock = some t) :
      TStep s t .relMain ({ s with mainLock := none }.setPc t (.wantMain seed))
  | clAcq (hpc : s.pc t = .idle) (ht : t = 0) (hl : s.mainLock = none) :
      TStep s t .acqMain ({ s with mainLock := some t }.setPc t .clHold)
  | clPop (q) (hpc : s.pc t = .clHold) (hl : s.mainLock = some t) (hq : s.levels.getLast? = some q) :
      TStep s t (.lvPop q) ({ s with levels := s.levels.dropLast }.setPc t .clPopped)
  | clTop (q) (hpc : s.pc t = .clPopped) (hq : s.levels.getLast? = some q) :
      TStep s t (.lvTop q) (s.setPc t (.clSetActive q))
  | clExit (hpc : s.pc t = .clPopped) (hl : s.mainLock = some t) (hq : s.levels = []) :
      TStep s t .relMain ({ s with mainLock := none }.setPc t .idle)
  | clWrite (q) (hpc : s.pc t = .clSetActive q) :
      TStep s t (.activeWrite q) ({ s with active := q }.setPc t .clRel)
  | clRel (hpc : s.pc t = .clRel) (hl : s.mainLock = some t) :
      TStep s t .relMain ({ s with mainLock := none }.setPc t .idle)
  | regSource (src) (hpc : s.pc t = .idle) (ht : t = 0) :
      TStep s t (.regSource src) (s.setPc t (.srcWant s.active src))
  | srcAcq (q src) (hpc : s.pc t = .srcWant q src) (hl : (s.q q).srcLock = none) :
      TStep s t (.acqQ q) ((s.setQ q fun x => { x with srcLock := some t }).setPc t (.srcHold q src))
  | addSource (q src) (hpc : s.pc t = .srcHold q src) (hl : (s.q q).srcLock = some t) :
      TStep s t (.addSource q src)
        ((s.setQ q fun x => { x with sources := if x.sources.contains src then x.sources else src :: x.sources }).setPc t
          (.srcAdded q))
  | srcRel (q) (hpc : s.pc t = .srcAdded q) :
      TStep s t (.relQ q) ((s.setQ q fun x => { x with srcLock := none }).setPc t .idle)
  | idleRead (hpc : s.pc t = .idle) (ht : t = 0) : TStep s t (.activeRead s.active) s
  | srcRead (q src) (hpc : s.pc t = .srcWant q src) : TStep s t (.activeRead q) s
  | get (m) (hpc : s.pc t = .idle) (ht : t = 0) (hm : minEntry (s.q s.active).entries = some m) :
      TStep s t (.get s.active m.2.2)
        { (s.setQ s.active fun x => { x with entries := x.entries.erase m }) with
            dispatched := (s.active, m.2.2) :: s.dispatched, lastTaken := some (s.active, m) }
  | putBack (q m d ds) (hpc : s.pc t = .idle) (ht : t = 0) (hlt : s.lastTaken = some (q, m))
      (hd : s.dispatched = d :: ds) :
      TStep s t (.putBack q m.2.2)
        { (s.setQ q fun x => { x with entries := m :: x.entries }) with dispatched := ds, lastTaken := none }

theorem tstep_sound {s : TState} {t : Nat} {e : Ev} {s' : TState} (h : tstep s t e = some s') :
    TStep s t e s' := by
  unfold tstep at h
  split at h
  all_goals (try split at h)
  all_goals (try split at h)
  all_goals (try split at h)
  all_goals (try contradiction)
  all_goals (injection h with h; subst h)
  all_goals (try (constructor <;> assumption))
  all_goals (try simp only [Bool.not_eq_true] at *)
  all_goals (repeat (rename_i hh; obtain ⟨_, _⟩ := hh))
  all_goals subst_vars
  all_goals (try (constructor <;> assumption))
  all_goals first
    | exact TStep.contains _ _ _ _ ‹_› (by simp [*])
    | exact TStep.askRelYes _ _ _ ‹_›
    | exact TStep.askRelNo _ _ _ ‹_›
    | exact TStep.clAcq ‹_› rfl ‹_›
    | exact TStep.clRel ‹_› ‹_›
    | exact TStep.idleRead ‹_› rfl
    | exact TStep.putBack _ _ _ _ ‹_› rfl ‹_› ‹_›
    | (obtain ⟨rfl, rfl⟩ := ‹_ ∧ _›; refine TStep.get _ ?_ rfl ?_ <;> assumption)

/-! ### schedules -/

theorem run_append (s : TState) (a b : List (Nat × Ev)) :
    run s (a ++ b) = (run s a).bind fun s' => run s' b := by
  induction a generalizing s with
  | nil => simp [run]
  | cons x a ih =>
    obtain ⟨t, e⟩ := x
    simp only [List.cons_append, run]
    cases tstep s t e with
    | none => simp
    | some s1 => simpa using ih s1

theorem run_snoc {s : TState} {a : List (Nat × Ev)} {t : Nat} {e : Ev} {s' : TState} :
    run s (a ++ [(t, e)]) = some s' ↔ ∃ s1, run s a = some s1 ∧ tstep s1 t e = some s' := by
  rw [run_append]
  cases run s a with
  | none => simp
  | some s1 =>
    simp only [Option.bind_some, run, Option.some.injEq, exists_eq_left']
    cases tstep s1 t e <;> simp

theorem run_append_some {s : TState} {a b : List (Nat × Ev)} {s' : TState} :
    run s (a ++ b) = some s' ↔ ∃ s1, run s a = some s1 ∧ run s1 b = some s' := by
  rw [run_append]
  cases run s a <;> simp

/-- induction over accepted schedules, from the left end (the history grows at the right) -/
theorem run_induction {init : TState} {P : List (Nat × Ev) → TState → Prop} (h0 : P [] init)
    (hstep : ∀ pre s t e s', run init pre = some s → P pre s → TStep s t e s' →
      run init (pre ++ [(t, e)]) = some s' → P (pre ++ [(t, e)]) s') :
    ∀ sched s, run init sched = some s → P sched s := by
  have aux : ∀ sched pre s0 s, run init pre = some s0 → P pre s0 → run s0 sched = some s → P (pre ++ sched) s := by
    intro sched
    induction sched with
    | nil => intro pre s0 s _ hp hr; simp only [run, Option.some.injEq] at hr; subst hr; simpa using hp
    | cons x rest ih =>
      intro pre s0 s hpre hp hr
      obtain ⟨t, e⟩ := x
      simp only [run] at hr
      cases hs : tstep s0 t e with
      | none => simp [hs] at hr
      | some s1 =>
        simp only [hs] at hr
        have h1 : run init (pre ++ [(t, e)]) = some s1 := run_snoc.2 ⟨s0, hpre, hs⟩
        have := ih (pre ++ [(t, e)]) s1 s h1 (hstep pre s0 t e s1 hpre hp (tstep_sound hs) h1) hr
        simpa using this
  intro sched s hr
  simpa using aux sched [] init s rfl h0 hr

/-- induction over reachable states -/
theorem treach_induction {src0 : List Nat} {P : TState → Prop} (h0 : P (initState src0))
    (hstep : ∀ s t e s', TReach src0 s → P s → TStep s t e s' → P s') :
    ∀ s, TReach src0 s → P s := by
  intro s ⟨sched, hr⟩
  exact run_induction (P := fun _ s => P s) h0
    (fun pre s t e s' hpre hp hs _ => hstep s t e s' ⟨pre, hpre⟩ hp hs) sched s hr

end Simpleline.Threads
