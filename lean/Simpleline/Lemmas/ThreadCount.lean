/-
  C19 helper lemmas, part 4: the multiset of signal ids is conserved — at every moment the ids submitted so far
  are exactly (as a multiset) the ids still in the hands of submitting threads, the ids waiting in queues and
  the ids dispatched.
-/
import Simpleline.Lemmas.ThreadQueue

namespace Simpleline.Threads
open List

theorem count_flatMap_modify {α : Type} (g : α → List Nat) (f : α → α) (l : List α) (q : Nat) (d : α)
    (h : q < l.length) (a : Nat) :
    count a ((l.modify q f).flatMap g) + count a (g (l.getD q d)) =
      count a (l.flatMap g) + count a (g (f (l.getD q d))) := by
  induction l generalizing q with
  | nil => simp at h
  | cons x l ih =>
    cases q with
    | zero => simp [count_append]; omega
    | succ q =>
      have := ih q (by simpa using h)
      simp [count_append] at this ⊢
      omega

theorem count_flatMap_set {α : Type} (g : α → List Nat) (l : List α) (t : Nat) (p d : α)
    (h : t < l.length) (a : Nat) :
    count a ((l.set t p).flatMap g) + count a (g (l.getD t d)) = count a (l.flatMap g) + count a (g p) := by
  induction l generalizing t with
  | nil => simp at h
  | cons x l ih =>
    cases t with
    | zero => simp [count_append]; omega
    | succ t =>
      have := ih t (by simpa using h)
      simp [count_append] at this ⊢
      omega

theorem flatMap_modify_of_eq {α β : Type} (g : α → List β) (f : α → α) (l : List α) (q : Nat)
    (h : ∀ x, g (f x) = g x) : (l.modify q f).flatMap g = l.flatMap g := by
  induction l generalizing q with
  | nil => simp
  | cons x l ih =>
    cases q with
    | zero => simp [h]
    | succ q => simp [ih]

/-- how often id `a` occurs: in the hands of submitting threads, in queues, dispatched -/
def TState.cnt (s : TState) (a : Nat) : Nat :=
  count a s.preIds + count a s.entryIds + count a s.dispatchedIds

@[simp] theorem preIds_setQ (s : TState) (q f) : (s.setQ q f).preIds = s.preIds := rfl
@[simp] theorem entryIds_setPc (s : TState) (t p) : (s.setPc t p).entryIds = s.entryIds := rfl
@[simp] theorem preIds_mk_same (s : TState) (qs lv a m d lt c) :
    (TState.mk qs lv a m s.pcs d lt c).preIds = s.preIds := rfl
@[simp] theorem entryIds_mk_same (s : TState) (lv a m pcs d lt c) :
    (TState.mk s.queues lv a m pcs d lt c).entryIds = s.entryIds := rfl
@[simp] theorem entryIds_mk_append (s : TState) (lv a m pcs d lt c) :
    (TState.mk (s.queues ++ [({} : TQ)]) lv a m pcs d lt c).entryIds = s.entryIds := by
  simp [TState.entryIds]

theorem count_preIds_setPc (s : TState) (t : Nat) (p : PC) (a : Nat) :
    count a (s.setPc t p).preIds + count a (s.pc t).preId = count a s.preIds + count a p.preId := by
  unfold TState.setPc TState.preIds TState.pc
  have h1 : t < (s.pcs ++ List.replicate (t + 1 - s.pcs.length) PC.idle).length := by simp; omega
  have h2 := count_flatMap_set PC.preId _ t p PC.idle h1 a
  have h3 : (s.pcs ++ List.replicate (t + 1 - s.pcs.length) PC.idle).getD t PC.idle = s.pcs.getD t PC.idle := by
    simp only [List.getD_eq_getElem?_getD, List.getElem?_append]
    split
    · rfl
    · rename_i hl
      have : s.pcs[t]? = none := by simp; omega
      rw [this, List.getElem?_replicate]
      split <;> rfl
  have h4 : (s.pcs ++ List.replicate (t + 1 - s.pcs.length) PC.idle).flatMap PC.preId = s.pcs.flatMap PC.preId := by
    simp [List.flatMap_append, List.flatMap_replicate]
  rw [h3, h4] at h2
  exact h2

theorem count_preId_le (s : TState) (t : Nat) (a : Nat) : count a (s.pc t).preId ≤ count a s.preIds := by
  unfold TState.preIds TState.pc
  by_cases h : t < s.pcs.length
  · have : s.pcs.getD t PC.idle = s.pcs[t] := by simp [List.getD_eq_getElem?_getD, h]
    rw [this]
    have hm : s.pcs[t] ∈ s.pcs := List.getElem_mem h
    generalize s.pcs[t] = x at hm
    obtain ⟨l1, l2, hl⟩ := List.append_of_mem hm
    rw [hl]; simp [count_append]; omega
  · have : s.pcs.getD t PC.idle = PC.idle := by
      have : s.pcs[t]? = none := by simp; omega
      simp [List.getD_eq_getElem?_getD, this]
    rw [this]; simp

theorem count_preIds_setPc_sub (s : TState) (t : Nat) (p : PC) (a : Nat) :
    count a (s.setPc t p).preIds = count a s.preIds + count a p.preId - count a (s.pc t).preId := by
  have := count_preIds_setPc s t p a; omega

theorem count_entryIds_setQ (s : TState) (q : Nat) (f : TQ → TQ) (a : Nat) (h : q < s.queues.length) :
    count a (s.setQ q f).entryIds + count a ((s.q q).entries.map (·.2.2)) =
      count a s.entryIds + count a ((f (s.q q)).entries.map (·.2.2)) :=
  count_flatMap_modify (fun x : TQ => x.entries.map fun y : Int × Nat × Nat => y.2.2) f s.queues q {} h a

theorem entryIds_setQ_same (s : TState) (q : Nat) (f : TQ → TQ) (h : ∀ x, (f x).entries = x.entries) :
    (s.setQ q f).entryIds = s.entryIds :=
  flatMap_modify_of_eq _ f s.queues q (fun x => by simp [h x])

variable {s s' : TState} {t : Nat} {e : Ev}

theorem cnt_step (h : TInv s) (hq : QInv s) (hs : TStep s t e s') (a : Nat) :
    s'.cnt a = s.cnt a + count a e.newId := by
  have hle := count_preId_le s t a
  have hv := h.valid t
  have hact := h.actValid
  unfold TState.cnt TState.dispatchedIds
  cases hs
  case put sg q f hpc =>
    simp only [hpc, PC.valid.eq_5] at hv
    have := count_entryIds_setQ s q (fun x => { x with entries := (sg.prio, x.seq, sg.sid) :: x.entries, seq := x.seq + 1 }) a hv
    simp [hpc, count_preIds_setPc_sub, Ev.newId, count_cons] at hle this ⊢
    omega
  case get m hpc ht hm =>
    have := count_entryIds_setQ s s.active (fun x => { x with entries := x.entries.erase m }) a hact
    have hp : ((s.q s.active).entries.map (·.2.2)).Perm (m.2.2 :: ((s.q s.active).entries.erase m).map (·.2.2)) :=
      (List.perm_cons_erase (minEntry_mem hm)).map _
    have hc := hp.count_eq a
    simp [Ev.newId, count_cons] at this hc ⊢
    omega
  case putBack q m d ds hpc ht hlt hd =>
    obtain ⟨hqv, ⟨ds', hds⟩, _, _⟩ := hq.taken q m hlt
    have := count_entryIds_setQ s q (fun x => { x with entries := m :: x.entries }) a hqv
    rw [hds] at hd; injection hd with hd1 hd2; subst hd2
    simp [Ev.newId, count_cons, hds] at this ⊢
    omega
  all_goals try subst_vars
  all_goals
    simp [*, count_preIds_setPc_sub, Ev.newId, entryIds_setQ_same] at hle ⊢
  all_goals omega

theorem submitted_snoc (pre : List (Nat × Ev)) (t : Nat) (e : Ev) :
    submitted (pre ++ [(t, e)]) = submitted pre ++ e.newId := by
  simp [submitted]

/-- after every accepted schedule: each id occurs among (in hands ⊎ queued ⊎ dispatched) exactly as often as it was
submitted -/
theorem cnt_run {src0 : List Nat} {sched : List (Nat × Ev)} {s : TState}
    (hr : run (initState src0) sched = some s) (a : Nat) : s.cnt a = count a (submitted sched) := by
  refine run_induction (P := fun sched s => s.cnt a = count a (submitted sched)) ?_ ?_ sched s hr
  · simp [TState.cnt, initState, TState.preIds, TState.entryIds, TState.dispatchedIds, submitted]
  · intro pre s t e s' hpre ih hs _
    have hreach : TReach src0 s := ⟨pre, hpre⟩
    rw [cnt_step (tinv_reach hreach) (qcinv_reach hreach).1 hs a, ih, submitted_snoc, count_append]

theorem ids_perm {src0 : List Nat} {sched : List (Nat × Ev)} {s : TState}
    (hr : run (initState src0) sched = some s) :
    (s.preIds ++ s.entryIds ++ s.dispatchedIds).Perm (submitted sched) := by
  rw [List.perm_iff_count]
  intro a
  have := cnt_run hr a
  simp only [TState.cnt] at this
  simp only [count_append]; omega

end Simpleline.Threads
