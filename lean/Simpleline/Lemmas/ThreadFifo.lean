/-
  C19 helper lemmas, part 5: `PriorityQueue.get` (`minEntry`) returns a minimal entry; FIFO among equal priorities.
-/
import Simpleline.Lemmas.ThreadCount

namespace Simpleline.Threads
open List
variable {s s' : TState} {t : Nat} {e : Ev}

theorem entryLe_refl (a : Int × Nat × Nat) : entryLe a a = true := by simp [entryLe]
theorem entryLe_trans {a b c : Int × Nat × Nat} (h1 : entryLe a b = true) (h2 : entryLe b c = true) :
    entryLe a c = true := by
  simp only [entryLe, Bool.or_eq_true, decide_eq_true_eq, Bool.and_eq_true, beq_iff_eq] at *
  omega
theorem entryLe_total (a b : Int × Nat × Nat) : entryLe a b = true ∨ entryLe b a = true := by
  simp only [entryLe, Bool.or_eq_true, decide_eq_true_eq, Bool.and_eq_true, beq_iff_eq]
  omega

theorem minEntry_eq_none {l : List (Int × Nat × Nat)} : minEntry l = none ↔ l = [] := by
  cases l with
  | nil => simp [minEntry]
  | cons e es =>
    simp only [minEntry, reduceCtorEq, iff_false]
    split
    · simp
    · split <;> simp

/-- `PriorityQueue.get` returns an entry minimal in (priority, arrival number) -/
theorem minEntry_le {l : List (Int × Nat × Nat)} {m} (h : minEntry l = some m) :
    ∀ e ∈ l, entryLe m e = true := by
  induction l generalizing m with
  | nil => simp [minEntry] at h
  | cons x es ih =>
    simp only [minEntry] at h
    split at h
    · rename_i hn
      simp at h; subst h
      rw [minEntry_eq_none.1 hn]
      simp [entryLe_refl]
    · rename_i m' hm'
      split at h <;> simp at h <;> subst h
      · rename_i hle
        intro e he
        rcases List.mem_cons.1 he with rfl | he
        · exact entryLe_refl _
        · exact entryLe_trans hle (ih hm' e he)
      · rename_i hle
        intro e he
        rcases List.mem_cons.1 he with rfl | he
        · rcases entryLe_total e m' with h | h
          · exact absurd h hle
          · exact h
        · exact ih hm' e he

/-- among entries of equal priority the one returned has the smallest arrival number -/
theorem minEntry_fifo {l : List (Int × Nat × Nat)} {m} (h : minEntry l = some m) :
    ∀ e ∈ l, e.1 = m.1 → m.2.1 ≤ e.2.1 := by
  intro e he hp
  have := minEntry_le h e he
  simp only [entryLe, Bool.or_eq_true, decide_eq_true_eq, Bool.and_eq_true, beq_iff_eq] at this
  omega

/-! ### the history invariant: put records, arrival numbers, dispatch order -/

/-- the accesses that change queue contents / `dispatched` -/
def Ev.isQueueOp : Ev → Bool
  | .put .. | .get .. | .putBack .. => true
  | _ => false

theorem queue_frame (hs : TStep s t e s') (he : e.isQueueOp = false) :
    (∀ q, (s'.q q).entries = (s.q q).entries) ∧ (∀ q, (s'.q q).seq = (s.q q).seq) ∧
      s'.dispatched = s.dispatched ∧ s'.lastTaken = s.lastTaken := by
  cases hs <;> simp [Ev.isQueueOp] at he <;> refine ⟨?_, ?_, ?_, ?_⟩ <;> (try intro q) <;> grind

theorem puts_snoc (pre : List (Nat × Ev)) (t : Nat) (e : Ev) : puts (pre ++ [(t, e)]) = puts pre ++ e.putRec := by
  simp [puts]

theorem putRec_of_not_queueOp (he : e.isQueueOp = false) : e.putRec = [] := by
  cases e <;> simp_all [Ev.isQueueOp, Ev.putRec]

/-- ids put so far -/
def putIds (sched : List (Nat × Ev)) : List Nat := (puts sched).map (·.2.1)

theorem cntPut_step (hs : TStep s t e s') (a : Nat) :
    count a s'.preIds + count a (e.putRec.map (·.2.1)) = count a s.preIds + count a e.newId := by
  have hle := count_preId_le s t a
  cases hs
  all_goals try subst_vars
  all_goals
    simp [*, count_preIds_setPc_sub, Ev.newId, Ev.putRec] at hle ⊢
  all_goals omega

theorem cntPut_run {src0 : List Nat} {sched : List (Nat × Ev)} {s : TState}
    (hr : run (initState src0) sched = some s) (a : Nat) :
    count a (putIds sched) + count a s.preIds = count a (submitted sched) := by
  refine run_induction (P := fun sched s => count a (putIds sched) + count a s.preIds = count a (submitted sched))
    ?_ ?_ sched s hr
  · simp [putIds, puts, initState, TState.preIds, submitted]
  · intro pre s t e s' hpre ih hs _
    have := cntPut_step hs a
    simp only [putIds, puts_snoc, submitted_snoc, List.map_append, count_append] at ih ⊢
    omega

/-- put records: `(queue, id, priority, arrival number)` -/
abbrev PutRec := Nat × Nat × Int × Nat

/-- the history invariant behind FIFO: `P` = the put records of the schedule so far -/
structure FInv (P : List PutRec) (s : TState) : Prop where
  lt : ∀ r ∈ P, r.2.2.2 < (s.q r.1).seq
  acc : ∀ r ∈ P, (r.2.2.1, r.2.2.2, r.2.1) ∈ (s.q r.1).entries ∨ (r.1, r.2.1) ∈ s.dispatched
  recd : ∀ q, ∀ e ∈ (s.q q).entries, (q, e.2.2, e.1, e.2.1) ∈ P
  taken : ∀ q m, s.lastTaken = some (q, m) → (q, m.2.2, m.1, m.2.1) ∈ P
  mono : P.Pairwise fun r1 r2 => r1.1 = r2.1 → r1.2.2.2 < r2.2.2.2
  fifo : ∀ r1 ∈ P, ∀ r2 ∈ P, r1.1 = r2.1 → r1.2.2.1 = r2.2.2.1 → r1.2.2.2 < r2.2.2.2 →
    ∀ l1 l2, s.dispatched = l1 ++ (r2.1, r2.2.1) :: l2 → (r1.1, r1.2.1) ∈ l2

theorem FInv.congr {P : List PutRec} (hf : FInv P s) (hent : ∀ q, (s'.q q).entries = (s.q q).entries)
    (hseq : ∀ q, (s'.q q).seq = (s.q q).seq) (hd : s'.dispatched = s.dispatched)
    (hlt : s'.lastTaken = s.lastTaken) : FInv P s' := by
  refine ⟨?_, ?_, ?_, ?_, hf.mono, ?_⟩
  · intro r hr; rw [hseq]; exact hf.lt r hr
  · intro r hr; rw [hent, hd]; exact hf.acc r hr
  · intro q e he; rw [hent] at he; exact hf.recd q e he
  · intro q m h; rw [hlt] at h; exact hf.taken q m h
  · intro r1 h1 r2 h2 hq hp ho l1 l2 hl; rw [hd] at hl; exact hf.fifo r1 h1 r2 h2 hq hp ho l1 l2 hl

theorem FInv.put {P : List PutRec} (hf : FInv P s) (q0 sid : Nat) (prio : Int)
    (hent : ∀ q, (s'.q q).entries = if q = q0 then (prio, (s.q q0).seq, sid) :: (s.q q0).entries else (s.q q).entries)
    (hseq : ∀ q, (s'.q q).seq = if q = q0 then (s.q q0).seq + 1 else (s.q q).seq)
    (hd : s'.dispatched = s.dispatched) (hlt : s'.lastTaken = s.lastTaken)
    (hsid : ∀ q, (q, sid) ∉ s.dispatched) : FInv (P ++ [(q0, sid, prio, (s.q q0).seq)]) s' := by
  refine ⟨?_, ?_, ?_, ?_, ?_, ?_⟩
  · intro r hr
    rw [hseq]
    rcases List.mem_append.1 hr with hr | hr
    · have := hf.lt r hr; split <;> rename_i hc
      · rw [hc] at this; omega
      · exact this
    · simp at hr; subst hr; simp
  · intro r hr
    rw [hent, hd]
    rcases List.mem_append.1 hr with hr | hr
    · rcases hf.acc r hr with h | h
      · left; split <;> rename_i hc
        · rw [hc] at h; exact List.mem_cons_of_mem _ h
        · exact h
      · exact Or.inr h
    · simp at hr; subst hr; left; simp
  · intro q e he
    rw [hent] at he
    split at he <;> rename_i hc
    · rcases List.mem_cons.1 he with rfl | he
      · subst hc; simp
      · subst hc; exact List.mem_append_left _ (hf.recd q e he)
    · exact List.mem_append_left _ (hf.recd q e he)
  · intro q m h; rw [hlt] at h; exact List.mem_append_left _ (hf.taken q m h)
  · rw [List.pairwise_append]
    refine ⟨hf.mono, by simp, ?_⟩
    intro r1 h1 r2 h2
    simp at h2; subst h2
    intro hq; simp at hq
    have := hf.lt r1 h1; rw [hq] at this; exact this
  · intro r1 h1 r2 h2 hq hp ho l1 l2 hl
    rw [hd] at hl
    rcases List.mem_append.1 h2 with h2 | h2
    · rcases List.mem_append.1 h1 with h1 | h1
      · exact hf.fifo r1 h1 r2 h2 hq hp ho l1 l2 hl
      · simp at h1; subst h1
        have := hf.lt r2 h2
        simp at hq ho; rw [← hq] at this; omega
    · simp at h2; subst h2
      exact absurd (by rw [hl]; simp) (hsid q0)

/-- with distinct ids a put record is determined by its id -/
theorem rec_unique {P : List PutRec} (hnd : (P.map (·.2.1)).Nodup) {r1 r2 : PutRec} (h1 : r1 ∈ P) (h2 : r2 ∈ P)
    (hid : r1.2.1 = r2.2.1) : r1 = r2 := by
  induction P with
  | nil => simp at h1
  | cons x P ih =>
    simp only [List.map_cons, List.nodup_cons] at hnd
    have key : ∀ r ∈ P, r.2.1 ≠ x.2.1 := fun r hr e =>
      hnd.1 (e ▸ List.mem_map_of_mem (f := fun r : PutRec => r.2.1) hr)
    rcases List.mem_cons.1 h1 with e1 | h1' <;> rcases List.mem_cons.1 h2 with e2 | h2'
    · rw [e1, e2]
    · subst e1; exact absurd hid.symm (key r2 h2')
    · subst e2; exact absurd hid (key r1 h1')
    · exact ih hnd.2 h1' h2'

theorem FInv.get {P : List PutRec} (hf : FInv P s) (q0 : Nat) (m : Int × Nat × Nat)
    (hm : minEntry (s.q q0).entries = some m)
    (hent : ∀ q, (s'.q q).entries = if q = q0 then (s.q q0).entries.erase m else (s.q q).entries)
    (hseq : ∀ q, (s'.q q).seq = (s.q q).seq)
    (hd : s'.dispatched = (q0, m.2.2) :: s.dispatched) (hlt : s'.lastTaken = some (q0, m))
    (hnd : (P.map (·.2.1)).Nodup) : FInv P s' := by
  have hmem := minEntry_mem hm
  have hmrec := hf.recd q0 m hmem
  refine ⟨?_, ?_, ?_, ?_, hf.mono, ?_⟩
  · intro r hr; rw [hseq]; exact hf.lt r hr
  · intro r hr
    rw [hent, hd]
    rcases hf.acc r hr with h | h
    · by_cases hc : r.1 = q0 ∧ (r.2.2.1, r.2.2.2, r.2.1) = m
      · right; rw [← hc.1, ← hc.2]; simp
      · left; split <;> rename_i hc'
        · have hne : (r.2.2.1, r.2.2.2, r.2.1) ≠ m := fun e => hc ⟨hc', e⟩
          rw [hc'] at h
          exact (List.mem_erase_of_ne hne).2 h
        · exact h
    · exact Or.inr (List.mem_cons_of_mem _ h)
  · intro q e he
    rw [hent] at he
    split at he <;> rename_i hc
    · subst hc; exact hf.recd q e (List.mem_of_mem_erase he)
    · exact hf.recd q e he
  · intro q m' h
    rw [hlt] at h; simp at h; obtain ⟨rfl, rfl⟩ := h; exact hmrec
  · intro r1 h1 r2 h2 hq hp ho l1 l2 hl
    rw [hd] at hl
    cases l1 with
    | nil =>
      simp only [List.nil_append, List.cons.injEq, Prod.mk.injEq] at hl
      obtain ⟨⟨hq2, hid⟩, rfl⟩ := hl
      -- `r2` is the record of `m`
      have : r2 = (q0, m.2.2, m.1, m.2.1) := rec_unique hnd h2 hmrec hid.symm
      subst this
      simp only at hq hp ho
      rcases hf.acc r1 h1 with h | h
      · exfalso
        rw [hq] at h
        have := minEntry_fifo hm _ h (by simpa using hp)
        simp at this; omega
      · rw [hq] at h ⊢; exact hq ▸ h
    | cons d l1 =>
      simp only [List.cons_append, List.cons.injEq] at hl
      exact hf.fifo r1 h1 r2 h2 hq hp ho l1 l2 hl.2

theorem FInv.putBack {P : List PutRec} (hf : FInv P s) (q0 : Nat) (m : Int × Nat × Nat) (ds : List (Nat × Nat))
    (hlt : s.lastTaken = some (q0, m)) (hd : s.dispatched = (q0, m.2.2) :: ds)
    (hent : ∀ q, (s'.q q).entries = if q = q0 then m :: (s.q q0).entries else (s.q q).entries)
    (hseq : ∀ q, (s'.q q).seq = (s.q q).seq)
    (hd' : s'.dispatched = ds) (hlt' : s'.lastTaken = none)
    (hnd : (P.map (·.2.1)).Nodup) : FInv P s' := by
  have hmrec := hf.taken q0 m hlt
  refine ⟨?_, ?_, ?_, ?_, hf.mono, ?_⟩
  · intro r hr; rw [hseq]; exact hf.lt r hr
  · intro r hr
    rw [hent, hd']
    rcases hf.acc r hr with h | h
    · left; split <;> rename_i hc
      · rw [hc] at h; exact List.mem_cons_of_mem _ h
      · exact h
    · rw [hd] at h
      rcases List.mem_cons.1 h with h | h
      · simp only [Prod.mk.injEq] at h
        have : r = (q0, m.2.2, m.1, m.2.1) := rec_unique hnd hr hmrec h.2
        subst this
        left; simp
      · exact Or.inr h
  · intro q e he
    rw [hent] at he
    split at he <;> rename_i hc
    · subst hc
      rcases List.mem_cons.1 he with rfl | he
      · exact hmrec
      · exact hf.recd q e he
    · exact hf.recd q e he
  · intro q m' h; rw [hlt'] at h; simp at h
  · intro r1 h1 r2 h2 hq hp ho l1 l2 hl
    rw [hd'] at hl
    exact hf.fifo r1 h1 r2 h2 hq hp ho ((q0, m.2.2) :: l1) l2 (by rw [hd, hl]; simp)

theorem finv_step (h : TInv s) (hq : QInv s) {P : List PutRec} (hf : FInv P s) (hs : TStep s t e s')
    (hnd : ((P ++ e.putRec).map (·.2.1)).Nodup)
    (hdisp : ∀ x ∈ (s.pc t).preId, x ∉ s.dispatchedIds) : FInv (P ++ e.putRec) s' := by
  have hndP : (P.map (·.2.1)).Nodup := by
    rw [List.map_append, List.nodup_append] at hnd; exact hnd.1
  by_cases he : e.isQueueOp = false
  · obtain ⟨h1, h2, h3, h4⟩ := queue_frame hs he
    rw [putRec_of_not_queueOp he, List.append_nil]
    exact hf.congr h1 h2 h3 h4
  · have hv := h.valid t
    cases hs <;> simp [Ev.isQueueOp] at he
    case put sg q0 f hpc =>
      simp only [hpc, PC.valid.eq_5] at hv
      simp only [Ev.putRec]
      refine hf.put q0 sg.sid sg.prio ?_ ?_ rfl rfl ?_
      · intro q; by_cases hc : q = q0 <;> simp [setQ_q, hc, hv]
      · intro q; by_cases hc : q = q0 <;> simp [setQ_q, hc, hv]
      · intro q hmem
        exact hdisp sg.sid (by simp [hpc]) (List.mem_map_of_mem (f := fun x : Nat × Nat => x.2) hmem)
    case get m hpc ht hm =>
      simp only [Ev.putRec, List.append_nil]
      have ha := h.actValid
      refine hf.get s.active m hm ?_ ?_ rfl rfl hndP
      · intro q; by_cases hc : q = s.active <;> simp [setQ_q, hc, ha]
      · intro q; by_cases hc : q = s.active <;> simp [setQ_q, hc, ha]
    case putBack q m d ds hpc ht hlt hd =>
      simp only [Ev.putRec, List.append_nil]
      obtain ⟨hqv, ⟨ds', hds⟩, _, _⟩ := hq.taken q m hlt
      have : ds' = ds := by rw [hds] at hd; injection hd
      subst this
      refine hf.putBack q m ds' hlt hds ?_ ?_ rfl rfl hndP
      · intro q'; by_cases hc : q' = q <;> simp [setQ_q, hc, hqv]
      · intro q'; by_cases hc : q' = q <;> simp [setQ_q, hc, hqv]

theorem distinct_prefix {pre : List (Nat × Ev)} {x : Nat × Ev} (h : DistinctIds (pre ++ [x])) : DistinctIds pre := by
  unfold DistinctIds submitted at *
  rw [List.flatMap_append, List.nodup_append] at h
  exact h.1

theorem putIds_nodup {src0 : List Nat} {sched : List (Nat × Ev)} {s : TState}
    (hr : run (initState src0) sched = some s) (hd : DistinctIds sched) : (putIds sched).Nodup := by
  rw [List.nodup_iff_count]
  intro a
  have h1 := cntPut_run hr a
  have h2 := (List.nodup_iff_count.1 hd) a
  omega

theorem preId_not_dispatched {src0 : List Nat} {sched : List (Nat × Ev)} {s : TState}
    (hr : run (initState src0) sched = some s) (hd : DistinctIds sched) (t : Nat) :
    ∀ x ∈ (s.pc t).preId, x ∉ s.dispatchedIds := by
  intro x hx hx'
  have h1 := cnt_run hr x
  have h2 := (List.nodup_iff_count.1 hd) x
  have h3 := count_preId_le s t x
  have h4 : 0 < count x (s.pc t).preId := List.count_pos_iff.2 hx
  have h5 : 0 < count x s.dispatchedIds := List.count_pos_iff.2 hx'
  unfold TState.cnt at h1
  omega

theorem finv_run {src0 : List Nat} {sched : List (Nat × Ev)} {s : TState}
    (hr : run (initState src0) sched = some s) (hd : DistinctIds sched) : FInv (puts sched) s := by
  refine run_induction (P := fun sched s => DistinctIds sched → FInv (puts sched) s) ?_ ?_ sched s hr hd
  · intro _
    refine ⟨?_, ?_, ?_, ?_, ?_, ?_⟩ <;> simp [puts, init_q_entries]
    simp [initState]
  · intro pre s t e s' hpre ih hs hrun hd'
    have hreach : TReach src0 s := ⟨pre, hpre⟩
    have hdp := distinct_prefix hd'
    rw [puts_snoc]
    refine finv_step (tinv_reach hreach) (qcinv_reach hreach).1 (ih hdp) hs ?_ (preId_not_dispatched hpre hdp t)
    have := putIds_nodup hrun hd'
    rwa [putIds, puts_snoc] at this

/-- FIFO among equal priorities, on the history: of two signals put into the same queue with the same priority,
if the later-put one has been dispatched then the earlier-put one has been dispatched before it -/
theorem fifo_dispatch {src0 : List Nat} {sched : List (Nat × Ev)} {s : TState}
    (hr : run (initState src0) sched = some s) (hd : DistinctIds sched)
    {q a b : Nat} {p : Int} {oa ob : Nat} {P1 P2 P3 : List PutRec}
    (hp : puts sched = P1 ++ (q, a, p, oa) :: (P2 ++ (q, b, p, ob) :: P3))
    (hb : (q, b) ∈ s.dispatched) :
    oa < ob ∧ ∃ l1 l2, s.dispatched = l1 ++ (q, b) :: l2 ∧ (q, a) ∈ l2 := by
  have hf := finv_run hr hd
  have hlt : oa < ob := by
    have := hf.mono
    rw [hp, List.pairwise_append] at this
    have h2 := this.2.1
    rw [List.pairwise_cons] at h2
    exact h2.1 (q, b, p, ob) (by simp) rfl
  refine ⟨hlt, ?_⟩
  obtain ⟨l1, l2, hl⟩ := List.append_of_mem hb
  refine ⟨l1, l2, hl, ?_⟩
  exact hf.fifo (q, a, p, oa) (by rw [hp]; simp) (q, b, p, ob) (by rw [hp]; simp) rfl rfl hlt l1 l2 hl

end Simpleline.Threads
