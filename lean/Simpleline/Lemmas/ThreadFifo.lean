/-
  C19 helper lemmas, part 5: `PriorityQueue.get` (`minEntry`) returns a minimal entry; FIFO among equal priorities.
-/
import Simpleline.Lemmas.ThreadCount

namespace Simpleline.Threads

theorem entryLe_refl (a : Int × Nat × Nat) : entryLe a a = true := by simp [entryLe]
theorem entryLe_trans {a b c : Int × Nat × Nat} (h1 : entryLe a b = true) (h2 : entryLe b c = true) :
    entryLe a c = true := by
  simp only [entryLe, Bool.or_eq_true, decide_eq_true_eq, Bool.and_eq_true, beq_iff_eq] at *
  omega
theorem entryLe_total (a b : Int × Nat × Nat) : entryLe a b = true ∨ entryLe b a = true := by
  simp only [entryLe, Bool.or_eq_true, decide_eq_true_eq, Bool.and_eq_true, beq_iff_eq]
  omega

theorem minEntry_eq_none {l : List (Int × Nat × Nat)} : minEntry l = none ↔ l = [] := by
  cases l with
  | nil => simp [minEntry]
  | cons e es =>
    simp only [minEntry, reduceCtorEq, iff_false]
    split
    · simp
    · split <;> simp

/-- `PriorityQueue.get` returns an entry minimal in (priority, arrival number) -/
theorem minEntry_le {l : List (Int × Nat × Nat)} {m} (h : minEntry l = some m) :
    ∀ e ∈ l, entryLe m e = true := by
  induction l generalizing m with
  | nil => simp [minEntry] at h
  | cons x es ih =>
    simp only [minEntry] at h
    split at h
    · rename_i hn
      simp at h; subst h
      rw [minEntry_eq_none.1 hn]
      simp [entryLe_refl]
    · rename_i m' hm'
      split at h <;> simp at h <;> subst h
      · rename_i hle
        intro e he
        rcases List.mem_cons.1 he with rfl | he
        · exact entryLe_refl _
        · exact entryLe_trans hle (ih hm' e he)
      · rename_i hle
        intro e he
        rcases List.mem_cons.1 he with rfl | he
        · rcases entryLe_total e m' with h | h
          · exact absurd h hle
          · exact h
        · exact ih hm' e he

/-- among entries of equal priority the one returned has the smallest arrival number -/
theorem minEntry_fifo {l : List (Int × Nat × Nat)} {m} (h : minEntry l = some m) :
    ∀ e ∈ l, e.1 = m.1 → m.2.1 ≤ e.2.1 := by
  intro e he hp
  have := minEntry_le h e he
  simp only [entryLe, Bool.or_eq_true, decide_eq_true_eq, Bool.and_eq_true, beq_iff_eq] at this
  omega

end Simpleline.Threads
