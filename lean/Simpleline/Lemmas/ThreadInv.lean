/-
  C19 helper lemmas, part 2: the state invariant `TInv` of the thread model (lock discipline, validity of
  queue indices, the level list and the snapshots of it, `_active_queue`) and its preservation by every step.
-/
import Simpleline.Lemmas.ThreadBasic

namespace Simpleline.Threads

/-- the control/lock part of the invariant -/
structure TInv (s : TState) : Prop where
  /-- only thread 0 runs loop-thread code -/
  sub : ∀ t, t ≠ 0 → (s.pc t).isSub = true
  main : ∀ t, s.mainLock = some t ↔ (s.pc t).holdsMain = true
  src : ∀ q, q < s.queues.length → ∀ t, (s.q q).srcLock = some t ↔ (s.pc t).holdsSrc q = true
  ord : ∀ q, q < s.queues.length → ∀ t, (s.q q).ordLock = some t ↔ (s.pc t).holdsOrd q = true
  valid : ∀ t, (s.pc t).valid s.queues.length
  lvValid : ∀ q ∈ s.levels, q < s.queues.length
  lvNodup : s.levels.Nodup
  actValid : s.active < s.queues.length
  snap : ∀ t, (s.pc t).snapOK s.levels
  act : (s.pc 0).activeOK s.levels s.active

variable {s s' : TState} {t : Nat} {e : Ev}

/-- a thread running loop-thread code is thread 0 -/
theorem TInv.eq_zero (h : TInv s) {t : Nat} (hp : (s.pc t).isSub = false) : t = 0 := by
  by_cases ht : t = 0
  · exact ht
  · have := h.sub t ht; simp_all

theorem sub_step (h : TInv s) (hs : TStep s t e s') : ∀ t', t' ≠ 0 → (s'.pc t').isSub = true := by
  intro t' ht'
  have h1 := h.sub t' ht'
  cases hs <;> by_cases htt : t' = t <;> simp_all [setPc_pc]

theorem main_step (h : TInv s) (hs : TStep s t e s') :
    ∀ t', s'.mainLock = some t' ↔ (s'.pc t').holdsMain = true := by
  intro t'
  have h0 := h.main
  have h1 := h0 t'
  have h2 := h0 t
  cases hs <;> by_cases htt : t' = t <;> simp_all [setPc_pc] <;> grind

theorem length_step (hs : TStep s t e s') : s.queues.length ≤ s'.queues.length := by
  cases hs <;> simp

end Simpleline.Threads
