/-
  C19 helper lemmas, part 2: the state invariant `TInv` of the thread model (lock discipline, validity of
  queue indices, the level list and the snapshots of it, `_active_queue`) and its preservation by every step.
-/
import Simpleline.Lemmas.ThreadBasic

namespace Simpleline.Threads

/-- the control/lock part of the invariant -/
structure TInv (s : TState) : Prop where
  /-- only thread 0 runs loop-thread code -/
  sub : ∀ t, t ≠ 0 → (s.pc t).isSub = true
  main : ∀ t, s.mainLock = some t ↔ (s.pc t).holdsMain = true
  src : ∀ q, q < s.queues.length → ∀ t, (s.q q).srcLock = some t ↔ (s.pc t).holdsSrc q = true
  ord : ∀ q, q < s.queues.length → ∀ t, (s.q q).ordLock = some t ↔ (s.pc t).holdsOrd q = true
  valid : ∀ t, (s.pc t).valid s.queues.length
  lvValid : ∀ q ∈ s.levels, q < s.queues.length
  lvNodup : s.levels.Nodup
  actValid : s.active < s.queues.length
  snap : ∀ t, (s.pc t).snapOK s.levels
  act : (s.pc 0).activeOK s.levels s.active

variable {s s' : TState} {t : Nat} {e : Ev}

/-- a thread running loop-thread code is thread 0 -/
theorem TInv.eq_zero (h : TInv s) {t : Nat} (hp : (s.pc t).isSub = false) : t = 0 := by
  by_cases ht : t = 0
  · exact ht
  · have := h.sub t ht; simp_all

theorem holdsSrc_valid {p : PC} {n q : Nat} (hv : p.valid n) (h : p.holdsSrc q = true) : q < n := by
  cases p <;> simp_all
theorem holdsOrd_valid {p : PC} {n q : Nat} (hv : p.valid n) (h : p.holdsOrd q = true) : q < n := by
  cases p <;> simp_all

theorem sub_step (h : TInv s) (hs : TStep s t e s') : ∀ t', t' ≠ 0 → (s'.pc t').isSub = true := by
  intro t' ht'
  have h1 := h.sub t' ht'
  have h2 := h.sub t
  cases hs <;> grind [PC.isSub]

theorem main_step (h : TInv s) (hs : TStep s t e s') :
    ∀ t', s'.mainLock = some t' ↔ (s'.pc t').holdsMain = true := by
  intro t'
  have h0 := h.main
  cases hs <;> grind [PC.holdsMain]

theorem src_step (h : TInv s) (hs : TStep s t e s') :
    ∀ q, q < s'.queues.length → ∀ t', (s'.q q).srcLock = some t' ↔ (s'.pc t').holdsSrc q = true := by
  intro q hq t'
  have h0 := h.src
  have h1 := fun hq => h0 q hq t
  have hv := h.valid t
  have hv' := h.valid t'
  have hd := @q_of_not_lt s q
  have hx := @holdsSrc_valid (s.pc t') s.queues.length q hv'
  cases hs <;> grind [PC.holdsSrc, PC.valid]

theorem ord_step (h : TInv s) (hs : TStep s t e s') :
    ∀ q, q < s'.queues.length → ∀ t', (s'.q q).ordLock = some t' ↔ (s'.pc t').holdsOrd q = true := by
  intro q hq t'
  have h0 := h.ord
  have h1 := fun hq => h0 q hq t
  have hv := h.valid t
  have hv' := h.valid t'
  have hd := @q_of_not_lt s q
  have hx := @holdsOrd_valid (s.pc t') s.queues.length q hv'
  cases hs <;> grind [PC.holdsOrd, PC.valid]

theorem length_step (hs : TStep s t e s') : s.queues.length ≤ s'.queues.length := by
  cases hs <;> simp

theorem mem_of_mem_dropLast {α} {l : List α} {a : α} (h : a ∈ l.dropLast) : a ∈ l := List.dropLast_subset l h
theorem nodup_dropLast {α} {l : List α} (h : l.Nodup) : l.dropLast.Nodup := h.sublist (List.dropLast_sublist l)
theorem not_mem_dropLast_of_getLast? {α} {l : List α} {a : α} (hn : l.Nodup) (h : l.getLast? = some a) :
    a ∉ l.dropLast := by
  obtain ⟨ys, rfl⟩ := List.getLast?_eq_some_iff.1 h
  rw [List.dropLast_concat]
  rw [List.nodup_append] at hn
  intro hm
  exact hn.2.2 a hm a (by simp) rfl
theorem nodup_concat {α} {l : List α} {a : α} (hn : l.Nodup) (h : a ∉ l) : (l ++ [a]).Nodup := by
  rw [List.nodup_append]
  refine ⟨hn, by simp, ?_⟩
  intro x hx y hy
  simp at hy; subst hy
  intro e; subst e; exact h hx

theorem valid_mono {p : PC} {n m : Nat} (hv : p.valid n) (h : n ≤ m) : p.valid m := by
  cases p <;> simp_all <;> grind

theorem valid_step (h : TInv s) (hs : TStep s t e s') : ∀ t', (s'.pc t').valid s'.queues.length := by
  intro t'
  have hv := h.valid t
  have hv' := h.valid t'
  have hm := @valid_mono (s.pc t') s.queues.length (s.queues.length + 1) hv' (by omega)
  have hl := h.lvValid
  have ha := h.actValid
  cases hs <;> grind [PC.valid, List.mem_of_getLast?]

theorem lvValid_step (h : TInv s) (hs : TStep s t e s') : ∀ q ∈ s'.levels, q < s'.queues.length := by
  intro q hq
  have hv := h.valid t
  have hl := h.lvValid
  cases hs <;> grind [PC.valid, → mem_of_mem_dropLast]

theorem actValid_step (h : TInv s) (hs : TStep s t e s') : s'.active < s'.queues.length := by
  have hv := h.valid t
  have ha := h.actValid
  cases hs <;> grind [PC.valid]

theorem lvNodup_step (h : TInv s) (hs : TStep s t e s') : s'.levels.Nodup := by
  have hn := h.lvNodup
  have h0 : (s.pc t).isSub = false → t = 0 := h.eq_zero
  have ha := h.act
  cases hs <;> grind [PC.isSub, PC.activeOK, nodup_dropLast, nodup_concat]

theorem snapOK_of_not_holdsMain {p : PC} (lv : List Nat) (h : p.holdsMain = false) : p.snapOK lv := by
  cases p <;> simp_all

theorem snap_step (h : TInv s) (hs : TStep s t e s') : ∀ t', (s'.pc t').snapOK s'.levels := by
  intro t'
  have hm := h.main
  by_cases htt : t' = t
  · subst htt
    have hs1 := h.snap t'
    cases hs <;> simp_all
    case askRelYes sg q todo hpc =>
      obtain ⟨asked, ha⟩ := hs1
      have : q ∈ s.levels.reverse := by rw [ha]; simp
      simpa using this
    case askRelNo sg q todo hpc =>
      obtain ⟨asked, ha⟩ := hs1
      exact ⟨asked ++ [q], by simp [ha]⟩
  · have hs2 := h.snap t'
    have hn := fun lv => @snapOK_of_not_holdsMain (s.pc t') lv
    cases hs <;> (try simp only [setPc_pc, htt, if_false, setPc_levels, setQ_levels, setQ_pc, pc_mk_same])
      <;> first | exact hs2 | (apply hn; grind)

theorem act_step (h : TInv s) (hs : TStep s t e s') : (s'.pc 0).activeOK s'.levels s'.active := by
  have ha := h.act
  by_cases ht : t = 0
  · subst ht
    have hlv := h.lvValid
    have hnd := h.lvNodup
    cases hs <;> simp_all
    case nlWrite => intro hm; exact Nat.lt_irrefl _ (hlv _ hm)
    case clPop q _ _ hq =>
      rcases ha with rfl | hnil
      · exact not_mem_dropLast_of_getLast? hnd hq
      · simp [hnil]
  · have hsub := h.sub t ht
    have h0 : ¬ 0 = t := fun e => ht e.symm
    cases hs <;> simp_all [setPc_pc]

/-! ### the invariant holds in every reachable state -/

@[simp] theorem init_pc (src0 : List Nat) (t : Nat) : (initState src0).pc t = .idle := by
  simp [initState, TState.pc]

theorem tinv_init (src0 : List Nat) : TInv (initState src0) := by
  refine ⟨?_, ?_, ?_, ?_, ?_, ?_, ?_, ?_, ?_, ?_⟩ <;> (try simp) <;> (try simp [initState, TState.q])

theorem tinv_step (h : TInv s) (hs : TStep s t e s') : TInv s' :=
  ⟨sub_step h hs, main_step h hs, src_step h hs, ord_step h hs, valid_step h hs, lvValid_step h hs,
    lvNodup_step h hs, actValid_step h hs, snap_step h hs, act_step h hs⟩

theorem tinv_reach {src0 : List Nat} {s : TState} (hr : TReach src0 s) : TInv s :=
  treach_induction (P := TInv) (tinv_init src0) (fun _ _ _ _ _ h hs => tinv_step h hs) s hr

end Simpleline.Threads
