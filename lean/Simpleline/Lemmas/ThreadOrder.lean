/-
  C19 helper lemmas, part 7: per-thread discipline (a thread's earlier submission is put before its next one
  begins), the combined per-thread FIFO theorem, and the exact effect of `put` / `get` / `putBack` steps.
-/
import Simpleline.Lemmas.ThreadFifo
import Simpleline.Lemmas.ThreadRoute

namespace Simpleline.Threads
open List
variable {s s' : TState} {t : Nat} {e : Ev}

/-- the id a `put` event puts -/
def Ev.putId (e : Ev) : List Nat := e.putRec.map (·.2.1)

theorem thread_cnt_step (hs : TStep s t e s') (a : Nat) :
    count a (s'.pc t).preId + count a e.putId = count a (s.pc t).preId + count a e.newId := by
  cases hs
  all_goals try subst_vars
  all_goals simp [*, Ev.newId, Ev.putRec, Ev.putId]

/-- per thread: the ids it submitted are those it has put plus the one it still holds -/
theorem thread_cnt_run {src0 : List Nat} {sched : List (Nat × Ev)} {s : TState}
    (hr : run (initState src0) sched = some s) (t a : Nat) :
    count a ((evsOf t sched).flatMap Ev.newId) =
      count a ((evsOf t sched).flatMap Ev.putId) + count a (s.pc t).preId := by
  refine run_induction (P := fun sched s => ∀ t, count a ((evsOf t sched).flatMap Ev.newId) =
      count a ((evsOf t sched).flatMap Ev.putId) + count a (s.pc t).preId) ?_ ?_ sched s hr t
  · intro t; simp [evsOf]
  · intro pre s t e s' hpre ih hs _ t'
    by_cases hne : t' = t
    · subst hne
      have := thread_cnt_step hs a
      have := ih t'
      simp only [evsOf_snoc, if_true, List.flatMap_append, count_append, List.flatMap_cons, List.flatMap_nil,
        List.append_nil]
      omega
    · have hne' : ¬ t = t' := fun e => hne e.symm
      rw [pc_other hs hne]
      simp only [evsOf_snoc, hne', if_false]
      exact ih t'

theorem puts_append (a b : List (Nat × Ev)) : puts (a ++ b) = puts a ++ puts b := by simp [puts]
theorem submitted_append (a b : List (Nat × Ev)) : submitted (a ++ b) = submitted a ++ submitted b := by
  simp [submitted]

theorem mem_puts_of_mem {sched : List (Nat × Ev)} {t q sid : Nat} {p : Int} {o : Nat}
    (h : (t, Ev.put q sid p o) ∈ sched) : (q, sid, p, o) ∈ puts sched := by
  unfold puts
  rw [List.mem_flatMap]
  exact ⟨_, h, by simp [Ev.putRec]⟩

theorem mem_puts_of_thread {X : List (Nat × Ev)} {t a : Nat}
    (h : a ∈ (evsOf t X).flatMap Ev.putId) : ∃ r ∈ puts X, r.2.1 = a := by
  rw [List.mem_flatMap] at h
  obtain ⟨e, he, ha⟩ := h
  unfold evsOf at he
  rw [List.mem_map] at he
  obtain ⟨x, hx, rfl⟩ := he
  rw [List.mem_filter] at hx
  unfold Ev.putId at ha
  rw [List.mem_map] at ha
  obtain ⟨r, hr, rfl⟩ := ha
  exact ⟨r, by unfold puts; rw [List.mem_flatMap]; exact ⟨x, hx.1, hr⟩, rfl⟩

/-- a thread's earlier submission is put before its later submission begins; so — both landing in the same queue
with the same priority — the earlier one is dispatched first -/
theorem thread_fifo {src0 : List Nat} {sched : List (Nat × Ev)} {s : TState}
    (hr : run (initState src0) sched = some s) (hd : DistinctIds sched)
    {t : Nat} {A B C : List (Nat × Ev)} {a b : TSig}
    (hsub : sched = A ++ (t, .submit a) :: (B ++ (t, .submit b) :: C))
    {ta tb q : Nat} {p : Int} {oa ob : Nat}
    (hpa : (ta, Ev.put q a.sid p oa) ∈ sched) (hpb : (tb, Ev.put q b.sid p ob) ∈ sched)
    (hdisp : (q, b.sid) ∈ s.dispatched) :
    oa < ob ∧ ∃ l1 l2, s.dispatched = l1 ++ (q, b.sid) :: l2 ∧ (q, a.sid) ∈ l2 := by
  have hX : sched = (A ++ (t, .submit a) :: B) ++ ((t, .submit b) :: C) := by rw [hsub]; simp
  generalize hXdef : A ++ (t, Ev.submit a) :: B = X at hX
  rw [hX] at hr
  obtain ⟨sX, hrX, hrC⟩ := run_append_some.1 hr
  -- the thread is idle when it begins its second submission
  have hidle : sX.pc t = .idle := by
    simp only [run] at hrC
    cases hs : tstep sX t (.submit b) with
    | none => simp [hs] at hrC
    | some s1 =>
      have := tstep_sound hs
      cases this
      assumption
  -- so its first submission has been put
  have hcnt := thread_cnt_run hrX t a.sid
  rw [hidle] at hcnt
  have hin : a.sid ∈ (evsOf t X).flatMap Ev.newId := by
    rw [← hXdef, List.mem_flatMap]
    refine ⟨.submit a, ?_, by simp [Ev.newId]⟩
    unfold evsOf
    rw [List.mem_map]
    exact ⟨(t, .submit a), by simp, rfl⟩
  have hput : a.sid ∈ (evsOf t X).flatMap Ev.putId := by
    have : 0 < count a.sid ((evsOf t X).flatMap Ev.newId) := List.count_pos_iff.2 hin
    simp only [PC.preId.eq_14] at hcnt
    apply List.count_pos_iff.1
    simp at hcnt; omega
  obtain ⟨r, hrX', hrid⟩ := mem_puts_of_thread hput
  have hputs : puts sched = puts X ++ puts C := by
    rw [hX, puts_append]; simp [puts, Ev.putRec]
  have hnd : ((puts sched).map (·.2.1)).Nodup := putIds_nodup (sched := sched) (by rw [hX]; exact hr) hd
  have hra : (q, a.sid, p, oa) ∈ puts X := by
    have h1 : (q, a.sid, p, oa) ∈ puts sched := mem_puts_of_mem hpa
    have h2 : r ∈ puts sched := by rw [hputs]; exact List.mem_append_left _ hrX'
    have := rec_unique hnd h2 h1 hrid
    exact this ▸ hrX'
  have hrb : (q, b.sid, p, ob) ∈ puts C := by
    have h1 : (q, b.sid, p, ob) ∈ puts sched := mem_puts_of_mem hpb
    rw [hputs] at h1
    rcases List.mem_append.1 h1 with h1 | h1
    · exfalso
      have h2 : b.sid ∈ putIds X := List.mem_map_of_mem (f := fun r : PutRec => r.2.1) h1
      have h3 := cntPut_run hrX b.sid
      have h4 : 0 < count b.sid (putIds X) := List.count_pos_iff.2 h2
      have h5 := (List.nodup_iff_count.1 hd) b.sid
      rw [hX, submitted_append] at h5
      simp [submitted, Ev.newId, count_append] at h5 h3
      omega
    · exact h1
  obtain ⟨P1, P2, hP⟩ := List.append_of_mem hra
  obtain ⟨P3, P4, hP'⟩ := List.append_of_mem hrb
  have hr' : run (initState src0) sched = some s := by rw [hX]; exact hr
  have hfin : puts sched = P1 ++ (q, a.sid, p, oa) :: ((P2 ++ P3) ++ (q, b.sid, p, ob) :: P4) := by
    rw [hputs, hP, hP']; simp
  exact fifo_dispatch hr' hd hfin hdisp

/-- only the loop thread writes `_event_queues` -/
theorem levelWrite_thread (h : TInv s) (hs : TStep s t e s') (he : e.isLevelWrite = true) : t = 0 := by
  apply h.eq_zero
  cases hs <;> simp_all [Ev.isLevelWrite]

/-! ### the exact effect of the queue operations -/

theorem put_effect (h : TInv s) {q sid : Nat} {prio : Int} {o : Nat}
    (hs : tstep s t (.put q sid prio o) = some s') :
    o = (s.q q).seq ∧ (s'.q q).entries = (prio, o, sid) :: (s.q q).entries ∧ (s'.q q).seq = o + 1 ∧
      (∀ q', q' ≠ q → s'.q q' = s.q q') ∧ s'.dispatched = s.dispatched := by
  have hv := h.valid t
  have := tstep_sound hs
  cases this
  case put sg f hpc =>
    simp only [hpc, PC.valid.eq_5] at hv
    refine ⟨rfl, by simp [setQ_q, hv], by simp [setQ_q, hv], ?_, rfl⟩
    intro q' hne; simp [setQ_q, hne]

theorem get_effect (h : TInv s) {q sid : Nat} (hs : tstep s t (.get q sid) = some s') :
    t = 0 ∧ q = s.active ∧ ∃ m, minEntry (s.q q).entries = some m ∧ m.2.2 = sid ∧ m ∈ (s.q q).entries ∧
      (∀ e ∈ (s.q q).entries, entryLe m e = true) ∧
      (s'.q q).entries = (s.q q).entries.erase m ∧ ((s.q q).entries).Perm (m :: (s'.q q).entries) ∧
      (∀ q', q' ≠ q → s'.q q' = s.q q') ∧ s'.dispatched = (q, sid) :: s.dispatched := by
  have ha := h.actValid
  have := tstep_sound hs
  cases this
  case get m hpc ht hm =>
    refine ⟨ht, rfl, m, hm, rfl, minEntry_mem hm, minEntry_le hm, ?_, ?_, ?_, rfl⟩
    · simp [setQ_q, ha]
    · simpa [setQ_q, ha] using List.perm_cons_erase (minEntry_mem hm)
    · intro q' hne; simp [setQ_q, hne]

theorem putBack_effect (hq : QInv s) {q sid : Nat} (hs : tstep s t (.putBack q sid) = some s') :
    t = 0 ∧ ∃ m, s.lastTaken = some (q, m) ∧ m.2.2 = sid ∧ s.dispatched = (q, sid) :: s'.dispatched ∧
      (s'.q q).entries = m :: (s.q q).entries ∧ (∀ q', q' ≠ q → s'.q q' = s.q q') := by
  have := tstep_sound hs
  cases this
  case putBack m d ds hpc ht h1 h2 =>
    have hlt : s.lastTaken = some (q, m) := by first | exact h1 | exact h2
    have hd : s.dispatched = d :: ds := by first | exact h1 | exact h2
    obtain ⟨hqv, ⟨ds', hds⟩, _, _⟩ := hq.taken q m hlt
    have : ds' = ds := by rw [hds] at hd; injection hd
    subst this
    refine ⟨ht, m, hlt, rfl, hds, by simp [setQ_q, hqv], ?_⟩
    intro q' hne; simp [setQ_q, hne]

/-! ### exactly once -/

theorem stored_iff (s : TState) (id : Nat) : s.stored id ↔ id ∈ s.entryIds ∨ id ∈ s.dispatchedIds := by
  unfold TState.stored TState.pendingIn TState.entryIds
  constructor
  · rintro (⟨q, e, he, rfl⟩ | h)
    · left
      by_cases hq : q < s.queues.length
      · rw [List.mem_flatMap]
        refine ⟨s.queues[q], List.getElem_mem hq, ?_⟩
        have : s.q q = s.queues[q] := by simp [TState.q, List.getD_eq_getElem?_getD, hq]
        rw [this] at he
        exact List.mem_map_of_mem (f := fun x : Int × Nat × Nat => x.2.2) he
      · rw [q_of_not_lt s hq] at he; simp at he
    · exact Or.inr h
  · rintro (h | h)
    · left
      rw [List.mem_flatMap] at h
      obtain ⟨x, hx, hid⟩ := h
      obtain ⟨q, hq, rfl⟩ := List.getElem_of_mem hx
      rw [List.mem_map] at hid
      obtain ⟨e, he, rfl⟩ := hid
      refine ⟨q, e, ?_, rfl⟩
      have : s.q q = s.queues[q] := by simp [TState.q, List.getD_eq_getElem?_getD, hq]
      rw [this]; exact he
    · exact Or.inr h

/-- with distinct ids: a signal whose submission returned is in exactly one place, exactly once -/
theorem exactly_once {src0 : List Nat} {sched : List (Nat × Ev)} {s : TState}
    (hr : run (initState src0) sched = some s) (hd : DistinctIds sched) (id : Nat) (hc : id ∈ s.completed) :
    count id (s.entryIds ++ s.dispatchedIds) = 1 ∧ id ∉ s.preIds := by
  have hst := (stored_iff s id).1 ((qcinv_reach ⟨sched, hr⟩).2.compl id hc)
  have h1 := cnt_run hr id
  have h2 := (List.nodup_iff_count.1 hd) id
  have h3 : 0 < count id (s.entryIds ++ s.dispatchedIds) := by
    apply List.count_pos_iff.2
    rcases hst with h | h
    · exact List.mem_append_left _ h
    · exact List.mem_append_right _ h
  unfold TState.cnt at h1
  rw [count_append] at h3 ⊢
  refine ⟨by omega, fun hp => ?_⟩
  have : 0 < count id s.preIds := List.count_pos_iff.2 hp
  omega

end Simpleline.Threads
