/-
  C19 helper lemmas, part 3: the queue-content invariants of the thread model — arrival numbers are distinct and
  below the counter (`QInv`), the bookkeeping of `putBack` (`lastTaken`), and conservation: what has been put
  stays in a queue or in `dispatched` (`CInv`).
-/
import Simpleline.Lemmas.ThreadInv

namespace Simpleline.Threads
variable {s s' : TState} {t : Nat} {e : Ev}

/-- the queue-content part of the invariant -/
structure QInv (s : TState) : Prop where
  arrLt : ∀ q, ∀ e ∈ (s.q q).entries, e.2.1 < (s.q q).seq
  arrNodup : ∀ q, ((s.q q).entries.map (·.2.1)).Nodup
  taken : ∀ q m, s.lastTaken = some (q, m) →
    q < s.queues.length ∧ (∃ ds, s.dispatched = (q, m.2.2) :: ds) ∧ m.2.1 < (s.q q).seq ∧
      ∀ e ∈ (s.q q).entries, e.2.1 ≠ m.2.1

theorem arrLt_step (hq : QInv s) (hs : TStep s t e s') :
    ∀ q, ∀ e ∈ (s'.q q).entries, e.2.1 < (s'.q q).seq := by
  intro q x hx
  have h1 := hq.arrLt q
  have h2 := hq.taken
  cases hs <;> grind

theorem nodup_map_erase {α β} [BEq α] [LawfulBEq α] {f : α → β} {l : List α} (a : α) (h : (l.map f).Nodup) :
    ((l.erase a).map f).Nodup :=
  h.sublist ((List.erase_sublist).map f)

theorem not_mem_map_erase {α β} [BEq α] [LawfulBEq α] {f : α → β} {l : List α} {a : α} (h : (l.map f).Nodup)
    (ha : a ∈ l) : ∀ x ∈ l.erase a, f x ≠ f a := by
  induction l with
  | nil => simp at ha
  | cons b l ih =>
    simp only [List.map_cons, List.nodup_cons] at h
    by_cases hb : b = a
    · subst hb
      simp only [List.erase_cons_head]
      intro x hx e
      exact h.1 (e ▸ List.mem_map_of_mem hx)
    · have hal : a ∈ l := by
        rcases List.mem_cons.1 ha with e | e
        · exact absurd e.symm hb
        · exact e
      rw [List.erase_cons_tail (by simpa using hb)]
      intro x hx
      rcases List.mem_cons.1 hx with e | e
      · subst e
        intro e; exact h.1 (e ▸ List.mem_map_of_mem hal)
      · exact ih h.2 hal x e

theorem minEntry_mem {l : List (Int × Nat × Nat)} {m} (h : minEntry l = some m) : m ∈ l := by
  induction l generalizing m with
  | nil => simp [minEntry] at h
  | cons e es ih =>
    simp only [minEntry] at h
    split at h
    · simp at h; simp [h]
    · rename_i m' hm'
      split at h <;> simp at h <;> subst h
      · simp
      · exact List.mem_cons_of_mem _ (ih hm')

theorem arrNodup_step (hq : QInv s) (hs : TStep s t e s') :
    ∀ q, ((s'.q q).entries.map (·.2.1)).Nodup := by
  intro q
  have h1 := hq.arrNodup q
  have h2 := hq.taken
  have h3 := hq.arrLt q
  cases hs
  case get m hpc ht hm =>
    simp only [q_mk_same, setQ_q]
    split
    · rename_i hc; obtain ⟨rfl, _⟩ := hc; exact nodup_map_erase m h1
    · exact h1
  all_goals grind [List.nodup_cons]

theorem taken_step (h : TInv s) (hq : QInv s) (hs : TStep s t e s') :
    ∀ q m, s'.lastTaken = some (q, m) →
      q < s'.queues.length ∧ (∃ ds, s'.dispatched = (q, m.2.2) :: ds) ∧ m.2.1 < (s'.q q).seq ∧
        ∀ e ∈ (s'.q q).entries, e.2.1 ≠ m.2.1 := by
  intro q m hlt
  have h2 := hq.taken q m
  have ha := h.actValid
  cases hs
  case get m0 hpc ht hm =>
    simp only [Option.some.injEq, Prod.mk.injEq] at hlt
    obtain ⟨rfl, rfl⟩ := hlt
    have hmem := minEntry_mem hm
    refine ⟨by simpa using ha, ⟨_, rfl⟩, ?_, ?_⟩
    · simpa [setQ_q, ha] using hq.arrLt _ _ hmem
    · simpa [setQ_q, ha] using not_mem_map_erase (f := fun x : Int × Nat × Nat => x.2.1) (hq.arrNodup _) hmem
  all_goals grind

theorem stored_step (h : TInv s) (hq : QInv s) (hs : TStep s t e s') (id : Nat) (hst : s.stored id) :
    s'.stored id := by
  have h2 := hq.taken
  have hv := h.valid t
  have ha := h.actValid
  unfold TState.stored TState.pendingIn TState.dispatchedIds at *
  rcases hst with ⟨q0, e0, hmem, rfl⟩ | hd
  · cases hs
    case get m hpc ht hm =>
      by_cases hc : q0 = s.active ∧ e0 = m
      · obtain ⟨rfl, rfl⟩ := hc
        right; simp
      · refine Or.inl ⟨q0, e0, ?_, rfl⟩
        simp only [q_mk_same, setQ_q]
        split
        · rename_i hc'
          have : e0 ≠ m := fun e => hc ⟨hc'.1, e⟩
          exact (List.mem_erase_of_ne this).2 (hc'.1 ▸ hmem)
        · exact hmem
    all_goals (refine Or.inl ⟨q0, e0, ?_, rfl⟩; grind)
  · cases hs
    case putBack q m d ds hpc ht hlt hd' =>
      obtain ⟨hqv, ⟨ds', hds⟩, _, _⟩ := h2 q m hlt
      rw [hds] at hd hd'
      simp only [List.map_cons, List.mem_cons] at hd
      injection hd' with hd1 hd2
      subst hd2
      rcases hd with rfl | hd
      · exact Or.inl ⟨q, m, by simp [setQ_q, hqv], rfl⟩
      · exact Or.inr (by simpa using hd)
    all_goals (right; grind)

/-- the conservation part of the invariant: what has been put is in a queue or dispatched -/
structure CInv (s : TState) : Prop where
  post : ∀ t, ∀ id ∈ (s.pc t).postId, s.stored id
  compl : ∀ id ∈ s.completed, s.stored id

theorem put_stored (h : TInv s) (sg : TSig) (q : Nat) (f : Bool) (hpc : s.pc t = .putDo sg q f) :
    ((s.setQ q fun x => { x with entries := (sg.prio, x.seq, sg.sid) :: x.entries, seq := x.seq + 1 }).setPc t
      (.putRel sg q f)).stored sg.sid := by
  have hv := h.valid t
  simp only [hpc, PC.valid.eq_5] at hv
  exact Or.inl ⟨q, (sg.prio, (s.q q).seq, sg.sid), by simp [setQ_q, hv], rfl⟩

theorem post_step (h : TInv s) (hq : QInv s) (hc : CInv s) (hs : TStep s t e s') :
    ∀ t', ∀ id ∈ (s'.pc t').postId, s'.stored id := by
  intro t' id hid
  have hst := stored_step h hq hs id
  by_cases htt : t' = t
  · subst htt
    have hp := hc.post t' id
    cases hs
    case put sg q f hpc => 
      simp at hid; subst hid
      exact put_stored h sg q f hpc
    all_goals simp_all
  · have hp := hc.post t' id
    apply hst; apply hp
    cases hs <;> simp_all [setPc_pc]

theorem compl_step (h : TInv s) (hq : QInv s) (hc : CInv s) (hs : TStep s t e s') :
    ∀ id ∈ s'.completed, s'.stored id := by
  intro id hid
  have hst := stored_step h hq hs id
  have hp := hc.post t id
  have hcc := hc.compl id
  apply hst
  cases hs <;> simp_all
  all_goals grind

/-! ### in every reachable state -/

theorem init_q_entries (src0 : List Nat) (q : Nat) : ((initState src0).q q).entries = [] := by
  cases q <;> simp [initState, TState.q]

theorem qinv_init (src0 : List Nat) : QInv (initState src0) := by
  refine ⟨?_, ?_, ?_⟩ <;> intro q <;> simp [init_q_entries]
  simp [initState]

theorem qinv_step (h : TInv s) (hq : QInv s) (hs : TStep s t e s') : QInv s' :=
  ⟨arrLt_step hq hs, arrNodup_step hq hs, taken_step h hq hs⟩

theorem cinv_init (src0 : List Nat) : CInv (initState src0) := by
  refine ⟨?_, ?_⟩
  · intro t id hid; simp at hid
  · simp [initState]

theorem cinv_step (h : TInv s) (hq : QInv s) (hc : CInv s) (hs : TStep s t e s') : CInv s' :=
  ⟨post_step h hq hc hs, compl_step h hq hc hs⟩

theorem qcinv_reach {src0 : List Nat} {s : TState} (hr : TReach src0 s) : QInv s ∧ CInv s :=
  treach_induction (P := fun s => QInv s ∧ CInv s) ⟨qinv_init src0, cinv_init src0⟩
    (fun _ _ _ _ hr h hs => ⟨qinv_step (tinv_reach hr) h.1 hs, cinv_step (tinv_reach hr) h.1 h.2 hs⟩) s hr

end Simpleline.Threads
