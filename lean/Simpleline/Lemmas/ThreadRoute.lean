/-
  C19 helper lemmas, part 6: routing.  A history invariant (`RouteInv`): for every thread inside the level search
  of `enqueue_signal`, the schedule so far ends with its critical section — the `lvIter` event carrying the current
  level list, no write to the level list since, and the thread's own accesses since are exactly the questions
  asked so far with their answers.  Plus: the level that answered "mine" has the source registered.
-/
import Simpleline.Lemmas.ThreadQueue

namespace Simpleline.Threads
variable {s s' : TState} {t : Nat} {e : Ev}

/-- what the history says about a thread at a code position of `enqueue_signal`'s level search -/
def PC.route (t : Nat) (sched : List (Nat × Ev)) (lv : List Nat) : PC → Prop
  | .iter sg todo => ∃ above, lv.reverse = above ++ todo ∧ CritSec t sched lv (above.flatMap (askNo sg.src))
  | .asking sg q todo => ∃ above, lv.reverse = above ++ q :: todo ∧
      CritSec t sched lv (above.flatMap (askNo sg.src) ++ [.acqQ q])
  | .asked sg q todo res => ∃ above, lv.reverse = above ++ q :: todo ∧
      CritSec t sched lv (above.flatMap (askNo sg.src) ++ [.acqQ q, .contains q sg.src res])
  | .putAcq sg q f =>
      (f = true → ∃ above below, lv.reverse = above ++ q :: below ∧
        CritSec t sched lv (above.flatMap (askNo sg.src) ++ askYes sg.src q)) ∧
      (f = false → Fallback t sched sg.src [.activeRead q])
  | .putDo sg q f =>
      (f = true → ∃ above below, lv.reverse = above ++ q :: below ∧
        CritSec t sched lv (above.flatMap (askNo sg.src) ++ askYes sg.src q ++ [.acqO q])) ∧
      (f = false → Fallback t sched sg.src [.activeRead q, .acqO q])
  | .fallback sg => Fallback t sched sg.src []
  | _ => True


attribute [simp] PC.route.eq_1 PC.route.eq_2 PC.route.eq_3 PC.route.eq_4 PC.route.eq_5 PC.route.eq_6 PC.route.eq_7

theorem evsOf_snoc (t t' : Nat) (l : List (Nat × Ev)) (e : Ev) :
    evsOf t (l ++ [(t', e)]) = if t' = t then evsOf t l ++ [e] else evsOf t l := by
  unfold evsOf
  by_cases h : t' = t <;> simp [List.filter_append, h]

theorem noLevelWrite_snoc {l : List (Nat × Ev)} {x : Nat × Ev} (h : NoLevelWrite l) (hx : x.2.isLevelWrite = false) :
    NoLevelWrite (l ++ [x]) := by
  intro y hy
  rcases List.mem_append.1 hy with hy | hy
  · exact h y hy
  · simp at hy; subst hy; exact hx

theorem critSec_frame {t t' : Nat} {sched lv evs} (h : CritSec t' sched lv evs) (hne : t ≠ t')
    (he : e.isLevelWrite = false) : CritSec t' (sched ++ [(t, e)]) lv evs := by
  obtain ⟨pre0, mid, rfl, hn, hev⟩ := h
  exact ⟨pre0, mid ++ [(t, e)], by simp, noLevelWrite_snoc hn he, by simp [evsOf_snoc, hne, hev]⟩

theorem critSec_own {t : Nat} {sched lv evs} (h : CritSec t sched lv evs)
    (he : e.isLevelWrite = false) : CritSec t (sched ++ [(t, e)]) lv (evs ++ [e]) := by
  obtain ⟨pre0, mid, rfl, hn, hev⟩ := h
  exact ⟨pre0, mid ++ [(t, e)], by simp, noLevelWrite_snoc hn he, by simp [evsOf_snoc, hev]⟩

theorem critSec_start (t : Nat) (sched : List (Nat × Ev)) (lv : List Nat) :
    CritSec t (sched ++ [(t, .lvIter lv)]) lv [] :=
  ⟨sched, [], by simp, by simp [NoLevelWrite], by simp [evsOf]⟩

theorem fallback_frame {t t' : Nat} {sched src evs} (h : Fallback t' sched src evs) (hne : t ≠ t') :
    Fallback t' (sched ++ [(t, e)]) src evs := by
  obtain ⟨pre0, lv, mid1, mid2, rfl, hn, hev1, hev2⟩ := h
  exact ⟨pre0, lv, mid1, mid2 ++ [(t, e)], by simp, hn, hev1, by simp [evsOf_snoc, hne, hev2]⟩

theorem fallback_own {t : Nat} {sched src evs} (h : Fallback t sched src evs) :
    Fallback t (sched ++ [(t, e)]) src (evs ++ [e]) := by
  obtain ⟨pre0, lv, mid1, mid2, rfl, hn, hev1, hev2⟩ := h
  exact ⟨pre0, lv, mid1, mid2 ++ [(t, e)], by simp, hn, hev1, by simp [evsOf_snoc, hev2]⟩

theorem fallback_start {t : Nat} {sched lv src} (h : CritSec t sched lv (lv.reverse.flatMap (askNo src))) :
    Fallback t (sched ++ [(t, .relMain)]) src [] := by
  obtain ⟨pre0, mid, rfl, hn, hev⟩ := h
  exact ⟨pre0, lv, mid, [], by simp, hn, hev, by simp [evsOf]⟩

/-- another thread's step that is not a level write leaves a thread's route facts intact -/
theorem route_frame {t t' : Nat} {sched lv} {p : PC} (h : p.route t' sched lv) (hne : t ≠ t')
    (he : e.isLevelWrite = false) : p.route t' (sched ++ [(t, e)]) lv := by
  cases p <;> simp only [PC.route.eq_1, PC.route.eq_2, PC.route.eq_3, PC.route.eq_4, PC.route.eq_5, PC.route.eq_6,
    PC.route.eq_7] at h ⊢ <;> (try trivial)
  case iter => obtain ⟨a, h1, h2⟩ := h; exact ⟨a, h1, critSec_frame h2 hne he⟩
  case asking => obtain ⟨a, h1, h2⟩ := h; exact ⟨a, h1, critSec_frame h2 hne he⟩
  case asked => obtain ⟨a, h1, h2⟩ := h; exact ⟨a, h1, critSec_frame h2 hne he⟩
  case putAcq =>
    exact ⟨fun hf => let ⟨a, b, h1, h2⟩ := h.1 hf; ⟨a, b, h1, critSec_frame h2 hne he⟩,
      fun hf => fallback_frame (h.2 hf) hne⟩
  case putDo =>
    exact ⟨fun hf => let ⟨a, b, h1, h2⟩ := h.1 hf; ⟨a, b, h1, critSec_frame h2 hne he⟩,
      fun hf => fallback_frame (h.2 hf) hne⟩
  case fallback => exact fallback_frame h hne

/-- off the main lock the route facts do not mention the level list -/
theorem route_frame_nolock {t t' : Nat} {sched lv lv'} {p : PC} (h : p.route t' sched lv) (hne : t ≠ t')
    (hm : p.holdsMain = false) : p.route t' (sched ++ [(t, e)]) lv' := by
  cases p <;> simp only [PC.route.eq_1, PC.route.eq_2, PC.route.eq_3, PC.route.eq_4, PC.route.eq_5, PC.route.eq_6,
    PC.route.eq_7] at h ⊢ <;> (try trivial) <;> simp at hm
  case putAcq => subst hm; exact ⟨by simp, fun hf => fallback_frame (h.2 hf) hne⟩
  case putDo => subst hm; exact ⟨by simp, fun hf => fallback_frame (h.2 hf) hne⟩
  case fallback => exact fallback_frame h hne

def RouteInv (sched : List (Nat × Ev)) (s : TState) : Prop := ∀ t, (s.pc t).route t sched s.levels

theorem pc_other (hs : TStep s t e s') {t' : Nat} (hne : t' ≠ t) : s'.pc t' = s.pc t' := by
  cases hs <;> simp [setPc_pc, hne]

/-- `_event_queues` is written only by `lvAppend` / `lvPop`, and only by the holder of the main lock -/
theorem levels_step (hs : TStep s t e s') :
    (e.isLevelWrite = false → s'.levels = s.levels) ∧ (e.isLevelWrite = true → s.mainLock = some t) := by
  cases hs <;> simp [Ev.isLevelWrite] <;> assumption

theorem route_step_other (h : TInv s) {sched} (hr : RouteInv sched s) (hs : TStep s t e s') {t' : Nat}
    (hne : t' ≠ t) : (s'.pc t').route t' (sched ++ [(t, e)]) s'.levels := by
  rw [pc_other hs hne]
  have hl := levels_step hs
  have hne' : t ≠ t' := fun e => hne e.symm
  by_cases hm : (s.pc t').holdsMain = true
  · have hlock := (h.main t').2 hm
    have he : e.isLevelWrite = false := by
      cases hw : e.isLevelWrite
      · rfl
      · have := hl.2 hw; rw [hlock] at this; injection this with this; exact absurd this hne
    rw [hl.1 he]
    exact route_frame (hr t') hne' he
  · exact route_frame_nolock (hr t') hne' (by simpa using hm)

theorem route_step_own {sched} (hr : RouteInv sched s) (hs : TStep s t e s') :
    (s'.pc t).route t (sched ++ [(t, e)]) s'.levels := by
  have h1 := hr t
  cases hs
  case lvIter sg hpc =>
    simp only [setPc_pc_self, setPc_levels, PC.route.eq_1]
    exact ⟨[], by simp, critSec_start t sched s.levels⟩
  case askAcq sg q todo hpc hl =>
    rw [hpc] at h1; simp only [PC.route.eq_1] at h1
    obtain ⟨above, ha, hc⟩ := h1
    simp only [setPc_pc_self, setPc_levels, setQ_levels, PC.route.eq_2]
    exact ⟨above, ha, critSec_own hc rfl⟩
  case contains sg q todo res hpc hres =>
    rw [hpc] at h1; simp only [PC.route.eq_2] at h1
    obtain ⟨above, ha, hc⟩ := h1
    simp only [setPc_pc_self, setPc_levels, PC.route.eq_3]
    exact ⟨above, ha, by simpa using critSec_own hc rfl⟩
  case askRelYes sg q todo hpc =>
    rw [hpc] at h1; simp only [PC.route.eq_3] at h1
    obtain ⟨above, ha, hc⟩ := h1
    simp only [setPc_pc_self, setPc_levels, setQ_levels, PC.route.eq_4]
    exact ⟨fun _ => ⟨above, todo, ha, by simpa [askYes] using critSec_own hc rfl⟩, by simp⟩
  case askRelNo sg q todo hpc =>
    rw [hpc] at h1; simp only [PC.route.eq_3] at h1
    obtain ⟨above, ha, hc⟩ := h1
    simp only [setPc_pc_self, setPc_levels, setQ_levels, PC.route.eq_1]
    exact ⟨above ++ [q], by simp [ha], by simpa [askNo] using critSec_own hc rfl⟩
  case relMainNotFound sg hpc hl =>
    rw [hpc] at h1; simp only [PC.route.eq_1] at h1
    obtain ⟨above, ha, hc⟩ := h1
    simp only [List.append_nil] at ha
    simp only [setPc_pc_self, PC.route.eq_6]
    exact fallback_start (ha ▸ hc)
  case acqO sg q f hpc hl =>
    rw [hpc] at h1; simp only [PC.route.eq_4] at h1
    simp only [setPc_pc_self, setPc_levels, setQ_levels, PC.route.eq_5]
    refine ⟨fun hf => ?_, fun hf => by simpa using fallback_own (h1.2 hf)⟩
    obtain ⟨above, below, ha, hc⟩ := h1.1 hf
    exact ⟨above, below, ha, critSec_own hc rfl⟩
  case fallbackRead sg hpc =>
    rw [hpc] at h1; simp only [PC.route.eq_6] at h1
    simp only [setPc_pc_self, PC.route.eq_4]
    exact ⟨by simp, fun _ => by simpa using fallback_own h1⟩
  all_goals (try subst_vars)
  all_goals simp [*]

theorem route_step (h : TInv s) {sched} (hr : RouteInv sched s) (hs : TStep s t e s') :
    RouteInv (sched ++ [(t, e)]) s' := by
  intro t'
  by_cases hne : t' = t
  · subst hne; exact route_step_own hr hs
  · exact route_step_other h hr hs hne

theorem route_run {src0 : List Nat} {sched : List (Nat × Ev)} {s : TState}
    (hr : run (initState src0) sched = some s) : RouteInv sched s := by
  refine run_induction (P := RouteInv) ?_ ?_ sched s hr
  · intro t; simp
  · intro pre s t e s' hpre ih hs _
    exact route_step (tinv_reach ⟨pre, hpre⟩) ih hs

/-! ### the level found owns the source -/

/-- a thread that got the answer "mine" from level `q` carries a signal whose source is registered in `q` -/
def PC.foundOK (srcs : Nat → List Nat) : PC → Prop
  | .asked sg q _ res => res = true → ∃ n, sg.src = some n ∧ n ∈ srcs q
  | .putAcq sg q f | .putDo sg q f => f = true → ∃ n, sg.src = some n ∧ n ∈ srcs q
  | _ => True

attribute [simp] PC.foundOK.eq_1 PC.foundOK.eq_2 PC.foundOK.eq_3 PC.foundOK.eq_4

theorem foundOK_mono {p : PC} {f g : Nat → List Nat} (h : p.foundOK f) (hfg : ∀ q n, n ∈ f q → n ∈ g q) :
    p.foundOK g := by
  cases p <;> simp_all
  all_goals
    intro hf
    obtain ⟨n, h1, h2⟩ := h hf
    exact ⟨n, h1, hfg _ _ h2⟩

/-- sources are only ever added -/
theorem sources_step (hs : TStep s t e s') (q n : Nat) (h : n ∈ (s.q q).sources) : n ∈ (s'.q q).sources := by
  cases hs <;> grind

theorem found_step (hf : ∀ t, (s.pc t).foundOK fun q => (s.q q).sources) (hs : TStep s t e s') :
    ∀ t', (s'.pc t').foundOK fun q => (s'.q q).sources := by
  intro t'
  by_cases hne : t' = t
  · subst hne
    have h1 := hf t'
    have hm := fun q n => sources_step hs q n
    cases hs
    case contains sg q todo res hpc hres =>
      simp only [setPc_pc_self, PC.foundOK.eq_1, setPc_q]
      intro hr; subst hr
      cases hsrc : sg.src with
      | none => simp [hsrc] at hres
      | some n => exact ⟨n, rfl, by simpa [hsrc] using hres.symm⟩
    case askRelYes sg q todo hpc =>
      rw [hpc] at h1; simp only [PC.foundOK.eq_1] at h1
      simp only [setPc_pc_self, PC.foundOK.eq_2]
      intro _
      obtain ⟨n, h2, h3⟩ := h1 trivial
      exact ⟨n, h2, hm _ _ h3⟩
    case acqO sg q f hpc hl =>
      rw [hpc] at h1; simp only [PC.foundOK.eq_2] at h1
      simp only [setPc_pc_self, PC.foundOK.eq_3]
      intro hf'
      obtain ⟨n, h2, h3⟩ := h1 hf'
      exact ⟨n, h2, hm _ _ h3⟩
    all_goals (try subst_vars)
    all_goals simp [*]
  · rw [pc_other hs hne]
    exact foundOK_mono (hf t') (fun q n => sources_step hs q n)

theorem found_reach {src0 : List Nat} {s : TState} (hr : TReach src0 s) :
    ∀ t, (s.pc t).foundOK fun q => (s.q q).sources :=
  treach_induction (P := fun s => ∀ t, (s.pc t).foundOK fun q => (s.q q).sources)
    (by intro t; simp) (fun _ _ _ _ _ h hs => found_step h hs) s hr

/-! ### the routing facts at the `put` -/

theorem put_inv {q sid : Nat} {prio : Int} {o : Nat} (hs : tstep s t (.put q sid prio o) = some s') :
    ∃ sg found, s.pc t = .putDo sg q found ∧ sg.sid = sid ∧ sg.prio = prio ∧ o = (s.q q).seq := by
  have := tstep_sound hs
  cases this
  case put sg f hpc => exact ⟨sg, f, hpc, rfl, rfl, rfl⟩

theorem routing_found {src0 : List Nat} {pre : List (Nat × Ev)} {sg : TSig} {q : Nat}
    (hr : run (initState src0) pre = some s) (hpc : s.pc t = .putDo sg q true) :
    s.mainLock = some t ∧ q ∈ s.levels ∧ (∃ n, sg.src = some n ∧ n ∈ (s.q q).sources) ∧
      ∃ above below, s.levels.reverse = above ++ q :: below ∧
        CritSec t pre s.levels (above.flatMap (askNo sg.src) ++ askYes sg.src q ++ [.acqO q]) := by
  have hinv := tinv_reach ⟨pre, hr⟩
  have h1 := (hinv.main t).2 (by simp [hpc])
  have h2 := hinv.snap t
  have h3 := found_reach ⟨pre, hr⟩ t
  have h4 := route_run hr t
  rw [hpc] at h2 h3 h4
  simp only [PC.snapOK.eq_5, PC.foundOK.eq_3, PC.route.eq_5] at h2 h3 h4
  exact ⟨h1, h2 trivial, h3 trivial, h4.1 trivial⟩

theorem routing_fallback {src0 : List Nat} {pre : List (Nat × Ev)} {sg : TSig} {q : Nat}
    (hr : run (initState src0) pre = some s) (hpc : s.pc t = .putDo sg q false) :
    Fallback t pre sg.src [.activeRead q, .acqO q] := by
  have h4 := route_run hr t
  rw [hpc] at h4
  simp only [PC.route.eq_5] at h4
  exact h4.2 trivial

end Simpleline.Threads
