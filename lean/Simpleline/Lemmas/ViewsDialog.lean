/-
  Helper lemmas for C12b: the windows of the library's dialog screens (`Model/DialogViews.lean`).
-/
import Simpleline.Model.DialogViews
import Simpleline.Lemmas.Screen
import Simpleline.Lemmas.LayoutOKFits
import Simpleline.Lemmas.ColumnGrid

namespace Simpleline

/-! ### `Except` plumbing (private: generic names) -/

private theorem bind_eq_ok {ε α β} (x : Except ε α) (f : α → Except ε β) (b : β) :
    (x >>= f) = .ok b ↔ ∃ a, x = .ok a ∧ f a = .ok b := by
  cases x <;> simp [bind, Except.bind]

private theorem pure_eq_ok {ε α} (a b : α) : (pure a : Except ε α) = .ok b ↔ a = b := by
  simp [pure, Except.pure]

private theorem throw_ne_ok {ε α} (e : ε) (b : α) : (throw e : Except ε α) = .ok b ↔ False := by
  simp [throw, throwThe, MonadExceptOf.throw]

/-! ### a text renders at every positive width -/

theorem renderText_ok_of_pos (cc : CharClass) (st : WSt) (t : List Char) (w : Int) (hw : 0 < w) :
    ∃ s, renderTextSt cc st t w = .ok s := by
  unfold renderTextSt WSt.writeWrapped
  by_cases ht : t = []
  · exact ⟨_, by simp [ht]; rfl⟩
  · have : ¬ w ≤ 0 := by omega
    exact ⟨_, by simp [ht, this]; rfl⟩

/-! ### centering -/

/-- a row moved `n` columns to the right -/
def indent (n : Nat) (row : List Char) : List Char := List.replicate n ' ' ++ row

/-- `CenterWidget` on lines `g` at width `w`: every row (also an empty one) is moved right by half of the room the
widest row leaves -/
def centerLines (g : Grid) (w : Int) : Grid := g.map (indent ((w - (gridWidth g : Int)) / 2).toNat)

theorem overlay_nil (src : List Char) (col : Nat) : overlay [] src col = indent col src := by
  simp [overlay, padTo, indent, List.take_replicate, List.drop_replicate]

theorem drawInto_nil (src : Grid) (col : Nat) : drawInto [] src 0 col = src.map (indent col) := by
  unfold drawInto extendRows
  apply List.ext_getElem
  · simp
  · intro i h1 h2
    have hi : i < src.length := by simpa using h2
    simp [hi, overlay_nil]

/-- a centered text: the text's lines, centered; the render fails only if the text's does (a text never comes out
wider than the width, so the model's `outOfDomain` case does not arise) -/
theorem center_text_render (cc : CharClass) (st st' : WSt) (m : List Char) (w : Int) (r : Wd)
    (h : (Wd.center st (.text st' m)).render cc w = .ok r) :
    ∃ s, renderTextSt cc {} m w = .ok s ∧ r.lines = centerLines s.buf w := by
  simp only [Wd.render, bind_eq_ok, pure_eq_ok] at h
  obtain ⟨c', ⟨s, hs, rfl⟩, h⟩ := h
  split at h
  · simp only [throw_ne_ok] at h
  · simp only [pure_eq_ok] at h
    subst h
    refine ⟨s, hs, ?_⟩
    show drawInto [] s.buf 0 _ = _
    rw [drawInto_nil]
    rfl

theorem center_text_ok_of_pos (cc : CharClass) (st st' : WSt) (m : List Char) (w : Int) (hw : 0 < w) :
    ∃ r, (Wd.center st (.text st' m)).render cc w = .ok r := by
  obtain ⟨s, hs⟩ := renderText_ok_of_pos cc st' m w hw
  have hrows := renderText_rows cc st' m w s hs
  have hgw : gridWidth s.buf ≤ w.toNat := (col_gridWidth_le_iff s.buf w.toNat).2 hrows
  have hnot : ¬ w < ((gridWidth (Wd.text s m).lines : Nat) : Int) := by
    show ¬ w < ((gridWidth s.buf : Nat) : Int)
    omega
  refine ⟨.center ((st.clear).drawAt s.buf 0 ((w - (gridWidth s.buf : Int)) / 2).toNat false) (.text s m), ?_⟩
  simp only [Wd.render, hs, bind, Except.bind, pure, Except.pure, hnot, if_false]
  rfl

/-! ### a window renders when its title and items do -/

theorem renderWindowItems_ok (cc : CharClass) (w : Int) :
    ∀ (items : List Wd) (st : WSt), (∀ it ∈ items, ∃ r, it.render cc w = .ok r) →
      ∃ p, renderWindowItems cc w st items = .ok p := by
  intro items
  induction items with
  | nil => intro st _; exact ⟨_, by rw [renderWindowItems]; rfl⟩
  | cons it its ih =>
    intro st h
    obtain ⟨r, hr⟩ := h it (by simp)
    obtain ⟨p, hp⟩ := ih (st.draw r.lines false) (fun x hx => h x (by simp [hx]))
    refine ⟨(p.1, r :: p.2), ?_⟩
    rw [renderWindowItems]
    simp only [hr, hp, bind, Except.bind, pure, Except.pure]

theorem window_render_ok (cc : CharClass) (st : WSt) (title : Option Str) (items : List Wd) (w : Int)
    (ht : ∀ t, truthy title = some t → ∃ s, renderTextSt cc {} t w = .ok s)
    (hi : ∀ it ∈ items, ∃ r, it.render cc w = .ok r) :
    ∃ r, (Wd.window st title items).render cc w = .ok r := by
  rw [Wd.render]
  cases htt : truthy title with
  | some t =>
    obtain ⟨s, hs⟩ := ht t htt
    obtain ⟨p, hp⟩ := renderWindowItems_ok cc w items
      ((st.clear.draw s.buf false).draw (renderSepSt 1).buf false) hi
    exact ⟨_, by simp only [hs, hp, bind, Except.bind, pure, Except.pure]; rfl⟩
  | none =>
    obtain ⟨p, hp⟩ := renderWindowItems_ok cc w items st.clear hi
    exact ⟨_, by simp only [hp, bind, Except.bind, pure, Except.pure]; rfl⟩

/-- a window with a non-empty title and two items: the title's lines, one blank line, the lines of the first
item, the lines of the second -/
theorem window_two_items (cc : CharClass) (st : WSt) (t : Str) (ht : t ≠ []) (a b : Wd) (w : Int) (r : Wd)
    (h : (Wd.window st (some t) [a, b]).render cc w = .ok r) :
    ∃ T a' b', renderTextSt cc {} t w = .ok T ∧ a.render cc w = .ok a' ∧ b.render cc w = .ok b' ∧
      r.lines = T.buf ++ [[]] ++ a'.lines ++ b'.lines := by
  obtain ⟨tl, items', htl, hlen, hit, hl⟩ := window_render_spec cc st (some t) [a, b] w r h
  have htr : truthy (some t) = some t := by
    cases t with
    | nil => exact absurd rfl ht
    | cons c cs => rfl
  simp only [windowTitleLines, htr] at htl
  cases hT : renderTextSt cc {} t w with
  | error e => simp [hT, Except.map] at htl
  | ok T =>
    simp only [hT, Except.map, Except.ok.injEq] at htl
    subst htl
    match items', hlen, hit, hl with
    | [a', b'], _, hit, hl =>
      refine ⟨T, a', b', rfl, hit 0 (by simp) (by simp), hit 1 (by simp) (by simp), ?_⟩
      simp [hl, List.flatMap_cons]

/-! ### the dialogs -/

/-- the items of a dialog window: nothing (input screens), or the message widget then one separator of one line -/
theorem DKind.items_eq (k : DKind) :
    k.items = match k.message with
      | none => []
      | some m => [if k.centered then .center {} (.text {} m) else .text {} m, .sep {} 1] := by
  cases k <;> rfl

theorem DKind.title_ne_nil (k : DKind) (t : Str) (h : k.title = some t) : t ≠ [] := by
  cases k <;> simp only [DKind.title, Option.some.injEq, reduceCtorEq] at h <;> subst h <;> decide

theorem DKind.title_none_iff (k : DKind) : k.title = none ↔ k.message = none := by
  cases k <;> simp [DKind.title, DKind.message]

theorem DKind.items_fits (k : DKind) : fitsList k.items = true := by
  cases k <;> rfl

/-- every item of a dialog window respects every width -/
theorem DKind.items_respect (cc : CharClass) (k : DKind) (w : Int) : ∀ it ∈ k.items, RespectsWidth cc it w := by
  intro it hit
  apply fits_respects cc it _ w
  cases k <;> simp only [DKind.items, List.mem_cons, List.not_mem_nil, or_false] at hit <;>
    (try rcases hit with rfl | rfl) <;> first | rfl | exact absurd hit (by simp)

theorem DKind.window_respects (cc : CharClass) (k : DKind) (w : Int) : RespectsWidth cc k.window w :=
  respects_window cc {} k.title k.items w (k.items_respect cc w)

theorem DKind.items_ok_of_pos (cc : CharClass) (k : DKind) (w : Int) (hw : 0 < w) :
    ∀ it ∈ k.items, ∃ r, it.render cc w = .ok r := by
  intro it hit
  have sepok : ∀ st n, ∃ r, (Wd.sep st n).render cc w = .ok r := fun st n => ⟨_, by rw [Wd.render]; rfl⟩
  have textok : ∀ st m, ∃ r, (Wd.text st m).render cc w = .ok r := fun st m => by
    obtain ⟨s, hs⟩ := renderText_ok_of_pos cc st m w hw
    exact ⟨_, by simp only [Wd.render, hs, bind, Except.bind, pure, Except.pure]; rfl⟩
  cases k <;> simp only [DKind.items, List.mem_cons, List.not_mem_nil, or_false] at hit <;>
    (try rcases hit with rfl | rfl) <;>
    first
    | exact center_text_ok_of_pos cc _ _ _ w hw
    | exact sepok _ _
    | exact textok _ _
    | exact absurd hit (by simp)

theorem DKind.windowLines_ok_of_pos (cc : CharClass) (k : DKind) (w : Int) (hw : 0 < w) :
    ∃ g, k.windowLines cc w = .ok g := by
  obtain ⟨r, hr⟩ := window_render_ok cc {} k.title k.items w
    (fun t _ => renderText_ok_of_pos cc {} t w hw) (k.items_ok_of_pos cc w hw)
  exact ⟨r.lines, by simp only [DKind.windowLines, DKind.window, hr, Except.map]⟩

theorem DKind.windowLines_eq_ok (cc : CharClass) (k : DKind) (w : Int) (g : Grid)
    (h : k.windowLines cc w = .ok g) : ∃ r, k.window.render cc w = .ok r ∧ r.lines = g := by
  unfold DKind.windowLines at h
  cases hr : k.window.render cc w with
  | error e => simp [hr, Except.map] at h
  | ok r =>
    simp only [hr, Except.map, Except.ok.injEq] at h
    exact ⟨r, rfl, h⟩

/-- closed form of the window of a dialog with a message -/
theorem DKind.windowLines_closed (cc : CharClass) (k : DKind) (w : Int) (g : Grid) (t m : Str)
    (ht : k.title = some t) (hm : k.message = some m) (h : k.windowLines cc w = .ok g) :
    ∃ T M, renderTextSt cc {} t w = .ok T ∧ renderTextSt cc {} m w = .ok M ∧
      g = T.buf ++ [[]] ++ (if k.centered then centerLines M.buf w else M.buf) ++ [[]] := by
  obtain ⟨r, hr, rfl⟩ := k.windowLines_eq_ok cc w g h
  have hi := k.items_eq
  simp only [hm] at hi
  simp only [DKind.window, ht, hi] at hr
  obtain ⟨T, a', b', hT, ha, hb, hl⟩ := window_two_items cc {} t (k.title_ne_nil t ht) _ _ w r hr
  have hb' := sep_render_lines cc {} 1 w b' hb
  by_cases hc : k.centered = true
  · simp only [hc, if_true] at ha ⊢
    obtain ⟨M, hM, hlM⟩ := center_text_render cc {} {} m w a' ha
    exact ⟨T, M, hT, hM, by rw [hl, hlM, hb']; rfl⟩
  · simp only [hc, if_false, Bool.false_eq_true] at ha ⊢
    simp only [Wd.render, bind_eq_ok, pure_eq_ok] at ha
    obtain ⟨M, hM, rfl⟩ := ha
    exact ⟨T, M, hT, hM, by rw [hl, hb']; rfl⟩

/-- the input screens' window is empty at every width -/
theorem DKind.windowLines_getInput (cc : CharClass) (m : Str) (w : Int) :
    (DKind.getInput m).windowLines cc w = .ok [] := by
  simp only [DKind.windowLines, DKind.window, DKind.title, DKind.items, Wd.render, truthy, renderWindowItems,
    bind, Except.bind, pure, Except.pure, Except.map]
  rfl

end Simpleline
