/- Helper lemmas for C16 (state independence of `Wd.render`). -/
import Simpleline.Spec.WidgetSpec

namespace Simpleline

end Simpleline
