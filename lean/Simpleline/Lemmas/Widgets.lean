/- Helper lemmas for C16 (state independence of `Wd.render`). -/
import Simpleline.Spec.WidgetSpec

namespace Simpleline

/-! ### `Except` plumbing (private: generic names) -/

private theorem bind_eq_ok {ε α β} (x : Except ε α) (f : α → Except ε β) (b : β) :
    (x >>= f) = .ok b ↔ ∃ a, x = .ok a ∧ f a = .ok b := by
  cases x <;> simp [bind, Except.bind]

private theorem pure_eq_ok {ε α} (a b : α) : (pure a : Except ε α) = .ok b ↔ a = b := by
  simp [pure, Except.pure]

private theorem throw_ne_ok {ε α} (e : ε) (b : α) : (throw e : Except ε α) = .ok b ↔ False := by
  simp [throw, throwThe, MonadExceptOf.throw]

/-! ### `resetList` and `Wd.add` -/

@[simp] theorem resetList_eq_nil (items : List Wd) : resetList items = [] ↔ items = [] := by
  cases items <;> simp [resetList]

theorem resetList_append (xs ys : List Wd) : resetList (xs ++ ys) = resetList xs ++ resetList ys := by
  induction xs with
  | nil => simp [resetList]
  | cons x xs ih => simp [resetList, ih]

theorem Wd.reset_add (t x : Wd) : (t.add x).reset = t.reset.add x.reset := by
  cases t <;> simp only [Wd.add, Wd.reset, resetList_append, resetList]

/-! ### rendering does not read the object state -/

mutual
theorem render_reset (cc : CharClass) : ∀ (t : Wd) (w : Int), t.render cc w = t.reset.render cc w
  | .text st t, w => by simp only [Wd.render, Wd.reset, renderTextSt, WSt.clear]
  | .sep st n, w => by simp only [Wd.render, Wd.reset]
  | .center st c, w => by
    have ih := render_reset cc c w
    simp only [Wd.render, Wd.reset, WSt.clear, ih]
  | .checkbox st k t x c, w => by simp only [Wd.render, Wd.reset]
  | .window st title items, w => by
    have ih := renderWindowItems_reset cc items w
    simp only [Wd.render, Wd.reset, WSt.clear, ih]
  | .list st cm cols cw sp kp u nw items, w => by
    have ih := renderListItems_reset cc items
    simp only [Wd.render, Wd.reset, WSt.clear, ← ih, ne_eq, resetList_eq_nil]
theorem renderWindowItems_reset (cc : CharClass) : ∀ (items : List Wd) (w : Int) (st : WSt),
    renderWindowItems cc w st items = renderWindowItems cc w st (resetList items)
  | [], _, _ => by simp only [resetList]
  | it :: its, w, st => by
    have ih1 := render_reset cc it w
    have ih2 := renderWindowItems_reset cc its w
    simp only [renderWindowItems, resetList, ← ih1, ← ih2]
theorem renderListItems_reset (cc : CharClass) : ∀ (items : List Wd) (used : Int) (kp : Option KeyPat) (i : Nat),
    renderListItems cc used kp i items = renderListItems cc used kp i (resetList items)
  | [], _, _, _ => by simp only [resetList]
  | it :: its, used, kp, i => by
    have ih1 := render_reset cc it
    have ih2 := renderListItems_reset cc its used kp
    simp only [renderListItems, resetList, ← ih1, ← ih2]
end

/-! ### inversion of successful renders -/

theorem render_window_ok {cc : CharClass} {st : WSt} {title : Option (List Char)} {items : List Wd}
    {w : Int} {t' : Wd} (h : (Wd.window st title items).render cc w = .ok t') :
    ∃ st1 st2 items', renderWindowItems cc w st1 items = .ok (st2, items') ∧
      t' = .window st2 title items' := by
  simp only [Wd.render] at h
  split at h
  · simp only [bind_eq_ok, pure_eq_ok] at h
    obtain ⟨_, _, st1, _, ⟨st2, items'⟩, h, rfl⟩ := h
    exact ⟨st1, st2, items', h, rfl⟩
  · simp only [bind_eq_ok, pure_eq_ok] at h
    obtain ⟨st1, _, ⟨st2, items'⟩, h, rfl⟩ := h
    exact ⟨st1, st2, items', h, rfl⟩

theorem render_list_ok {cc : CharClass} {st : WSt} {cm : Bool} {cols : Nat} {cw : Option Int}
    {sp : Nat} {kp : Option KeyPat} {u : Option Int} {nw : List NumW} {items : List Wd}
    {w : Int} {t' : Wd} (h : (Wd.list st cm cols cw sp kp u nw items).render cc w = .ok t') :
    ∃ used st1 numw items', renderListItems cc used kp 0 items = .ok (numw, items') ∧
      t' = .list st1 cm cols cw sp kp (some used) numw items' := by
  simp only [Wd.render] at h
  split at h
  · simp only [bind_eq_ok, throw_ne_ok, false_and, exists_false] at h
  · simp only [bind_eq_ok, pure_eq_ok] at h
    obtain ⟨⟨numw, items'⟩, h, rfl⟩ := h
    exact ⟨_, _, numw, items', h, rfl⟩

theorem renderListItems_cons_ok {cc : CharClass} {used : Int} {kp : Option KeyPat} {i : Nat}
    {it : Wd} {its : List Wd} {nws : List NumW} {items' : List Wd}
    (h : renderListItems cc used kp i (it :: its) = .ok (nws, items')) :
    ∃ w' it' nws' its', it.render cc w' = .ok it' ∧
      renderListItems cc used kp (i + 1) its = .ok (nws', its') ∧ items' = it' :: its' := by
  simp only [renderListItems] at h
  split at h
  · simp only [bind_eq_ok, throw_ne_ok, false_and, exists_false] at h
  · split at h
    · simp only [bind_eq_ok] at h
      obtain ⟨_, _, h⟩ := h
      split at h
      · simp only [bind_eq_ok, throw_ne_ok, false_and, exists_false] at h
      · simp only [bind_eq_ok, pure_eq_ok, Prod.mk.injEq] at h
        obtain ⟨_, _, it', h1, ⟨nws', its'⟩, h2, -, rfl⟩ := h
        exact ⟨_, it', nws', its', h1, h2, rfl⟩
    · simp only [bind_eq_ok, pure_eq_ok, Prod.mk.injEq] at h
      obtain ⟨_, _, it', h1, ⟨nws', its'⟩, h2, -, rfl⟩ := h
      exact ⟨_, it', nws', its', h1, h2, rfl⟩

/-! ### rendering keeps the contents -/

mutual
theorem render_keeps (cc : CharClass) : ∀ (t t' : Wd) (w : Int), t.render cc w = .ok t' → t'.reset = t.reset
  | .text st t, t', w, h => by
    simp only [Wd.render, bind_eq_ok, pure_eq_ok] at h
    obtain ⟨_, _, rfl⟩ := h
    simp only [Wd.reset]
  | .sep st n, t', w, h => by
    simp only [Wd.render, pure_eq_ok] at h
    subst h
    simp only [Wd.reset]
  | .center st c, t', w, h => by
    simp only [Wd.render, bind_eq_ok] at h
    obtain ⟨c', hc, h⟩ := h
    have ih := render_keeps cc c c' w hc
    split at h
    · simp only [throw_ne_ok] at h
    · simp only [pure_eq_ok] at h
      subst h
      simp only [Wd.reset, ih]
  | .checkbox st k t x c, t', w, h => by
    simp only [Wd.render, bind_eq_ok, pure_eq_ok] at h
    obtain ⟨_, _, rfl⟩ := h
    simp only [Wd.reset]
  | .window st title items, t', w, h => by
    obtain ⟨st1, st2, items', h', rfl⟩ := render_window_ok h
    have ih := renderWindowItems_keeps cc items items' w st1 st2 h'
    simp only [Wd.reset, ih]
  | .list st cm cols cw sp kp u nw items, t', w, h => by
    obtain ⟨used, st1, numw, items', h', rfl⟩ := render_list_ok h
    have ih := renderListItems_keeps cc items items' used kp 0 numw h'
    simp only [Wd.reset, ih]
theorem renderWindowItems_keeps (cc : CharClass) : ∀ (items items' : List Wd) (w : Int) (st st' : WSt),
    renderWindowItems cc w st items = .ok (st', items') → resetList items' = resetList items
  | [], _, _, _, _, h => by
    simp only [renderWindowItems, pure_eq_ok, Prod.mk.injEq] at h
    rw [h.2]
  | it :: its, items', w, st, st', h => by
    simp only [renderWindowItems, bind_eq_ok, pure_eq_ok, Prod.mk.injEq] at h
    obtain ⟨it', h1, ⟨st'', its'⟩, h2, -, rfl⟩ := h
    have ih1 := render_keeps cc it it' w h1
    have ih2 := renderWindowItems_keeps cc its its' w _ _ h2
    simp only [resetList, ih1, ih2]
theorem renderListItems_keeps (cc : CharClass) : ∀ (items items' : List Wd) (used : Int) (kp : Option KeyPat) (i : Nat) (nws : List NumW),
    renderListItems cc used kp i items = .ok (nws, items') → resetList items' = resetList items
  | [], _, _, _, _, _, h => by
    simp only [renderListItems, pure_eq_ok, Prod.mk.injEq] at h
    rw [h.2]
  | it :: its, items', used, kp, i, nws, h => by
    obtain ⟨w', it', nws', its', h1, h2, rfl⟩ := renderListItems_cons_ok h
    have ih1 := render_keeps cc it it' w' h1
    have ih2 := renderListItems_keeps cc its its' used kp (i + 1) nws' h2
    simp only [resetList, ih1, ih2]
end

/-! ### corollaries -/

theorem render_congr_reset (cc : CharClass) {t u : Wd} (w : Int) (h : t.reset = u.reset) :
    t.render cc w = u.render cc w := by
  rw [render_reset cc t, render_reset cc u, h]

end Simpleline
