/-
  Character classes.

  Python predicates that depend on Unicode tables (`str.isspace`, the regex classes `\w` and
  `[^\d\W]`, decimal digit values) are *parameters* of the model: a `CharClass` is any assignment of
  these predicates to characters.  Theorems quantify over every `CharClass` (under the few closure
  facts they need, stated as hypotheses); the correspondence harness computes the classes with Python
  for the characters of each case and ships them with the case.
-/
namespace Simpleline

/-- `string.whitespace` of CPython's `textwrap` (`_whitespace = '\t\n\x0b\x0c\r '`). -/
def isWs6 (c : Char) : Bool :=
  c == '\t' || c == '\n' || c == '\x0b' || c == '\x0c' || c == '\r' || c == ' '

structure CharClass where
  /-- `c.isspace()` – also what `str.strip()` removes. -/
  isSpace  : Char → Bool
  /-- `re.match(r'\w', c)` -/
  isWord   : Char → Bool
  /-- `re.match(r'[^\d\W]', c)` -/
  isLetter : Char → Bool
  /-- whitespace accepted by `int()` around the digits -/
  isIntSpace : Char → Bool
  /-- `unicodedata.decimal(c)` if `c` is a decimal digit (category Nd) -/
  digitVal : Char → Option Nat

/-- `[\w!"'&.,?]` of `textwrap.TextWrapper.wordsep_re`. -/
def CharClass.isWordPunct (cc : CharClass) (c : Char) : Bool :=
  cc.isWord c || c == '!' || c == '"' || c == '\'' || c == '&' || c == '.' || c == ',' || c == '?'

/-- Closure facts every Python-derived class satisfies and that the theorems use. -/
structure CharClass.Sane (cc : CharClass) : Prop where
  ws6_space : ∀ c, isWs6 c = true → cc.isSpace c = true

/-- The ASCII instance, used by non-vacuity examples and kernel-checked witnesses. -/
def asciiClass : CharClass where
  isSpace c := isWs6 c || c == '\x1c' || c == '\x1d' || c == '\x1e' || c == '\x1f'
  isWord c := c.isAlphanum || c == '_'
  isLetter c := c.isAlpha || c == '_'
  isIntSpace c := isWs6 c
  digitVal c := if c.isDigit then some (c.toNat - '0'.toNat) else none

theorem asciiClass_sane : asciiClass.Sane := ⟨by intro c h; simp [asciiClass, h]⟩

end Simpleline
