/-
  `EntryWidget` and the (deprecated but shipped) `ColumnWidget` of simpleline/render/widgets.py, as functions over the
  widget model of `Model/Widgets.lean`. A `ColumnWidget` holds columns `(width or None, [widgets])` and a spacing;
  `render(width)` clears the buffer and, column by column, puts the cursor at `(0, col_pos)`, renders every widget of
  the column at the column's width (`None`: what is left of `width` right of `col_pos`) and draws it in block mode
  (below the previous one, same column); the next column starts at
  `max(col_pos + column width, widest row so far) + spacing`.
  Column widths are natural numbers here (a negative width is outside the model).
-/
import Simpleline.Model.Widgets

namespace Simpleline

/-- `EntryWidget._create_text(title, value)`: the title, and the value on a second line if it is truthy -/
def entryText (title : List Char) (value : Option (List Char)) : List Char :=
  match truthy value with
  | some v => title ++ ['\n'] ++ v
  | none => title

/-- `for item in col: item.render(col_max_width); self.draw(item, block=True)` -/
def renderColItems (cc : CharClass) (maxW : Int) : WSt → List Wd → Except RErr (WSt × List Wd)
  | st, [] => pure (st, [])
  | st, it :: its => do
    let it' ← it.render cc maxW
    let (st', its') ← renderColItems cc maxW (st.draw it'.lines true) its
    pure (st', it' :: its')

/-- the loop of `ColumnWidget.render(width)` from the column that starts at `colPos` on -/
def renderColumnsFrom (cc : CharClass) (spacing : Nat) (width : Int) :
    WSt → Nat → List (Option Nat × List Wd) → Except RErr (WSt × List (Option Nat × List Wd))
  | st, _, [] => pure (st, [])
  | st, colPos, (cw, items) :: rest => do
    let st0 : WSt := { st with cur := (0, colPos) }                    -- set_cursor_position(0, col_pos)
    let maxW : Int := match cw with
      | some c => (c : Int)
      | none => width - (colPos : Int)
    let (st1, items') ← renderColItems cc maxW st0 items
    let colPos' := max (colPos + cw.getD 0) (gridWidth st1.buf) + spacing
    let (st2, rest') ← renderColumnsFrom cc spacing width st1 colPos' rest
    pure (st2, (cw, items') :: rest')

/-- a `ColumnWidget` object: its buffer/cursor, spacing and columns -/
structure ColW where
  st : WSt := {}
  spacing : Nat
  cols : List (Option Nat × List Wd)
  deriving Repr

/-- `ColumnWidget.render(width)`: the object after the call, or the exception a child raises -/
def ColW.render (cc : CharClass) (c : ColW) (width : Int) : Except RErr ColW := do
  let (st, cols') ← renderColumnsFrom cc c.spacing width {} 0 c.cols
  pure { c with st := st, cols := cols' }

def ColW.lines (c : ColW) : Grid := c.st.buf

end Simpleline
