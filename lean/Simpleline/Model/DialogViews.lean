/-
  What the library's own dialog screens of simpleline/render/adv_widgets.py *show*: the title, the content of
  `self.window` after `refresh()`, and the prompt (`Model/Dialogs.lean` has what their `input()` returns).

  `ErrorDialog(message)`, `PasswordDialog(message=None)`, `YesNoDialog(message)`, `HelpScreen(help_path)`,
  `GetInputScreen(message)` / `GetPasswordInputScreen(message)` (the latter differs only in
  `hide_user_input = True`, which is not part of what is shown).

  `UIScreen.refresh` is `self.window = WindowContainer(self._title)`; the dialogs then call
  `self.window.add_with_separator(item)` = `add(item); add(SeparatorWidget(1))` (`blank_lines=1`).
  With `LANG=C` gettext is the identity, so the literals are the ones in the source
  (`Prompt.ENTER = "ENTER"`).
-/
import Simpleline.Model.Widgets
import Simpleline.Model.Prompt

namespace Simpleline

/-- the dialog kinds with their constructor arguments. `help text`: `text` is what `f.read()` returned for the
help file (`none`: `help_path` is falsy, no file is read). -/
inductive DKind where
  | error (msg : Str)
  | password (msg : Option Str)
  | yesNo (msg : Str)
  | help (text : Option Str)
  | getInput (msg : Str)
  deriving Repr, DecidableEq

/-- `self.title` as set by the constructor (`GetInputScreen` keeps `UIScreen`'s default `None`) -/
def DKind.title : DKind → Option Str
  | .error _ => some "Error".toList
  | .password _ => some "Password".toList
  | .yesNo _ => some "Question".toList
  | .help _ => some "Help".toList
  | .getInput _ => none

/-- the text of the message widget: `message or "Enter your passphrase"` for the password dialog (so `""` gives
the default too), the file content or `"The help is not available."` for the help screen; the input screens
show their message in the prompt, not in the window -/
def DKind.message : DKind → Option Str
  | .error m => some m
  | .password m => some ((truthy m).getD "Enter your passphrase".toList)
  | .yesNo m => some m
  | .help t => some (t.getD "The help is not available.".toList)
  | .getInput _ => none

/-- is the message wrapped in a `CenterWidget`? (not on the help screen) -/
def DKind.centered : DKind → Bool
  | .help _ => false
  | _ => true

/-- `self.window`'s items after `refresh()`: the message (centered, except on the help screen) and one
separator of one line; `GetInputScreen.refresh` replaces the window by an empty `WindowContainer()` -/
def DKind.items : DKind → List Wd
  | .error m => [.center {} (.text {} m), .sep {} 1]
  | .password m => [.center {} (.text {} ((truthy m).getD "Enter your passphrase".toList)), .sep {} 1]
  | .yesNo m => [.center {} (.text {} m), .sep {} 1]
  | .help t => [.text {} (t.getD "The help is not available.".toList), .sep {} 1]
  | .getInput _ => []

/-- `self.window` after `refresh()` (before rendering). `GetInputScreen`'s window has no title. -/
def DKind.window (k : DKind) : Wd := .window {} k.title k.items

/-- what `prompt()` returns; `PasswordDialog.prompt()` asks for the passphrase itself (blocking, hidden input with
the text `DKind.passPrompt`) and returns `None` -/
def DKind.prompt : DKind → Option Prompt
  | .error _ => some { message := some "Press ENTER to exit".toList }
  | .password _ => none
  | .yesNo _ => some { message := some "Please respond 'yes' or 'no'".toList }
  | .help _ => some { message := some "Press ENTER to return".toList }
  | .getInput m => some { message := some m }

/-- the text `PasswordDialog.prompt()` passes to `PasswordInputHandler.get_input` -/
def DKind.passPrompt : DKind → Option Str
  | .password _ => some "Passphrase: ".toList
  | _ => none

/-- `window.render(w); window.get_lines()` after `refresh()` -/
def DKind.windowLines (cc : CharClass) (k : DKind) (w : Int) : Except RErr Grid :=
  (k.window.render cc w).map Wd.lines

/-- `str(prompt())` (`none`: `prompt()` returned `None`) -/
def DKind.promptStr (k : DKind) : Option Str := k.prompt.map Prompt.str

end Simpleline
