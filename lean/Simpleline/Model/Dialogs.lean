/-
  The input-driven dialog screens of simpleline/render/adv_widgets.py as functions: what `input(args, key)` returns
  and what it stores. `YesNoDialog`, `PasswordDialog` (its `input`), `HelpScreen`, `ErrorDialog`, `GetInputScreen`
  (acceptance conditions). The return values are the ones the scheduler classifies (C07): `DISCARDED` counts as a
  rejected line, `PROCESSED_AND_CLOSE` closes the dialog; `ErrorDialog.input` ends the process (`sys.exit(1)`).
-/
namespace Simpleline

inductive DRet where
  | discarded          -- InputState.DISCARDED
  | close              -- InputState.PROCESSED_AND_CLOSE
  | exit1              -- sys.exit(1)
  deriving Repr, DecidableEq, Inhabited

/-- `YesNoDialog._response` -/
structure YesNo where
  answer : Option Bool := none
  deriving Repr, DecidableEq, Inhabited

/-- `YesNoDialog.input(args, key)` (LANG=C: the replies are the literal words) -/
def YesNo.input (d : YesNo) (key : List Char) : YesNo × DRet :=
  if key = ['y', 'e', 's'] then ({ answer := some true }, .close)
  else if key = ['n', 'o'] then ({ answer := some false }, .close)
  else (d, .discarded)

/-- `PasswordDialog._password` -/
structure PwDialog where
  password : Option (List Char) := none
  deriving Repr, DecidableEq, Inhabited

/-- `PasswordDialog.input(args, key)`: any non-empty line is the password -/
def PwDialog.input (d : PwDialog) (key : List Char) : PwDialog × DRet :=
  if key ≠ [] then ({ password := some key }, .close) else (d, .discarded)

/-- `HelpScreen.input`: any line closes the help -/
def helpInput (_key : List Char) : DRet := .close

/-- `ErrorDialog.input`: any line ends the process with status 1 -/
def errorInput (_key : List Char) : DRet := .exit1

/-- acceptance conditions `function(input, args) -> bool` of a `GetInputScreen`, as a small language both sides can run -/
inductive Cond where
  | minLen (n : Nat)            -- len(input) >= args
  | maxLen (n : Nat)            -- len(input) <= args
  | equals (s : List Char)      -- input == args
  | differs (s : List Char)     -- input != args
  | startsWith (c : Char)       -- input[:1] == args
  deriving Repr, DecidableEq, Inhabited

def Cond.eval : Cond → List Char → Bool
  | .minLen n, k => decide (n ≤ k.length)
  | .maxLen n, k => decide (k.length ≤ n)
  | .equals s, k => decide (k = s)
  | .differs s, k => decide (k ≠ s)
  | .startsWith c, k => decide (k.head? = some c)

/-- `GetInputScreen._value`, `_conditions` -/
structure GetInput where
  value : Option (List Char) := none
  conds : List Cond := []
  deriving Repr, DecidableEq, Inhabited

/-- `_test_input`: the conditions are asked in the order they were added, up to the first one that rejects; the number
asked is returned too (conditions are application code: how many of them ran is observable) -/
def testInput : List Cond → List Char → Bool × Nat
  | [], _ => (true, 0)
  | c :: cs, k => if c.eval k then let r := testInput cs k; (r.1, r.2 + 1) else (false, 1)

/-- `GetInputScreen.input(args, key)` -/
def GetInput.input (d : GetInput) (key : List Char) : GetInput × DRet :=
  if (testInput d.conds key).1 then ({ d with value := some key }, .close) else (d, .discarded)

end Simpleline
