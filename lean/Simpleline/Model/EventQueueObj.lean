/-
  The whole `EventQueue` object of simpleline/event_loop/event_queue.py: the signal operations of
  `Model/Heapq.lean` (`enqueue`/`_put`, `get`, `get_top_event_if_priority`) together with the source API
  (`add_source`, `remove_source`, `contains_source`, `enqueue_if_source_belongs`).

  `_contained_screens` is a Python `set`; here it is the field `sources : List Src` of `HQueue` kept
  *duplicate-free* (`addSource` appends only an absent element, exactly as `Simpleline.addSource` of
  `Machine.lean` does on `EQueue.sources`; `removeSource` drops every occurrence, so the operations have set
  semantics also on a list with duplicates, and `Props/C03c.lean` proves that no duplicates ever arise).
  The order of the list is the order of first registration; Python's `set` has no observable order (the
  driver prints the sources sorted).
-/
import Simpleline.Model.Heapq

namespace Simpleline.EQObj

open Simpleline.Heapq

/-- `contains_source(x)`: `x in self._contained_screens` -/
def containsSource (q : HQueue) (x : Src) : Bool := q.sources.contains x

/-- `add_source(x)`: `self._contained_screens.add(x)` -/
def addSource (q : HQueue) (x : Src) : HQueue :=
  if q.sources.contains x then q else { q with sources := q.sources ++ [x] }

/-- `remove_source(x)`: `self._contained_screens.remove(x)`; `none` = `KeyError`, re-raised as
`EventQueueError("Can't remove non-existing event source!")` -/
def removeSource (q : HQueue) (x : Src) : Option HQueue :=
  if q.sources.contains x then some { q with sources := q.sources.filter (· ≠ x) } else none

/-- `enqueue_if_source_belongs(signal, source)` -/
def putIf (q : HQueue) (s : Sig) (x : Src) : Bool × HQueue :=
  if containsSource q x then (true, q.put s) else (false, q)

inductive Op where
  | put (s : Sig)
  | get
  | getTop (p : Int)
  | addSource (x : Src)
  | removeSource (x : Src)
  | contains (x : Src)
  | putIf (s : Sig) (x : Src)
  deriving Repr, DecidableEq, Inhabited

inductive Out where
  | done                       -- put, add_source, successful remove_source: returns None
  | sig (s : Sig)              -- get / get_top_event_if_priority returned a signal
  | noSig                      -- get_top_event_if_priority returned None (head put back)
  | blocked                    -- the queue was empty: the Python call would wait
  | removeError                -- EventQueueError
  | bool (b : Bool)            -- contains_source / enqueue_if_source_belongs
  deriving Repr, DecidableEq, Inhabited

/-- the operations of `Model/Heapq.lean` among the ones of the whole object -/
def Op.ofSignalOp : Heapq.Op → Op
  | .put s => .put s
  | .get => .get
  | .getTop p => .getTop p

def Out.ofSignalOut : Heapq.Out → Out
  | .done => .done
  | .sig s => .sig s
  | .noSig => .noSig
  | .blocked => .blocked

/-- one method call on the object (a blocked call and a failed `remove_source` leave it as it is) -/
def step (q : HQueue) : Op → Out × HQueue
  | .put s => (.done, q.put s)
  | .get => match q.get with
    | none => (.blocked, q)
    | some (s, q') => (.sig s, q')
  | .getTop p => match q.getTopIfPriority p with
    | none => (.blocked, q)
    | some (some s, q') => (.sig s, q')
    | some (none, q') => (.noSig, q')
  | .addSource x => (.done, addSource q x)
  | .removeSource x => match removeSource q x with
    | none => (.removeError, q)
    | some q' => (.done, q')
  | .contains x => (.bool (containsSource q x), q)
  | .putIf s x => let r := putIf q s x; (.bool r.1, r.2)

/-- a sequence of calls: the outputs in order and the final object -/
def run (q : HQueue) : List Op → List Out × HQueue
  | [] => ([], q)
  | o :: os => let r := step q o; let r' := run r.2 os; (r.1 :: r'.1, r'.2)

/-- the states passed through, one per call (for the differential test and for statements about histories) -/
def trace (q : HQueue) : List Op → List (Out × HQueue)
  | [] => []
  | o :: os => let r := step q o; r :: trace r.2 os

/-! ### the same object over the sorted-list queue of the machine model -/

/-- `remove_source` on the sorted-list queue -/
def removeSourceE (q : EQueue) (x : Src) : Option EQueue :=
  if q.sources.contains x then some { q with sources := q.sources.filter (· ≠ x) } else none

/-- the calls on the `EQueue` of `Machine.lean`: the signal operations as in `Heapq.stepE`; `add_source` is the
machine's `Simpleline.addSource` (instruction `regSource`); membership is `sources.contains`, the test
`LoopSt.route` makes -/
def stepE (q : EQueue) : Op → Out × EQueue
  | .put s => (.done, q.put s)
  | .get => match q.entries with
    | [] => (.blocked, q)
    | e :: es => (.sig e.2.2, { q with entries := es })
  | .getTop p => match q.entries with
    | [] => (.blocked, q)
    | e :: es => if e.2.2.prio = p then (.sig e.2.2, { q with entries := es }) else (.noSig, q)
  | .addSource x => (.done, Simpleline.addSource q x)
  | .removeSource x => match removeSourceE q x with
    | none => (.removeError, q)
    | some q' => (.done, q')
  | .contains x => (.bool (q.sources.contains x), q)
  | .putIf s x => if q.sources.contains x then (.bool true, q.put s) else (.bool false, q)

def runE (q : EQueue) : List Op → List Out × EQueue
  | [] => ([], q)
  | o :: os => let r := stepE q o; let r' := runE r.2 os; (r.1 :: r'.1, r'.2)

end Simpleline.EQObj
