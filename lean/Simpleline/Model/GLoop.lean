/-
  C20, loop level: the two dispatch disciplines side by side, on one level, for state-passing handler programs.

  * `MainLoop`: a stable priority queue (entries sorted by priority, ties by arrival); one signal is taken
    at a time (the head); what its handlers enqueue is inserted before the next take.
  * `GLibEventLoop` over a GLib main context (as fixed by the stand-in `harness/impl/fakegi`): every signal is
    an idle source attached to the context, kept in attach order; one `iteration` collects, in attach order,
    all attached sources of the most urgent priority present (the batch) and dispatches them one by one;
    sources attached meanwhile wait for a later iteration, even when they are more urgent or of the same priority.

  A program is a state-passing function: dispatching signal `s` in program state `σ` yields the new state and the
  signals its handlers enqueue, in order (`σ` carries invocation counters, application state, …).
-/
namespace Simpleline.GLoop

structure GSig where
  id : Nat
  cls : Nat
  prio : Int
  deriving Repr, DecidableEq, Inhabited

abbrev Prog (σ : Type) := σ → GSig → σ × List GSig

/-! ### MainLoop discipline -/

/-- insert behind everything at least as urgent (stable) -/
def insertStable (s : GSig) : List GSig → List GSig
  | [] => [s]
  | x :: xs => if s.prio < x.prio then s :: x :: xs else x :: insertStable s xs

structure MState (σ : Type) where
  st : σ
  queue : List GSig            -- sorted by priority, FIFO within a priority
  done : List GSig := []       -- dispatched so far, oldest first

/-- take the head, dispatch it, enqueue what its handlers enqueue -/
def mstep {σ} (P : Prog σ) (m : MState σ) : Option (MState σ) :=
  match m.queue with
  | [] => none
  | s :: rest =>
    let r := P m.st s
    some { st := r.1, queue := r.2.foldl (fun q e => insertStable e q) rest, done := m.done ++ [s] }

def mrun {σ} (P : Prog σ) : Nat → MState σ → MState σ
  | 0, m => m
  | n + 1, m => match mstep P m with
    | some m' => mrun P n m'
    | none => m

/-! ### GLib discipline -/

structure GState (σ : Type) where
  st : σ
  attached : List GSig         -- attach order (sources still attached, including the rest of the batch)
  batch : List GSig := []      -- the rest of the current iteration's batch
  done : List GSig := []

def minPrio : List GSig → Option Int
  | [] => none
  | s :: ss => match minPrio ss with
    | none => some s.prio
    | some p => some (if s.prio < p then s.prio else p)

/-- one dispatch; when the batch is exhausted a new iteration first collects the next batch -/
def gstep {σ} (P : Prog σ) (g : GState σ) : Option (GState σ) :=
  let batch := match g.batch with
    | [] => (match minPrio g.attached with
        | some p => g.attached.filter (fun s => s.prio = p)
        | none => [])
    | b => b
  match batch with
  | [] => none
  | s :: rest =>
    let r := P g.st s
    some { st := r.1, attached := (g.attached.erase s) ++ r.2, batch := rest, done := g.done ++ [s] }

def grun {σ} (P : Prog σ) : Nat → GState σ → GState σ
  | 0, g => g
  | n + 1, g => match gstep P g with
    | some g' => grun P n g'
    | none => g

/-! ### Calm (clause 1 of DESIGN.md C20, on one level): while other signals are pending, the handlers of the signal being
dispatched enqueue nothing more urgent than it -/

def calmStep {σ} (P : Prog σ) (m : MState σ) : Bool :=
  match m.queue with
  | [] => true
  | s :: rest => rest.isEmpty || (P m.st s).2.all (fun e => decide (s.prio ≤ e.prio))

/-- Calm along the first `n` steps of the MainLoop run -/
def calmRun {σ} (P : Prog σ) : Nat → MState σ → Bool
  | 0, _ => true
  | n + 1, m => calmStep P m && (match mstep P m with
    | some m' => calmRun P n m'
    | none => true)

/-- both loops start from the same enqueue history: the signals enqueued before the loop runs, in order -/
def minit {σ} (st : σ) (initial : List GSig) : MState σ :=
  { st := st, queue := initial.foldl (fun q e => insertStable e q) [] }
def ginit {σ} (st : σ) (initial : List GSig) : GState σ :=
  { st := st, attached := initial }

end Simpleline.GLoop
