/-
  The GLib machine (DESIGN.md §4.4, Appendix A.4): `GLibEventLoop` (simpleline/event_loop/glib_event_loop.py) over a
  GLib main context as fixed by the stand-in `harness/impl/fakegi`, + `ScreenScheduler` + the input pipeline, as one
  instruction-list machine.

  Everything above the loop API (scheduler, input, screen callbacks, programs, events) is `Model/Machine.lean`'s,
  copied instruction by instruction (the data types are reused); what differs is the loop:

  * every enqueued signal is an idle *source* attached to the context of the loop it is routed to; the source
    carries the handler list it will run (`HList`): the *live* list of the signal's class if the class had a handler
    when the signal was enqueued, else `[kill]` for an `ExceptionSignal`, else a fresh empty list (later registrations
    are not seen);
  * an `iteration` of a context collects, in attach order, all attached sources not in dispatch of the most urgent
    priority (the batch) and dispatches them one by one; a nested iteration on the same context abandons the rest of
    the batch (epoch); a source in dispatch is not re-entered;
  * `_run_handlers` wraps *all* handlers of a signal in one `try` (`catchRun`): `ExitMainLoop` quits every loop
    (nothing is unwound beyond it), an ordinary exception enqueues an `ExceptionSignal` and skips the remaining
    handlers; the source is destroyed and the ticket line marked *after* the handlers (`endRun`); `_force_quit` is tested
    before the loop and before each handler call (`break`: the rest of `_run_handlers` still runs);
  * `close_loop` pops the loop and quits it (no drain; the running batch goes on); with no loop left every loop API
    call that indexes `_event_loops[-1]` raises `IndexError` (an ordinary exception);
  * `process_signals()` = one non-blocking iteration of the top loop's context; `process_signals(c)` = non-blocking
    iterations until the ticket is marked or force-quit.

  Reader schedule (as pinned by the harness on both loops): a typed line is handed in when a blocking iteration, or
  an iteration of a *waiting* `process_signals`, finds nothing ready.
-/
import Simpleline.Model.Machine

namespace Simpleline.G

/-! ### data -/

/-- the handler list a source carries (decided at enqueue time) -/
inductive HList where
  | live      -- `self._handlers[type(signal)]`: the class's list object, walked live (by index)
  | kill      -- `[kill_app_with_traceback]` (an ExceptionSignal nobody handles)
  | empty     -- a fresh `[]`
  deriving Repr, DecidableEq, Inhabited

/-- an idle source attached to a context -/
structure GSource where
  id : Nat
  sig : Sig
  hs : HList
  inCall : Bool := false
  deriving Repr, DecidableEq, Inhabited

/-- a `GLib.MainLoop` with its `MainContext` (one context per loop) and the `EventLoopData.sources` set -/
structure Ctx where
  sources : List GSource := []       -- attached (not destroyed), attach order
  epoch : Nat := 0
  running : Bool := false
  srcset : List Src := []
  deriving Repr, DecidableEq, Inhabited

structure GSt where
  ctxs : List Ctx := [{}]             -- object store; index = identity
  loops : List Nat := [0]             -- GLibEventLoop._event_loops, bottom … top
  forceQuit : Bool := false
  handlers : List (Cls × HRef × Option Nat) := []   -- registration order; (class, callback, data)
  tickets : List Ticket := []
  tcounter : Nat := 0
  quitCb : Option Nat := none
  nextSrc : Nat := 0
  deriving Repr, Inhabited

/-- how an iteration was requested -/
inductive Mode where
  | block     -- `MainLoop.run()`: `iteration(True)`
  | poll      -- an iteration of a waiting `process_signals(c)`: non-blocking; the reader may hand a line in when idle
  | once      -- `process_signals()`: one non-blocking iteration
  deriving Repr, DecidableEq, Inhabited

/-- model-only trace: the MainLoop machine's events (same meaning) + the GLib-specific ones -/
inductive Tr where
  | m (t : Simpleline.Tr)
  | attach (q : Nat) (g : GSource)                       -- source attached to context `q`
  | iter (q e : Nat) (p : Int) (attached batch : List GSource)   -- iteration `e` of context `q` collected `batch` (priority `p`) out of `attached`
  | idle (q e : Nat)                                     -- iteration `e` of `q` found nothing ready
  | disp (q e : Nat) (g : GSource)                       -- iteration `e` of `q` starts dispatching `g`
  | skip (q e sid : Nat)                                 -- batch member not dispatched (abandoned batch / destroyed / in dispatch)
  | destroy (q sid : Nat)
  | quitAll
  deriving Repr, DecidableEq, Inhabited

inductive Instr where
  | act (a : Act)
  | apprun | quitCb
  -- the GLib loop
  | gRun (q : Nat)                                       -- `MainLoop.run()` of loop `q`: `while running: iteration(True)`
  | gIter (q : Nat) (mode : Mode)
  | gDisp (q e : Nat) (g : GSource)                      -- one turn of the batch loop of iteration `e` of `q`: `g` = the batch element (a reference to the
                                                         -- source object: signal and handler list are immutable, the flags are looked up by identity)
  | runH (q : Nat) (g : GSource)                         -- `_run_handlers`
  | gCall (s : Sig) (hs : HList) (i : Nat)               -- `for handler in handlers` at index `i`
  | catchRun                                             -- the one `try` of `_run_handlers`
  | endRun (q : Nat) (g : GSource)                       -- `source.destroy(); _mark_signal_processed(signal)`
  | gAfter (q sid : Nat)                                 -- stand-in: `finally: in_call = False; if not keep: destroy()`
  | kill (s : Sig)
  | callH (h : HRef) (data : Option Nat) (s : Sig) | hret (hid : Nat)
  | note (what : String)
  | procWait (c : Cls) | gWait (c : Cls) (t : Nat) (q : Nat)
  | procIter
  | newLoop (s : Sig) | closeLoop
  -- scheduler / input: as in Machine.lean
  | pushModal (scr : Nat) (args : Option Nat) | modalRet (e : Entry)
  | closeScreen («from» : Option Src) | closeScreen2 (e : Entry) («from» : Option Src) | closeScreen3 (e : Entry)
  | processScreen | afterSetup (top : Entry) | afterSetupFail (e : Entry) | afterSetup2 (top : Entry)
  | identCheck (top : Entry) | catchPS
  | drawScreen (top : Entry) | catchDraw | maybeInput (top : Entry)
  | callScr (scr : Nat) (cb : Cb) (arg : Option Nat) (key : Option Str)
  | scrRet (scr : Nat) (cb : Cb) (ret : Ret) (key : Option Str)
  | printWidget (scr : Nat) | printLines (ls : List Str)
  | getInput (scr : Nat) (args : Option Nat) | getInput2 (scr : Nat) (args : Option Nat)
  | blockingInput (scr : Nat) (cont : Bool) | waitInput (ih : Nat)
  | inputReceived (s : Sig) | inputReady (n : Nat) (s : Sig)
  | processInput (scr : Nat) (key : Str) | classify (scr : Nat) | catchPI (scr : Nat)
  | countAndAct (scr : Nat) | endPI | afterQuit (q : Nat)
  deriving Repr, Inhabited

structure Cfg where
  code : List Instr := []
  L : GSt := {}
  A : AppSt := {}
  log : List Ev := []       -- newest first
  tr : List Tr := []        -- newest first
  nextSid : Nat := 1000
  retSetup : Bool := true
  retPromptNone : Bool := false
  retInput : Ret := .dflt
  retKey : Str := []
  retAction : UAction := .noop
  deriving Repr, Inhabited

/-! ### helpers -/

def GSt.ctx (L : GSt) (q : Nat) : Ctx := L.ctxs.getD q {}
def Cfg.ctx (c : Cfg) (q : Nat) : Ctx := c.L.ctx q

def GSt.setCtx (L : GSt) (q : Nat) (f : Ctx → Ctx) : GSt := { L with ctxs := listSet L.ctxs q f }
def Cfg.setCtx (c : Cfg) (q : Nat) (f : Ctx → Ctx) : Cfg := { c with L := c.L.setCtx q f }

def handlersOf (L : GSt) (c : Cls) : List (HRef × Option Nat) :=
  (L.handlers.filter (·.1 = c)).map (·.2)

/-- `_find_loop_data_for_source`: innermost loop owning the source, else the top loop; `none` = `IndexError` -/
def GSt.route (L : GSt) (src : Src) : Option Nat :=
  match L.loops.reverse.find? (fun q => (L.ctx q).srcset.contains src) with
  | some q => some q
  | none => L.loops.getLast?

/-- `_register_handlers_to_loop`: which handler list the source gets -/
def GSt.hlistFor (L : GSt) (s : Sig) : HList :=
  if handlersOf L s.cls ≠ [] then .live else if s.cls = .exception then .kill else .empty

def Cfg.trace (c : Cfg) (t : Simpleline.Tr) : Cfg := { c with tr := .m t :: c.tr }
def Cfg.gtrace (c : Cfg) (t : Tr) : Cfg := { c with tr := t :: c.tr }

/-- `GLibEventLoop.enqueue_signal`; `none` = `IndexError` (no loop left) -/
def Cfg.enq? (c : Cfg) (s : Sig) : Option Cfg :=
  if c.L.forceQuit then some (c.trace (.dropped s))
  else
    match c.L.route s.src with
    | none => none
    | some q =>
      let g : GSource := { id := c.L.nextSrc, sig := s, hs := c.L.hlistFor s }
      some { c with L := { (c.L.setCtx q fun x => { x with sources := x.sources ++ [g] }) with nextSrc := c.L.nextSrc + 1 },
                    tr := .attach q g :: .m (.enq q s) :: c.tr }

def Cfg.newSig (c : Cfg) (cls : Cls) (prio : Int) (src : Src) (line : Str := []) (ih : Nat := 0)
    (ok : Bool := true) : Sig × Cfg :=
  ({ id := c.nextSid + 1, cls := cls, prio := prio, src := src, line := line, ih := ih, ok := ok },
   { c with nextSid := c.nextSid + 1 })

def Cfg.write (c : Cfg) (t : Str) : Cfg := { c with A := { c.A with out := c.A.out ++ [t] } }

/-- the reader thread hands in the next typed line (environment transition); with no loop left the submission fails in
the reader thread (the line is consumed, nothing is enqueued) -/
def Cfg.deliver (c : Cfg) : Option Cfg :=
  match c.A.readers with
  | [] => none
  | r :: rs =>
    let line := c.A.stdin.headD []
    let c := { c with A := { c.A with readers := rs, stdin := c.A.stdin.tail }, log := .read line :: c.log }
    let (s, c) := c.newSig .inputReceived 0 (.req r) line
    some ((c.enq? s).getD c)

/-- log an observable event; the case's delivery points are indices into this log -/
def Cfg.emit (P : Prog) (c : Cfg) (e : Ev) : Cfg :=
  let c := { c with log := e :: c.log }
  if P.deliverAt.contains c.log.length then (c.deliver).getD c else c

def Cfg.setInCall (c : Cfg) (q sid : Nat) (b : Bool) : Cfg :=
  c.setCtx q fun x => { x with sources := x.sources.map fun g => if g.id = sid then { g with inCall := b } else g }

def Cfg.destroy (c : Cfg) (q sid : Nat) : Cfg :=
  c.setCtx q fun x => { x with sources := x.sources.filter fun g => g.id ≠ sid }

/-- `_quit_all_loops` -/
def Cfg.quitAll (c : Cfg) : Cfg :=
  { c with L := { c.L with ctxs := c.L.ctxs.zipIdx.map fun (x, i) => if c.L.loops.contains i then { x with running := false } else x } }

def Ctx.ready (x : Ctx) : List GSource := x.sources.filter fun g => !g.inCall

def minPrio : List GSource → Option Int
  | [] => none
  | g :: gs => match minPrio gs with
    | none => some g.sig.prio
    | some p => some (if g.sig.prio < p then g.sig.prio else p)

/-! ### exceptions: unwinding to the nearest catcher -/

/-- drop instructions up to the first catcher that handles `kind`; the catcher's own effect happens here. A catcher
whose own `enqueue_signal(ExceptionSignal)` raises (`IndexError`: no loop left) lets that exception propagate further;
passing the dispatch frame of the stand-in (`gAfter`) clears the source's in-dispatch mark (`finally`). -/
def unwind (kind : Kind) : (code : List Instr) → (c : Cfg) → Except (Outcome × Cfg) Cfg
  | [], c =>
    match kind with
    | .sysexit => .error (.killed 1, { c with code := [] })
    | .exit => .error (.raised "exit", { c with code := [] })
    | .err => .error (.raised "err", { c with code := [] })
  | ins :: rest, c =>
    match kind, ins with
    | .err, .catchRun =>
      let (s, c) := c.newSig .exception (-20) .loop
      match c.enq? s with
      | some c' => .ok { c' with code := rest }
      | none => unwind .err rest c
    | .exit, .catchRun => .ok { (c.quitAll.gtrace .quitAll) with code := rest }
    | .err, .catchPS =>
      let (s, c) := c.newSig .exception (-20) .sched
      match c.enq? s with
      | some c' => .ok { c' with code := rest }
      | none => unwind .err rest c
    | .err, .catchDraw =>
      let (s, c) := c.newSig .exception (-20) .sched
      match c.enq? s with
      | some c' => .ok { c' with code := rest }
      | none => unwind .err rest c
    | .err, .catchPI scr =>
      let (s, c) := c.newSig .exception (-20) (.im scr)
      -- process_input returns: skip its tail up to and including endPI
      let rest' := (rest.dropWhile fun i => match i with | .endPI => false | _ => true).drop 1
      match c.enq? s with
      | some c' => .ok { c' with code := rest' }
      | none => unwind .err rest c
    | _, .gAfter q sid => unwind kind rest (c.setInCall q sid false)
    | _, _ => unwind kind rest c

def Cfg.raise (c : Cfg) (kind : Kind) : Except (Outcome × Cfg) Cfg :=
  let c := match kind with
    | .exit => c.trace .exit
    | _ => c
  unwind kind c.code c

/-- `enqueue_signal` as a statement: `IndexError` when no loop is left -/
def Cfg.enqueue (c : Cfg) (s : Sig) : Except (Outcome × Cfg) Cfg :=
  match c.enq? s with
  | some c' => .ok c'
  | none => c.raise .err

def Cfg.redraw (c : Cfg) : Except (Outcome × Cfg) Cfg :=
  let (s, c) := c.newSig .render 0 .sched
  c.enqueue s

/-- `register_signal_source`: the top loop's source set; `IndexError` when no loop is left -/
def Cfg.regSource (c : Cfg) (src : Src) : Except (Outcome × Cfg) Cfg :=
  match c.L.loops.getLast? with
  | none => c.raise .err
  | some q => .ok (c.setCtx q fun x => { x with srcset := if x.srcset.contains src then x.srcset else x.srcset ++ [src] })

/-! ### the step function -/

def push (c : Cfg) (is : List Instr) : Cfg := { c with code := is ++ c.code }

/-- `InputThreadManager.start_input_thread` for a new request of handler `ih` -/
def startRequest (c : Cfg) (ih : Nat) (requester : Src) (text : Str) : Except (Outcome × Cfg) Cfg :=
  let A := c.A
  let A := { A with ihs := listSet A.ihs ih fun h => { h with received := false, value := none } }
  let r := A.reqs.length
  let A := { A with reqs := A.reqs ++ [{ ih := ih, requester := requester, text := text }], inputStack := A.inputStack ++ [r] }
  if A.inputStack.length ≠ 1 ∧ ¬ (A.ihs.getD ih default).skip then
    -- refused: the request is forgotten again (F9), KeyError
    ({ c with A := { A with inputStack := A.inputStack.dropLast } }).raise .err
  else
    let newest := A.inputStack.getLastD 0
    let t := (A.reqs.getD newest default).text
    if A.processing then .ok ({ c with A := A }.write t)
    else .ok ({ c with A := { A with processing := true, readers := A.readers ++ [newest] } }.write t)

def newIH (c : Cfg) (source : Src) (skip : Bool) (cb : Option Nat) : Nat × Cfg :=
  let n := c.A.ihs.length
  (n, { c with A := { c.A with ihs := c.A.ihs ++ [{ source := source, skip := skip, cb := cb }] },
               L := { c.L with handlers := c.L.handlers ++ [(.inputReady, .ih n, none)] } })

def doAct (c : Cfg) (a : Act) : Except (Outcome × Cfg) Cfg :=
  match a with
  | .enq cls prio src sid => c.enqueue { id := sid, cls := cls, prio := prio, src := src }
  | .regSource src => c.regSource src
  | .newLoop cls prio sid => .ok (push c [.newLoop { id := sid, cls := cls, prio := prio, src := .none }, .note "new<"])
  | .closeLoop => .ok (push c [.closeLoop, .note "closed<"])
  | .proc none => .ok (push c [.procIter, .note "proc<"])
  | .proc (some cls) => .ok (push c [.procWait cls, .note "proc<"])
  | .forceQuit =>
    .ok ({ c with L := { c.L with forceQuit := true } }.quitAll.trace .forceQuit)
  | .raiseExit => c.raise .exit
  | .raiseErr => c.raise .err
  | .schedule scr args =>
    let e : Entry := { eid := c.A.nextEid, screen := scr, args := args, modal := false }
    let c := { c with A := { c.A with stack := e :: c.A.stack, nextEid := c.A.nextEid + 1 } }
    let c := c.trace (.stackOp "schedule" c.A.stack)
    if c.A.firstScheduled then .ok c
    else do
      let c ← c.redraw
      pure { c with A := { c.A with firstScheduled := true } }
  | .push scr args =>
    let e : Entry := { eid := c.A.nextEid, screen := scr, args := args, modal := false }
    let c := { c with A := { c.A with stack := c.A.stack ++ [e], nextEid := c.A.nextEid + 1 } }
    (c.trace (.stackOp "push" c.A.stack)).redraw
  | .pushModal scr args => .ok (push c [.pushModal scr args, .note "modal<"])
  | .replace scr args =>
    match c.A.stack.getLast? with
    | none => c.raise .err
    | some old =>
      let e : Entry := { eid := c.A.nextEid, screen := scr, args := args, modal := old.modal }
      let c := { c with A := { c.A with stack := c.A.stack.dropLast ++ [e], nextEid := c.A.nextEid + 1 } }
      (c.trace (.stackOp "replace" c.A.stack)).redraw
  | .closeDirect => .ok (push c [.closeScreen none])
  | .closeSig scr => let (s, c) := c.newSig .close 0 (.scr scr); c.enqueue s
  | .redrawSig scr => let (s, c) := c.newSig .render 0 (.scr scr); c.enqueue s
  | .schedRedraw => c.redraw
  | .getUserInput scr _ => .ok (push c [.blockingInput scr false, .note "gui<"])

/-- group consecutive lines into print chunks, requests into blocking inputs -/
def chunkOut (scr : Nat) : (evs : List OutEv) → (cur : List Str) → (acc : List Instr) → List Instr
  | [], cur, acc => if cur = [] then acc else acc ++ [.printLines cur]
  | .line l :: r, cur, acc => chunkOut scr r (cur ++ [l]) acc
  | .ask :: r, cur, acc => chunkOut scr r [] ((if cur = [] then acc else acc ++ [.printLines cur]) ++ [.blockingInput scr true])

def step (P : Prog) (c0 : Cfg) : Except (Outcome × Cfg) Cfg :=
  match c0.code with
  | [] => .error (.returned, c0)
  | ins :: rest =>
    let c := { c0 with code := rest }
    match ins with
    | .act a => doAct c a
    | .apprun =>
      if ¬ P.runEmpty ∧ c.A.stack = [] then .error (.raised "NothingScheduled", c)
      else
        let c := { c with L := { c.L with forceQuit := false } }
        match c.L.loops with
        | [q] => .ok (push (c.setCtx q fun x => { x with running := true }) [.gRun q, .quitCb])
        | _ => c.raise .err                                       -- ValueError: can't run event loop multiple times
    | .quitCb =>
      match c.L.quitCb with
      | some d => .ok (c.emit P (.quitcb d))
      | none => .ok c
    -- the GLib loop
    | .gRun q =>
      if (c.ctx q).running then .ok (push c [.gIter q .block, .gRun q]) else .ok (c.trace (.loopReturn q))
    | .gIter q mode =>
      let c := c.setCtx q fun x => { x with epoch := x.epoch + 1 }
      let e := (c.ctx q).epoch
      let c := if (c.ctx q).ready = [] ∧ mode ≠ .once then (c.deliver).getD c else c
      match minPrio (c.ctx q).ready with
      | none =>
        match mode with
        | .block => .error (.blocked, c)
        | .poll => if c.A.readers = [] then .error (.livelock, c) else .ok (c.gtrace (.idle q e))   -- the waiting call spins for ever
        | .once => .ok (c.gtrace (.idle q e))
      | some p =>
        let batch := (c.ctx q).ready.filter fun g => g.sig.prio = p
        .ok (push (c.gtrace (.iter q e p (c.ctx q).sources batch)) (batch.map fun g => .gDisp q e g))
    | .gDisp q e g =>
      if (c.ctx q).epoch ≠ e then .ok (c.gtrace (.skip q e g.id))           -- a nested iteration abandoned this batch
      else
        match (c.ctx q).sources.find? (·.id = g.id) with
        | none => .ok (c.gtrace (.skip q e g.id))                           -- destroyed meanwhile
        | some cur =>
          if cur.inCall then .ok (c.gtrace (.skip q e g.id))
          else .ok (push (((c.setInCall q g.id true).gtrace (.disp q e g)).trace (.take q g.sig)) [.runH q g, .gAfter q g.id])
    | .runH q g =>
      if c.L.forceQuit then .ok (push c [.endRun q g])
      else .ok (push c [.gCall g.sig g.hs 0, .catchRun, .endRun q g])
    | .gCall s hs i =>
      match hs with
      | .live =>
        match (handlersOf c.L s.cls)[i]? with
        | some (h, d) =>
          if c.L.forceQuit then .ok (c.trace (.dispatched s i))      -- no handler can run after the force quit: `break`
          else .ok (push c [.callH h d s, .gCall s hs (i + 1)])
        | none => .ok (c.trace (.dispatched s i))
      | .kill =>
        if i = 0 ∧ ¬ c.L.forceQuit then .ok (push c [.kill s, .gCall s hs 1]) else .ok (c.trace (.dispatched s i))
      | .empty => .ok (c.trace (.dispatched s i))
    | .catchRun => .ok c
    | .endRun q g =>
      let c := (c.destroy q g.id).gtrace (.destroy q g.id)
      .ok { c with L := { c.L with tickets := mark c.L.tickets g.sig.cls } }
    | .gAfter q sid => .ok ((c.setInCall q sid false).destroy q sid)
    | .kill _ =>
      let c := (c.write ['\n']).write (dumpStack P c.A.stack ++ ['\n'])
      (c.trace .kill).raise .sysexit
    | .callH h d s =>
      let c := c.trace (.call h d s)
      match h with
      | .render => .ok (push c [.processScreen])
      | .close => .ok (push c [.closeScreen (some s.src)])
      | .itm => .ok (push c [.inputReceived s])
      | .ih n => .ok (push c [.inputReady n s])
      | .exc => .ok (c.emit P (.note "EXC-handled"))
      | .user hid =>
        let n := (c.tr.filter fun t => match t with | .m (.call (.user h') _ _) => h' = hid | _ => false).length - 1
        let c := c.emit P (.h hid s.id d c.L.loops.length)
        .ok (push c ((P.handlerScript hid n).map .act ++ [.hret hid]))
    | .hret hid => .ok (c.emit P (.hret hid))
    | .note w => .ok (c.emit P (.note w))
    -- waiting / non-waiting processing
    | .procWait cls =>
      match c.L.loops.getLast? with
      | none => c.raise .err                                     -- IndexError
      | some q =>
        let t := c.L.tcounter
        let c := { c with L := { c.L with tcounter := t + 1, tickets := c.L.tickets ++ [({ line := cls, id := t, marked := false } : Ticket)] } }
        .ok (push (c.trace (.waitBegin cls t)) [.gWait cls t q])
    | .gWait cls t q =>
      if c.L.tickets.any (fun k => k.line = cls ∧ k.id = t ∧ k.marked) then
        .ok ({ c with L := { c.L with tickets := c.L.tickets.filter fun k => ¬ (k.line = cls ∧ k.id = t) } }.trace (.waitEnd cls t true))
      else if c.L.forceQuit then .ok (c.trace (.waitEnd cls t false))
      else .ok (push c [.gIter q .poll, .gWait cls t q])
    | .procIter =>
      match c.L.loops.getLast? with
      | none => c.raise .err                                     -- IndexError
      | some q => .ok (push c [.gIter q .once])
    -- nested loops
    | .newLoop s =>
      if c.L.forceQuit then .ok c
      else
        let q := c.L.ctxs.length
        let c := { c with L := { c.L with ctxs := c.L.ctxs ++ [({} : Ctx)], loops := c.L.loops ++ [q] } }
        do
          let c ← (c.trace (.openLevel q true)).enqueue s
          pure (push (c.setCtx q fun x => { x with running := true }) [.gRun q])
    | .closeLoop =>
      match c.L.loops.getLast? with
      | none => c.raise .err                                     -- IndexError: pop from empty list
      | some q =>
        let c := { c with L := { c.L with loops := c.L.loops.dropLast } }
        .ok ((c.setCtx q fun x => { x with running := false }).trace (.closeLevel q))
    -- scheduler
    | .pushModal scr args =>
      let e : Entry := { eid := c.A.nextEid, screen := scr, args := args, modal := true }
      let c := { c with A := { c.A with stack := c.A.stack ++ [e], nextEid := c.A.nextEid + 1 } }
      let c := (c.trace (.stackOp "pushModal" c.A.stack)).trace (.modalBegin e)
      let (s, c) := c.newSig .render 0 .sched
      .ok (push c [.newLoop s, .modalRet e])
    | .modalRet e => .ok (c.trace (.modalEnd e))
    | .closeScreen frm =>
      match c.A.stack.getLast? with
      | none => c.raise .err                                   -- ScreenStackEmptyException
      | some e =>
        -- the request is checked against the top screen before anything is popped (RenderUnexpectedError leaves the stack as it is)
        if frm ≠ none ∧ frm ≠ some (.scr e.screen) then c.raise .err
        else
          let c := { c with A := { c.A with stack := c.A.stack.dropLast } }
          .ok (push (c.trace (.stackOp "close" c.A.stack)) [.callScr e.screen .closed none none, .closeScreen2 e frm])
    | .closeScreen2 e frm =>
      if frm ≠ none ∧ frm ≠ some (.scr e.screen) then c.raise .err   -- RenderUnexpectedError
      else if e.modal then .ok (push c [.closeLoop, .closeScreen3 e])
      else .ok (push c [.closeScreen3 e])
    | .closeScreen3 e => do
      let c ← if c.A.stack ≠ [] ∧ ¬ e.modal then c.redraw else pure c
      if c.A.stack = [] then c.raise .exit else pure c
    | .processScreen =>
      match c.A.stack.getLast? with
      | none => c.raise .exit
      | some top =>
        if (c.A.scr top.screen).ready then .ok (push c [.afterSetup2 top])
        else .ok (push c [.callScr top.screen .setup top.args none, .afterSetup top])
    | .afterSetup top =>
      if c.retSetup then .ok (push c [.afterSetup2 top])
      else
        match c.A.stack.getLast? with
        | none => c.raise .err                                 -- pop from an empty stack
        | some e =>
          let c := { c with A := { c.A with stack := c.A.stack.dropLast } }
          let c := c.trace (.stackOp "discard" c.A.stack)
          if e.modal then .ok (push c [.closeLoop, .afterSetupFail e])      -- F10
          else c.redraw
    | .afterSetupFail _ =>
      if c.A.stack = [] then c.raise .exit else .ok c
    | .afterSetup2 top => do
      -- F6: the processed screen becomes a source of the active level
      let c ← c.regSource (.scr top.screen)
      pure (push (c.trace (.refresh top)) [.callScr top.screen .refresh top.args none, .identCheck top, .catchPS])
    | .catchPS => .ok c
    | .identCheck top =>
      match c.A.stack.getLast? with
      | none => c.raise .exit
      | some l =>
        if l.eid ≠ top.eid then
          .ok { c with code := (c.code.dropWhile fun i => match i with | .catchPS => false | _ => true) }
        else .ok (push c [.drawScreen top, .maybeInput top])
    | .drawScreen top =>
      let c := if (P.spec top.screen).noSeparator then c else c.write (spacer P.width)
      .ok (push (c.trace (.show top)) [.callScr top.screen .show none none, .catchDraw])
    | .catchDraw => .ok c
    | .maybeInput top =>
      if (P.spec top.screen).inputRequired then .ok (push c [.getInput top.screen top.args]) else .ok c
    -- screen callbacks
    | .callScr scr cb arg key =>
      let n := countOf (c.A.scr scr).counts cb
      let c := { c with A := c.A.setScr scr fun s => { s with counts := bump s.counts cb } }
      let c := c.emit P (.cb scr cb arg key)
      let ent := P.screenScript scr cb n
      let pre : List Instr := if cb = .show then [.printWidget scr] else []
      .ok (push c (pre ++ ent.acts.map .act ++ [.scrRet scr cb ent.ret key]))
    | .scrRet scr cb ret key =>
      match cb with
      | .setup =>
        if ret = .failBefore then .ok { c with retSetup := false }
        else do
          let c ← ({ c with A := c.A.setScr scr fun s => { s with ready := true } }).regSource (.scr scr)
          pure { c with retSetup := decide (ret ≠ .failAfter) }
      | .prompt => .ok { c with retPromptNone := decide (ret = .promptNone) }
      | .input => .ok { c with retInput := ret, retKey := key.getD [] }
      | _ => .ok c
    | .printWidget scr =>
      match windowLines P scr with
      | .error _ => c.raise .err
      | .ok lines =>
        match printWidget lines (P.spec scr).height with
        | none => .error (.livelock, c)
        | some evs => .ok (push c (chunkOut scr evs [] []))
    | .printLines ls => .ok (c.write (ls.flatMap fun l => l ++ ['\n']))
    -- input
    | .getInput scr args => .ok (push c [.callScr scr .prompt args none, .getInput2 scr args])
    | .getInput2 scr args =>
      if c.retPromptNone then .ok { c with A := c.A.setScr scr fun s => { s with err := 0 } }
      else
        let c := { c with A := c.A.setScr scr fun s => { s with inputArgs := args } }
        let (ih, c) := newIH c (.scr scr) (P.spec scr).skipCheck (some scr)
        startRequest c ih (.scr scr) (promptText P defaultPrompt)
    | .blockingInput scr cont =>
      let (ih, c) := newIH c (.im scr) (P.spec scr).skipCheck none
      let text := if cont then promptText P contPrompt else
        (match textPrompt P.cc msgPrompt P.width with | .ok s => s | .error _ => [])
      startRequest (push c [.waitInput ih]) ih (.im scr) text
    | .waitInput ih =>
      if (c.A.ihs.getD ih default).received then .ok c
      else if c.L.forceQuit ∧ c.L.loops ≠ [] then .error (.livelock, c)   -- every `process_signals(InputReadySignal)` returns at once: spins for ever
                                                                        -- (with no loop left the call raises `IndexError` instead)
      else .ok (push c [.procWait .inputReady, .waitInput ih])
    | .inputReceived s =>
      match c.A.inputStack.getLast? with
      | none => c.raise .err                                   -- IndexError
      | some r =>
        let R := c.A.reqs.getD r default
        let others := c.A.inputStack.dropLast
        let (sg, c) := c.newSig .inputReady 0 R.requester s.line R.ih true
        do
          let c ← c.enqueue sg
          let c ← others.foldlM (fun c t =>
            let T := c.A.reqs.getD t default
            let (sg, c) := c.newSig .inputReady 0 T.requester [] T.ih false
            c.enqueue sg) c
          pure { c with A := { c.A with inputStack := [], processing := false } }
    | .inputReady n s =>
      if s.ih ≠ n then .ok c
      else
        let I := c.A.ihs.getD n default
        let c := { c with A := { c.A with ihs := listSet c.A.ihs n fun h => { h with received := true, ok := s.ok } } }
        if ¬ s.ok then .ok c
        else
          let c := { c with A := { c.A with ihs := listSet c.A.ihs n fun h => { h with value := some s.line } } }
          match I.cb with
          | some scr =>
            let c := { c with A := { c.A with ihs := listSet c.A.ihs n fun h => { h with cb := none } } }
            .ok (push c [.processInput scr s.line])
          | none => .ok c
    | .processInput scr key =>
      .ok (push c [.callScr scr .input (c.A.scr scr).inputArgs (some key), .classify scr, .catchPI scr, .countAndAct scr, .endPI])
    | .catchPI _ => .ok c
    | .endPI => .ok c
    | .classify _ => .ok { c with retAction := classifyRet c.retInput c.retKey }
    | .countAndAct scr =>
      let a := c.retAction
      let c := { c with A := c.A.setScr scr fun s => { s with err := if a = UAction.error then s.err + 1 else 0 } }
      let redraw := (c.A.scr scr).err % 5 = 0
      match c.A.stack.getLast? with
      | none => c.raise .exit
      | some top =>
        match a with
        | .error => if redraw then c.redraw else .ok (push c [.getInput top.screen top.args])
        | .noop => .ok c
        | .redraw => c.redraw
        | .close => .ok (push c [.closeScreen none])
        | .quit =>
          match P.quitScreen with
          | some q => .ok (push c [.pushModal q none, .afterQuit q])
          | none => c.raise .exit
    | .afterQuit q =>
      match (P.spec q).answer with
      | none => c.raise .exit                  -- no `answer` attribute
      | some (some true) => c.raise .exit
      | some _ => c.redraw

/-- run for at most `fuel` steps -/
def runFuel (P : Prog) : Nat → Cfg → Cfg × Outcome
  | 0, c => (c, .fuel)
  | n + 1, c =>
    match step P c with
    | .ok c' => runFuel P n c'
    | .error (o, c') => (c', o)

/-- the initial configuration of a case (same start-up as the MainLoop machine's `initCfg`) -/
def initCfg (init : List Act) (handlers : List (Cls × HRef × Option Nat)) (quitCb : Option Nat) (stdin : List Str) : Cfg :=
  { code := init.map .act ++ [.apprun],
    L := { handlers := [(.render, .render, none), (.close, .close, none), (.inputReceived, .itm, none)] ++ handlers,
           quitCb := quitCb },
    A := { stdin := stdin } }

end Simpleline.G
