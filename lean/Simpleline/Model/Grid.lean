/-
  `Widget` base class of simpleline/render/widgets.py: the character buffer, the cursor, `draw` and the
  typewriter `write`.
-/
import Simpleline.Model.Text

namespace Simpleline

abbrev Grid := List (List Char)

/-- `Widget._buffer`, `Widget._cursor` -/
structure WSt where
  buf : Grid := []
  cur : Nat × Nat := (0, 0)
  deriving Repr, DecidableEq, Inhabited

def WSt.clear (_ : WSt) : WSt := {}

/-- `Widget.width` -/
def gridWidth (g : Grid) : Nat := g.foldl (fun acc l => max acc l.length) 0

def padTo (n : Nat) (r : List Char) : List Char := r ++ List.replicate (n - r.length) ' '

/-- `row += blanks if too short; row[col:col+len(src)] = src` -/
def overlay (r src : List Char) (col : Nat) : List Char :=
  (padTo (col + src.length) r).take col ++ src ++ (padTo (col + src.length) r).drop (col + src.length)

def extendRows (buf : Grid) (n : Nat) : Grid := buf ++ List.replicate (n - buf.length) []

/-- the buffer after `Widget.draw(src, row, col)` -/
def drawInto (buf src : Grid) (row col : Nat) : Grid :=
  (extendRows buf (row + src.length)).mapIdx fun i r =>
    if row ≤ i ∧ i < row + src.length then overlay r (src.getD (i - row) []) col else r

/-- `Widget.draw(w, row, col, block)` with explicit position -/
def WSt.drawAt (s : WSt) (src : Grid) (row col : Nat) (block : Bool) : WSt :=
  { buf := drawInto s.buf src row col, cur := (row + src.length, if block then col else 0) }

/-- `Widget.draw(w, block=…)` at the cursor -/
def WSt.draw (s : WSt) (src : Grid) (block : Bool) : WSt := s.drawAt src s.cur.1 s.cur.2 block

/-! ### the typewriter -/

structure TW where
  buf : Grid
  x : Nat
  y : Nat
  deriving Repr, DecidableEq

def setCell (buf : Grid) (x y : Nat) (c : Char) : Grid :=
  buf.modify x (fun r => (padTo (y + 1) r).set y c)

def twStep (col : Nat) (width : Option Int) (block : Bool) (s : TW) (c : Char) : TW :=
  if c = '\n' then
    { buf := extendRows s.buf (s.x + 2), x := s.x + 1, y := if block then col else 0 }
  else
    let buf := setCell (extendRows s.buf (s.x + 1)) s.x s.y c
    match width with
    | some w =>
      if (col : Int) + w ≤ ((s.y + 1 : Nat) : Int) then
        { buf := buf, x := s.x + 1, y := if block then col else 0 }
      else { buf := buf, x := s.x, y := s.y + 1 }
    | none => { buf := buf, x := s.x, y := s.y + 1 }

def typewrite (buf : Grid) (text : List Char) (row col : Nat) (width : Option Int) (block : Bool) : TW :=
  text.foldl (twStep col width block) { buf := buf, x := row, y := col }

/-- `Widget.write(text, row, col, width, block)` without word wrapping, explicit position;
`maxWidth` is `Widget._max_width` (a falsy value counts as absent). -/
def WSt.writeAt (s : WSt) (text : List Char) (row col : Nat) (width : Option Int) (block : Bool)
    (maxWidth : Option Nat := none) : WSt :=
  if text = [] then s
  else
    let width' : Option Int := match width, maxWidth with
      | some w, _ => some w
      | none, some m => if m = 0 then none else some ((m : Int) - col)
      | none, none => none
    let r := typewrite s.buf text row col width' block
    { buf := r.buf, cur := (r.x, r.y) }

inductive RErr where
  | valueError      -- ValueError (textwrap: invalid width; containers: width too small)
  | zeroDivision    -- ZeroDivisionError (a list container with zero columns)
  | outOfDomain     -- the model does not cover this input (negative draw column, …); never compared
  deriving Repr, DecidableEq

/-- `Widget.write(text, width=w, wordwrap=True)` at the cursor, as used by `TextWidget.render`:
word-wrap first (ValueError for a width ≤ 0), then type the wrapped text without a width. -/
def WSt.writeWrapped (cc : CharClass) (s : WSt) (text : List Char) (w : Int) : Except RErr WSt :=
  if text = [] then .ok s
  else if w ≤ 0 then .error .valueError
  else .ok (s.writeAt (wrapWords cc text w.toNat) s.cur.1 s.cur.2 none false)

/-- `TextWidget(text).render(w)` on a widget in state `s` -/
def renderTextSt (cc : CharClass) (s : WSt) (text : List Char) (w : Int) : Except RErr WSt :=
  s.clear.writeWrapped cc text w

end Simpleline
