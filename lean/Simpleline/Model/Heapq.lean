/-
  CPython's `heapq` (Lib/heapq.py: `heappush`, `heappop`, `_siftdown`, `_siftup`; the C accelerator
  `_heapqmodule.c` implements the same algorithm) on arrays, step for step, so that the array layout after
  every operation is the layout of the Python list (`queue.PriorityQueue().queue`), and on top of it
  python-simpleline's `EventQueue` (`simpleline/event_loop/event_queue.py`): `_QueueItem(signal, order)`
  objects compared by `__lt__` = strict lexicographic order on `(signal.priority, order)`.

  Everything is executable and total.  Termination of the two `while` loops of `_siftdown` / `_siftup`
  is proved by these definitions being accepted (`termination_by` + `decreasing_by`; no `partial`, no fuel).

  Index errors: the Python code raises `IndexError` when `pos` is outside the list; `heappush` /
  `heappop` never call the sifts that way.  Here an out-of-range `pos` returns the array unchanged.
-/
import Simpleline.Model.Machine

namespace Simpleline.Heapq

variable {α : Type}

/-! ### `heapq` -/

/-- the `while pos > startpos` loop of `_siftdown`; `newitem` is held outside the list (the slot `pos`
is a hole) and stored when the loop ends:
```
while pos > startpos:
    parentpos = (pos - 1) >> 1
    parent = heap[parentpos]
    if newitem < parent:
        heap[pos] = parent
        pos = parentpos
        continue
    break
heap[pos] = newitem
```
-/
def siftdownLoop (lt : α → α → Bool) (newitem : α) (heap : Array α) (startpos pos : Nat) : Array α :=
  if h : startpos < pos ∧ pos < heap.size then
    let parentpos := (pos - 1) / 2
    let parent := heap[parentpos]'(by omega)
    if lt newitem parent then
      siftdownLoop lt newitem (heap.setIfInBounds pos parent) startpos parentpos
    else
      heap.setIfInBounds pos newitem
  else
    heap.setIfInBounds pos newitem
termination_by pos
decreasing_by omega

/-- `_siftdown(heap, startpos, pos)`: move `heap[pos]` towards the root until its parent is not larger -/
def siftdown (lt : α → α → Bool) (heap : Array α) (startpos pos : Nat) : Array α :=
  if h : pos < heap.size then siftdownLoop lt heap[pos] heap startpos pos else heap

/-- the child selection of `_siftup`:
```
rightpos = childpos + 1
if rightpos < endpos and not heap[childpos] < heap[rightpos]:
    childpos = rightpos
```
-/
def smallerChild (lt : α → α → Bool) (heap : Array α) (childpos : Nat) (h : childpos < heap.size) : Nat :=
  if h' : childpos + 1 < heap.size then
    if !(lt heap[childpos] heap[childpos + 1]) then childpos + 1 else childpos
  else childpos

theorem smallerChild_lt (lt : α → α → Bool) (heap : Array α) (childpos : Nat) (h : childpos < heap.size) :
    smallerChild lt heap childpos h < heap.size := by
  unfold smallerChild; split
  · split <;> omega
  · omega

theorem le_smallerChild (lt : α → α → Bool) (heap : Array α) (childpos : Nat) (h : childpos < heap.size) :
    childpos ≤ smallerChild lt heap childpos h := by
  unfold smallerChild; split
  · split <;> omega
  · omega

/-- the `while childpos < endpos` loop of `_siftup` (`endpos = len(heap)`): bubble the smaller child up
until the hole `pos` is a leaf; returns the list and the final `pos`:
```
while childpos < endpos:
    (select the smaller child)
    heap[pos] = heap[childpos]
    pos = childpos
    childpos = 2*pos + 1
```
-/
def siftupLoop (lt : α → α → Bool) (heap : Array α) (pos : Nat) : Array α × Nat :=
  if h : 2 * pos + 1 < heap.size then
    let childpos := smallerChild lt heap (2 * pos + 1) h
    siftupLoop lt (heap.setIfInBounds pos (heap[childpos]'(smallerChild_lt ..))) childpos
  else
    (heap, pos)
termination_by heap.size - pos
decreasing_by
  have := smallerChild_lt lt heap (2 * pos + 1) h
  have := le_smallerChild lt heap (2 * pos + 1) h
  simp only [Array.size_setIfInBounds]
  omega

/-- `_siftup(heap, pos)`: the smaller child is moved up until a leaf is reached, the item is stored
there and then sifted towards the root again by `_siftdown(heap, startpos, pos)` -/
def siftup (lt : α → α → Bool) (heap : Array α) (pos : Nat) : Array α :=
  if h : pos < heap.size then
    let newitem := heap[pos]
    let r := siftupLoop lt heap pos
    siftdown lt (r.1.setIfInBounds r.2 newitem) pos r.2
  else heap

/-- `heappush(heap, item)`: `heap.append(item); _siftdown(heap, 0, len(heap)-1)` -/
def heappush (lt : α → α → Bool) (heap : Array α) (item : α) : Array α :=
  siftdown lt (heap.push item) 0 (heap.push item).size.pred

/-- `heappop(heap)`; `none` = `IndexError` (empty list):
```
lastelt = heap.pop()
if heap:
    returnitem = heap[0]
    heap[0] = lastelt
    _siftup(heap, 0)
    return returnitem
return lastelt
```
-/
def heappop (lt : α → α → Bool) (heap : Array α) : Option (α × Array α) :=
  if h : 0 < heap.size then
    let lastelt := heap[heap.size - 1]
    let heap := heap.pop
    if h' : 0 < heap.size then
      let returnitem := heap[0]
      some (returnitem, siftup lt (heap.setIfInBounds 0 lastelt) 0)
    else some (lastelt, heap)
  else none

/-! ### `EventQueue` on top of `queue.PriorityQueue` -/

/-- a `_QueueItem`: (the signal's priority, `order`, the signal) -/
abbrev Entry := Int × Nat × Sig

/-- `_QueueItem.__lt__`: by priority, then by arrival order -/
def entryLt (a b : Entry) : Bool := a.1 < b.1 || (a.1 == b.1 && a.2.1 < b.2.1)

/-- the pre-fix comparison (legacy defect F1): by priority only -/
def prioLt (a b : Entry) : Bool := a.1 < b.1

/-- `EventQueue`: `heap` = `_queue.queue` (the Python list used as a binary heap), `sources` =
`_contained_screens`, `seq` = `_order_counter` -/
structure HQueue where
  heap : Array Entry := #[]
  sources : List Src := []
  seq : Nat := 0
  deriving Repr, DecidableEq, Inhabited

/-- `EventQueue()` -/
def HQueue.empty : HQueue := {}

/-- `_put(signal)` (= `enqueue`): `heappush(_QueueItem(signal, _order_counter)); _order_counter += 1` -/
def HQueue.put (q : HQueue) (s : Sig) : HQueue :=
  { q with heap := heappush entryLt q.heap (s.prio, q.seq, s), seq := q.seq + 1 }

/-- `get()`: `heappop(...).signal`; `none` = the queue is empty (the Python call would block) -/
def HQueue.get (q : HQueue) : Option (Sig × HQueue) :=
  match heappop entryLt q.heap with
  | none => none
  | some (e, h) => some (e.2.2, { q with heap := h })

/-- `get_top_event_if_priority(priority)`: pop; an item of another priority is pushed back (the same
`_QueueItem`, with its old `order`) and `None` is returned; `none` = empty (would block) -/
def HQueue.getTopIfPriority (q : HQueue) (p : Int) : Option (Option Sig × HQueue) :=
  match heappop entryLt q.heap with
  | none => none
  | some (e, h) =>
    if e.2.2.prio = p then some (some e.2.2, { q with heap := h })
    else some (none, { q with heap := heappush entryLt h e })

/-- `empty()` -/
def HQueue.isEmpty (q : HQueue) : Bool := q.heap.isEmpty

/-! ### the abstraction to the sorted-list queue of the machine model -/

/-- the heap property of `heapq`: no element is smaller than its parent `(i - 1) >> 1` -/
def IsHeap (lt : α → α → Bool) (a : Array α) : Prop :=
  ∀ i (h : i < a.size), 0 < i → lt a[i] (a[(i - 1) / 2]'(by omega)) = false

/-- insertion sort with the machine model's `insertEntry` -/
def sortL (l : List Entry) : List Entry := l.foldr insertEntry []

/-- the sorted-list queue (`EQueue` of `Machine.lean`) a heap-based queue stands for -/
def abs (q : HQueue) : EQueue := { entries := sortL q.heap.toList, sources := q.sources, seq := q.seq }

/-- the invariant of the heap-based queue: the list is a heap w.r.t. `__lt__`; every stored arrival
number is below the counter; arrival numbers are pairwise distinct; the stored priority is the
signal's priority -/
def Inv (q : HQueue) : Prop :=
  IsHeap entryLt q.heap ∧ (∀ e ∈ q.heap.toList, e.2.1 < q.seq) ∧
    q.heap.toList.Pairwise (fun a b => a.2.1 ≠ b.2.1) ∧ (∀ e ∈ q.heap.toList, e.1 = e.2.2.prio)

/-! ### operation sequences -/

inductive Op where
  | put (s : Sig)
  | get
  | getTop (p : Int)
  deriving Repr, DecidableEq, Inhabited

/-- result of one operation: `blocked` = the queue was empty (the Python call would wait) -/
inductive Out where
  | done                       -- put
  | sig (s : Sig)              -- get / getTop returned a signal
  | noSig                      -- getTop returned None (head put back)
  | blocked
  deriving Repr, DecidableEq, Inhabited

/-- one operation on the heap-based queue (a blocked operation leaves the queue as it is) -/
def HQueue.step (q : HQueue) : Op → Out × HQueue
  | .put s => (.done, q.put s)
  | .get => match q.get with
    | none => (.blocked, q)
    | some (s, q') => (.sig s, q')
  | .getTop p => match q.getTopIfPriority p with
    | none => (.blocked, q)
    | some (some s, q') => (.sig s, q')
    | some (none, q') => (.noSig, q')

/-- the same operation on the sorted-list queue of the machine model (`Machine.lean`: the consumers
take the head of `entries`; the partial `process_signals()` leaves a head of another priority in place) -/
def stepE (q : EQueue) : Op → Out × EQueue
  | .put s => (.done, q.put s)
  | .get => match q.entries with
    | [] => (.blocked, q)
    | e :: es => (.sig e.2.2, { q with entries := es })
  | .getTop p => match q.entries with
    | [] => (.blocked, q)
    | e :: es => if e.2.2.prio = p then (.sig e.2.2, { q with entries := es }) else (.noSig, q)

/-- run a sequence of operations; outputs in order, and the final queue -/
def HQueue.run (q : HQueue) : List Op → List Out × HQueue
  | [] => ([], q)
  | o :: os => let r := q.step o; let r' := r.2.run os; (r.1 :: r'.1, r'.2)

def runE (q : EQueue) : List Op → List Out × EQueue
  | [] => ([], q)
  | o :: os => let r := stepE q o; let r' := runE r.2 os; (r.1 :: r'.1, r'.2)

/-- for the differential test against `PriorityQueue().queue`: after each operation its output and the
heap layout as the list of `(priority, order)` -/
def runOps (q : HQueue) : List Op → List (Out × List (Int × Nat))
  | [] => []
  | o :: os => let r := q.step o; (r.1, r.2.heap.toList.map fun e => (e.1, e.2.1)) :: runOps r.2 os

/-- test helper: a signal with the given priority and id -/
def mkSig (prio : Int) (id : Nat) : Sig := { id := id, cls := .user 0, prio := prio, src := .none }

/-- push all items (in order) onto an empty heap, for any comparison -/
def pushAll (lt : α → α → Bool) (l : List α) : Array α := l.foldl (heappush lt) #[]

/-- pop until the heap is empty (at most `fuel` times); the popped items in order -/
def drain (lt : α → α → Bool) : Nat → Array α → List α
  | 0, _ => []
  | fuel + 1, heap => match heappop lt heap with
    | none => []
    | some (x, heap') => x :: drain lt fuel heap'

end Simpleline.Heapq
