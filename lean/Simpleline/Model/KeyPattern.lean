/-
  `KeyPattern.translate_input_to_widget_id`, Python's `int(str)` (assumption A-INT) and
  `Container.process_user_input`.
-/
import Simpleline.Model.Widgets

namespace Simpleline

/-- decimal digits with single underscores allowed only between two digits -/
def digitsAux (cc : CharClass) : (acc : Nat) → (prevDigit : Bool) → List Char → Option Nat
  | acc, pd, [] => if pd then some acc else none
  | acc, pd, c :: cs =>
    match cc.digitVal c with
    | some d => digitsAux cc (acc * 10 + d) true cs
    | none => if c = '_' ∧ pd = true then digitsAux cc acc false cs else none

def stripBoth (p : Char → Bool) (s : List Char) : List Char :=
  ((s.dropWhile p).reverse.dropWhile p).reverse

/-- `int(s)`: `none` is `ValueError` -/
def pyInt (cc : CharClass) (s : List Char) : Option Int :=
  match stripBoth cc.isIntSpace s with
  | '+' :: ds => (digitsAux cc 0 false ds).map fun n => (n : Int)
  | '-' :: ds => (digitsAux cc 0 false ds).map fun n => -(n : Int)
  | ds => (digitsAux cc 0 false ds).map fun n => (n : Int)

/-- `KeyPattern.translate_input_to_widget_id(user_input)` -/
def KeyPat.translate (cc : CharClass) (kp : KeyPat) (key : List Char) : Option Int :=
  (pyInt cc key).map fun z => z - kp.offset

/-- Result of `Container.process_user_input(key)`: the return value and the index of the item whose
callback position was reached (`fired`); whether a callback is actually invoked depends on the item
having one (`hasCallback`). `key = none` stands for a non-`str` key. -/
structure KeyResult where
  handled : Bool
  fired : Option Nat
  deriving Repr, DecidableEq

def processKey (cc : CharClass) (kp : Option KeyPat) (hasCallback : List Bool) (key : Option (List Char)) :
    KeyResult :=
  match kp, key with
  | some kp, some k =>
    match kp.translate cc k with
    | some z =>
      if 0 ≤ z ∧ z.toNat < hasCallback.length then
        { handled := true, fired := if hasCallback.getD z.toNat false then some z.toNat else none }
      else { handled := false, fired := none }
    | none => { handled := false, fired := none }
  | _, _ => { handled := false, fired := none }

end Simpleline
