/-
  The abstract machine (DESIGN.md §4.3, Appendix A.3): `MainLoop` + `ScreenScheduler` + the input
  pipeline as one instruction-list machine.

  A configuration is the pending instructions (`code`: Python frames, `while` loops, `try/except`
  scopes and "the statement after the call" made explicit) plus state.  User code (signal handlers,
  screen callbacks) is a *program*: tables giving, for every handler / screen callback and invocation
  number, the list of public-API actions it performs and what it returns.

  The model follows the current code of /repo (with the `fix:` commits F1, F6–F10 applied).
-/
import Simpleline.Model.Paging
import Simpleline.Model.Widgets

namespace Simpleline

/-! ### data -/

inductive Cls where
  | user (n : Nat) | render | close | inputReceived | inputReady | exception
  deriving Repr, DecidableEq, Inhabited

/-- signal sources / identities of objects that can be registered with a loop level -/
inductive Src where
  | none | obj (n : Nat) | scr (n : Nat) | sched | loop | req (n : Nat) | im (scr : Nat)
  deriving Repr, DecidableEq, Inhabited

structure Sig where
  id : Nat
  cls : Cls
  prio : Int
  src : Src
  line : Str := []       -- InputReceived / InputReady: the data
  ih : Nat := 0          -- InputReady: the input handler it is meant for
  ok : Bool := true      -- InputReady: success flag
  deriving Repr, DecidableEq, Inhabited

/-- `EventQueue`: entries sorted by (priority, arrival number); `sources` = `_contained_screens` -/
structure EQueue where
  entries : List (Int × Nat × Sig) := []
  sources : List Src := []
  seq : Nat := 0
  deriving Repr, DecidableEq, Inhabited

def insertEntry (e : Int × Nat × Sig) : List (Int × Nat × Sig) → List (Int × Nat × Sig)
  | [] => [e]
  | x :: xs => if e.1 < x.1 ∨ (e.1 = x.1 ∧ e.2.1 < x.2.1) then e :: x :: xs else x :: insertEntry e xs

/-- `EventQueue.enqueue` (`_put`): behind everything of the same priority -/
def EQueue.put (q : EQueue) (s : Sig) : EQueue :=
  { q with entries := insertEntry (s.prio, q.seq, s) q.entries, seq := q.seq + 1 }

/-- handler references: what a registered callback is -/
inductive HRef where
  | user (hid : Nat)     -- an application handler with a script
  | render               -- ScreenScheduler._process_screen_callback
  | close                -- ScreenScheduler._close_screen_callback
  | itm                  -- InputThreadManager._input_received_handler
  | ih (n : Nat)         -- InputHandler n ._input_received_handler
  | exc                  -- an application handler for ExceptionSignal (logs only)
  deriving Repr, DecidableEq, Inhabited

structure Ticket where
  line : Cls
  id : Nat
  marked : Bool
  deriving Repr, DecidableEq

structure LoopSt where
  queues : List EQueue := [{}]          -- object store; index = identity
  levels : List Nat := [0]              -- MainLoop._event_queues, bottom … top
  active : Nat := 0                     -- MainLoop._active_queue
  runLoop : Bool := true
  forceQuit : Bool := false
  handlers : List (Cls × HRef × Option Nat) := []   -- registration order; (class, callback, data)
  tickets : List Ticket := []
  tcounter : Nat := 0
  quitCb : Option Nat := none
  deriving Repr, Inhabited

/-- user API actions a script can perform -/
inductive Act where
  | enq (cls : Cls) (prio : Int) (src : Src) (sid : Nat)
  | regSource (src : Src)
  | newLoop (cls : Cls) (prio : Int) (sid : Nat)
  | closeLoop
  | proc (cls : Option Cls)
  | forceQuit
  | raiseExit
  | raiseErr
  | schedule (scr : Nat) (args : Option Nat)
  | push (scr : Nat) (args : Option Nat)
  | pushModal (scr : Nat) (args : Option Nat)
  | replace (scr : Nat) (args : Option Nat)
  | closeDirect
  | closeSig (scr : Nat)
  | redrawSig (scr : Nat)
  | schedRedraw
  | getUserInput (scr : Nat) (hidden : Bool)
  deriving Repr, DecidableEq, Inhabited

inductive Cb where
  | setup | refresh | show | prompt | input | closed
  deriving Repr, DecidableEq, Inhabited

/-- what a scripted callback returns -/
inductive Ret where
  | dflt                       -- setup: True; prompt: the default prompt; input: the key itself
  | failBefore | failAfter     -- setup returns False before / after running the base method
  | promptNone                 -- prompt returns None
  | state (s : String)         -- input: "PROCESSED" | "REDRAW" | "CLOSE" | "DISCARDED"
  | key (s : Str)              -- input: an arbitrary string
  | none                       -- input returns None
  deriving Repr, DecidableEq, Inhabited

structure ScriptEnt where
  acts : List Act := []
  ret : Ret := .dflt
  deriving Repr, Inhabited

structure ScreenSpec where
  name : Str := []
  title : Option Str := none
  text : Option Str := none
  height : Nat := 30
  inputRequired : Bool := true
  noSeparator : Bool := false
  skipCheck : Bool := false
  /-- `none`: no `answer` attribute; `some none`: `answer = None`; `some (some b)`: `answer = b` -/
  answer : Option (Option Bool) := none
  deriving Repr, Inhabited

/-- a program: the application's static description and its scripts -/
structure Prog where
  cc : CharClass
  width : Int := 80
  screens : List ScreenSpec := []
  screenScript : Nat → Cb → Nat → ScriptEnt := fun _ _ _ => {}
  handlerScript : Nat → Nat → List Act := fun _ _ => []
  quitScreen : Option Nat := none
  runEmpty : Bool := false
  deliverAt : List Nat := []

structure Entry where
  eid : Nat                -- identity of the ScreenData object
  screen : Nat
  args : Option Nat
  modal : Bool
  deriving Repr, DecidableEq, Inhabited

structure ScreenObj where
  ready : Bool := false
  err : Nat := 0
  inputArgs : Option Nat := none
  counts : List (Cb × Nat) := []
  deriving Repr, Inhabited

structure IHandler where
  source : Src
  cb : Option Nat := none      -- the one-shot callback: `process_input` of that screen
  received : Bool := false
  ok : Bool := false
  value : Option Str := none
  skip : Bool := false
  deriving Repr, Inhabited

structure Request where
  ih : Nat
  requester : Src
  text : Str
  deriving Repr, Inhabited

structure AppSt where
  stack : List Entry := []            -- bottom … top
  nextEid : Nat := 0
  firstScheduled : Bool := false
  screens : List ScreenObj := []
  inputStack : List Nat := []         -- request ids, oldest … newest
  processing : Bool := false
  reqs : List Request := []
  ihs : List IHandler := []
  readers : List Nat := []            -- started reader threads that have not delivered yet
  stdin : List Str := []
  out : List Str := []                -- chunks written to stdout, in order
  deriving Repr, Inhabited

/-- observable events (both sides of the correspondence log these) -/
inductive Ev where
  | cb (scr : Nat) (cb : Cb) (arg : Option Nat) (key : Option Str)
  | h (hid sid : Nat) (data : Option Nat) (depth : Nat)
  | hret (hid : Nat)
  | read (line : Str)
  | note (what : String)             -- "new<" "closed<" "proc<" "modal<" "gui<" "EXC-handled"
  | quitcb (d : Nat)
  deriving Repr, DecidableEq, Inhabited

/-- model-only trace (what the theorems talk about; not observable on the implementation) -/
inductive Tr where
  | enq (level : Nat) (s : Sig)                 -- signal put into queue object `level`
  | dropped (s : Sig)                           -- enqueue after force-quit
  | take (level : Nat) (s : Sig)                -- signal taken from queue object `level` for dispatch
  | putBack (level : Nat) (s : Sig)
  | call (h : HRef) (data : Option Nat) (s : Sig)
  | dispatched (s : Sig) (n : Nat)              -- dispatch of `s` complete after `n` handlers
  | exit | forceQuit | kill
  | openLevel (q : Nat) (runLoop : Bool)         -- execute_new_loop created level `q`; `_run_loop` at that moment
  | closeLevel (q : Nat)                         -- close_loop popped level `q`
  | loopReturn (q : Nat)                         -- the `_mainloop` activation serving level `q` left its loop (execute_new_loop / run is about to return)
  | closeReq (runLoop : Bool) (pending : Nat)    -- close_loop called: `_run_loop` and the number of signals pending in the closing level
  | waitBegin (c : Cls) (t : Nat) | waitEnd (c : Cls) (t : Nat) (released : Bool)
  | procBegin | procEnd
  | stackOp (what : String) (stack : List Entry)
  | show (e : Entry) | refresh (e : Entry)
  | modalBegin (e : Entry) | modalEnd (e : Entry)
  deriving Repr, DecidableEq, Inhabited

inductive Kind where
  | exit | err | sysexit
  deriving Repr, DecidableEq, Inhabited

inductive UAction where
  | error | noop | redraw | close | quit
  deriving Repr, DecidableEq, Inhabited

inductive Instr where
  | act (a : Act)
  | apprun | catchExit | quitCb
  /-- `mainCheck q`: the `while self._run_loop` test of the `_mainloop` activation that serves level `q` (the queue object it was
  started for; a ghost parameter: it has no influence on the behaviour) -/
  | mainCheck (q : Nat) | restoreRun | loopCheck | getDispatch
  | processSignal (s : Sig) | dispatch (s : Sig) (i : Nat) | catchHandler | kill (s : Sig)
  | callH (h : HRef) (data : Option Nat) (s : Sig) | hret (hid : Nat)
  | note (what : String)
  | procWait (c : Cls) | waitStep (c : Cls) (t : Nat) | waitCheck (c : Cls) (t : Nat)
  | procIter (p : Option Int)
  | newLoop (s : Sig) | closeLoop | popLevel
  | pushModal (scr : Nat) (args : Option Nat) | modalRet (e : Entry)
  | closeScreen («from» : Option Src) | closeScreen2 (e : Entry) («from» : Option Src) | closeScreen3 (e : Entry)
  | processScreen | afterSetup (top : Entry) | afterSetupFail (e : Entry) | afterSetup2 (top : Entry)
  | identCheck (top : Entry) | catchPS
  | drawScreen (top : Entry) | catchDraw | maybeInput (top : Entry)
  | callScr (scr : Nat) (cb : Cb) (arg : Option Nat) (key : Option Str)
  | scrRet (scr : Nat) (cb : Cb) (ret : Ret) (key : Option Str)
  | printWidget (scr : Nat) | printLines (ls : List Str)
  | getInput (scr : Nat) (args : Option Nat) | getInput2 (scr : Nat) (args : Option Nat)
  | blockingInput (scr : Nat) (cont : Bool) | waitInput (ih : Nat)
  | inputReceived (s : Sig) | inputReady (n : Nat) (s : Sig)
  | processInput (scr : Nat) (key : Str) | classify (scr : Nat) | catchPI (scr : Nat)
  | countAndAct (scr : Nat) | endPI | afterQuit (q : Nat)
  deriving Repr, Inhabited

inductive Outcome where
  | returned | blocked | killed (code : Nat) | raised (what : String) | livelock | fuel
  deriving Repr, DecidableEq, Inhabited

structure Cfg where
  code : List Instr := []
  L : LoopSt := {}
  A : AppSt := {}
  log : List Ev := []       -- newest first
  tr : List Tr := []        -- newest first
  nextSid : Nat := 1000
  retSetup : Bool := true
  retPromptNone : Bool := false
  retInput : Ret := .dflt
  retKey : Str := []
  retAction : UAction := .noop
  deriving Repr, Inhabited

/-! ### helpers -/

def listSet {α} (l : List α) (i : Nat) (f : α → α) : List α := l.modify i f

def LoopSt.activeQ (L : LoopSt) : EQueue := L.queues.getD L.active {}

def addSource (q : EQueue) (s : Src) : EQueue :=
  if q.sources.contains s then q else { q with sources := q.sources ++ [s] }

/-- the level a signal is routed to: innermost level owning its source, else the active queue -/
def LoopSt.route (L : LoopSt) (src : Src) : Nat :=
  match L.levels.reverse.find? (fun q => (L.queues.getD q {}).sources.contains src) with
  | some q => q
  | none => L.active

def Cfg.trace (c : Cfg) (t : Tr) : Cfg := { c with tr := t :: c.tr }

/-- `MainLoop.enqueue_signal` -/
def Cfg.enqueue (c : Cfg) (s : Sig) : Cfg :=
  if c.L.forceQuit then c.trace (.dropped s)
  else
    let q := c.L.route s.src
    { c with L := { c.L with queues := listSet c.L.queues q (·.put s) }, tr := .enq q s :: c.tr }

def Cfg.newSig (c : Cfg) (cls : Cls) (prio : Int) (src : Src) (line : Str := []) (ih : Nat := 0)
    (ok : Bool := true) : Sig × Cfg :=
  ({ id := c.nextSid + 1, cls := cls, prio := prio, src := src, line := line, ih := ih, ok := ok },
   { c with nextSid := c.nextSid + 1 })

def Cfg.redraw (c : Cfg) : Cfg :=
  let (s, c) := c.newSig .render 0 .sched
  c.enqueue s

def Cfg.write (c : Cfg) (t : Str) : Cfg := { c with A := { c.A with out := c.A.out ++ [t] } }

/-- the reader thread hands in the next typed line (environment transition) -/
def Cfg.deliver (c : Cfg) : Option Cfg :=
  match c.A.readers with
  | [] => none
  | r :: rs =>
    let line := c.A.stdin.headD []
    let c := { c with A := { c.A with readers := rs, stdin := c.A.stdin.tail }, log := .read line :: c.log }
    let (s, c) := c.newSig .inputReceived 0 (.req r) line
    some (c.enqueue s)

/-- log an observable event; the case's delivery points are indices into this log -/
def Cfg.emit (P : Prog) (c : Cfg) (e : Ev) : Cfg :=
  let c := { c with log := e :: c.log }
  if P.deliverAt.contains c.log.length then (c.deliver).getD c else c

def Prog.spec (P : Prog) (scr : Nat) : ScreenSpec := P.screens.getD scr {}

def AppSt.scr (A : AppSt) (i : Nat) : ScreenObj := A.screens.getD i {}
def AppSt.setScr (A : AppSt) (i : Nat) (f : ScreenObj → ScreenObj) : AppSt :=
  { A with screens := listSet (A.screens ++ List.replicate (i + 1 - A.screens.length) {}) i f }

def countOf (l : List (Cb × Nat)) (cb : Cb) : Nat := ((l.find? (·.1 = cb)).map (·.2)).getD 0
def bump (l : List (Cb × Nat)) (cb : Cb) : List (Cb × Nat) :=
  if l.any (·.1 = cb) then l.map (fun p => if p.1 = cb then (p.1, p.2 + 1) else p) else l ++ [(cb, 1)]

def handlersOf (L : LoopSt) (c : Cls) : List (HRef × Option Nat) :=
  (L.handlers.filter (·.1 = c)).map (·.2)

def dumpStack (P : Prog) (stack : List Entry) : Str :=
  "======= Screen stack =======\n----------- TOP ------------\n".toList ++
  (stack.reverse.flatMap fun e =>
    "ScreenData(".toList ++ (P.spec e.screen).name ++ [','] ++
      (match e.args with | some a => natDigits a | none => "None".toList) ++ [','] ++
      (if e.modal then "True".toList else "False".toList) ++ ")\n".toList) ++
  "============================\n".toList

def spacer (w : Int) : Str :=
  List.replicate w.toNat '=' ++ ['\n'] ++ List.replicate w.toNat '=' ++ ['\n']

def defaultPrompt : Prompt :=
  (({ message := some "Please make a selection from the above".toList } : Prompt).setOption ['r'] "to refresh".toList
    |>.setOption ['c'] "to continue".toList |>.setOption ['q'] "to quit".toList)

def contPrompt : Prompt := { message := some "\nPress ENTER to continue".toList }
def msgPrompt : Str := "msg".toList

/-- window lines of a screen: `WindowContainer(title)` with the screen's text as single item -/
def windowLines (P : Prog) (scr : Nat) : Except RErr Grid :=
  let sp := P.spec scr
  let items : List Wd := match sp.text with | some t => if t = [] then [] else [.text {} t] | none => []
  (Wd.render P.cc (.window {} sp.title items) P.width).map Wd.lines

/-! ### exceptions: unwinding to the nearest catcher -/

/-- drop instructions up to the first catcher that handles `kind`; the catcher's own effect happens here -/
def unwind (kind : Kind) : (code : List Instr) → (c : Cfg) → Except (Outcome × Cfg) Cfg
  | [], c =>
    match kind with
    | .sysexit => .error (.killed 1, { c with code := [] })
    | .exit => .error (.raised "exit", { c with code := [] })
    | .err => .error (.raised "err", { c with code := [] })
  | ins :: rest, c =>
    match kind, ins with
    | .err, .catchHandler =>
      let (s, c) := c.newSig .exception (-20) .loop
      .ok { (c.enqueue s) with code := rest }
    | .err, .catchPS =>
      let (s, c) := c.newSig .exception (-20) .sched
      .ok { (c.enqueue s) with code := rest }
    | .err, .catchDraw =>
      let (s, c) := c.newSig .exception (-20) .sched
      .ok { (c.enqueue s) with code := rest }
    | .err, .catchPI scr =>
      let (s, c) := c.newSig .exception (-20) (.im scr)
      -- process_input returns: skip its tail up to and including endPI
      let rest' := (rest.dropWhile fun i => match i with | .endPI => false | _ => true).drop 1
      .ok { (c.enqueue s) with code := rest' }
    | .exit, .catchExit => .ok { c with code := rest }
    | _, _ => unwind kind rest c

def Cfg.raise (c : Cfg) (kind : Kind) : Except (Outcome × Cfg) Cfg :=
  let c := match kind with
    | .exit => c.trace .exit
    | _ => c
  unwind kind c.code c

/-! ### the step function -/

def push (c : Cfg) (is : List Instr) : Cfg := { c with code := is ++ c.code }

/-- take the head of the active queue; deliver a typed line first if the queue is empty -/
def Cfg.take (c : Cfg) : Except (Outcome × Cfg) (Sig × Cfg) :=
  let c := if c.L.activeQ.entries = [] then (c.deliver).getD c else c
  match c.L.activeQ.entries with
  | [] => .error (.blocked, c)
  | e :: es =>
    .ok (e.2.2, { c with L := { c.L with queues := listSet c.L.queues c.L.active fun q => { q with entries := es } },
                         tr := .take c.L.active e.2.2 :: c.tr })

def mark (ts : List Ticket) (c : Cls) : List Ticket := ts.map fun t => if t.line = c then { t with marked := true } else t

/-- `InputThreadManager.start_input_thread` for a new request of handler `ih` -/
def startRequest (c : Cfg) (ih : Nat) (requester : Src) (text : Str) : Except (Outcome × Cfg) Cfg :=
  let A := c.A
  let A := { A with ihs := listSet A.ihs ih fun h => { h with received := false, value := none } }
  let r := A.reqs.length
  let A := { A with reqs := A.reqs ++ [{ ih := ih, requester := requester, text := text }], inputStack := A.inputStack ++ [r] }
  if A.inputStack.length ≠ 1 ∧ ¬ (A.ihs.getD ih default).skip then
    -- refused: the request is forgotten again (F9), KeyError
    ({ c with A := { A with inputStack := A.inputStack.dropLast } }).raise .err
  else
    let newest := A.inputStack.getLastD 0
    let t := (A.reqs.getD newest default).text
    if A.processing then .ok ({ c with A := A }.write t)
    else .ok ({ c with A := { A with processing := true, readers := A.readers ++ [newest] } }.write t)

def newIH (c : Cfg) (source : Src) (skip : Bool) (cb : Option Nat) : Nat × Cfg :=
  let n := c.A.ihs.length
  (n, { c with A := { c.A with ihs := c.A.ihs ++ [{ source := source, skip := skip, cb := cb }] },
               L := { c.L with handlers := c.L.handlers ++ [(.inputReady, .ih n, none)] } })

def promptText (P : Prog) (p : Prompt) : Str :=
  match textPrompt P.cc p.str P.width with
  | .ok s => s
  | .error _ => []

def classifyRet (r : Ret) (key : Str) : UAction :=
  match r with
  | .state "PROCESSED" => .noop
  | .state "REDRAW" => .redraw
  | .state "CLOSE" => .close
  | .state _ => .error
  | .none => .error
  | .key k => if k = ['r'] then .redraw else if k = ['c'] then .close else if k = ['q'] then .quit else .error
  | _ => if key = ['r'] then .redraw else if key = ['c'] then .close else if key = ['q'] then .quit else .error

def doAct (c : Cfg) (a : Act) : Except (Outcome × Cfg) Cfg :=
  match a with
  | .enq cls prio src sid => .ok (c.enqueue { id := sid, cls := cls, prio := prio, src := src })
  | .regSource src =>
    .ok { c with L := { c.L with queues := listSet c.L.queues c.L.active (addSource · src) } }
  | .newLoop cls prio sid => .ok (push c [.newLoop { id := sid, cls := cls, prio := prio, src := .none }, .note "new<"])
  | .closeLoop => .ok (push c [.closeLoop, .note "closed<"])
  | .proc none => .ok (push (c.trace .procBegin) [.procIter none, .note "proc<"])
  | .proc (some cls) => .ok (push c [.procWait cls, .note "proc<"])
  | .forceQuit =>
    .ok { c with L := { c.L with forceQuit := true, levels := [], runLoop := false }, tr := .forceQuit :: c.tr }
  | .raiseExit => c.raise .exit
  | .raiseErr => c.raise .err
  | .schedule scr args =>
    let e : Entry := { eid := c.A.nextEid, screen := scr, args := args, modal := false }
    let c := { c with A := { c.A with stack := e :: c.A.stack, nextEid := c.A.nextEid + 1 } }
    let c := c.trace (.stackOp "schedule" c.A.stack)
    if c.A.firstScheduled then .ok c
    else .ok { c.redraw with A := { c.redraw.A with firstScheduled := true } }
  | .push scr args =>
    let e : Entry := { eid := c.A.nextEid, screen := scr, args := args, modal := false }
    let c := { c with A := { c.A with stack := c.A.stack ++ [e], nextEid := c.A.nextEid + 1 } }
    .ok (c.trace (.stackOp "push" c.A.stack)).redraw
  | .pushModal scr args => .ok (push c [.pushModal scr args, .note "modal<"])
  | .replace scr args =>
    match c.A.stack.getLast? with
    | none => c.raise .err
    | some old =>
      let e : Entry := { eid := c.A.nextEid, screen := scr, args := args, modal := old.modal }
      let c := { c with A := { c.A with stack := c.A.stack.dropLast ++ [e], nextEid := c.A.nextEid + 1 } }
      .ok (c.trace (.stackOp "replace" c.A.stack)).redraw
  | .closeDirect => .ok (push c [.closeScreen none])
  | .closeSig scr => let (s, c) := c.newSig .close 0 (.scr scr); .ok (c.enqueue s)
  | .redrawSig scr => let (s, c) := c.newSig .render 0 (.scr scr); .ok (c.enqueue s)
  | .schedRedraw => .ok c.redraw
  | .getUserInput scr _ => .ok (push c [.blockingInput scr false, .note "gui<"])

def step (P : Prog) (c0 : Cfg) : Except (Outcome × Cfg) Cfg :=
  match c0.code with
  | [] => .error (.returned, c0)
  | ins :: rest =>
    let c := { c0 with code := rest }
    match ins with
    | .act a => doAct c a
    | .apprun =>
      if ¬ P.runEmpty ∧ c.A.stack = [] then .error (.raised "NothingScheduled", c)
      else .ok (push { c with L := { c.L with forceQuit := false, runLoop := true } } [.mainCheck 0, .catchExit, .quitCb])
    | .catchExit => .ok c
    | .quitCb =>
      match c.L.quitCb with
      | some d => .ok (c.emit P (.quitcb d))
      | none => .ok c
    | .mainCheck q =>
      if c.L.runLoop then .ok (push c [.loopCheck, .mainCheck q]) else .ok (push (c.trace (.loopReturn q)) [.restoreRun])
    | .restoreRun =>
      if c.L.forceQuit then .ok c else .ok { c with L := { c.L with runLoop := true } }
    | .loopCheck =>
      if c.L.runLoop then .ok (push c [.getDispatch, .loopCheck]) else .ok c
    | .getDispatch => do
      let (s, c) ← c.take
      pure (push c [.processSignal s])
    | .processSignal s =>
      let c := { c with L := { c.L with tickets := mark c.L.tickets s.cls } }
      if handlersOf c.L s.cls ≠ [] then .ok (push c [.dispatch s 0])
      else if s.cls = .exception then .ok (push c [.kill s])
      else .ok (c.trace (.dispatched s 0))
    | .dispatch s i =>
      match (handlersOf c.L s.cls)[i]? with
      | some (h, d) =>
        if c.L.forceQuit then .ok (c.trace (.dispatched s i))      -- F7: no handler after force-quit
        else .ok (push c [.callH h d s, .catchHandler, .dispatch s (i + 1)])
      | none => .ok (c.trace (.dispatched s i))
    | .catchHandler => .ok c
    | .kill _ =>
      let c := (c.write ['\n']).write (dumpStack P c.A.stack ++ ['\n'])
      (c.trace .kill).raise .sysexit
    | .callH h d s =>
      let c := c.trace (.call h d s)
      match h with
      | .render => .ok (push c [.processScreen])
      | .close => .ok (push c [.closeScreen (some s.src)])
      | .itm => .ok (push c [.inputReceived s])
      | .ih n => .ok (push c [.inputReady n s])
      | .exc => .ok (c.emit P (.note "EXC-handled"))
      | .user hid =>
        let n := (c.tr.filter fun t => match t with | .call (.user h') _ _ => h' = hid | _ => false).length - 1
        let c := c.emit P (.h hid s.id d c.L.levels.length)
        .ok (push c ((P.handlerScript hid n).map .act ++ [.hret hid]))
    | .hret hid => .ok (c.emit P (.hret hid))
    | .note w => .ok (c.emit P (.note w))
    -- waiting / non-waiting processing
    | .procWait cls =>
      let t := c.L.tcounter
      let c := { c with L := { c.L with tcounter := t + 1, tickets := c.L.tickets ++ [({ line := cls, id := t, marked := false } : Ticket)] } }
      .ok (push (c.trace (.waitBegin cls t)) [.waitStep cls t])
    | .waitStep cls t =>
      if c.L.runLoop then do
        let (s, c) ← c.take
        pure (push c [.processSignal s, .waitCheck cls t])
      else .ok (c.trace (.waitEnd cls t false))
    | .waitCheck cls t =>
      if c.L.tickets.any (fun k => k.line = cls ∧ k.id = t ∧ k.marked) then
        .ok ({ c with L := { c.L with tickets := c.L.tickets.filter fun k => ¬ (k.line = cls ∧ k.id = t) } }.trace (.waitEnd cls t true))
      else .ok (push c [.waitStep cls t])
    | .procIter p =>
      match c.L.activeQ.entries with
      | [] => .ok (c.trace .procEnd)
      | e :: es =>
        if ¬ c.L.runLoop then .ok (c.trace .procEnd)
        else
          let taken : Cfg := { c with L := { c.L with queues := listSet c.L.queues c.L.active fun q => { q with entries := es } },
                                      tr := .take c.L.active e.2.2 :: c.tr }
          match p with
          | none => .ok (push taken [.processSignal e.2.2, .procIter (some e.2.2.prio)])
          | some pr =>
            if e.2.2.prio = pr then .ok (push taken [.processSignal e.2.2, .procIter (some pr)])
            else .ok ((c.trace (.putBack c.L.active e.2.2)).trace .procEnd)     -- put back in its place: queue unchanged
    -- nested loops
    | .newLoop s =>
      if c.L.forceQuit then .ok c
      else
        let q := c.L.queues.length
        let c := { c with L := { c.L with queues := c.L.queues ++ [({} : EQueue)], active := q, levels := c.L.levels ++ [q] } }
        .ok (push ((c.trace (.openLevel q c0.L.runLoop)).enqueue s) [.mainCheck q])
    | .closeLoop =>
      .ok (push ((c.trace (.closeReq c.L.runLoop c.L.activeQ.entries.length)).trace .procBegin) [.procIter none, .popLevel])
    | .popLevel =>
      match c.L.levels.getLast? with
      | none => c.raise .err                                   -- IndexError: pop from empty list
      | some q =>
        let levels := c.L.levels.dropLast
        let c := (c.trace (.closeLevel q))
        match levels.getLast? with
        | none => ({ c with L := { c.L with levels := [] } }).raise .exit
        | some a => .ok { c with L := { c.L with levels := levels, active := a, runLoop := false } }
    -- scheduler
    | .pushModal scr args =>
      let e : Entry := { eid := c.A.nextEid, screen := scr, args := args, modal := true }
      let c := { c with A := { c.A with stack := c.A.stack ++ [e], nextEid := c.A.nextEid + 1 } }
      let c := (c.trace (.stackOp "pushModal" c.A.stack)).trace (.modalBegin e)
      let (s, c) := c.newSig .render 0 .sched
      .ok (push c [.newLoop s, .modalRet e])
    | .modalRet e => .ok (c.trace (.modalEnd e))
    | .closeScreen frm =>
      match c.A.stack.getLast? with
      | none => c.raise .err                                   -- ScreenStackEmptyException
      | some e =>
        -- the request is checked against the top screen before anything is popped (RenderUnexpectedError leaves the stack as it is)
        if frm ≠ none ∧ frm ≠ some (.scr e.screen) then c.raise .err
        else
          let c := { c with A := { c.A with stack := c.A.stack.dropLast } }
          .ok (push (c.trace (.stackOp "close" c.A.stack)) [.callScr e.screen .closed none none, .closeScreen2 e frm])
    | .closeScreen2 e frm =>
      if frm ≠ none ∧ frm ≠ some (.scr e.screen) then c.raise .err   -- RenderUnexpectedError
      else if e.modal then .ok (push c [.closeLoop, .closeScreen3 e])
      else .ok (push c [.closeScreen3 e])
    | .closeScreen3 e =>
      let c := if c.A.stack ≠ [] ∧ ¬ e.modal then c.redraw else c
      if c.A.stack = [] then c.raise .exit else .ok c
    | .processScreen =>
      match c.A.stack.getLast? with
      | none => c.raise .exit
      | some top =>
        if (c.A.scr top.screen).ready then .ok (push c [.afterSetup2 top])
        else .ok (push c [.callScr top.screen .setup top.args none, .afterSetup top])
    | .afterSetup top =>
      if c.retSetup then .ok (push c [.afterSetup2 top])
      else
        match c.A.stack.getLast? with
        | none => c.raise .err                                 -- pop from an empty stack
        | some e =>
          let c := { c with A := { c.A with stack := c.A.stack.dropLast } }
          let c := c.trace (.stackOp "discard" c.A.stack)
          if e.modal then .ok (push c [.closeLoop, .afterSetupFail e])      -- F10
          else .ok c.redraw
    | .afterSetupFail _ =>
      if c.A.stack = [] then c.raise .exit else .ok c
    | .afterSetup2 top =>
      -- F6: the processed screen becomes a source of the active level
      let c := { c with L := { c.L with queues := listSet c.L.queues c.L.active (addSource · (.scr top.screen)) } }
      .ok (push (c.trace (.refresh top)) [.callScr top.screen .refresh top.args none, .identCheck top, .catchPS])
    | .catchPS => .ok c
    | .identCheck top =>
      match c.A.stack.getLast? with
      | none => c.raise .exit
      | some l =>
        if l.eid ≠ top.eid then
          .ok { c with code := (c.code.dropWhile fun i => match i with | .catchPS => false | _ => true) }
        else .ok (push c [.drawScreen top, .maybeInput top])
    | .drawScreen top =>
      let c := if (P.spec top.screen).noSeparator then c else c.write (spacer P.width)
      .ok (push (c.trace (.show top)) [.callScr top.screen .show none none, .catchDraw])
    | .catchDraw => .ok c
    | .maybeInput top =>
      if (P.spec top.screen).inputRequired then .ok (push c [.getInput top.screen top.args]) else .ok c
    -- screen callbacks
    | .callScr scr cb arg key =>
      let n := countOf (c.A.scr scr).counts cb
      let c := { c with A := c.A.setScr scr fun s => { s with counts := bump s.counts cb } }
      let c := c.emit P (.cb scr cb arg key)
      let ent := P.screenScript scr cb n
      let pre : List Instr := if cb = .show then [.printWidget scr] else []
      .ok (push c (pre ++ ent.acts.map .act ++ [.scrRet scr cb ent.ret key]))
    | .scrRet scr cb ret key =>
      match cb with
      | .setup =>
        if ret = .failBefore then .ok { c with retSetup := false }
        else
          let c := { c with A := c.A.setScr scr fun s => { s with ready := true },
                            L := { c.L with queues := listSet c.L.queues c.L.active (addSource · (.scr scr)) } }
          .ok { c with retSetup := decide (ret ≠ .failAfter) }
      | .prompt => .ok { c with retPromptNone := decide (ret = .promptNone) }
      | .input => .ok { c with retInput := ret, retKey := key.getD [] }
      | _ => .ok c
    | .printWidget scr =>
      match windowLines P scr with
      | .error _ => c.raise .err
      | .ok lines =>
        match printWidget lines (P.spec scr).height with
        | none => .error (.livelock, c)
        | some evs =>
          -- group consecutive lines into print chunks, requests into blocking inputs
          let rec go (evs : List OutEv) (cur : List Str) (acc : List Instr) : List Instr :=
            match evs with
            | [] => if cur = [] then acc else acc ++ [.printLines cur]
            | .line l :: r => go r (cur ++ [l]) acc
            | .ask :: r => go r [] ((if cur = [] then acc else acc ++ [.printLines cur]) ++ [.blockingInput scr true])
          .ok (push c (go evs [] []))
    | .printLines ls => .ok (c.write (ls.flatMap fun l => l ++ ['\n']))
    -- input
    | .getInput scr args => .ok (push c [.callScr scr .prompt args none, .getInput2 scr args])
    | .getInput2 scr args =>
      if c.retPromptNone then .ok { c with A := c.A.setScr scr fun s => { s with err := 0 } }
      else
        let c := { c with A := c.A.setScr scr fun s => { s with inputArgs := args } }
        let (ih, c) := newIH c (.scr scr) (P.spec scr).skipCheck (some scr)
        startRequest c ih (.scr scr) (promptText P defaultPrompt)
    | .blockingInput scr cont =>
      let (ih, c) := newIH c (.im scr) (P.spec scr).skipCheck none
      let text := if cont then promptText P contPrompt else
        (match textPrompt P.cc msgPrompt P.width with | .ok s => s | .error _ => [])
      startRequest (push c [.waitInput ih]) ih (.im scr) text
    | .waitInput ih =>
      if (c.A.ihs.getD ih default).received then .ok c
      else if ¬ c.L.runLoop then .error (.livelock, c)
      else .ok (push c [.procWait .inputReady, .waitInput ih])
    | .inputReceived s =>
      match c.A.inputStack.getLast? with
      | none => c.raise .err                                   -- IndexError
      | some r =>
        let R := c.A.reqs.getD r default
        let others := c.A.inputStack.dropLast
        let (sg, c) := c.newSig .inputReady 0 R.requester s.line R.ih true
        let c := c.enqueue sg
        let c := others.foldl (fun c t =>
          let T := c.A.reqs.getD t default
          let (sg, c) := c.newSig .inputReady 0 T.requester [] T.ih false
          c.enqueue sg) c
        .ok { c with A := { c.A with inputStack := [], processing := false } }
    | .inputReady n s =>
      if s.ih ≠ n then .ok c
      else
        let I := c.A.ihs.getD n default
        let c := { c with A := { c.A with ihs := listSet c.A.ihs n fun h => { h with received := true, ok := s.ok } } }
        if ¬ s.ok then .ok c
        else
          let c := { c with A := { c.A with ihs := listSet c.A.ihs n fun h => { h with value := some s.line } } }
          match I.cb with
          | some scr =>
            let c := { c with A := { c.A with ihs := listSet c.A.ihs n fun h => { h with cb := none } } }
            .ok (push c [.processInput scr s.line])
          | none => .ok c
    | .processInput scr key =>
      .ok (push c [.callScr scr .input (c.A.scr scr).inputArgs (some key), .classify scr, .catchPI scr, .countAndAct scr, .endPI])
    | .catchPI _ => .ok c
    | .endPI => .ok c
    | .classify _ => .ok { c with retAction := classifyRet c.retInput c.retKey }
    | .countAndAct scr =>
      let a := c.retAction
      let c := { c with A := c.A.setScr scr fun s => { s with err := if a = UAction.error then s.err + 1 else 0 } }
      let redraw := (c.A.scr scr).err % 5 = 0
      match c.A.stack.getLast? with
      | none => c.raise .exit
      | some top =>
        match a with
        | .error => if redraw then .ok c.redraw else .ok (push c [.getInput top.screen top.args])
        | .noop => .ok c
        | .redraw => .ok c.redraw
        | .close => .ok (push c [.closeScreen none])
        | .quit =>
          match P.quitScreen with
          | some q => .ok (push c [.pushModal q none, .afterQuit q])
          | none => c.raise .exit
    | .afterQuit q =>
      match (P.spec q).answer with
      | none => c.raise .exit                  -- no `answer` attribute
      | some (some true) => c.raise .exit
      | some _ => .ok c.redraw

/-- run for at most `fuel` steps -/
def runFuel (P : Prog) : Nat → Cfg → Cfg × Outcome
  | 0, c => (c, .fuel)
  | n + 1, c =>
    match step P c with
    | .ok c' => runFuel P n c'
    | .error (o, c') => (c', o)

/-- the initial configuration of a case -/
def initCfg (init : List Act) (handlers : List (Cls × HRef × Option Nat)) (quitCb : Option Nat) (stdin : List Str) : Cfg :=
  { code := init.map .act ++ [.apprun],
    L := { handlers := [(.render, .render, none), (.close, .close, none), (.inputReceived, .itm, none)] ++ handlers,
           quitCb := quitCb },
    A := { stdin := stdin } }

end Simpleline
