/-
  Stand-alone object models of two small classes the scheduler and the loop are built on, driven through
  their public API by *arbitrary* operation sequences (not only the sequences the machine of
  `Model/Machine.lean` issues):

  * `TicketMachine`  (`simpleline/event_loop/ticket_machine.py`): `_lines : dict line -> dict id -> bool`, `_counter`.
  * `ScreenStack`    (`simpleline/render/screen_stack.py`): `_screens : list`.

  Python dictionaries are association lists in insertion order; the two `KeyError`s of `check_ticket` (unknown
  line, unknown id in a known line) and the `ScreenStackEmptyException` of `pop` are explicit results.
-/
namespace Simpleline.Objects

/-! ### TicketMachine -/

/-- the line ids are "anything" hashable in Python (the loop uses the signal classes): the model is generic in their type `κ` -/
structure TM (κ : Type) where
  lines : List (κ × List (Nat × Bool)) := []     -- `_lines`, insertion order
  counter : Nat := 0
  deriving Repr, DecidableEq, Inhabited

variable {κ : Type} [DecidableEq κ]

def alookup {κ β} [DecidableEq κ] (k : κ) : List (κ × β) → Option β
  | [] => none
  | (k', v) :: r => if k' = k then some v else alookup k r

/-- `d[k] = v` on an insertion-ordered dict: overwrite in place, else append -/
def aset {κ β} [DecidableEq κ] (k : κ) (v : β) : List (κ × β) → List (κ × β)
  | [] => [(k, v)]
  | (k', v') :: r => if k' = k then (k, v) :: r else (k', v') :: aset k v r

def aerase {κ β} [DecidableEq κ] (k : κ) : List (κ × β) → List (κ × β)
  | [] => []
  | (k', v') :: r => if k' = k then r else (k', v') :: aerase k r

/-- `take_ticket(line_id)`: returns the ticket, which is the counter -/
def TM.take (m : TM κ) (line : κ) : Nat × TM κ :=
  let t := m.counter
  let l := match alookup line m.lines with
    | none => [(t, false)]
    | some l => aset t false l
  (t, { lines := aset line l m.lines, counter := t + 1 })

inductive CheckRes where
  | ready | wait | keyError
  deriving Repr, DecidableEq, Inhabited

/-- `check_ticket(line, unique_id)`: a released ticket is popped -/
def TM.check (m : TM κ) (line : κ) (t : Nat) : CheckRes × TM κ :=
  match alookup line m.lines with
  | none => (.keyError, m)
  | some l =>
    match alookup t l with
    | none => (.keyError, m)
    | some true => (.ready, { m with lines := aset line (aerase t l) m.lines })
    | some false => (.wait, m)

/-- `mark_line_to_go(line)` -/
def TM.mark (m : TM κ) (line : κ) : TM κ :=
  match alookup line m.lines with
  | none => m
  | some l => { m with lines := aset line (l.map fun kv => (kv.1, true)) m.lines }

inductive TMOp (κ : Type) where
  | take (line : κ) | check (line : κ) (t : Nat) | mark (line : κ)
  deriving Repr, DecidableEq, Inhabited

inductive TMOut where
  | ticket (t : Nat) | checked (r : CheckRes) | unit
  deriving Repr, DecidableEq, Inhabited

def TM.step (m : TM κ) : TMOp κ → TMOut × TM κ
  | .take l => let r := m.take l; (.ticket r.1, r.2)
  | .check l t => let r := m.check l t; (.checked r.1, r.2)
  | .mark l => (.unit, m.mark l)

def TM.run (m : TM κ) : List (TMOp κ) → List TMOut × TM κ
  | [] => ([], m)
  | op :: ops => let r := m.step op; let rest := r.2.run ops; (r.1 :: rest.1, rest.2)

/-! ### ScreenStack (entries are opaque identities) -/

structure SStack where
  screens : List Nat := []     -- bottom … top
  deriving Repr, DecidableEq, Inhabited

inductive SOp where
  | append (e : Nat) | addFirst (e : Nat) | pop (remove : Bool) | size | empty | dump
  deriving Repr, DecidableEq, Inhabited

inductive SOut where
  | unit | entry (e : Nat) | stackEmpty | num (n : Nat) | bool (b : Bool) | order (top_first : List Nat)
  deriving Repr, DecidableEq, Inhabited

def SStack.step (s : SStack) : SOp → SOut × SStack
  | .append e => (.unit, { screens := s.screens ++ [e] })
  | .addFirst e => (.unit, { screens := e :: s.screens })
  | .pop remove =>
    match s.screens.getLast? with
    | none => (.stackEmpty, s)
    | some e => (.entry e, if remove then { screens := s.screens.dropLast } else s)
  | .size => (.num s.screens.length, s)
  | .empty => (.bool s.screens.isEmpty, s)
  | .dump => (.order s.screens.reverse, s)

def SStack.run (s : SStack) : List SOp → List SOut × SStack
  | [] => ([], s)
  | op :: ops => let r := s.step op; let rest := r.2.run ops; (r.1 :: rest.1, rest.2)

end Simpleline.Objects
