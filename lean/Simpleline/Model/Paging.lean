/-
  `UIScreen._print_widget`: print the lines of the window, in pages with a "press ENTER" request when
  they do not fit the screen height.
-/
import Simpleline.Model.Prompt

namespace Simpleline

inductive OutEv where
  | line (l : Str)      -- `print(line)`
  | ask                 -- the blocking "Press ENTER to continue" request
  deriving Repr, DecidableEq

/-- the `while pos <= last_line` loop on the lines still to print; `real = screen_height - 2 ≥ 1` -/
def pages (real : Nat) (ls : List Str) : List OutEv :=
  if ls.length ≤ real ∨ real = 0 then ls.map .line
  else (ls.take real).map .line ++ .ask :: pages real (ls.drop real)
termination_by ls.length
decreasing_by simp; omega

/-- `_print_widget` for a screen height `h ≥ 3` (the API asks for more than 4; `h ≤ 2` loops for
ever in the code and is outside the model: `none`). -/
def printWidget (ls : List Str) (h : Nat) : Option (List OutEv) :=
  if ls = [] then some []
  else if h < 3 then none
  else some (pages (h - 2) ls)

end Simpleline
