/-
  simpleline/render/prompt.py: the options are a finite map (a Python dict); `str(prompt)`.
-/
import Simpleline.Model.Grid

namespace Simpleline

abbrev Str := List Char

/-- `a < b` for Python strings (code point lexicographic) -/
def strLt : Str → Str → Bool
  | [], [] => false
  | [], _ :: _ => true
  | _ :: _, [] => false
  | a :: as, b :: bs => if a.toNat < b.toNat then true else if b.toNat < a.toNat then false else strLt as bs

structure Prompt where
  message : Option Str
  options : List (Str × Str) := []      -- unique keys
  deriving Repr, DecidableEq

/-- `options[key] = description` (`add_option` and `update_option` differ only in a log message) -/
def setOpt (opts : List (Str × Str)) (k d : Str) : List (Str × Str) :=
  match opts with
  | [] => [(k, d)]
  | (k', d') :: rest => if k' = k then (k, d) :: rest else (k', d') :: setOpt rest k d

def Prompt.setOption (p : Prompt) (k d : Str) : Prompt := { p with options := setOpt p.options k d }
def Prompt.removeOption (p : Prompt) (k : Str) : Prompt :=
  { p with options := p.options.filter fun kd => kd.1 ≠ k }
def Prompt.setMessage (p : Prompt) (m : Option Str) : Prompt := { p with message := m }

def insertSorted (kd : Str × Str) : List (Str × Str) → List (Str × Str)
  | [] => [kd]
  | x :: xs => if strLt kd.1 x.1 then kd :: x :: xs else x :: insertSorted kd xs

def sortOpts (opts : List (Str × Str)) : List (Str × Str) := opts.foldr insertSorted []

def joinStr (sep : Str) : List Str → Str
  | [] => []
  | [l] => l
  | l :: ls => l ++ sep ++ joinStr sep ls

def optStr (kd : Str × Str) : Str := ['\''] ++ kd.1 ++ ['\'', ' '] ++ kd.2

/-- `str(prompt)` -/
def Prompt.str (p : Prompt) : Str :=
  let msg := match p.message with | some [] => none | m => m
  if msg = none ∧ p.options = [] then []
  else
    let parts := (match msg with | some m => [m] | none => []) ++
      (if p.options = [] then [] else [['['] ++ joinStr [',', ' '] ((sortOpts p.options).map optStr) ++ [']']])
    joinStr [' '] parts ++ [':', ' ']

/-- `InputHandlerRequest.text_prompt()`: the prompt rendered as text at the width, joined by
newlines, plus one blank -/
def textPrompt (cc : CharClass) (s : Str) (w : Int) : Except RErr Str := do
  let st ← renderTextSt cc {} s w
  pure (joinWith '\n' st.buf ++ [' '])

end Simpleline
