/-
  Text: `str.split('\n')`, `str.expandtabs`, and CPython's `textwrap.wrap(line, width)` with default
  options (assumption A-TW of DESIGN.md), then `Widget._wrap_words`.

  The model is a transcription of Lib/textwrap.py (3.12): `_munge_whitespace`, `_split` through
  `wordsep_re` (written as a scanner), `_wrap_chunks` with `_handle_long_word`.
-/
import Simpleline.Model.Chars

namespace Simpleline

/-! ### split at a separator (`str.split(sep)` for a one-character separator) -/

def splitOn (sep : Char) : List Char → List (List Char)
  | [] => [[]]
  | c :: cs =>
    if c = sep then [] :: splitOn sep cs
    else match splitOn sep cs with
      | l :: ls => (c :: l) :: ls
      | [] => [[c]]

/-- `sep.join(parts)` -/
def joinWith (sep : Char) : List (List Char) → List Char
  | [] => []
  | [l] => l
  | l :: ls => l ++ sep :: joinWith sep ls

/-! ### `_munge_whitespace` -/

def expandTabsAux : Nat → List Char → List Char
  | _, [] => []
  | col, c :: cs =>
    if c = '\t' then
      List.replicate (8 - col % 8) ' ' ++ expandTabsAux (col + (8 - col % 8)) cs
    else if c = '\n' ∨ c = '\r' then c :: expandTabsAux 0 cs
    else c :: expandTabsAux (col + 1) cs

def munge (t : List Char) : List Char :=
  (expandTabsAux 0 t).map (fun c => if isWs6 c then ' ' else c)

/-! ### `wordsep_re.split` as a scanner -/

def nthIs (p : Char → Bool) (l : List Char) (n : Nat) : Bool :=
  match l[n]? with
  | some c => p c
  | none => false

def hyphenRun : List Char → Nat
  | c :: cs => if c = '-' then hyphenRun cs + 1 else 0
  | [] => 0

def isHyphen (c : Char) : Bool := c == '-'

/-- Alternative (a) of the word branch at a hyphen: `back` = characters before the hyphen, nearest
first; `fwd` = characters after the hyphen. -/
def hyphenBreak (cc : CharClass) (back fwd : List Char) : Bool :=
  let lt := cc.isLetter
  let behind := (nthIs lt back 0 && nthIs lt back 1) ||
                (nthIs lt back 0 && nthIs isHyphen back 1 && nthIs lt back 2)
  let ahead := nthIs lt fwd 0 &&
               (if nthIs isHyphen fwd 1 then nthIs lt fwd 2 else nthIs lt fwd 1)
  behind && ahead

/-- Alternative (c): an em-dash (two or more hyphens followed by a word character) starts at `fwd`
and the character before it is word punctuation. -/
def emDashAhead (cc : CharClass) (back fwd : List Char) : Bool :=
  nthIs cc.isWordPunct back 0 && decide (2 ≤ hyphenRun fwd) && nthIs cc.isWord fwd (hyphenRun fwd)

/-- Number of further characters of the word chunk, scanning `fwd`; `back` holds the characters
already passed (nearest first, reaching before the chunk start: look-behinds may). -/
def wordLen (cc : CharClass) : (back fwd : List Char) → Nat
  | _, [] => 0
  | back, c :: fwd =>
    if c = '-' ∧ hyphenBreak cc back fwd = true then 1
    else if isWs6 c = true then 0
    else if emDashAhead cc back (c :: fwd) = true then 0
    else 1 + wordLen cc (c :: back) fwd

/-- Number of characters of the chunk that starts with `c` *beyond* `c` itself. -/
def chunkExtra (cc : CharClass) (prev : List Char) (c : Char) (rest : List Char) : Nat :=
  if isWs6 c = true then (rest.takeWhile isWs6).length
  else if c = '-' ∧ nthIs cc.isWordPunct prev 0 = true ∧ 2 ≤ hyphenRun (c :: rest)
          ∧ nthIs cc.isWord (c :: rest) (hyphenRun (c :: rest)) = true then
    hyphenRun (c :: rest) - 1
  else wordLen cc (c :: prev) rest

def splitAux (cc : CharClass) (prev : List Char) (rest : List Char) : List (List Char) :=
  match rest with
  | [] => []
  | c :: rest' =>
    let n := chunkExtra cc prev c rest'
    (c :: rest'.take n) :: splitAux cc ((c :: rest'.take n).reverse ++ prev) (rest'.drop n)
termination_by rest.length
decreasing_by simp; omega

/-- `TextWrapper._split(text)` (empty pieces never arise in the scanner). -/
def splitChunks (cc : CharClass) (t : List Char) : List (List Char) := splitAux cc [] t

/-! ### `_wrap_chunks` -/

/-- `chunk.strip() == ''` -/
def blank (cc : CharClass) (s : List Char) : Bool := s.all cc.isSpace

def totalLen (cs : List (List Char)) : Nat := (cs.map List.length).sum

def dropLead (cc : CharClass) (haveLines : Bool) : List (List Char) → List (List Char)
  | c :: cs => if haveLines && blank cc c then cs else c :: cs
  | [] => []

/-- the inner `while chunks: … if cur_len + l <= width` loop -/
def takeFit (w : Nat) : Nat → List (List Char) → List (List Char) × List (List Char)
  | _, [] => ([], [])
  | len, c :: cs =>
    if len + c.length ≤ w then ((c :: (takeFit w (len + c.length) cs).1), (takeFit w (len + c.length) cs).2)
    else ([], c :: cs)

/-- `chunk.rfind('-', 0, space)` -/
def rfindHyphen : List Char → Nat → Option Nat
  | _, 0 => none
  | chunk, space + 1 =>
    if nthIs isHyphen chunk space then some space else rfindHyphen chunk space

/-- where `_handle_long_word` cuts the chunk -/
def cutPoint (chunk : List Char) (space : Nat) : Nat :=
  match rfindHyphen chunk space with
  | some h => if 0 < h ∧ (chunk.take h).any (fun c => c != '-') = true then h + 1 else space
  | none => space

/-- `_handle_long_word` (with `break_long_words`, `break_on_hyphens`), applied when the next chunk is
longer than the width. -/
def breakLong (w curLen : Nat) (cur : List (List Char)) : List (List Char) → List (List Char) × List (List Char)
  | [] => (cur, [])
  | c :: cs =>
    if w < c.length then
      (cur ++ [c.take (cutPoint c (w - curLen))], c.drop (cutPoint c (w - curLen)) :: cs)
    else (cur, c :: cs)

def dropTrail (cc : CharClass) (cur : List (List Char)) : List (List Char) :=
  match cur.getLast? with
  | some l => if blank cc l then cur.dropLast else cur
  | none => cur

/-- One iteration of the outer `while chunks:` loop: the line produced (if any) and the chunks left. -/
def wrapStep (cc : CharClass) (w : Nat) (haveLines : Bool) (chunks : List (List Char)) :
    Option (List Char) × List (List Char) :=
  let chunks1 := dropLead cc haveLines chunks
  let fit := takeFit w 0 chunks1
  let br := breakLong w (totalLen fit.1) fit.1 fit.2
  let cur := dropTrail cc br.1
  (if cur.isEmpty then none else some cur.flatten, br.2)

/-- termination measure of the outer loop: characters left + chunks left -/
def wrapMeasure (chunks : List (List Char)) : Nat := totalLen chunks + chunks.length

def wrapLoop (cc : CharClass) (w : Nat) (haveLines : Bool) (chunks : List (List Char)) : List (List Char) :=
  if chunks = [] then []
  else if wrapMeasure (wrapStep cc w haveLines chunks).2 < wrapMeasure chunks then
    match (wrapStep cc w haveLines chunks).1 with
    | some l => l :: wrapLoop cc w true (wrapStep cc w haveLines chunks).2
    | none => wrapLoop cc w haveLines (wrapStep cc w haveLines chunks).2
  else []      -- unreachable for `1 ≤ w`: `wrapStep_decreases` (Lemmas/Text.lean)
termination_by wrapMeasure chunks

/-- `textwrap.wrap(text, width)` for `width ≥ 1` (the caller handles `width ≤ 0`: ValueError). -/
def pyWrap (cc : CharClass) (text : List Char) (w : Nat) : List (List Char) :=
  wrapLoop cc w false (splitChunks cc (munge text))

/-- `Widget._wrap_words(text, width)` -/
def wrapWords (cc : CharClass) (text : List Char) (w : Nat) : List Char :=
  joinWith '\n' ((splitOn '\n' text).map (fun l => joinWith '\n' (pyWrap cc l w)))

end Simpleline
