/-
  C19: the thread-facing submission path of `MainLoop` / `EventQueue` at the granularity of shared accesses
  (finer than source lines), as a labelled transition system.

  Threads: any number of submitters (each repeatedly calls `enqueue_signal`) and the loop thread (dispatching,
  `register_signal_source`, `execute_new_loop`, `close_loop`). A transition `tstep s t e` is one shared
  access `e` performed by thread `t`: it is enabled only if it is what the code path the thread is on does
  next (`pc`) and the locks allow it. Executions of the model = accepted event sequences; the same function
  replays the event sequence recorded from the real code under the controlled scheduler (trace validation).

  The code modelled (current /repo, F1 applied):
    enqueue_signal: with self._lock: for queue in reversed(self._event_queues):
                                        if queue.enqueue_if_source_belongs(signal, signal.source): return
                    self._active_queue.enqueue(signal)
    enqueue_if_source_belongs: if self.contains_source(source): self._put(signal); return True
    contains_source / add_source: with self._lock: …            (the queue's own lock)
    _put: with self._order_lock: self._queue.put(_QueueItem(signal, self._order_counter)); self._order_counter += 1
    execute_new_loop: self._active_queue = EventQueue(); with self._lock: self._event_queues.append(self._active_queue);
                      self.enqueue_signal(signal); self._mainloop()
    close_loop: self.process_signals(); with self._lock: self._event_queues.pop(); self._active_queue = self._event_queues[-1]
-/
namespace Simpleline.Threads

structure TSig where
  sid : Nat
  src : Option Nat
  prio : Int
  deriving Repr, DecidableEq, Inhabited

structure TQ where
  entries : List (Int × Nat × Nat) := []      -- (priority, arrival number, signal id), unordered bag as a list
  sources : List Nat := []
  seq : Nat := 0
  srcLock : Option Nat := none                 -- EventQueue._lock
  ordLock : Option Nat := none                 -- EventQueue._order_lock
  deriving Repr, DecidableEq, Inhabited

/-- where a thread is on its code path -/
inductive PC where
  | idle
  -- enqueue_signal (any thread)
  | wantMain (s : TSig)
  | iterStart (s : TSig)                               -- holds the main lock
  | iter (s : TSig) (todo : List Nat)                  -- holds the main lock; levels still to ask, innermost first
  | asking (s : TSig) (q : Nat) (todo : List Nat)      -- holds main and q's source lock
  | asked (s : TSig) (q : Nat) (todo : List Nat) (res : Bool)
  | putAcq (s : TSig) (q : Nat) (found : Bool)         -- about to take q's order lock (`found`: inside the main lock)
  | putDo (s : TSig) (q : Nat) (found : Bool)          -- holds q's order lock
  | putRel (s : TSig) (q : Nat) (found : Bool)
  | relFound (s : TSig)                                -- put done inside the lock: release it
  | relNotFound (s : TSig)                             -- no level owns the source: release, then the fallback
  | fallback (s : TSig)                                -- about to read `_active_queue`
  -- the loop thread only
  | nlLock (q : Nat) (seed : TSig)                     -- execute_new_loop after `_active_queue = EventQueue()`
  | nlRead (q : Nat) (seed : TSig)                     -- holds main: reads `_active_queue` for the append
  | nlAppend (q : Nat) (seed : TSig)
  | nlRel (q : Nat) (seed : TSig)
  | clHold                                              -- holds main: about to pop
  | clPopped                                            -- popped; about to read the new top (IndexError -> ExitMainLoop if none)
  | clSetActive (q : Nat)
  | clRel
  | srcWant (q : Nat) (src : Nat)                       -- register_signal_source: `_active_queue` read, about to lock it
  | srcHold (q : Nat) (src : Nat)
  | srcAdded (q : Nat)
  deriving Repr, DecidableEq, Inhabited

/-- shared accesses (the labels of transitions; also the events recorded from the real code) -/
inductive Ev where
  | submit (s : TSig)            -- thread-local: enqueue_signal(s) begins
  | acqMain | relMain
  | lvIter (levels : List Nat)   -- reversed(self._event_queues): the list as seen
  | acqQ (q : Nat) | relQ (q : Nat)
  | contains (q : Nat) (src : Option Nat) (res : Bool)
  | acqO (q : Nat) | relO (q : Nat)
  | put (q : Nat) (sid : Nat) (prio : Int) (order : Nat)
  | activeRead (q : Nat)
  | activeWrite (q : Nat)
  | lvAppend (q : Nat) | lvPop (q : Nat) | lvTop (q : Nat)
  | get (q : Nat) (sid : Nat)
  | putBack (q : Nat) (sid : Nat)
  | addSource (q : Nat) (src : Nat)
  | newLoop (seed : TSig)        -- thread-local: execute_new_loop(seed) begins (loop thread)
  | regSource (src : Nat)        -- thread-local: register_signal_source(src) begins
  deriving Repr, DecidableEq, Inhabited

structure TState where
  queues : List TQ := [{ sources := [] }]
  levels : List Nat := [0]
  active : Nat := 0
  mainLock : Option Nat := none
  pcs : List PC := []                          -- per thread; thread 0 is the loop thread
  dispatched : List (Nat × Nat) := []          -- (queue, signal id), newest first
  lastTaken : Option (Nat × (Int × Nat × Nat)) := none
  completed : List Nat := []                   -- signal ids whose submission returned
  deriving Repr, Inhabited

def TState.pc (s : TState) (t : Nat) : PC := s.pcs.getD t .idle
def TState.setPc (s : TState) (t : Nat) (pc : PC) : TState :=
  { s with pcs := (s.pcs ++ List.replicate (t + 1 - s.pcs.length) PC.idle).set t pc }
def TState.q (s : TState) (q : Nat) : TQ := s.queues.getD q {}
def TState.setQ (s : TState) (q : Nat) (f : TQ → TQ) : TState := { s with queues := s.queues.modify q f }

def entryLe (a b : Int × Nat × Nat) : Bool := a.1 < b.1 || (a.1 == b.1 && a.2.1 ≤ b.2.1)

/-- the entry `PriorityQueue.get` returns: minimal in (priority, arrival number) -/
def minEntry : List (Int × Nat × Nat) → Option (Int × Nat × Nat)
  | [] => none
  | e :: es => match minEntry es with
    | none => some e
    | some m => if entryLe e m then some e else some m

/-- one shared access by thread `t`; `none` = not enabled (the real trace would be rejected) -/
def tstep (s : TState) (t : Nat) (e : Ev) : Option TState :=
  match s.pc t, e with
  -- enqueue_signal
  | .idle, .submit sg => some (s.setPc t (.wantMain sg))
  | .wantMain sg, .acqMain =>
    if s.mainLock = none then some ({ s with mainLock := some t }.setPc t (.iterStart sg)) else none
  | .iterStart sg, .lvIter lv =>
    if lv = s.levels then some (s.setPc t (.iter sg s.levels.reverse)) else none
  | .iter sg (q :: todo), .acqQ q' =>
    if q' = q ∧ (s.q q).srcLock = none then some ((s.setQ q fun x => { x with srcLock := some t }).setPc t (.asking sg q todo)) else none
  | .asking sg q todo, .contains q' src res =>
    if q' = q ∧ src = sg.src ∧ res = (match sg.src with | some n => (s.q q).sources.contains n | none => false) then
      some (s.setPc t (.asked sg q todo res)) else none
  | .asked sg q todo res, .relQ q' =>
    if q' = q then
      some ((s.setQ q fun x => { x with srcLock := none }).setPc t (if res then .putAcq sg q true else .iter sg todo))
    else none
  | .iter sg [], .relMain =>
    if s.mainLock = some t then some ({ s with mainLock := none }.setPc t (.fallback sg)) else none
  | .putAcq sg q found, .acqO q' =>
    if q' = q ∧ (s.q q).ordLock = none then some ((s.setQ q fun x => { x with ordLock := some t }).setPc t (.putDo sg q found)) else none
  | .putDo sg q found, .put q' sid prio order =>
    if q' = q ∧ sid = sg.sid ∧ prio = sg.prio ∧ order = (s.q q).seq then
      some ((s.setQ q fun x => { x with entries := (sg.prio, x.seq, sg.sid) :: x.entries, seq := x.seq + 1 }).setPc t (.putRel sg q found))
    else none
  | .putRel sg q found, .relO q' =>
    if q' = q then
      if found then some ((s.setQ q fun x => { x with ordLock := none }).setPc t (.relFound sg))
      else some ({ (s.setQ q fun x => { x with ordLock := none }) with completed := sg.sid :: s.completed }.setPc t .idle)
    else none
  | .relFound sg, .relMain =>
    if s.mainLock = some t then some ({ s with mainLock := none, completed := sg.sid :: s.completed }.setPc t .idle) else none
  | .fallback sg, .activeRead q =>
    if q = s.active then some (s.setPc t (.putAcq sg q false)) else none
  -- the loop thread (thread 0)
  | .idle, .newLoop seed => if t = 0 then some (s.setPc t (.nlLock s.queues.length seed)) else none
  | .nlLock q seed, .activeWrite q' =>
    if q' = q ∧ q = s.queues.length then
      some ({ s with queues := s.queues ++ [({} : TQ)], active := q }.setPc t (.nlRead q seed)) else none
  | .nlRead q seed, .acqMain =>
    if s.mainLock = none then some ({ s with mainLock := some t }.setPc t (.nlAppend q seed)) else none
  | .nlAppend q _, .activeRead q' => if q' = q ∧ q = s.active then some s else none     -- the argument of `append`
  | .nlAppend q seed, .lvAppend q' =>
    if q' = q ∧ s.mainLock = some t then some ({ s with levels := s.levels ++ [q] }.setPc t (.nlRel q seed)) else none
  | .nlRel _ seed, .relMain =>
    if s.mainLock = some t then some ({ s with mainLock := none }.setPc t (.wantMain seed)) else none
  -- close_loop (after its drain, which is ordinary dispatching): the loop thread takes the main lock from idle only here
  | .idle, .acqMain =>
    if t = 0 ∧ s.mainLock = none then some ({ s with mainLock := some t }.setPc t .clHold) else none
  | .clHold, .lvPop q =>
    if s.mainLock = some t ∧ s.levels.getLast? = some q then some ({ s with levels := s.levels.dropLast }.setPc t .clPopped) else none
  | .clPopped, .lvTop q =>
    if s.levels.getLast? = some q then some (s.setPc t (.clSetActive q)) else none
  | .clPopped, .relMain =>      -- the last level was popped: IndexError -> ExitMainLoop leaves the `with` block
    if s.mainLock = some t ∧ s.levels = [] then some ({ s with mainLock := none }.setPc t .idle) else none
  | .clSetActive q, .activeWrite q' =>
    if q' = q then some ({ s with active := q }.setPc t .clRel) else none
  | .clRel, .relMain =>
    if s.mainLock = some t then some ({ s with mainLock := none }.setPc t .idle) else none
  | .idle, .regSource src => if t = 0 then some (s.setPc t (.srcWant s.active src)) else none
  | .srcWant q src, .acqQ q' =>
    if q' = q ∧ (s.q q).srcLock = none then some ((s.setQ q fun x => { x with srcLock := some t }).setPc t (.srcHold q src)) else none
  | .srcHold q src, .addSource q' src' =>
    if q' = q ∧ src' = src ∧ (s.q q).srcLock = some t then
      some ((s.setQ q fun x => { x with sources := if x.sources.contains src then x.sources else src :: x.sources }).setPc t (.srcAdded q))
    else none
  | .srcAdded q, .relQ q' =>
    if q' = q then some ((s.setQ q fun x => { x with srcLock := none }).setPc t .idle) else none
  -- the loop thread reads `_active_queue` (for get / empty() / add_source) between operations: it is the only writer, so it sees `active`
  | .idle, .activeRead q => if t = 0 ∧ q = s.active then some s else none
  | .srcWant q src, .activeRead q' => if q' = q then some s else none
  | .idle, .get q sid =>
    if t = 0 ∧ q = s.active then
      match minEntry (s.q q).entries with
      | some m =>
        if m.2.2 = sid then
          some { (s.setQ q fun x => { x with entries := x.entries.erase m }) with
                    dispatched := (q, sid) :: s.dispatched, lastTaken := some (q, m) }
        else none
      | none => none
    else none
  | .idle, .putBack q sid =>
    if t = 0 then
      match s.lastTaken, s.dispatched with
      | some (q', m), _ :: ds =>
        if q' = q ∧ m.2.2 = sid then
          some { (s.setQ q fun x => { x with entries := m :: x.entries }) with dispatched := ds, lastTaken := none }
        else none
      | _, _ => none
    else none
  | _, _ => none

/-- run a schedule: a list of (thread, shared access); `none` if some access is not enabled -/
def run (s : TState) : List (Nat × Ev) → Option TState
  | [] => some s
  | (t, e) :: rest => match tstep s t e with
    | some s' => run s' rest
    | none => none

/-- replay with the index of the first rejected event -/
def replay (s : TState) : List (Nat × Ev) → Nat → TState × Option Nat
  | [], _ => (s, none)
  | (t, e) :: rest, i => match tstep s t e with
    | some s' => replay s' rest (i + 1)
    | none => (s, some i)

def initState (sources0 : List Nat) : TState := { queues := [{ sources := sources0 }] }

end Simpleline.Threads
