/-
  Widgets and containers of simpleline/render/{widgets,containers}.py as *objects with state*:
  every node carries the Python object's `_buffer`/`_cursor` (and, for list containers, the remembered
  number labels and the columns width in use), and `render` is a state transformer, so that
  "rendering does not depend on history" (C16) is a theorem and not an artefact of the modelling.
-/
import Simpleline.Model.Grid

namespace Simpleline

/-- `KeyPattern(pattern = pre ++ "{:d}" ++ post, offset)` -/
structure KeyPat where
  pre : List Char := []
  post : List Char := [')', ' ']
  offset : Int := 1
  deriving Repr, DecidableEq, Inhabited

def digitChar (d : Nat) : Char := Char.ofNat (48 + d)

/-- decimal digits of a natural number, most significant first -/
def natDigits (n : Nat) : List Char :=
  if n < 10 then [digitChar n] else natDigits (n / 10) ++ [digitChar (n % 10)]
termination_by n
decreasing_by omega

/-- `"{:d}".format(z)` -/
def intRepr (z : Int) : List Char :=
  if z < 0 then '-' :: natDigits z.natAbs else natDigits z.natAbs

/-- `KeyPattern.get_widget_label(item_id)` -/
def KeyPat.label (kp : KeyPat) (i : Nat) : List Char := kp.pre ++ intRepr ((i : Int) + kp.offset) ++ kp.post

/-- a remembered number label: the `TextWidget` state and its text -/
structure NumW where
  st : WSt
  text : List Char
  deriving Repr, DecidableEq

inductive Wd where
  | text (st : WSt) (t : List Char)
  | sep (st : WSt) (n : Nat)
  | center (st : WSt) (child : Wd)
  | checkbox (st : WSt) (key : List Char) (title text : Option (List Char)) (completed : Bool)
  | window (st : WSt) (title : Option (List Char)) (items : List Wd)
  /-- `ListRowContainer` (`colMajor = false`) / `ListColumnContainer` (`true`):
      `_columns`, `_columns_width`, `_spacing`, `_key_pattern`, `_used_columns_width`,
      `_numbering_widgets`, `_items` -/
  | list (st : WSt) (colMajor : Bool) (columns : Nat) (cw : Option Int) (spacing : Nat)
      (kp : Option KeyPat) (used : Option Int) (numw : List NumW) (items : List Wd)
  deriving Repr

def Wd.st : Wd → WSt
  | .text st _ | .sep st _ | .center st _ | .checkbox st _ _ _ _ | .window st _ _
  | .list st _ _ _ _ _ _ _ _ => st

/-- `get_lines()` as rows of characters -/
def Wd.lines (w : Wd) : Grid := w.st.buf

/-- `SeparatorWidget(n).render(_)` (n ≥ 1) -/
def renderSepSt (n : Nat) : WSt := { buf := List.replicate n [], cur := (n - 1, 0) }

/-- `bool(s)` for an optional string: `None` and `""` are falsy -/
def truthy : Option (List Char) → Option (List Char)
  | some [] => none
  | o => o

/-- `CheckboxWidget.render(width)`: a two-column `ColumnWidget` (`[(3, [box]), (width-4, data)]`,
spacing 1) drawn into the cleared widget. -/
def renderCheckboxSt (cc : CharClass) (key : List Char) (title text : Option (List Char))
    (completed : Bool) (w : Int) : Except RErr WSt := do
  let box ← renderTextSt cc {} (['['] ++ (if completed then key else [' ']) ++ [']']) 3
  -- ColumnWidget.render: first column at (0, 0)
  let cols0 : WSt := ({} : WSt).drawAt box.buf 0 0 true
  let colPos := max 3 (gridWidth cols0.buf) + 1
  -- second column at (0, colPos): the title then the "(text)" line, block mode
  let cols1 : WSt := { cols0 with cur := (0, colPos) }
  let cols2 ← match truthy title with
    | some t => do
      let tw ← renderTextSt cc {} t (w - 4)
      pure (cols1.draw tw.buf true)
    | none => pure cols1
  let cols3 ← match truthy text with
    | some t => do
      let tw ← renderTextSt cc {} (['('] ++ t ++ [')']) (w - 4)
      pure (cols2.draw tw.buf true)
    | none => pure cols2
  pure (({} : WSt).draw cols3.buf false)

/-- `_get_ordered_map` position of item `i` among `n` items: (row id, column id) -/
def cellOf (colMajor : Bool) (columns n i : Nat) : Nat × Nat :=
  if colMajor then (i % ((n + columns - 1) / columns), i / ((n + columns - 1) / columns))
  else (i / columns, i % columns)

/-- the ordered map itself: for every column the item ids in it, top to bottom -/
def orderedMap (colMajor : Bool) (columns n : Nat) : List (List Nat) :=
  (List.range columns).map fun c => (List.range n).filter fun i => (cellOf colMajor columns n i).2 = c

/-- `_lines_per_every_row`: the height of row `r` -/
def rowHeight (colMajor : Bool) (columns : Nat) (heights : List Nat) (r : Nat) : Nat :=
  ((List.range heights.length).filter fun i => (cellOf colMajor columns heights.length i).1 = r).foldl
    (fun acc i => max acc (heights.getD i 0)) 0

/-- draw the items of one column, top to bottom (the inner `for row_id, item_id in enumerate(col)`) -/
def drawColumn (s : WSt) (colPos : Nat) (labels : List (Option NumW)) (grids : List Grid)
    (rowH : Nat → Nat) : (ids : List Nat) → (rowId rowPos : Nat) → WSt
  | [], _, _ => s
  | i :: ids, rowId, rowPos =>
    let s1 : WSt := { s with cur := (rowPos, colPos) }
    let s2 : WSt := match labels.getD i none with
      | some nw => { (s1.draw nw.st.buf false) with cur := (rowPos, colPos + nw.text.length) }
      | none => s1
    let s3 := s2.draw (grids.getD i []) true
    drawColumn s3 colPos labels grids rowH ids (rowId + 1) (rowPos + rowH rowId)

/-- the outer `for col in ordered_map` loop with the `col_pos` recurrence -/
def drawColumns (used : Int) (spacing : Nat) (labels : List (Option NumW)) (grids : List Grid)
    (rowH : Nat → Nat) : (cols : List (List Nat)) → (s : WSt) → (colPos : Nat) → WSt
  | [], s, _ => s
  | ids :: cols, s, colPos =>
    let s' := drawColumn s colPos labels grids rowH ids 0 0
    let next := (max ((colPos : Int) + used) (gridWidth s'.buf : Int)).toNat + spacing
    drawColumns used spacing labels grids rowH cols s' next

mutual
  /-- `widget.render(width)`: the object after the call, or the exception it raises -/
  def Wd.render (cc : CharClass) : Wd → Int → Except RErr Wd
    | .text st t, w => do
      let st' ← renderTextSt cc st t w
      pure (.text st' t)
    | .sep _ n, _ => pure (.sep (renderSepSt n) n)
    | .center st child, w => do
      let child' ← child.render cc w
      let cw : Int := gridWidth child'.lines
      if w < cw then throw .outOfDomain   -- negative column: Python slice semantics, not modelled
      else
        let st' := (st.clear).drawAt child'.lines 0 ((w - cw) / 2).toNat false
        pure (.center st' child')
    | .checkbox _ key title text completed, w => do
      let st' ← renderCheckboxSt cc key title text completed w
      pure (.checkbox st' key title text completed)
    | .window st title items, w => do
      let st0 : WSt := st.clear
      let st1 ← match truthy title with
        | some t => do
          let tw ← renderTextSt cc {} t w
          pure ((st0.draw tw.buf false).draw (renderSepSt 1).buf false)
        | none => pure st0
      let (st2, items') ← renderWindowItems cc w st1 items
      pure (.window st2 title items')
    | .list st colMajor columns cw spacing kp _ _ items, w => do
      let st0 : WSt := st.clear
      -- the columns width in use
      if columns = 0 ∧ (cw = none ∨ colMajor = true ∨ items ≠ []) then throw .zeroDivision
      let used : Int := match cw with
        | some c => c
        | none => Int.tdiv (w - ((columns : Int) - 1) * spacing) columns
      -- _render_all_items
      let (numw, items') ← renderListItems cc used kp 0 items
      let labels : List (Option NumW) := match kp with
        | some _ => numw.map some
        | none => items'.map fun _ => none
      let heights := (items'.zip labels).map fun (it, l) =>
        max it.lines.length (match l with | some nw => nw.st.buf.length | none => 0)
      let rowH := rowHeight colMajor columns heights
      let st1 := drawColumns used spacing labels (items'.map Wd.lines) rowH
        (orderedMap colMajor columns items'.length) st0 0
      pure (.list st1 colMajor columns cw spacing kp (some used) numw items')

  /-- `for item in self._items: widget.render(width); self.draw(widget)` -/
  def renderWindowItems (cc : CharClass) (w : Int) : WSt → List Wd → Except RErr (WSt × List Wd)
    | st, [] => pure (st, [])
    | st, it :: its => do
      let it' ← it.render cc w
      let (st', its') ← renderWindowItems cc w (st.draw it'.lines false) its
      pure (st', it' :: its')

  /-- `_render_all_items` -/
  def renderListItems (cc : CharClass) (used : Int) (kp : Option KeyPat) :
      Nat → List Wd → Except RErr (List NumW × List Wd)
    | _, [] => pure ([], [])
    | i, it :: its => do
      if used ≤ 0 then throw .valueError
      let (nw, itemWidth) ← match kp with
        | some k => do
          let lbl := k.label i
          let st ← renderTextSt cc {} lbl lbl.length
          if used - lbl.length ≤ 0 then throw .valueError
          pure ([NumW.mk st lbl], used - lbl.length)
        | none => pure ([], used)
      let it' ← it.render cc itemWidth
      let (nws, its') ← renderListItems cc used kp (i + 1) its
      pure (nw ++ nws, it' :: its')
end

/-- `Container.add(item)` -/
def Wd.add : Wd → Wd → Wd
  | .window st title items, x => .window st title (items ++ [x])
  | .list st cm c cw sp kp u nw items, x => .list st cm c cw sp kp u nw (items ++ [x])
  | w, _ => w

end Simpleline

namespace Simpleline

mutual
  /-- `Container.add(item)` on the container reached from `w` by the child indices `path` (items of window / list containers,
  the child of a center widget is index 0); a path that does not lead to a container changes nothing -/
  def Wd.addAt : Wd → List Nat → Wd → Wd
    | w, [], x => w.add x
    | .window st title items, i :: p, x => .window st title (addAtList items i p x)
    | .list st cm c cw sp kp u nw items, i :: p, x => .list st cm c cw sp kp u nw (addAtList items i p x)
    | .center st child, _ :: p, x => .center st (child.addAt p x)
    | w, _ :: _, _ => w
  def addAtList : List Wd → Nat → List Nat → Wd → List Wd
    | [], _, _, _ => []
    | it :: its, 0, p, x => it.addAt p x :: its
    | it :: its, i + 1, p, x => it :: addAtList its i p x
end

end Simpleline

namespace Simpleline

/-- `container.key_pattern = kp` on a list container (other widgets have no numbering to change) -/
def Wd.setKp : Wd → Option KeyPat → Wd
  | .list st cm c cw sp _ u nw items, kp => .list st cm c cw sp kp u nw items
  | w, _ => w

end Simpleline
