/-
  C01 — Signals are dispatched by priority, first-in first-out within a priority.

  Property theorems only; helper lemmas live in `Simpleline/Lemmas/Loop*.lean`, vocabulary in
  `Simpleline/Spec/LoopSpec.lean`.

  `EQueue` is `EventQueue`: `entries` are triples (priority, arrival number, signal), `put` is
  `EventQueue.enqueue`.  A queue *object* is an index into `c.L.queues` (`c.queue q`); the trace event
  `.enq q s` records that `MainLoop.enqueue_signal` put `s` into queue object `q`, `.take q s` that
  one of the three consumers (`_mainloop`'s get, `process_signals(return_after=…)`, the partial
  `process_signals()`) removed `s` from `q` for dispatch, `.putBack q s` that the partial
  `process_signals()` looked at `s` and re-queued it.
-/
import Simpleline.Lemmas.LoopProps

namespace Simpleline

/-! ### 1. the queue data structure -/

/-- Enqueueing keeps a queue well-formed: entries strictly ordered by (priority, arrival number),
arrival numbers below the counter, stored priorities equal to the signals' priorities. -/
theorem C01_put_sorted (q : EQueue) (s : Sig) (h : q.Sorted) : (q.put s).Sorted :=
  put_sorted s h

/-- Where an enqueued signal goes: behind every pending entry that is at least as urgent — in
particular behind every earlier signal of its own priority — and in front of every less urgent one;
nothing else moves. -/
theorem C01_put_place (q : EQueue) (s : Sig) (h : q.Sorted) :
    (q.put s).entries =
      q.entries.filter (fun x => x.1 ≤ s.prio) ++ [(s.prio, q.seq, s)] ++ q.entries.filter (fun x => s.prio < x.1) :=
  put_place s h

/-- In a well-formed queue the head is strictly before every other entry in dispatch order: nothing
pending is more urgent, and nothing of equal priority arrived earlier. -/
theorem C01_head_min (q : EQueue) (h : q.Sorted) (e : QEntry) (es : List QEntry) (he : q.entries = e :: es) :
    ∀ e' ∈ es, entryLt e e' :=
  sorted_head_min h he

/-- Arrival numbers are handed out in increasing order: `put` gives the new entry the current counter
value — larger than every pending entry's number — and increments the counter; every other entry of the
result is an old one, and the old entries keep their relative order. -/
theorem C01_arrival_order (q : EQueue) (s : Sig) (h : q.Sorted) :
    (q.put s).seq = q.seq + 1 ∧ (s.prio, q.seq, s) ∈ (q.put s).entries ∧
      (∀ e ∈ q.entries, e.2.1 < q.seq) ∧
      (∀ e ∈ (q.put s).entries, e = (s.prio, q.seq, s) ∨ e ∈ q.entries) ∧
      q.entries.Sublist (q.put s).entries :=
  ⟨rfl, mem_insertEntry.2 (.inl rfl), h.fresh, fun _ he => mem_insertEntry.1 he, insertEntry_sublist _ _⟩

/-- Hence in a well-formed queue: an entry nearer the head is at least as urgent as one further
back, and of two entries of equal priority the one nearer the head arrived (was enqueued) first. -/
theorem C01_fifo_within_priority (q : EQueue) (h : q.Sorted) (i j : Nat) (hij : i < j) (hj : j < q.entries.length) :
    q.entries[i].1 ≤ q.entries[j].1 ∧ (q.entries[i].1 = q.entries[j].1 → q.entries[i].2.1 < q.entries[j].2.1) := by
  have := (List.pairwise_iff_getElem.1 h.ordered) i j (by omega) hj hij
  unfold entryLt at this
  omega

/-! ### 2. every queue of every reachable configuration is well-formed -/

/-- In every reachable configuration every queue object (every level of every nesting depth, also
closed ones) is well-formed. -/
theorem C01_queues_sorted (P : Prog) (c0 c : Cfg) (h0 : Started c0) (hr : Reach P c0 c) :
    ∀ q ∈ c.L.queues, q.Sorted :=
  queues_sorted h0 hr

/-! ### 3. a signal taken for dispatch is the head of the active queue -/

/-- Every transition out of a reachable configuration that takes a signal `s` from queue object `q`
for dispatch (whichever of the three consumers does it) takes the head of the *active* queue: with
`cm` the configuration at the moment of the take — `c` itself, or `c` after the reader thread's
delivery that `get` waited for because the active queue was empty — `q` is `cm`'s active queue, `s`
is its head entry's signal, every other pending entry `e'` of that queue comes strictly later in
dispatch order (is less urgent, or equally urgent and enqueued later), afterwards the queue holds
exactly the tail, no other queue object changes, and the take is the last event of the transition. -/
theorem C01_take_is_head (P : Prog) (c0 c c' : Cfg) (h0 : Started c0) (hr : Reach P c0 c) (ht : Trans P c c')
    (q : Nat) (s : Sig) (hm : Tr.take q s ∈ newTr c c') :
    ∃ cm : Cfg, (cm = c ∨ ((c.queue c.L.active).entries = [] ∧ c.deliver = some cm)) ∧
      q = cm.L.active ∧
      ∃ e es, (cm.queue q).entries = e :: es ∧ e.2.2 = s ∧ (∀ e' ∈ es, entryLt e e') ∧
        (c'.queue q).entries = es ∧ (∀ q', q' ≠ q → c'.queue q' = cm.queue q') ∧
        c'.tr = .take q s :: cm.tr :=
  take_is_head h0 hr ht hm

/-- In particular: no signal is taken for dispatch while a more urgent one is pending in the same
queue — every signal still pending in `q` after the take has a priority value at least that of the
taken one. -/
theorem C01_no_more_urgent_pending (P : Prog) (c0 c c' : Cfg) (h0 : Started c0) (hr : Reach P c0 c)
    (ht : Trans P c c') (q : Nat) (s : Sig) (hm : Tr.take q s ∈ newTr c c') :
    ∀ s' ∈ (c'.queue q).sigs, s.prio ≤ s'.prio :=
  no_more_urgent_pending h0 hr ht hm

/-! ### 4. frame: nothing else is ever removed or reordered -/

/-- For every transition (no reachability needed) and every queue object `q`: either every entry of
`q` is still there afterwards in the same relative order (new ones may have been inserted), or the
transition took a signal from `q`, `q` is the active queue and exactly the head was removed. No queue
object is ever destroyed (`force_quit` empties the list of levels, not the queue objects). -/
theorem C01_only_head_removed (P : Prog) (c c' : Cfg) (ht : Trans P c c') (q : Nat) :
    c.L.queues.length ≤ c'.L.queues.length ∧
    ((c.queue q).entries.Sublist (c'.queue q).entries ∨
      ((∃ s, Tr.take q s ∈ newTr c c') ∧ q = c.L.active ∧
        (c'.queue q).entries = (c.queue q).entries.tail)) :=
  ⟨eff_length (trans_eff ht), eff_entries (trans_eff ht) q⟩

/-! ### 5. the partial `process_signals()` puts a signal of another priority back in its place -/

/-- A transition that adds a `.putBack q s` event (the partial "process the top priority batch" call
finding a head of another priority) leaves every queue object — contents and order — exactly as it
was: `s` is still the head of the active queue `q`. It adds the events `.putBack`, `.procEnd` only. -/
theorem C01_putback_keeps_place (P : Prog) (c c' : Cfg) (ht : Trans P c c') (q : Nat) (s : Sig)
    (hm : Tr.putBack q s ∈ newTr c c') :
    q = c.L.active ∧ (∃ e es, (c.queue q).entries = e :: es ∧ e.2.2 = s) ∧
      c'.L.queues = c.L.queues ∧ c'.L.levels = c.L.levels ∧ c'.L.active = c.L.active ∧
      newTr c c' = [.procEnd, .putBack q s] :=
  eff_putBack (trans_eff ht) hm

/-! ### 6. the whole history: every queue is a stable priority queue -/

/-- End to end, in terms of the history only: in every reachable configuration the signals pending in
each queue object `q` (any nesting depth) are exactly what a *stable priority queue* holds after the
history's `.enq q _` events (insert behind everything at least as urgent, `stableInsert`) and
`.take q _` events (remove the head) — wherever the enqueues came from (start-up code, handlers at
any level, the reader thread, exception signals) — and every `.take q s` of the history removed the
head `s` of that stable priority queue. -/
theorem C01_history (P : Prog) (c0 c : Cfg) (h0 : Started c0) (hr : Reach P c0 c) :
    (∀ q, (c.queue q).sigs = replayQ q c.tr) ∧ TakesAreHeads c.tr :=
  ⟨(WF.reach h0 hr).replay, (WF.reach h0 hr).heads⟩

/-- The head of a stable priority queue is a most urgent pending signal, and `stableInsert` never
puts a signal in front of a pending one that is at least as urgent (so equal priorities leave in
enqueue order). -/
theorem C01_stableInsert_spec (s : Sig) (l : List Sig) :
    ∃ l1 l2, stableInsert s l = l1 ++ s :: l2 ∧ (∀ x ∈ l1, x.prio ≤ s.prio) ∧ (∀ x ∈ l2, s.prio < x.prio) ∧
      l1.Sublist l ∧ l2.Sublist l :=
  ⟨_, _, rfl, fun x hx => by simpa using (List.mem_filter.1 hx).2, fun x hx => by simpa using (List.mem_filter.1 hx).2,
    List.filter_sublist, List.filter_sublist⟩

/-! ### non-vacuity -/

/-- three signals of equal priority enqueued before the loop runs, then an urgent one -/
def C01_exP : Prog := { cc := asciiClass, runEmpty := true }

def C01_exC : Cfg :=
  initCfg [.enq (.user 0) 0 .none 1, .enq (.user 0) 0 .none 2, .enq (.user 0) 0 .none 3,
    .enq (.user 0) (-10) .none 4] [] none []

/-- dispatch order: the urgent signal first, then the three in enqueue order -/
example : (takesOf (runFuel C01_exP 100 C01_exC).1.tr).map (fun p => (p.1, p.2.id)) =
    [(0, 4), (0, 1), (0, 2), (0, 3)] := by
  decide +kernel

/-- a handler (for signal 1) enqueues 10, 13 (priority 5) and 11, 12 (priority -5) and calls the partial
`process_signals()` while 2 (priority 0) is pending -/
def C01_exP2 : Prog where
  cc := asciiClass
  runEmpty := true
  handlerScript := fun hid n =>
    if hid = 0 ∧ n = 0 then
      [.enq (.user 1) 5 .none 10, .enq (.user 1) (-5) .none 11, .enq (.user 1) (-5) .none 12,
       .enq (.user 1) 5 .none 13, .proc none]
    else []

def C01_exC2 : Cfg :=
  initCfg [.enq (.user 0) 0 .none 1, .enq (.user 0) 0 .none 2] [(.user 0, .user 0, none)] none []

/-- the batch 11, 12 is dispatched inside the handler, 2 is looked at and put back, and is dispatched —
still before 10 and 13 — when the handler has returned -/
example :
    (takesOf (runFuel C01_exP2 200 C01_exC2).1.tr).map (fun p => (p.1, p.2.id)) =
      [(0, 1), (0, 11), (0, 12), (0, 2), (0, 10), (0, 13)] ∧
    (runFuel C01_exP2 200 C01_exC2).1.tr.filterMap
      (fun t => match t with | .putBack q s => some (q, s.id) | _ => none) = [(0, 2)] := by
  decide +kernel

end Simpleline
