/-
  C01b — The binary heap behind `EventQueue` refines the sorted list of the machine model
  (discharges the assumption "A-PQ": `queue.PriorityQueue` hands out the smallest `_QueueItem`).

  Property theorems only; helper lemmas live in `Simpleline/Lemmas/Heap*.lean`.

  `Simpleline/Model/Heapq.lean` models CPython's `heapq` step for step on arrays (`heappush`, `heappop`,
  `_siftdown`, `_siftup` = `siftdown`, `siftup` with the loops `siftdownLoop`, `siftupLoop`), so that the
  array after every operation is the Python list `PriorityQueue().queue`, and on top of it
  `event_queue.py`: `HQueue` (`heap` = that list of `_QueueItem`s as triples (priority, order, signal),
  `seq` = `_order_counter`), `HQueue.put` = `_put`/`enqueue`, `HQueue.get` = `get`,
  `HQueue.getTopIfPriority` = `get_top_event_if_priority`, `entryLt` = `_QueueItem.__lt__`.

  `abs q` is the `EQueue` of `Machine.lean` the heap stands for: its entries sorted with the model's
  own `insertEntry`.  `Inv q`: the list is a heap w.r.t. `__lt__`, stored arrival numbers are below the
  counter and pairwise distinct, the stored priority is the signal's priority.

  Termination of the `while` loops of `_siftdown` and `_siftup` for every list and every position is
  proved by the definitions `siftdownLoop` (measure `pos`) and `siftupLoop` (measure `len(heap) - pos`)
  being accepted by Lean: they are total functions defined by well-founded recursion, no fuel.
-/
import Simpleline.Lemmas.HeapQueue
import Simpleline.Lemmas.HeapLink

namespace Simpleline

open Heapq

/-! ### 0. `heapq` itself, for any strict weak order -/

/-- `_QueueItem.__lt__` (priority, then arrival order) is a strict weak order — what `heapq` needs. -/
theorem C01b_lt_order : StrictOrd Heapq.entryLt := entryLt_strictOrd

/-- For any element type and any comparison that is a strict weak order: `heappush` and `heappop` keep
the heap property ("no element is smaller than its parent") of the list, for every list size. -/
theorem C01b_heapq_keeps_heap {α : Type} (lt : α → α → Bool) (so : StrictOrd lt) (heap : Array α)
    (H : IsHeap lt heap) :
    (∀ x, IsHeap lt (heappush lt heap x)) ∧
    (∀ r heap', heappop lt heap = some (r, heap') → IsHeap lt heap') :=
  ⟨fun x => heappush_isHeap so heap x H, fun _ _ h => heappop_isHeap so h H⟩

/-- `heappop` raises `IndexError` exactly on the empty list; otherwise it returns the root `heap[0]`,
and in a heap no element is smaller than the returned one. -/
theorem C01b_heappop_min {α : Type} (lt : α → α → Bool) (so : StrictOrd lt) (heap : Array α)
    (H : IsHeap lt heap) :
    (heappop lt heap = none ↔ heap.size = 0) ∧
    (∀ r heap', heappop lt heap = some (r, heap') →
      (∃ h0 : 0 < heap.size, r = heap[0]) ∧ ∀ y ∈ heap.toList, lt y r = false) :=
  ⟨heappop_none, fun _ _ h => ⟨heappop_root h, heappop_min so h H⟩⟩

/-- The sifts neither lose nor duplicate anything — for *any* comparison function, even an
inconsistent one: after `heappush` the list is a permutation of the old list plus the item, and
`heappop` splits the list into the returned item and a permutation of the rest. -/
theorem C01b_multiset {α : Type} (lt : α → α → Bool) (heap : Array α) :
    (∀ x, (heappush lt heap x).toList.Perm (x :: heap.toList)) ∧
    (∀ r heap', heappop lt heap = some (r, heap') → heap.toList.Perm (r :: heap'.toList)) :=
  ⟨fun x => heappush_perm lt heap x, fun _ _ h => heappop_perm h⟩

/-! ### 1. the invariant -/

/-- A new `EventQueue()` satisfies the invariant. -/
theorem C01b_inv_init : Inv HQueue.empty := inv_empty

/-- `enqueue` / `_put` keeps the invariant. -/
theorem C01b_inv_put (q : HQueue) (s : Sig) (h : Inv q) : Inv (q.put s) := (inv_put h s).1

/-- `get` keeps the invariant. -/
theorem C01b_inv_get (q q' : HQueue) (s : Sig) (h : Inv q) (hg : q.get = some (s, q')) : Inv q' :=
  (inv_get h hg).1

/-- `get_top_event_if_priority` keeps the invariant, whether it returns the signal or puts it back. -/
theorem C01b_inv_getTop (q q' : HQueue) (p : Int) (r : Option Sig) (h : Inv q)
    (hg : q.getTopIfPriority p = some (r, q')) : Inv q' :=
  (inv_getTop h hg).1

/-- Hence the invariant holds after every sequence of operations on a new queue (an operation on an
empty queue, which would block in Python, is skipped). -/
theorem C01b_inv_run (ops : List Op) : Inv (HQueue.empty.run ops).2 := (run_refines ops inv_empty).1

/-- The sorted list a heap-based queue stands for is a well-formed queue in the sense of C01
(`EQueue.Sorted`: strictly ordered by (priority, arrival number), arrival numbers below the counter,
stored priority = signal priority) — the premise of the C01 theorems about the machine model. -/
theorem C01b_abs_sorted (q : HQueue) (h : Inv q) : (abs q).Sorted := abs_sorted h

/-! ### 2. refinement, operation by operation -/

/-- `enqueue` on the heap is `EQueue.put` on the sorted list: the signal goes behind every pending
signal that is at least as urgent, in front of the less urgent ones. -/
theorem C01b_put_refines (q : HQueue) (s : Sig) (h : Inv q) : abs (q.put s) = (abs q).put s :=
  (inv_put h s).2

/-- `get` would block exactly when the sorted list is empty; otherwise it returns exactly the head of
the sorted list — the most urgent signal, the oldest among equally urgent ones — and what remains
stands for the tail. -/
theorem C01b_get_refines (q : HQueue) (h : Inv q) :
    (q.get = none ↔ (abs q).entries = []) ∧
    (∀ s q', q.get = some (s, q') →
      ∃ p n rest, (abs q).entries = (p, n, s) :: rest ∧ abs q' = { abs q with entries := rest }) :=
  ⟨get_eq_none.trans (heappop_none_iff_abs q), fun _ _ hg => (inv_get h hg).2⟩

/-- `get_top_event_if_priority(p)` would block exactly when the sorted list is empty; otherwise, with
`e` the head of the sorted list: if `e`'s signal has priority `p` the call returns it and behaves like
`get`; if not it returns `None` and the re-inserted item is back in its old place — the sorted list
(contents, order, counter) is unchanged, although the heap layout may differ. -/
theorem C01b_getTop_refines (q : HQueue) (p : Int) (h : Inv q) :
    (q.getTopIfPriority p = none ↔ (abs q).entries = []) ∧
    (∀ r q', q.getTopIfPriority p = some (r, q') →
      ∃ e rest, (abs q).entries = e :: rest ∧
        ((e.2.2.prio = p ∧ r = some e.2.2 ∧ abs q' = { abs q with entries := rest }) ∨
         (e.2.2.prio ≠ p ∧ r = none ∧ abs q' = abs q))) :=
  ⟨getTop_eq_none.trans (heappop_none_iff_abs q), fun _ _ hg => (inv_getTop h hg).2⟩

/-! ### 3. refinement of whole histories -/

/-- One operation (`put`, `get`, `getTop p`) on a heap-based queue satisfying the invariant and the same
operation on the sorted list it stands for (`stepE`: the machine model's behaviour — consumers take
the head of `entries`, a head of another priority stays in place) give the same output, and the
results correspond again. -/
theorem C01b_step_refines (q : HQueue) (h : Inv q) (o : Op) :
    (q.step o).1 = (stepE (abs q) o).1 ∧ abs (q.step o).2 = (stepE (abs q) o).2 :=
  (step_refines h o).2

/-- For every sequence of operations, of any length and with any number of pending signals: running it
on the heap-based `EventQueue` from `EventQueue()` and on the sorted-list queue of the machine model
from the empty queue yields the same outputs (which signal each `get` / `get_top_event_if_priority`
returns, where they would block or return `None`), and the final queues correspond. -/
theorem C01b_sequence_refines (ops : List Op) :
    (HQueue.empty.run ops).1 = (runE {} ops).1 ∧ abs (HQueue.empty.run ops).2 = (runE {} ops).2 :=
  (run_refines ops inv_empty).2

/-! ### non-vacuity, and the legacy defect F1 -/

/-- eight signals of equal priority, then eight `get`s -/
def C01b_ex8 : List Op := (List.range 8).map (fun i => Op.put (mkSig 0 i)) ++ List.replicate 8 Op.get

/-- they come out first-in first-out -/
example : ((HQueue.empty.run C01b_ex8).1.filterMap fun o => match o with | .sig s => some s.id | _ => none)
    = [0, 1, 2, 3, 4, 5, 6, 7] := by
  decide +kernel

/-- mixed priorities, a `getTop` that matches, one that puts back, a blocked `get`: outputs and the heap
layouts (priority, order) after each operation, as in CPython (the put-back of `getTop 7` changes the
layout, not the order of delivery) -/
example : runOps HQueue.empty
      [.put (mkSig 5 0), .put (mkSig 5 1), .put (mkSig (-1) 2), .put (mkSig 5 3), .getTop 7, .getTop (-1), .get,
       .get, .get, .get] =
    [(.done, [(5, 0)]), (.done, [(5, 0), (5, 1)]), (.done, [(-1, 2), (5, 1), (5, 0)]),
     (.done, [(-1, 2), (5, 1), (5, 0), (5, 3)]), (.noSig, [(-1, 2), (5, 0), (5, 3), (5, 1)]),
     (.sig (mkSig (-1) 2), [(5, 0), (5, 1), (5, 3)]), (.sig (mkSig 5 0), [(5, 1), (5, 3)]),
     (.sig (mkSig 5 1), [(5, 3)]), (.sig (mkSig 5 3), []), (.blocked, [])] := by
  decide +kernel

/-- a reachable non-trivial queue satisfying the invariant, whose heap layout is not sorted -/
example : Inv (HQueue.empty.run [.put (mkSig 5 0), .put (mkSig 5 1), .put (mkSig (-1) 2)]).2 ∧
    (HQueue.empty.run [.put (mkSig 5 0), .put (mkSig 5 1), .put (mkSig (-1) 2)]).2.heap.toList.map (fun e => e.2.1)
      = [2, 1, 0] :=
  ⟨C01b_inv_run _, by decide +kernel⟩

/-- four items of equal priority -/
def C01b_ex4 : List Heapq.Entry := (List.range 4).map fun i => (0, i, mkSig 0 i)

/-- Legacy defect F1: with the comparison by priority only (the `__lt__` before the fix) the heap is
not first-in first-out — four equal-priority items pushed in the order 0,1,2,3 are popped as 0,2,1,3 … -/
example : (drain prioLt 4 (pushAll prioLt C01b_ex4)).map (fun e => e.2.1) = [0, 2, 1, 3] := by
  decide +kernel

/-- … while with `(priority, order)` they are popped in arrival order. -/
example : (drain Heapq.entryLt 4 (pushAll Heapq.entryLt C01b_ex4)).map (fun e => e.2.1) = [0, 1, 2, 3] := by
  decide +kernel

end Simpleline
