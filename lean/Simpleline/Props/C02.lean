/-
  C02 — Every dispatched signal reaches every handler of its class exactly once.

  Property theorems only; helper lemmas live in `Simpleline/Lemmas/Dispatch*.lean`, vocabulary in
  `Simpleline/Spec/DispatchSpec.lean`.

  How dispatch appears in the machine: the three consumers (`_mainloop`'s get, the waiting and the
  non-waiting `process_signals`) take a signal `s` (trace `.take q s`) and push `processSignal s`
  (`MainLoop._process_signal`).  That pushes `dispatch s 0` if a handler is registered for `s.cls`;
  `dispatch s i` looks at entry `i` of the *live* list `handlersOf c.L s.cls` (registrations, in
  registration order, whose class is exactly `s.cls`) and pushes
  `[callH h d s, catchHandler, dispatch s (i+1)]` — the call of callback `h` with data `d`, the
  `except Exception` scope around it, and the rest of the loop — or, past the end, traces
  `.dispatched s i`.  Executing `callH h d s` traces `.call h d s` and expands into the callback's body.
  `callsOf s tr` lists the `(h, d)` of the `.call h d s` events of a trace, oldest first;
  `takeCount s tr` counts its `.take _ s` events.
-/
import Simpleline.Lemmas.DispatchQueue
import Simpleline.Lemmas.DispatchCount

namespace Simpleline
open Dispatch

/-! ### 1. only registered handlers, only for their own class, with their own data -/

/-- Registrations are never removed or reordered: along every execution the registration table only
grows at the end (and the only registrations the library itself adds are those of new input handlers
for `InputReady`). -/
theorem C02_handlers_grow (P : Prog) (c c' : Cfg) (hs : Steps P c c') : c.L.handlers <+: c'.L.handlers :=
  (steps_static hs).1

/-- … in one transition: what is appended are `(InputReady, input handler n, no data)` entries only. -/
theorem C02_handlers_grow_step (P : Prog) (c c' : Cfg) (ht : Trans P c c') :
    ∃ more, c'.L.handlers = c.L.handlers ++ more ∧ ∀ x ∈ more, ∃ n, x = (Cls.inputReady, HRef.ih n, none) :=
  (trans_static ht).1

/-- Every handler invocation in the history of a reachable configuration was the invocation of a
callback registered for *exactly* the class of the signal, with *exactly* the data given at
registration.  So no handler of another class is ever invoked for a signal. -/
theorem C02_call_registered (P : Prog) (c0 c : Cfg) (h0 : Started c0) (hr : Reach P c0 c)
    (h : HRef) (d : Option Nat) (s : Sig) (hm : Tr.call h d s ∈ c.tr) : (s.cls, h, d) ∈ c.L.handlers :=
  callReg_reach h0 hr h d s hm

/-! ### 2. a handler is only ever invoked by `dispatch` -/

/-- In every reachable configuration a handler-call instruction can only be the *next* instruction:
none occurs further down the pending code.  If one is next, it is there because `dispatch s j` just put it
there: it is followed by the `except Exception` scope and by `dispatch s (j+1)`, it is entry `j` of the
live handler list of the signal's class, and force-quit is not set. -/
theorem C02_call_only_from_dispatch (P : Prog) (c0 c : Cfg) (h0 : Started c0) (hr : Reach P c0 c) :
    (∀ h d s, Instr.callH h d s ∉ c.code.tail) ∧
    (∀ h d s, c.code.head? = some (.callH h d s) →
      ∃ j K, c.code = .callH h d s :: .catchHandler :: .dispatch s (j + 1) :: K ∧
        (handlersOf c.L s.cls)[j]? = some (h, d) ∧ c.L.forceQuit = false) := by
  have hI := codeInv_reach h0 hr
  refine ⟨fun h d s hm => ?_, hI.headCall⟩
  have := hI.noCall _ hm
  simp [isCallH] at this

/-- A `.call h d s` event is added to the history only by executing such a call instruction: the
transition started in a configuration whose next instruction was `callH h d s` — pushed by `dispatch`
as entry `j` of the live list, with force-quit unset. -/
theorem C02_call_event_origin (P : Prog) (c0 c c' : Cfg) (h0 : Started c0) (hr : Reach P c0 c) (ht : Trans P c c')
    (h : HRef) (d : Option Nat) (s : Sig) (hm : Tr.call h d s ∈ newTr c c') :
    ∃ j K, c.code = .callH h d s :: .catchHandler :: .dispatch s (j + 1) :: K ∧
      (handlersOf c.L s.cls)[j]? = some (h, d) ∧ c.L.forceQuit = false :=
  (codeInv_reach h0 hr).headCall h d s ((trans_origin ht).toNewTr.2 _ hm)

/-! ### 3. the handlers of the class: each once, in registration order -/

/-- `dispatch s i` with a handler at index `i` of the live list (and force-quit unset): that handler is
called next, inside an `except Exception` scope, and the dispatch continues with index `i+1`. Nothing
else changes. -/
theorem C02_dispatch_step_call (P : Prog) (c : Cfg) (s : Sig) (i : Nat) (rest : List Instr) (h : HRef) (d : Option Nat)
    (hc : c.code = .dispatch s i :: rest) (hh : (handlersOf c.L s.cls)[i]? = some (h, d)) (hf : c.L.forceQuit = false) :
    step P c = .ok { c with code := .callH h d s :: .catchHandler :: .dispatch s (i + 1) :: rest } :=
  dispatch_step_call P c s i rest h d hc hh hf

/-- `dispatch s i` past the end of the live list (or after force-quit): the dispatch of `s` is over,
which is recorded as `.dispatched s i`; execution continues behind it.  Nothing else changes. -/
theorem C02_dispatch_step_done (P : Prog) (c : Cfg) (s : Sig) (i : Nat) (rest : List Instr)
    (hc : c.code = .dispatch s i :: rest) (hh : (handlersOf c.L s.cls)[i]? = none ∨ c.L.forceQuit = true) :
    step P c = .ok { c with code := rest, tr := .dispatched s i :: c.tr } :=
  dispatch_step_done P c s i rest hc hh

/-- Conversely a `.dispatched s n` event is only ever added that way — by `dispatch s n` with index
`n` past the end or force-quit set — or, with `n = 0`, by `processSignal s` when no handler is
registered for the class of `s` (and `s` is not an `ExceptionSignal`). -/
theorem C02_dispatched_origin (P : Prog) (c c' : Cfg) (ht : Trans P c c') (s : Sig) (n : Nat)
    (hm : Tr.dispatched s n ∈ newTr c c') :
    (c.code.head? = some (.dispatch s n) ∧ ((handlersOf c.L s.cls)[n]? = none ∨ c.L.forceQuit = true)) ∨
    (c.code.head? = some (.processSignal s) ∧ n = 0 ∧ handlersOf c.L s.cls = [] ∧ s.cls ≠ .exception) :=
  (trans_origin ht).toNewTr.2 _ hm

/-- **In registration order, each at most once, while the dispatch is running.**  In a reachable
configuration in which signal `s` has been taken for dispatch at most once: a signal that has not been
taken has had no handler called; and if `dispatch s j` is pending in the code, then the handlers called
for `s` so far — together with the call that is the next instruction, if there is one — are exactly
the first `j` entries of the live handler list of its class (callbacks and data), in order. -/
theorem C02_dispatch_in_order (P : Prog) (c0 c : Cfg) (h0 : Started c0) (hr : Reach P c0 c) (s : Sig)
    (h1 : takeCount s c.tr ≤ 1) :
    (takeCount s c.tr = 0 → callsOf s c.tr = []) ∧
    ∀ j, Instr.dispatch s j ∈ c.code →
      j ≤ (handlersOf c.L s.cls).length ∧ callsOf s c.tr ++ pend s c.code = (handlersOf c.L s.cls).take j :=
  ⟨(dispInv_reach h0 hr s).none, (dispInv_reach h0 hr s).disp h1⟩

/-- **Exactly once each, in registration order, when the dispatch completes.**  If a transition out of
a reachable configuration completes the dispatch of `s` (adds `.dispatched s n`) and `s` has been taken for
dispatch once, then the handlers that have been called for `s` in the whole history are exactly the
first `n` entries of the live handler list of the class of `s`, in registration order, with the data
given at registration — and unless force-quit was set, `n` is the length of that list: every handler of
the class, each exactly once. -/
theorem C02_dispatch_complete (P : Prog) (c0 c c' : Cfg) (h0 : Started c0) (hr : Reach P c0 c) (ht : Trans P c c')
    (s : Sig) (n : Nat) (hm : Tr.dispatched s n ∈ newTr c c') (h1 : takeCount s c'.tr ≤ 1) :
    callsOf s c'.tr = (handlersOf c'.L s.cls).take n ∧
    (c.L.forceQuit = false → callsOf s c'.tr = handlersOf c.L s.cls) := by
  exact dispatch_complete h0 hr ht s n hm h1

/-- … and afterwards no handler is ever called for `s` again: in every reachable configuration whose
history contains the completion `.dispatched s n` (and one take of `s`), the handlers called for `s` are
still exactly those first `n`. -/
theorem C02_dispatch_final (P : Prog) (c0 c : Cfg) (h0 : Started c0) (hr : Reach P c0 c) (s : Sig) (n : Nat)
    (hm : Tr.dispatched s n ∈ c.tr) (h1 : takeCount s c.tr ≤ 1) :
    n ≤ (handlersOf c.L s.cls).length ∧ callsOf s c.tr = (handlersOf c.L s.cls).take n :=
  (dispInv_reach h0 hr s).done h1 n hm

/-- The bookkeeping behind it, without any hypothesis: the pending `processSignal s` and `dispatch s _`
instructions plus the completions `.dispatched s _` never outnumber the takes of `s` — every dispatch of
`s` was started by taking `s` from a queue, and at most one dispatch runs per take. -/
theorem C02_one_dispatch_per_take (P : Prog) (c0 c : Cfg) (h0 : Started c0) (hr : Reach P c0 c) (s : Sig) :
    c.code.countP (isPSs s) + c.code.countP (isDisp s) + c.tr.countP (isDoneT s) ≤ takeCount s c.tr :=
  (dispInv_reach h0 hr s).count

/-! The hypothesis `takeCount s _ ≤ 1` identifies *one* dispatch: the model identifies a signal with
its value (`id` included), and an application may enqueue the very same signal object twice — then it
is dispatched twice and every handler is called twice.  Non-vacuity of the theorems and necessity of
the hypothesis, on a concrete program: class `user 0` has three registrations (callback 1 with data 1,
callback 2, callback 1 with data 2), class `user 1` has one; callback 2 raises on its first invocation;
nobody handles `ExceptionSignal`. -/

def C02_exProg : Prog :=
  { cc := asciiClass, runEmpty := true,
    handlerScript := fun hid n => if hid = 2 ∧ n = 0 then [.raiseErr] else [] }

def C02_exSig : Sig := { id := 7, cls := .user 0, prio := 0, src := .none }

def C02_exHandlers : List (Cls × HRef × Option Nat) :=
  [(.user 0, .user 1, some 1), (.user 1, .user 9, none), (.user 0, .user 2, none), (.user 0, .user 1, some 2)]

/-- one signal: its three handlers are called in registration order although the second one raises; the
run then dies of the unhandled `ExceptionSignal` with exit status 1 -/
example :
    let r := runFuel C02_exProg 100 (initCfg [.enq (.user 0) 0 .none 7] C02_exHandlers none [])
    r.2 = .killed 1 ∧ takeCount C02_exSig r.1.tr = 1 ∧ Tr.dispatched C02_exSig 3 ∈ r.1.tr ∧
      callsOf C02_exSig r.1.tr = [(.user 1, some 1), (.user 2, none), (.user 1, some 2)] := by
  decide +kernel

/-- the same signal enqueued twice (no handler raising): taken twice, every handler called twice, and the
conclusion of `C02_dispatch_final` fails -/
theorem C02_dispatch_final_needs_single_take :
    let r := runFuel { C02_exProg with handlerScript := fun _ _ => [] } 100 (initCfg [.enq (.user 0) 0 .none 7, .enq (.user 0) 0 .none 7] C02_exHandlers none [])
    takeCount C02_exSig r.1.tr = 2 ∧ Tr.dispatched C02_exSig 3 ∈ r.1.tr ∧
      callsOf C02_exSig r.1.tr ≠ (handlersOf r.1.L C02_exSig.cls).take 3 := by
  decide +kernel

/-! ### 4. a failing handler is contained -/

/-- **An ordinary exception goes to the nearest `except Exception` scope and becomes one
`ExceptionSignal`.**  If the pending code is `body ++ ins :: rest` where `ins` is a catcher of ordinary
exceptions with signal source `src` (`catchHandler` → the loop, `catchPS`/`catchDraw` → the scheduler,
`catchPI scr` → the input manager of `scr`) and `body` contains no catcher, then raising an ordinary
exception succeeds, execution continues at `afterCatch ins rest` — that is `rest` (for `catchHandler`: the
`dispatch s (i+1)` of the remaining handlers and everything below), except that `catchPI` also skips the
tail of `process_input` up to `endPI` — and the state is the old one with exactly one signal of class
`exception`, priority −20, source `src` enqueued (`Cfg.enqueue`: one `.enq`/`.dropped` trace event; queues
otherwise untouched; stack, tickets, levels, log … unchanged). -/
theorem C02_failure_contained (c : Cfg) (body rest : List Instr) (ins : Instr) (src : Src)
    (hcode : c.code = body ++ ins :: rest) (hbody : ∀ i ∈ body, errCatch i = none) (hins : errCatch ins = some src) :
    c.raise .err =
      .ok { (({ c with nextSid := c.nextSid + 1 } : Cfg).enqueue
              { id := c.nextSid + 1, cls := .exception, prio := -20, src := src }) with code := afterCatch ins rest } :=
  raise_err_caught c body rest ins src hcode hbody hins

/-- the case of a signal handler: the remaining handlers of the signal are next -/
theorem C02_failure_contained_handler (c : Cfg) (body K : List Instr) (s : Sig) (i : Nat)
    (hcode : c.code = body ++ .catchHandler :: .dispatch s (i + 1) :: K) (hbody : ∀ i ∈ body, errCatch i = none) :
    ∃ c', c.raise .err = .ok c' ∧ c'.code = .dispatch s (i + 1) :: K ∧
      c'.tr = (if c.L.forceQuit then Tr.dropped { id := c.nextSid + 1, cls := .exception, prio := -20, src := .loop }
               else .enq (c.L.route .loop) { id := c.nextSid + 1, cls := .exception, prio := -20, src := .loop }) :: c.tr ∧
      c'.L.handlers = c.L.handlers ∧ c'.L.levels = c.L.levels ∧ c'.L.active = c.L.active ∧
      c'.L.runLoop = c.L.runLoop ∧ c'.L.forceQuit = c.L.forceQuit ∧ c'.L.tickets = c.L.tickets ∧
      c'.A = c.A ∧ c'.log = c.log :=
  raise_err_handler c body K s i hcode hbody

/-- … and without any catcher below, the exception ends the run -/
theorem C02_failure_uncaught (c : Cfg) (h : ∀ i ∈ c.code, errCatch i = none) :
    c.raise .err = .error (.raised "err", { c with code := [] }) :=
  raise_err_uncaught c h

/-- **A failing handler skips nothing but its own rest.**  In a reachable configuration let a body instruction
`ins` (handler, scheduler or input code: not one of the loop's own instructions) be executing with `rest`
pending below it, and let `x` be the first catcher of ordinary exceptions in `rest`.  Then what an exception raised
by `ins` drops — `D`, with `rest = D ++ afterCatch x post` — contains no loop instruction except the catching
`catchHandler` itself: no `dispatch` (the remaining handlers of this or of any enclosing signal), no `loopCheck` /
`mainCheck` (the later signals), no `processSignal`. -/
theorem C02_failure_drops_only_body (P : Prog) (c0 c : Cfg) (h0 : Started c0) (hr : Reach P c0 c)
    (ins x : Instr) (pre post : List Instr) (src : Src) (hc : c.code = ins :: (pre ++ x :: post))
    (hins : ins.isLC = false) (hpre : ∀ i ∈ pre, errCatch i = none) (hx : errCatch x = some src) :
    ∃ D, pre ++ x :: post = D ++ afterCatch x post ∧ ∀ i ∈ D, i.isLC = false ∨ i = .catchHandler :=
  err_drop_noLC (hc ▸ Shape.reach_chained h0 hr) hins rfl hpre hx

/-- … on the level of transitions: a successful step out of a reachable configuration that does not record an
exit request keeps every loop instruction pending below the executed one (`isKeep`: `dispatch`, `loopCheck`,
`mainCheck`, …; everything of the loop core but `catchHandler`), in order — whatever the step was: a handler
failing, scheduler or input code failing, at any depth.  So neither the remaining handlers of the signal nor any
later signal are lost to an ordinary exception. -/
theorem C02_failure_never_skips (P : Prog) (c0 c c' : Cfg) (h0 : Started c0) (hr : Reach P c0 c)
    (hs : step P c = .ok c') (hx : Tr.exit ∉ newTr c c') :
    c.code.tail.filter isKeep <:+ c'.code.filter isKeep :=
  keep_loop_core h0 hr hs hx

/-! ### 5. the exception signal overtakes everything pending -/

/-- In a reachable configuration (force-quit unset) the `ExceptionSignal` a catcher enqueues is placed, in
the queue of the level it is routed to, behind the pending entries of priority ≤ −20 and **in front of
every pending entry of priority > −20** (every ordinary signal: the library's own priorities are ≥ −10);
no other queue changes.  (The order of the other entries is kept; uses the queue invariant of C01.) -/
theorem C02_exception_overtakes (P : Prog) (c0 c : Cfg) (h0 : Started c0) (hr : Reach P c0 c)
    (hf : c.L.forceQuit = false) (src : Src) :
    (((({ c with nextSid := c.nextSid + 1 } : Cfg).enqueue (excSig c.nextSid src)).queue (c.L.route src)).entries =
      (c.queue (c.L.route src)).entries.filter (fun x => x.1 ≤ -20) ++
        [((-20 : Int), (c.queue (c.L.route src)).seq, excSig c.nextSid src)] ++
        (c.queue (c.L.route src)).entries.filter (fun x => -20 < x.1)) ∧
    ∀ q', q' ≠ c.L.route src →
      (({ c with nextSid := c.nextSid + 1 } : Cfg).enqueue (excSig c.nextSid src)).queue q' = c.queue q' :=
  exc_overtakes h0 hr hf src

/-! ### 6. an exception signal nobody handles ends the process -/

/-- `processSignal s` for an `ExceptionSignal` when the application registered no handler for that
class: the next step is the kill, which halts the machine with outcome `killed 1` (exit status 1); the
output gains exactly the traceback's final newline and the screen-stack dump followed by a newline; the
history gains exactly `.kill` — no handler is called; the log is unchanged; and nothing runs afterwards
(the final configuration has no code left). -/
theorem C02_kill (P : Prog) (c : Cfg) (s : Sig) (rest : List Instr) (hc : c.code = .processSignal s :: rest)
    (hs : s.cls = .exception) (hn : handlersOf c.L .exception = []) :
    ∃ c1 c2, step P c = .ok c1 ∧ step P c1 = .error (.killed 1, c2) ∧ c2.code = [] ∧
      c2.A.out = c.A.out ++ [['\n'], dumpStack P c.A.stack ++ ['\n']] ∧
      c2.tr = .kill :: c.tr ∧ c2.log = c.log ∧ step P c2 = .error (.returned, c2) :=
  kill_run P c s rest hc hs hn

end Simpleline
