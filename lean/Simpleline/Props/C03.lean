/-
  C03 — A nested (modal) loop is isolated: outer work is held, not lost, then resumed.

  Property theorems only; helper lemmas live in `Simpleline/Lemmas/Loop*.lean`, vocabulary in
  `Simpleline/Spec/LoopSpec.lean`.

  `c.L.levels` is `MainLoop._event_queues` (bottom … top; entries are queue objects = indices into
  `c.L.queues`), `c.L.active` is `_active_queue`, `(c.queue q).sources` is queue `q`'s
  `_contained_screens`, `L.owns q src` says `src` is registered with queue object `q`.
  `execute_new_loop` is the instruction `newLoop` (trace event `.openLevel q _`), `close_loop` ends in
  the instruction `popLevel` (trace event `.closeLevel q`).

  Two clauses of the property are *not* proved here, because they need a global invariant relating
  the `mainCheck q` markers in the pending code to `levels` (the shape of the Python call stack):
    * "starting a nested loop does not return to its caller before that loop is closed", and
    * "closing it resumes the enclosing loop where it stopped" (as far as the *code* is concerned; the
      state part is `C03_close_restores`).
  They are proved in `Props/C05.lean` / `Lemmas/Shape*.lean`.
-/
import Simpleline.Lemmas.LoopProps

namespace Simpleline

/-! ### 1. routing -/

/-- `MainLoop.enqueue_signal` chooses the queue by scanning the levels from the innermost (top)
outwards: the result is the innermost level with which the signal's source is registered — it owns
the source and no level above it does —, or the active queue if no level owns the source. -/
theorem C03_route (L : LoopSt) (src : Src) :
    (∃ i, ∃ hi : i < L.levels.length, L.route src = L.levels[i] ∧ L.owns L.levels[i] src ∧
        ∀ j (hj : j < L.levels.length), i < j → ¬ L.owns L.levels[j] src) ∨
      ((∀ q ∈ L.levels, ¬ L.owns q src) ∧ L.route src = L.active) :=
  route_spec L src

/-- … and (when not force-quit) the signal is `put` into exactly that queue object; after force-quit
it is dropped. -/
theorem C03_enqueue (c : Cfg) (s : Sig) :
    (c.L.forceQuit = false →
      (c.enqueue s).L.queues = listSet c.L.queues (c.L.route s.src) (·.put s) ∧
      (c.enqueue s).tr = .enq (c.L.route s.src) s :: c.tr) ∧
    (c.L.forceQuit = true → (c.enqueue s).L = c.L ∧ (c.enqueue s).tr = .dropped s :: c.tr) := by
  unfold Cfg.enqueue
  constructor <;> intro h <;> simp [h, Cfg.trace]

/-- In terms of the history: every `.enq q s` event any transition adds has `q` = the route of `s`'s
source (levels and registered sources as at the end of that transition — within one transition they
do not change after an enqueue), and the loop was not force-quit. -/
theorem C03_enq_routed (P : Prog) (c c' : Cfg) (ht : Trans P c c') (q : Nat) (s : Sig)
    (hm : Tr.enq q s ∈ newTr c c') : q = c'.L.route s.src ∧ c'.L.forceQuit = false :=
  eff_enq (trans_eff ht) hm

/-! ### 2. the active queue is the top level -/

/-- In every reachable configuration the active queue is the innermost (last) level — unless there
are no levels at all (after `force_quit`, or when the outermost loop has been closed); the active
queue and all levels are existing queue objects; levels are listed in order of creation (ascending
indices: a queue object is created by `execute_new_loop` only), in particular pairwise distinct. -/
theorem C03_active_is_top (P : Prog) (c0 c : Cfg) (h0 : Started c0) (hr : Reach P c0 c) :
    (c.L.levels.getLast? = some c.L.active ∨ c.L.levels = []) ∧
      c.L.active < c.L.queues.length ∧ (∀ q ∈ c.L.levels, q < c.L.queues.length) ∧
      c.L.levels.Pairwise (· < ·) ∧ c.L.levels.Nodup :=
  active_is_top h0 hr

/-! ### 3. isolation: only the innermost loop's signals are dispatched -/

/-- Every signal taken for dispatch by a transition out of a reachable configuration comes from the
active queue, which is the innermost level (or there are no levels). So while a nested loop runs,
nothing is dispatched from the queue of an enclosing loop. -/
theorem C03_isolation (P : Prog) (c0 c c' : Cfg) (h0 : Started c0) (hr : Reach P c0 c) (ht : Trans P c c')
    (q : Nat) (s : Sig) (hm : Tr.take q s ∈ newTr c c') :
    q = c.L.active ∧ (c.L.levels.getLast? = some q ∨ c.L.levels = []) :=
  isolation h0 hr ht hm

/-- In every reachable configuration every signal pending in the queue of a level belongs to that
level: its source is registered with that level, or with no enclosing level (levels are in ascending
order, so the enclosing levels of `q` are the levels `q' < q`). A signal whose source belongs to an
enclosing loop only is never in the nested loop's queue. -/
theorem C03_pending_belong (P : Prog) (c0 c : Cfg) (h0 : Started c0) (hr : Reach P c0 c) :
    ∀ q ∈ c.L.levels, ∀ s ∈ (c.queue q).sigs,
      c.L.owns q s.src ∨ ∀ q' ∈ c.L.levels, q' < q → ¬ c.L.owns q' s.src :=
  pending_belong h0 hr

/-- Hence every signal a running (nested) loop dispatches belongs to it: its source is registered with
the innermost level or with no enclosing level. -/
theorem C03_dispatched_belong (P : Prog) (c0 c c' : Cfg) (h0 : Started c0) (hr : Reach P c0 c) (ht : Trans P c c')
    (q : Nat) (s : Sig) (hm : Tr.take q s ∈ newTr c c') (hq : q ∈ c.L.levels) :
    c.L.owns q s.src ∨ ∀ q' ∈ c.L.levels, q' < q → ¬ c.L.owns q' s.src :=
  dispatched_belong h0 hr ht hm hq

/-! ### 4. outer work is held: never dispatched early, never dropped -/

/-- For every transition and every queue object other than the active one — for a reachable
configuration: every enclosing level (by `C03_active_is_top`) —: every pending signal is still
pending afterwards, in the same relative order (new ones may have been routed to it), and the
transition takes nothing from it. -/
theorem C03_held (P : Prog) (c c' : Cfg) (ht : Trans P c c') (q : Nat) (hq : q ≠ c.L.active) :
    (c.queue q).sigs.Sublist (c'.queue q).sigs ∧ ∀ s, Tr.take q s ∉ newTr c c' :=
  held ht hq

/-- Over any number of transitions (`c'` reachable from `c`): as long as the history records no take
from queue object `q`, everything that was pending in `q` is still pending, in the same relative order.
With `C03_isolation` (no take from a level that is not the innermost) this is "held while the nested
loop runs"; once the nested loop is closed, `q` is the active queue again (`C03_close_restores`) and its
signals leave in queue order, most urgent first, first-in first-out (C01). -/
theorem C03_held_until_taken (P : Prog) (c c' : Cfg) (hr : Reach P c c') (q : Nat)
    (hno : ∀ s, Tr.take q s ∉ newTr c c') : (c.queue q).sigs.Sublist (c'.queue q).sigs :=
  held_multi hr hno

/-! ### 5. the sources of enclosing levels are fixed -/

/-- Sources are only ever registered with the active queue: for every transition the source set of
every other queue object is unchanged; and no queue object ever loses a source. -/
theorem C03_sources_fixed_below (P : Prog) (c c' : Cfg) (ht : Trans P c c') (q : Nat) :
    (q ≠ c.L.active → (c'.queue q).sources = (c.queue q).sources) ∧
    (∀ x ∈ (c.queue q).sources, x ∈ (c'.queue q).sources) :=
  ⟨eff_sources (trans_eff ht) q, eff_sources_sub (trans_eff ht) q⟩

/-! ### 6. opening and closing a level -/

/-- A transition that records `.closeLevel q` (the end of `close_loop`) removes exactly the top level
`q`; no queue object disappears; if an enclosing level remains, it becomes the active queue again and
`_run_loop` is cleared (so that the closed loop's `_mainloop` returns — see `Props/C05`); if none
remains (the outermost loop was closed: `ExitMainLoop` is raised) the active queue and `_run_loop`
are untouched. -/
theorem C03_close_restores (P : Prog) (c c' : Cfg) (ht : Trans P c c') (q : Nat)
    (hm : Tr.closeLevel q ∈ newTr c c') :
    c.L.levels.getLast? = some q ∧ c'.L.levels = c.L.levels.dropLast ∧
      c'.L.queues.length = c.L.queues.length ∧
      (∀ a, c.L.levels.dropLast.getLast? = some a → c'.L.active = a ∧ c'.L.runLoop = false) ∧
      (c.L.levels.dropLast = [] → c'.L.active = c.L.active ∧ c'.L.runLoop = c.L.runLoop) :=
  eff_closeLevel (trans_eff ht) hm

/-- Levels and the active queue change in no other way: a transition that records none of
`.openLevel`, `.closeLevel`, `.forceQuit` leaves both as they were. -/
theorem C03_levels_change_only_by_open_close (P : Prog) (c c' : Cfg) (ht : Trans P c c')
    (hno : ∀ t ∈ newTr c c', t ≠ .forceQuit ∧ (∀ q r, t ≠ .openLevel q r) ∧ ∀ q, t ≠ .closeLevel q) :
    c'.L.levels = c.L.levels ∧ c'.L.active = c.L.active := by
  refine eff_levels_static (trans_eff ht) ?_
  intro t ht' hs
  obtain ⟨h1, h2, h3⟩ := hno t ht'
  rcases hs with h | ⟨q, r, h⟩ | ⟨q, h⟩
  · exact h1 h
  · exact h2 q r h
  · exact h3 q h

/-- A transition that records `.openLevel q r` (`execute_new_loop`, not force-quit) creates the queue
object `q` — fresh: its index is the old number of queue objects, no sources registered — and makes it
the new top level and the active queue; `r` is `_run_loop`, which is unchanged. -/
theorem C03_open_level (P : Prog) (c c' : Cfg) (ht : Trans P c c') (q : Nat) (r : Bool)
    (hm : Tr.openLevel q r ∈ newTr c c') :
    q = c.L.queues.length ∧ r = c.L.runLoop ∧ c.L.forceQuit = false ∧
      c'.L.levels = c.L.levels ++ [q] ∧ c'.L.active = q ∧ c'.L.queues.length = q + 1 ∧
      c'.L.runLoop = c.L.runLoop ∧ c'.L.forceQuit = false ∧ (c'.queue q).sources = [] :=
  eff_openLevel (trans_eff ht) hm

/-- The step of `execute_new_loop(s)` itself (not force-quit): it succeeds, continues with the new
loop's `_mainloop` (`mainCheck q`) in front of the caller's remaining code, records exactly the two
events "level `q` opened" and "`s` enqueued at its route", and the fresh level's queue holds exactly
the initial signal if `s` was routed to it — and nothing if `s`'s source is registered with an
enclosing level, where it went instead. -/
theorem C03_new_loop_step (P : Prog) (c : Cfg) (s : Sig) (rest : List Instr) (hc : c.code = .newLoop s :: rest)
    (hf : c.L.forceQuit = false) :
    ∃ c', step P c = .ok c' ∧ c'.code = .mainCheck c.L.queues.length :: rest ∧
      c'.L.levels = c.L.levels ++ [c.L.queues.length] ∧ c'.L.active = c.L.queues.length ∧
      c'.L.queues.length = c.L.queues.length + 1 ∧
      newTr c c' = [.enq (c'.L.route s.src) s, .openLevel c.L.queues.length c.L.runLoop] ∧
      (c'.queue c.L.queues.length).sigs = (if c'.L.route s.src = c.L.queues.length then [s] else []) ∧
      (c'.queue c.L.queues.length).sources = [] :=
  newLoop_facts P c s rest hc hf

/-! ### non-vacuity -/

/-- Handler 0 (outer loop, for signal 1) registers source `obj 1` with the outer level and starts a
nested loop with signal 20. Handler 1 (nested loop, for 20) enqueues 30 and 33 with source `obj 1`
(owned by the outer level), 31 and 32 with unregistered sources. Handler 2 (for 32) closes the loop. -/
def C03_exP : Prog where
  cc := asciiClass
  runEmpty := true
  handlerScript := fun hid n =>
    if hid = 0 ∧ n = 0 then [.regSource (.obj 1), .newLoop (.user 1) 0 20]
    else if hid = 1 ∧ n = 0 then
      [.enq (.user 2) 0 (.obj 1) 30, .enq (.user 2) 0 .none 31, .enq (.user 3) 0 (.obj 7) 32,
       .enq (.user 2) 0 (.obj 1) 33]
    else if hid = 2 ∧ n = 0 then [.closeLoop]
    else []

def C03_exC : Cfg :=
  initCfg [.enq (.user 0) 0 .none 1, .enq (.user 2) 0 .none 2]
    [(.user 0, .user 0, none), (.user 1, .user 1, none), (.user 3, .user 2, none)] none []

/-- the queue/level events of a trace, oldest first -/
def C03_events (tr : List Tr) : List (String × Nat × Nat) :=
  tr.reverse.filterMap fun t =>
    match t with
    | .take q s => some ("take", q, s.id)
    | .enq q s => some ("enq", q, s.id)
    | .openLevel q _ => some ("open", q, 0)
    | .closeLevel q => some ("close", q, 0)
    | _ => none

/-- 30 and 33 are routed to the outer queue 0 and held there together with 2 while the nested loop
dispatches 20, 31, 32 from its own queue 1; after the close they are dispatched in order. The observable
log shows the nesting: handler 0 returns (`hret 0`) only after "new<", i.e. after the nested loop. -/
example :
    C03_events (runFuel C03_exP 300 C03_exC).1.tr =
      [("enq", 0, 1), ("enq", 0, 2), ("take", 0, 1), ("open", 1, 0), ("enq", 1, 20), ("take", 1, 20),
       ("enq", 0, 30), ("enq", 1, 31), ("enq", 1, 32), ("enq", 0, 33), ("take", 1, 31), ("take", 1, 32),
       ("close", 1, 0), ("take", 0, 2), ("take", 0, 30), ("take", 0, 33)] ∧
    (runFuel C03_exP 300 C03_exC).1.log.reverse =
      [.h 0 1 none 1, .h 1 20 none 2, .hret 1, .h 2 32 none 2, .note "closed<", .hret 2, .note "new<", .hret 0] := by
  decide +kernel

/-! ### remark: what is *not* held

The property is about the *enclosing* loops' signals. A signal still pending in the nested loop's own
queue when that loop is closed stays in the closed queue object and is never dispatched (`close_loop`
processes only the top-priority batch before popping the level; the trace event `.closeReq _ n` records
the number `n` of signals pending at that moment). Here handler 1 closes the nested loop itself after
enqueueing 31 (priority 0) and 32 (priority -1) into it: 32 is dispatched by `close_loop`, 31 never. -/

def C03_exP' : Prog where
  cc := asciiClass
  runEmpty := true
  handlerScript := fun hid n =>
    if hid = 0 ∧ n = 0 then [.regSource (.obj 1), .newLoop (.user 1) 0 20]
    else if hid = 1 ∧ n = 0 then
      [.enq (.user 2) 0 (.obj 1) 30, .enq (.user 2) 0 .none 31, .enq (.user 2) (-1) .none 32, .closeLoop]
    else []

example :
    C03_events (runFuel C03_exP' 300 C03_exC).1.tr =
      [("enq", 0, 1), ("enq", 0, 2), ("take", 0, 1), ("open", 1, 0), ("enq", 1, 20), ("take", 1, 20),
       ("enq", 0, 30), ("enq", 1, 31), ("enq", 1, 32), ("take", 1, 32), ("close", 1, 0),
       ("take", 0, 2), ("take", 0, 30)] ∧
    (runFuel C03_exP' 300 C03_exC).2 = .blocked ∧
    ((runFuel C03_exP' 300 C03_exC).1.queue 1).sigs.map (·.id) = [31] := by
  decide +kernel

end Simpleline
