/-
  C03 (clauses "blocks" and "resumes") — "starting a nested loop does not return to its caller before
  that loop is closed, and closing it resumes the enclosing loop where it stopped".

  Property theorems only; the invariants behind them are in `Simpleline/Lemmas/Shape*.lean`
  (summary: `Lemmas/Shape.lean`), the vocabulary in `Simpleline/Spec/ShapeSpec.lean`.

  Reading guide.  `execute_new_loop(sig)` is the instruction `newLoop sig`: it creates queue object
  `q := c.L.queues.length`, logs `.openLevel q _run_loop`, and pushes the marker `mainCheck q` — the
  `while self._run_loop` test of the `_mainloop` activation serving level `q` — in front of its caller's
  continuation `K`.  That activation returns (and with it `execute_new_loop`) exactly when the marker is
  at the head of the code and finds `_run_loop = False`: the transition logs `.loopReturn q` and leaves
  `restoreRun :: K` (`self._run_loop = True`, then the caller continues with `K`).  `close_loop` ends in
  `popLevel`, which logs `.closeLevel q'` for the level it pops.  The outermost activation (`run()`) is
  the one for level `0`.

  Hypotheses (decidable predicates on the history, `Spec/ShapeSpec.lean`):
  * `WFClose c`: no `.closeReq false _`, no `.openLevel _ false` event — finding **K1** at call time;
  * `WFDrain c`: no `.closeLevel` while an earlier one is unconsumed — finding **K1** at pop time: the
    second `close_loop` is issued by a handler which the first `close_loop`'s own drain dispatches, so
    both calls still see `_run_loop = True` and `WFClose` cannot detect it (`C03_resumes_needs_WFDrain`);
  * `NoForceQuit c`: `force_quit` has not been called (it empties the level stack for good).
-/
import Simpleline.Lemmas.ShapeExamples

namespace Simpleline

open Shape

variable {P : Prog} {c0 c c' c1 c2 c3 : Cfg}

/-! ### blocks -/

/-- **C03, "does not return before that loop is closed".** In every execution of every program, if a
transition lets the `_mainloop` activation serving level `q` return (`execute_new_loop` — or `run()` for
`q = 0` — is about to return to its caller), then level `q` is not open any more: it was popped by
`close_loop` (the history contains `.closeLevel q`) or `force_quit` emptied the level stack.
Equivalently: while level `q` is open its activation does not return.

Only the `execute_new_loop` half of `WFClose` is used (`C03_blocks_wfopen`); without it the statement is
false (`C03_blocks_needs_WFClose`). -/
theorem C03_blocks (h0 : Started c0) (hr : Reach P c0 c) (ht : Trans P c c') (hw : WFClose c) {q : Nat}
    (hq : Tr.loopReturn q ∈ newTr c c') :
    q ∉ c.L.levels ∧ (Tr.closeLevel q ∈ c.tr ∨ Tr.forceQuit ∈ c.tr) :=
  blocks h0 hr ht (WFOpen.of_WFClose hw) hq

/-- the same under the weaker hypothesis that `execute_new_loop` was never called while `_run_loop` was
false (double `close_loop` calls do not matter for this clause) -/
theorem C03_blocks_wfopen (h0 : Started c0) (hr : Reach P c0 c) (ht : Trans P c c') (hw : WFOpen c) {q : Nat}
    (hq : Tr.loopReturn q ∈ newTr c c') :
    q ∉ c.L.levels ∧ (Tr.closeLevel q ∈ c.tr ∨ Tr.forceQuit ∈ c.tr) :=
  blocks h0 hr ht hw hq

/-- an activation returns only when it is the innermost one and `_run_loop` is false; what is left is
`self._run_loop = True` followed by the caller's continuation -/
theorem C03_return_shape (ht : Trans P c c') {q : Nat} (hq : Tr.loopReturn q ∈ newTr c c') :
    ∃ K, c.code = .mainCheck q :: K ∧ c.L.runLoop = false ∧ c'.code = .restoreRun :: K ∧
      c'.L.levels = c.L.levels ∧ c'.L.active = c.L.active :=
  return_shape ht hq

/-! ### resumes -/

/-- **C03, "the caller's continuation is untouched".** Let `execute_new_loop` be executed (not after
force-quit) with continuation `K`, creating level `q`.  Then in every later configuration of the
execution, as long as activation `q` has not returned and the run has not been ended by `ExitMainLoop`
or by the uncaught-exception exit, the code still ends with `mainCheck q :: K`: nothing the nested loop
does — handlers, further nested loops, ordinary exceptions — touches the caller's frame. -/
theorem C03_resumes_frame (h0 : Started c0) (hr : Reach P c0 c) {s : Sig} {K : List Instr}
    (hc : c.code = .newLoop s :: K) (hfq : c.L.forceQuit = false) (hs : step P c = .ok c1)
    (hr2 : Reach P c1 c2)
    (hno : ∀ t ∈ newTr c1 c2, t ≠ .loopReturn c.L.queues.length ∧ t ≠ .exit ∧ t ≠ .kill) :
    c1.code = .mainCheck c.L.queues.length :: K ∧ ∃ X, c2.code = X ++ .mainCheck c.L.queues.length :: K :=
  resumes_frame h0 hr hc hfq hs hr2 hno

/-- **C03, "closing it resumes the enclosing loop where it stopped".** Let `execute_new_loop` be
executed with continuation `K`, creating level `q`, and let — at any later point of the execution —
activation `q` return.  Then (well-formed history, no force-quit) at that moment the code is exactly
`mainCheck q :: K`, the transition leaves `restoreRun :: K`, and the next step yields the configuration
with code `K`, `_run_loop = True`, the level stack exactly as it was when `execute_new_loop` was called
and the same active queue: the enclosing loop continues with the statement after the call.

(That nothing was taken from the enclosing levels' queues in between is `C03_isolation`/`C03_held` of
`Props/C03.lean`: takes are from the innermost level only.) -/
theorem C03_resumes (h0 : Started c0) (hr : Reach P c0 c) {s : Sig} {K : List Instr}
    (hc : c.code = .newLoop s :: K) (hfq : c.L.forceQuit = false) (hs : step P c = .ok c1)
    (hr2 : Reach P c1 c2) (ht : Trans P c2 c3) (hret : Tr.loopReturn c.L.queues.length ∈ newTr c2 c3)
    (hw : WFClose c3) (hd : WFDrain c3) (hf : NoForceQuit c3) :
    c2.code = .mainCheck c.L.queues.length :: K ∧ c3.code = .restoreRun :: K ∧
    ∃ c4, step P c3 = .ok c4 ∧ c4.code = K ∧ c4.L.runLoop = true ∧ c4.L.levels = c.L.levels ∧
      c4.L.active = c.L.active :=
  resumes h0 hr hc hfq hs hr2 ht hret hw hd hf

/-! ### the hypotheses are needed, and satisfiable -/

/-- **K1, call-time.** Without `WFClose` the blocking clause is false: in `ShapeEx.progK1` a handler
running in nested loop 1 calls `close_loop` and then, before `_mainloop` has regained control,
`execute_new_loop`; the new level 2 is opened with `_run_loop = False` (`.openLevel 2 false`), and its
activation returns at once although level 2 is open (kernel-checked run). -/
theorem C03_blocks_needs_WFClose :
    ∃ (P : Prog) (c0 c c' : Cfg) (q : Nat), Started c0 ∧ Reach P c0 c ∧ Trans P c c' ∧
      Tr.loopReturn q ∈ newTr c c' ∧ q ∈ c.L.levels := by
  obtain ⟨c, c', hr, ht, hf⟩ := testTrans_spec ShapeEx.k1_check
  simp only [Bool.and_eq_true, decide_eq_true_eq] at hf
  exact ⟨_, _, c, c', 2, ShapeEx.started, hr, ht, hf.1, hf.2⟩

/-- **K1, pop-time.** `WFClose` alone does not give the resuming clause: in `ShapeEx.progDrain` the
handler of nested loop 3 enqueues a signal and calls `close_loop`; the drain of that call dispatches the
signal, whose handler calls `close_loop` too.  Both calls log `_run_loop = True`, no force-quit, yet two
levels are popped: when activation 3 returns the level stack is `[0, 1]`, not `[0, 1, 2]` as it was when
`execute_new_loop` was called (and activation 2 goes on serving level 1's queue).  Kernel-checked. -/
theorem C03_resumes_needs_WFDrain :
    ∃ (P : Prog) (c0 c c1 c2 c3 : Cfg) (s : Sig) (K : List Instr), Started c0 ∧ Reach P c0 c ∧
      c.code = .newLoop s :: K ∧ c.L.forceQuit = false ∧ step P c = .ok c1 ∧ Reach P c1 c2 ∧ Trans P c2 c3 ∧
      Tr.loopReturn c.L.queues.length ∈ newTr c2 c3 ∧ WFClose c3 ∧ NoForceQuit c3 ∧ ¬ WFDrain c3 ∧
      c3.L.levels ≠ c.L.levels := by
  obtain ⟨c, c1, c2, c3, s, K, hr, hc, hs, hr2, ht, hf⟩ := testCall_spec ShapeEx.drain_check
  simp only [Bool.and_eq_true, decide_eq_true_eq, Bool.not_eq_true', decide_eq_false_iff_not] at hf
  obtain ⟨⟨⟨⟨⟨⟨h1, h2⟩, h3⟩, h4⟩, h5⟩, h6⟩, h7⟩ := hf
  exact ⟨_, _, c, c1, c2, c3, s, K, ShapeEx.started, hr, hc, h2, hs, hr2, ht, h1, h3, h4, h5,
    by rw [h6, h7]; decide⟩

/-- Non-vacuity: `ShapeEx.progOK` (loop 1 opens loop 2, loop 2 is closed, then loop 1) has a call of
`execute_new_loop` and a later return of its activation satisfying all hypotheses of `C03_resumes`
(and hence of `C03_blocks`, `C03_resumes_frame`). -/
example :
    ∃ (P : Prog) (c0 c c1 c2 c3 : Cfg) (s : Sig) (K : List Instr), Started c0 ∧ Reach P c0 c ∧
      c.code = .newLoop s :: K ∧ c.L.forceQuit = false ∧ step P c = .ok c1 ∧ Reach P c1 c2 ∧ Trans P c2 c3 ∧
      Tr.loopReturn c.L.queues.length ∈ newTr c2 c3 ∧ WFClose c3 ∧ WFDrain c3 ∧ NoForceQuit c3 ∧
      c.L.levels = [0, 1] := by
  obtain ⟨c, c1, c2, c3, s, K, hr, hc, hs, hr2, ht, hf⟩ := testCall_spec ShapeEx.ok_check
  simp only [Bool.and_eq_true, decide_eq_true_eq] at hf
  obtain ⟨⟨⟨⟨⟨h1, h2⟩, h3⟩, h4⟩, h5⟩, h6⟩ := hf
  exact ⟨_, _, c, c1, c2, c3, s, K, ShapeEx.started, hr, hc, h2, hs, hr2, ht, h1, h3, h4, h5, h6⟩

end Simpleline
