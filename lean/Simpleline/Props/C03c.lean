/-
  C03c — The sources of an `EventQueue` behave as a finite set, `enqueue_if_source_belongs` enqueues exactly for
  registered sources, and the refinement of C01b extends to the whole object.

  `Model/EventQueueObj.lean` (namespace `EQObj`) is the whole class of simpleline/event_loop/event_queue.py over the
  heap-based `HQueue` of `Model/Heapq.lean`: calls `Op` = `put s` (`enqueue`), `get`, `getTop p`
  (`get_top_event_if_priority`), `addSource x`, `removeSource x`, `contains x` (`contains_source`), `putIf s x`
  (`enqueue_if_source_belongs`); `step q o` = (answer, object after the call), `run q ops` = (answers, final object).
  Answers `Out`: `done` (`None`), `sig s`, `noSig`, `blocked`, `removeError` (`EventQueueError`), `bool b`.
  `_contained_screens` (a Python `set`) is the list `sources`, kept duplicate-free.
  `Registered x ops` (`Spec/EQObjSpec.lean`): in the history `ops` some `add_source(x)` is not followed by a
  `remove_source(x)`.  `stepE`/`runE` are the same calls on the sorted-list `EQueue` of the machine model.

  Property theorems only; helper lemmas live in `Simpleline/Lemmas/EQObj*.lean`.
-/
import Simpleline.Lemmas.EQObjHist
import Simpleline.Props.C01b

namespace Simpleline

open Heapq EQObj

/-! ### 1. the sources are a finite set -/

/-- After any sequence of calls on a new `EventQueue()`: `x` belongs to the queue iff the history contains an
`add_source(x)` with no `remove_source(x)` after it. Nothing else (no `enqueue`, `get`, `contains_source`,
`enqueue_if_source_belongs`, no call about another source) has any influence. -/
theorem C03c_contains_history (ops : List EQObj.Op) (x : Src) :
    containsSource (EQObj.run HQueue.empty ops).2 x = true ↔ Registered x ops :=
  contains_run_empty ops x

/-- What `contains_source(x)` answers as call number `pre.length` of any history: `True` iff `x` is registered in
the calls before it; and the call changes nothing. -/
theorem C03c_contains_answer (pre post : List EQObj.Op) (x : Src) :
    (∃ b, (EQObj.run HQueue.empty (pre ++ EQObj.Op.contains x :: post)).1[pre.length]? = some (.bool b) ∧
      (b = true ↔ Registered x pre)) ∧
    ∀ q, (EQObj.step q (.contains x)).2 = q :=
  ⟨⟨_, run_out_at _ pre post _, contains_run_empty pre x⟩, fun _ => rfl⟩

/-- `add_source(x)` makes `x` a member and changes the membership of no other source; it always answers `None`. -/
theorem C03c_add (q : HQueue) (x y : Src) :
    (EQObj.step q (.addSource x)).1 = .done ∧
    containsSource (EQObj.step q (.addSource x)).2 y = (decide (y = x) || containsSource q y) :=
  ⟨rfl, contains_addSource q x y⟩

/-- `add_source` is idempotent: adding a source that already belongs changes nothing at all (the same source is
held once), so adding twice is adding once. -/
theorem C03c_add_idempotent (q : HQueue) (x : Src) :
    (containsSource q x = true → (EQObj.step q (.addSource x)).2 = q) ∧
    (EQObj.step (EQObj.step q (.addSource x)).2 (.addSource x)).2 = (EQObj.step q (.addSource x)).2 :=
  ⟨addSource_of_contains q x, addSource_idem q x⟩

/-- `remove_source(x)` raises `EventQueueError` iff `x` does not belong, and then changes nothing; otherwise it
answers `None`, `x` no longer belongs and the membership of every other source is unchanged. -/
theorem C03c_remove (q : HQueue) (x : Src) :
    ((EQObj.step q (.removeSource x)).1 = .removeError ↔ containsSource q x = false) ∧
    (containsSource q x = false → EQObj.step q (.removeSource x) = (.removeError, q)) ∧
    (containsSource q x = true → (EQObj.step q (.removeSource x)).1 = .done ∧
      ∀ y, containsSource (EQObj.step q (.removeSource x)).2 y = (containsSource q y && !decide (y = x))) := by
  refine ⟨⟨fun h => ?_, fun h => by rw [step_removeSource_absent q x h]⟩,
    step_removeSource_absent q x, step_removeSource_present q x⟩
  cases hc : containsSource q x with
  | false => rfl
  | true => rw [(step_removeSource_present q x hc).1] at h; cases h

/-- In terms of the history: call number `pre.length` being `remove_source(x)`, it raises `EventQueueError` iff
`x` is not registered in the calls before it (never added, or removed since the last `add_source(x)`). -/
theorem C03c_remove_answer (pre post : List EQObj.Op) (x : Src) :
    ∃ r, (EQObj.run HQueue.empty (pre ++ EQObj.Op.removeSource x :: post)).1[pre.length]? = some r ∧
      (r = .removeError ↔ ¬ Registered x pre) ∧ (r = .done ↔ Registered x pre) := by
  refine ⟨_, run_out_at _ pre post _, ?_⟩
  rw [← contains_run_empty pre x]
  cases hc : containsSource (EQObj.run HQueue.empty pre).2 x with
  | false => rw [step_removeSource_absent _ x hc]; simp
  | true => rw [(step_removeSource_present _ x hc).1]; simp

/-- The first `remove_source(x)` after an `add_source(x)` always succeeds — so "registered" may equally be read
as "some `add_source(x)` has no later *successful* `remove_source(x)`". -/
theorem C03c_first_remove_succeeds (pre mid post : List EQObj.Op) (x : Src) (h : EQObj.Op.removeSource x ∉ mid) :
    (EQObj.run HQueue.empty ((pre ++ EQObj.Op.addSource x :: mid) ++ EQObj.Op.removeSource x :: post)).1[
      (pre ++ EQObj.Op.addSource x :: mid).length]? = some .done := by
  obtain ⟨r, hr, _, hd⟩ := C03c_remove_answer (pre ++ EQObj.Op.addSource x :: mid) post x
  rw [hr, hd.2 ⟨pre, mid, rfl, h⟩]

/-- The list standing for the set never holds a source twice. -/
theorem C03c_sources_nodup (ops : List EQObj.Op) : (EQObj.run HQueue.empty ops).2.sources.Nodup :=
  nodup_run ops HQueue.empty List.nodup_nil

/-! ### 2. `enqueue_if_source_belongs` -/

/-- `enqueue_if_source_belongs(s, x)` answers whether `x` belongs to the queue, and enqueues `s` — exactly as
`enqueue(s)` does, taking the next arrival number — iff it does; otherwise nothing changes (no arrival number is
used up). -/
theorem C03c_putIf (q : HQueue) (s : Sig) (x : Src) :
    EQObj.step q (.putIf s x) = (.bool (containsSource q x), if containsSource q x then q.put s else q) :=
  step_putIf q s x

/-- In terms of the history: call number `pre.length` being `enqueue_if_source_belongs(s, x)`, it answers `True`
(and enqueues) iff `x` is registered in the calls before it. -/
theorem C03c_putIf_answer (pre post : List EQObj.Op) (s : Sig) (x : Src) :
    ∃ b, (EQObj.run HQueue.empty (pre ++ EQObj.Op.putIf s x :: post)).1[pre.length]? = some (.bool b) ∧
      (b = true ↔ Registered x pre) ∧
      (EQObj.run HQueue.empty (pre ++ [EQObj.Op.putIf s x])).2 =
        if b then (EQObj.run HQueue.empty pre).2.put s else (EQObj.run HQueue.empty pre).2 := by
  refine ⟨containsSource (EQObj.run HQueue.empty pre).2 x, ?_, contains_run_empty pre x, ?_⟩
  · rw [run_out_at, step_putIf]
  · rw [run_append]
    simp only [EQObj.run, step_putIf]

/-! ### 3. the two halves of the object do not interfere -/

/-- `add_source`, `remove_source`, `contains_source` never touch the heap (`_queue.queue`) nor the arrival
counter. -/
theorem C03c_source_ops_frame (q : HQueue) (o : EQObj.Op) (h : o.isSourceOp = true) :
    (EQObj.step q o).2.heap = q.heap ∧ (EQObj.step q o).2.seq = q.seq :=
  step_sourceOp_frame q o h

/-- `enqueue`, `get`, `get_top_event_if_priority` — and `enqueue_if_source_belongs` — never touch the sources. -/
theorem C03c_signal_ops_frame (q : HQueue) (o : EQObj.Op) (h : o.isSignalOp = true ∨ ∃ s x, o = .putIf s x) :
    (EQObj.step q o).2.sources = q.sources := by
  rcases h with h | ⟨s, x, rfl⟩
  · exact step_signalOp_frame q o h
  · exact step_putIf_sources q s x

/-- The signal calls of the whole object are the calls of C01b's `HQueue.step`: a history without source calls
runs exactly as there. -/
theorem C03c_extends_C01b (q : HQueue) (o : Heapq.Op) :
    EQObj.step q (EQObj.Op.ofSignalOp o) = (EQObj.Out.ofSignalOut (q.step o).1, (q.step o).2) :=
  step_ofSignalOp q o

/-- … for whole histories: the answers and the final object of a history of signal calls are those of
`HQueue.run` of C01b. -/
theorem C03c_extends_C01b_run (q : HQueue) (ops : List Heapq.Op) :
    EQObj.run q (ops.map EQObj.Op.ofSignalOp) = ((q.run ops).1.map EQObj.Out.ofSignalOut, (q.run ops).2) :=
  run_ofSignalOps ops q

/-! ### 4. refinement to the sorted-list queue of the machine model -/

/-- The invariant of C01b holds after every sequence of calls (source calls included) on a new queue. -/
theorem C03c_inv_run (ops : List EQObj.Op) : Heapq.Inv (EQObj.run HQueue.empty ops).2 :=
  (EQObj.run_refines ops inv_empty).1

/-- One call of any kind on a heap-based queue satisfying the invariant and the same call on the sorted list it
stands for (`abs`: the same entries sorted, the same sources, the same counter) give the same answer, and the
results correspond again: `abs` commutes with all seven calls. -/
theorem C03c_step_refines (q : HQueue) (h : Heapq.Inv q) (o : EQObj.Op) :
    (EQObj.step q o).1 = (EQObj.stepE (abs q) o).1 ∧ abs (EQObj.step q o).2 = (EQObj.stepE (abs q) o).2 :=
  (EQObj.step_refines h o).2

/-- For every sequence of calls, of any length: the real object from `EventQueue()` and the machine model's queue
from the empty queue give the same answers, and the final queues correspond. -/
theorem C03c_sequence_refines (ops : List EQObj.Op) :
    (EQObj.run HQueue.empty ops).1 = (EQObj.runE {} ops).1 ∧
    abs (EQObj.run HQueue.empty ops).2 = (EQObj.runE {} ops).2 :=
  (EQObj.run_refines ops inv_empty).2

/-- How the machine model uses the sources: its instruction `regSource` (and the scheduler's registration of a
screen) is `Simpleline.addSource` on the active queue — that is the call `add_source` of `stepE`; and
`LoopSt.route` tests `sources.contains src` — that is the answer of `contains_source`. With
`C03c_sequence_refines`: the machine's membership test on `abs q` is the real `contains_source` on `q`. -/
theorem C03c_machine_membership (q : HQueue) (x : Src) :
    EQObj.stepE (abs q) (.addSource x) = (.done, Simpleline.addSource (abs q) x) ∧
    abs (EQObj.step q (.addSource x)).2 = Simpleline.addSource (abs q) x ∧
    (abs q).sources.contains x = containsSource q x :=
  ⟨rfl, abs_addSource q x, rfl⟩

/-! ### non-vacuity -/

/-- a history exercising every call: answers, and the final sources -/
example :
    (fun r : List EQObj.Out × HQueue => (r.1, r.2.sources, r.2.heap.toList.map fun e => (e.1, e.2.1)))
      (EQObj.run HQueue.empty
        [.contains (.obj 1), .addSource (.obj 1), .addSource (.obj 1), .contains (.obj 1), .putIf (mkSig 5 0) (.obj 1),
         .putIf (mkSig 0 1) (.obj 2), .put (mkSig (-1) 2), .removeSource (.obj 2), .removeSource (.obj 1),
         .removeSource (.obj 1), .putIf (mkSig 0 3) (.obj 1), .addSource (.obj 2), .getTop 5, .get, .get, .get]) =
    ([.bool false, .done, .done, .bool true, .bool true, .bool false, .done, .removeError, .done, .removeError,
      .bool false, .done, .noSig, .sig (mkSig (-1) 2), .sig (mkSig 5 0), .blocked],
     [.obj 2], []) := by
  decide +kernel

/-- `Registered` holds / fails on concrete histories -/
example : Registered (.obj 1) [.addSource (.obj 1), .removeSource (.obj 1), .addSource (.obj 1), .get] :=
  ⟨[.addSource (.obj 1), .removeSource (.obj 1)], [.get], rfl, by decide⟩

example : ¬ Registered (.obj 1) [.addSource (.obj 1), .addSource (.obj 2), .removeSource (.obj 1)] := by
  rw [← contains_run_empty]; decide +kernel

end Simpleline
