/-
  C04 — The screen shown is always the top of an honest stack.

  The scheduler's stack is `c.A.stack` (bottom … top). The ideal stack and its operations are in
  `Spec/SchedSpec.lean` (`Spec.Stack`, `Spec.Op`); `c.stackOp` says which operation, if any, the next
  instruction of `c` is (`close_screen(closed_from)` is the operation `.close frm`, `frm` the source of
  the request). The trace records `.stackOp name newStack` for every operation, `.refresh e`
  when the scheduler is about to call `refresh` of entry `e`, `.show e` when it is about to draw it.
  `StepTo P c c'` is one machine step (continuing or ending the run), `Trans` adds the deliveries of
  the reader thread.
-/
import Simpleline.Lemmas.CloseRefused

namespace Simpleline

/-! ### the machine's stack is the ideal stack -/

/-- Refinement, one step at a time (for *every* configuration, reachable or not). If the next
instruction is no stack operation, the step leaves the stack and the identity counter alone and traces
no stack operation (`C04_only_ops`: nothing else ever changes the stack). If it is the operation `op`
— `schedule_screen`, `push_screen`, `push_screen_modal`, `replace_screen`, `close_screen`, or the
discarding of a screen whose `setup` failed — the new stack is exactly what the ideal stack gives
(push on top; schedule at the bottom; replace substitutes the top and keeps its modality; close and
discard remove the top), a new entry gets the next unused identity, and exactly one
`.stackOp op.name newStack` event is traced. An operation the ideal stack refuses (close / replace /
discard on the empty stack; a close requested on behalf of a screen other than the one on top,
`Spec.Stack.close`) changes nothing: in particular `close_screen` checks `closed_from` before it pops
(see also `C04_refused_close_keeps_stack`). -/
theorem C04_ops (P : Prog) (c c' : Cfg) (h : StepTo P c c') :
    match c.stackOp with
    | none => c'.A.stack = c.A.stack ∧ c'.A.nextEid = c.A.nextEid ∧ (newTr c c').filter Tr.isStackOp = []
    | some op =>
      match op.apply c.A.nextEid c.A.stack with
      | some s' =>
        c'.A.stack = s' ∧ c'.A.nextEid = (if op.creates then c.A.nextEid + 1 else c.A.nextEid) ∧
          (newTr c c').filter Tr.isStackOp = [.stackOp op.name s']
      | none => c'.A.stack = c.A.stack ∧ c'.A.nextEid = c.A.nextEid ∧ (newTr c c').filter Tr.isStackOp = [] :=
  ops_of_stepTo h

/-- no instruction other than the six stack operations changes the stack -/
theorem C04_only_ops (P : Prog) (c c' : Cfg) (h : StepTo P c c') (hop : c.stackOp = none) :
    c'.A.stack = c.A.stack ∧ (newTr c c').filter Tr.isStackOp = [] := by
  have := ops_of_stepTo h
  simp only [hop] at this
  exact ⟨this.1, this.2.2⟩

/-- the reader thread handing in a line does not touch the stack -/
theorem C04_deliver (c c' : Cfg) (h : c.deliver = some c') :
    c'.A.stack = c.A.stack ∧ (newTr c c').filter Tr.isStackOp = [] := by
  refine ⟨(deliver_stack h).1, ?_⟩
  rw [← filter_stackOp_schedTr, (deliver_stack h).2.2.2]; rfl

/-- History form: in every reachable configuration the stack is the one recorded by the most recent
stack operation of the trace (empty before the first): the sequence of `.stackOp` events is the
complete history of the stack. -/
theorem C04_trace_stack (P : Prog) (c0 c : Cfg) (h0 : Started c0) (hr : Reach P c0 c) :
    c.A.stack = lastStack c.tr :=
  stack_eq_lastStack h0 hr

/-! ### the order of the screens beneath the top never changes -/

/-- Every transition either leaves the stack alone, or puts a new entry (with the fresh identity
`c.A.nextEid`) at the bottom with everything above it unchanged (schedule), or puts one on top of the
unchanged stack (push, push modal), or exchanges the top for a new entry of the same modality with
everything beneath unchanged (replace), or removes the top and nothing else (close, discard). -/
theorem C04_beneath_stable (P : Prog) (c c' : Cfg) (h : Trans P c c') :
    (c'.A.stack = c.A.stack ∧ c'.A.nextEid = c.A.nextEid) ∨
    (∃ e, e.eid = c.A.nextEid ∧ e.modal = false ∧ c'.A.stack = e :: c.A.stack ∧ c'.A.nextEid = c.A.nextEid + 1) ∨
    (∃ e, e.eid = c.A.nextEid ∧ c'.A.stack = c.A.stack ++ [e] ∧ c'.A.nextEid = c.A.nextEid + 1) ∨
    (∃ e old, c.A.stack.getLast? = some old ∧ e.eid = c.A.nextEid ∧ e.modal = old.modal ∧
      c'.A.stack = c.A.stack.dropLast ++ [e] ∧ c'.A.nextEid = c.A.nextEid + 1) ∨
    (c.A.stack ≠ [] ∧ c'.A.stack = c.A.stack.dropLast ∧ c'.A.nextEid = c.A.nextEid) :=
  beneath_of_trans h

/-- the same in the words of the property: the entries that stay keep their order — after a
transition the old stack, or the old stack without its top, is what lies beneath the new top, or
(schedule) above the new bottom -/
theorem C04_beneath_stable' (P : Prog) (c c' : Cfg) (h : Trans P c c') :
    c'.A.stack = c.A.stack ∨ c'.A.stack.tail = c.A.stack ∨ c'.A.stack.dropLast = c.A.stack ∨
    (c'.A.stack ≠ [] ∧ c'.A.stack.dropLast = c.A.stack.dropLast) ∨ c'.A.stack = c.A.stack.dropLast := by
  rcases beneath_of_trans h with h | ⟨e, _, _, h, _⟩ | ⟨e, _, h, _⟩ | ⟨e, old, _, _, _, h, _⟩ | ⟨_, h, _⟩
  · exact .inl h.1
  · exact .inr (.inl (by simp [h]))
  · exact .inr (.inr (.inl (by simp [h])))
  · exact .inr (.inr (.inr (.inl (by simp [h]))))
  · exact .inr (.inr (.inr (.inr h)))

/-- Entry identities are unique: in every reachable configuration the identities on the stack are
pairwise distinct and all below the next identity to be handed out. -/
theorem C04_eids_unique (P : Prog) (c0 c : Cfg) (h0 : Started c0) (hr : Reach P c0 c) :
    (c.A.stack.map (·.eid)).Nodup ∧ ∀ e ∈ c.A.stack, e.eid < c.A.nextEid :=
  ⟨(hr.entInv h0).nodup, fun e he => (hr.entInv h0).lt e (by simp [Cfg.ents, he])⟩

/-! ### what is drawn is the top -/

/-- Whenever a transition of an execution adds a `.show e` event — the scheduler is about to draw
entry `e` — `e` is the top of the stack at that moment (the very entry, not just the same screen), and
the transition does not change the stack: a screen is never drawn while another is above it. (The
transition is the `drawScreen e` instruction, which only ever runs directly after the identity check
that compared `e` with the top.) -/
theorem C04_draws_top (P : Prog) (c0 c c' : Cfg) (h0 : Started c0) (hr : Reach P c0 c) (h : Trans P c c')
    (e : Entry) (he : .show e ∈ newTr c c') :
    c.A.stack.getLast? = some e ∧ c'.A.stack = c.A.stack :=
  (draws_top h0 hr h he).2

/-- The same on the history alone — "the sequence of screens drawn is the one an ideal stack would
produce": in the trace of every reachable configuration (newest first), every drawn entry is the top
of the stack recorded by the newest stack operation before the draw (`C04_ops`: those records are the
ideal stack driven by the operations issued). -/
theorem C04_drawn_is_ideal_top (P : Prog) (c0 c : Cfg) (h0 : Started c0) (hr : Reach P c0 c) (e : Entry)
    (l1 l2 : List Tr) (h : c.tr = l1 ++ .show e :: l2) : (lastStack l2).getLast? = some e :=
  drawn_is_recorded_top h0 hr h

/-- A `.refresh e` event is added only by the instruction `afterSetup2 e` (`_process_screen` after the
ready check / after a successful `setup`). -/
theorem C04_refresh_step (P : Prog) (c c' : Cfg) (h : Trans P c c') (e : Entry) (he : .refresh e ∈ newTr c c') :
    ∃ rest, c.code = .afterSetup2 e :: rest :=
  (refresh_step h he).2

/-- When the screen on top is already set up, `_process_screen` refreshes the top: if the transition
after a `processScreen` transition adds `.refresh e`, then `e` was the top of the stack when
`processScreen` ran, its screen was ready, and it is still the top when the event is added. -/
theorem C04_refresh_top (P : Prog) (c0 c c1 c2 : Cfg) (h0 : Started c0) (hr : Reach P c0 c) (h1 : Trans P c c1)
    (h2 : Trans P c1 c2) (hps : c.code.head? = some .processScreen) (e : Entry) (he : .refresh e ∈ newTr c1 c2) :
    c.A.stack.getLast? = some e ∧ (c.A.scr e.screen).ready = true ∧ c1.A.stack.getLast? = some e := by
  obtain ⟨h3, h4, h5⟩ := refresh_top_ready h0 hr h1 h2 hps he
  exact ⟨h3, h4, h5 ▸ h3⟩

/- The other half of `C04_refresh_top`, for a screen that still has to be set up, is *not* "`e` is the
   top when it is refreshed": `_process_screen` takes the top entry `top`, calls `top.setup()`, and on
   success refreshes `top` without looking at the stack again; the identity of the top is re-checked
   only after `refresh` (`identCheck`), so a `setup` callback that pushes a screen makes the scheduler
   refresh an entry that is no longer on top (it is then not drawn: `C04_draws_top`). What holds is the
   instruction-level chain (see `C08_who_calls`): `processScreen` pushes `callScr top.screen .setup
   top.args none, afterSetup top` for the entry `top` that is on top at that moment, `afterSetup top`
   pushes `afterSetup2 top` when the setup succeeded, and `callScr … .setup` is directly followed by
   `afterSetup top` of the same screen (`C08_setup_result_is_tested`). A statement in terms of the
   trace alone would need an event for the `processScreen` moment, which the model's trace does not
   record. -/

open Ex in
/-- the counterexample to "a refreshed entry is on top": the `setup` of screen 0 pushes screen 1; entry
0 is refreshed after the push (no stack operation in between), while entry 1 is on top; it is not
drawn -/
example : sched (runFuel P8 300 c7).1 =
    [.stackOp "schedule" [e 0 0], .stackOp "push" [e 0 0, e 1 1], .refresh (e 0 0), .refresh (e 1 1), .show (e 1 1)] := by
  decide +kernel

/-! ### when the stack becomes empty the application ends -/

/-- `_process_screen`, the identity check after `refresh`, the end of `close_screen` and the end of
discarding a modal screen raise `ExitMainLoop` when they find the stack empty. -/
theorem C04_empty_ends (P : Prog) (c : Cfg) (rest : List Instr) (hs : c.A.stack = [])
    (hc : c.code = .processScreen :: rest ∨ (∃ top, c.code = .identCheck top :: rest) ∨
      (∃ e, c.code = .closeScreen3 e :: rest) ∨ (∃ e, c.code = .afterSetupFail e :: rest)) :
    step P c = ({ c with code := rest } : Cfg).raise .exit :=
  step_empty_exit P c rest hs hc

/-- so does `process_input` when the screen's answer has been counted and the stack is empty -/
theorem C04_empty_ends_input (P : Prog) (c : Cfg) (scr : Nat) (rest : List Instr) (hs : c.A.stack = [])
    (hc : c.code = .countAndAct scr :: rest) :
    step P c = (c.counted scr rest).raise .exit :=
  step_countAndAct_empty P c scr rest hc hs

/-- `close_screen`, `replace_screen` and the discarding of a failed screen on an empty stack raise an
ordinary error instead (`ScreenStackEmptyException` / pop from an empty list) -/
theorem C04_empty_refused (P : Prog) (c : Cfg) (rest : List Instr) (hs : c.A.stack = [])
    (hc : (∃ frm, c.code = .closeScreen frm :: rest) ∨ (∃ scr args, c.code = .act (.replace scr args) :: rest) ∨
      (∃ top, c.code = .afterSetup top :: rest ∧ c.retSetup = false)) :
    step P c = ({ c with code := rest } : Cfg).raise .err :=
  step_empty_refused P c rest hs hc

/-- **A close request for a screen that is not on top is refused before anything is popped.** For
every program and every configuration (reachable or not): if the next instruction is
`close_screen(closed_from = src)` (a `CloseScreenSignal` of source `src` being handled) and the screen
on top of the stack is not `src`, the step is exactly "raise `RenderUnexpectedError`" with nothing done
before — and whatever configuration it leads to (the exception caught by the nearest `except Exception`
scope, or the run ended by it), the scheduler's whole state is as before: the same stack (the top entry
still there), the same screen records; no callback was invoked (nothing logged: in particular no
`closed()`), no stack operation / refresh / draw was traced; the only thing the trace may have gained is
the one exception signal enqueued by the scope that caught the exception; and the code is a suffix of
what was pending behind the refused call. -/
theorem C04_refused_close_keeps_stack (P : Prog) (c : Cfg) (src : Src) (e : Entry) (rest : List Instr)
    (hc : c.code = .closeScreen (some src) :: rest) (he : c.A.stack.getLast? = some e) (hne : src ≠ .scr e.screen) :
    step P c = ({ c with code := rest } : Cfg).raise .err ∧
    ∀ c', StepTo P c c' →
      c'.A.stack = c.A.stack ∧ c'.A = c.A ∧ newLog c c' = [] ∧
      (newTr c c').length ≤ 1 ∧ (∀ t ∈ newTr c c', ∃ s, t.isExcFrom s = true) ∧
      (newTr c c').filter Tr.isSched = [] ∧ c'.code <:+ rest := by
  refine ⟨step_close_refused P c src e rest hc he hne, fun c' h => ?_⟩
  obtain ⟨hA, hlog, hcode, evs, htr, hlen, hev⟩ := close_refused_effect hc he hne h
  rw [newTr_of_append htr]
  refine ⟨by rw [hA], hA, newLog_of_append (evs := []) hlog, hlen, fun t ht => isExcEnq_iff_from.1 (hev t ht), ?_, hcode⟩
  exact List.filter_eq_nil_iff.2 fun t ht => by simp [isExcEnq_not_sched (hev t ht)]

/-- What raising `ExitMainLoop` means: the trace records `.exit`, everything up to the nearest
`except ExitMainLoop` (the one of `run()`) is abandoned and execution continues behind it — or, if
there is none (the application drives the loop itself), the run ends with that exception. -/
theorem C04_exit_ends (c : Cfg) :
    (∃ pre rest, c.code = pre ++ .catchExit :: rest ∧ (∀ i ∈ pre, i.catches .exit = false) ∧
      c.raise .exit = .ok { (c.trace .exit) with code := rest }) ∨
    ((∀ i ∈ c.code, i.catches .exit = false) ∧
      c.raise .exit = .error (.raised "exit", { (c.trace .exit) with code := [] })) :=
  raise_exit_cases c

/-! ### non-vacuity -/

open Ex in
/-- push from a draw callback, close from the pushed screen's draw: the scheduler events in order -/
example : ((runFuel P1 200 c1).1.tr.filter Tr.isSched).reverse =
    [.stackOp "schedule" [e 0 0], .refresh (e 0 0), .show (e 0 0), .stackOp "push" [e 0 0, e 1 1],
     .refresh (e 1 1), .show (e 1 1), .stackOp "close" [e 0 0], .refresh (e 0 0), .show (e 0 0)] := by
  decide +kernel

open Ex in
/-- schedule puts at the bottom, replace keeps the rest, a modal push and its close: a reachable
configuration with a two-element stack that several draws led to -/
example : ∃ c, Reach P2 c2 c ∧ c.A.stack = [e 1 1, e 2 2] ∧
    ((c.tr.filter Tr.isSched).reverse =
      [.stackOp "schedule" [e 0 0], .stackOp "schedule" [e 1 1, e 0 0], .refresh (e 0 0), .show (e 0 0),
       .stackOp "replace" [e 1 1, e 2 2], .refresh (e 2 2), .show (e 2 2),
       .stackOp "pushModal" [e 1 1, e 2 2, e 3 3 true], .refresh (e 3 3 true), .show (e 3 3 true),
       .stackOp "close" [e 1 1, e 2 2]]) :=
  ⟨(runFuel P2 300 c2).1, reach_runFuel _ .init, by decide +kernel, by decide +kernel⟩

open Ex in
/-- closing the only screen: the stack is empty, `ExitMainLoop` is raised and `run()` returns -/
example : (runFuel P3 300 c3).2 = .returned ∧ (runFuel P3 300 c3).1.A.stack = [] ∧
    .exit ∈ (runFuel P3 300 c3).1.tr := by
  decide +kernel

open Ex in
/-- Non-vacuity of `C04_refused_close_keeps_stack`: in `Ex.P10` a `CloseScreenSignal` of screen 2 is
dispatched while the modal screen 1 is on top — after 51 steps `close_screen(closed_from = screen 2)` is
the next instruction of a reachable configuration whose top entry is screen 1. -/
example : ∃ c rest, Reach P10 c10 c ∧ c.code = .closeScreen (some (.scr 2)) :: rest ∧
    c.A.stack.getLast? = some (e 1 1 true) ∧ Src.scr 2 ≠ .scr (e 1 1 true).screen := by
  obtain ⟨rest, hc⟩ := headCloseFrom_spec (c := (runFuel P10 51 c10).1) (src := .scr 2) (by decide +kernel)
  exact ⟨(runFuel P10 51 c10).1, rest, reach_runFuel _ .init, hc, by decide +kernel, by decide⟩

open Ex in
/-- … and the whole run: the request is refused, the modal screen stays on the stack and keeps being the
screen shown, no `closed()` callback is invoked, no `close` operation is traced; the
`RenderUnexpectedError` surfaces as one exception signal of the event loop, which the application's
handler consumes (the run then waits for events). -/
example : (runFuel P10 400 c10).2 = .blocked ∧ (runFuel P10 400 c10).1.A.stack = [e 0 0, e 1 1 true] ∧
    sched (runFuel P10 400 c10).1 =
      [.stackOp "schedule" [e 0 0], .refresh (e 0 0), .show (e 0 0), .stackOp "pushModal" [e 0 0, e 1 1 true],
       .refresh (e 1 1 true), .show (e 1 1 true)] ∧
    (cbs (runFuel P10 400 c10).1).filter Ev.isClosed = [] ∧
    ((runFuel P10 400 c10).1.tr.filter (Tr.isExcFrom .loop)).length = 1 := by
  decide +kernel

end Simpleline
