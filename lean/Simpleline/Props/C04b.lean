/-
  C04b — the `ScreenStack` object (`simpleline/render/screen_stack.py`) under ARBITRARY sequences of calls of
  its public methods is the obvious stack: `append` puts on top, `add_first` puts at the bottom, `pop` returns
  (and, with `remove=True`, removes) the top, `dump_stack` lists top first.

  Property theorems only. Model: `Simpleline/Model/Objects.lean` (`SStack`, validated against the Python class);
  spec vocabulary: `Simpleline/Spec/ObjectsSpec.lean`; lemmas: `Simpleline/Lemmas/ObjectsStack.lean`.
  The abstract machine of `Model/Machine.lean` keeps the scheduler's stack as the same plain list
  (`stack : List Entry`, bottom … top), so `C04b_refines_list` is the anchor between the object and that list.
-/
import Simpleline.Lemmas.ObjectsStack

namespace Simpleline.Objects

/-- For every sequence of calls from a fresh `ScreenStack()`: the results of all calls and the final
`_screens` are those of the ideal list machine `idealStack` (a fold written independently of the model:
append at the end = top, `add_first` at the head = bottom, `pop` takes the last). -/
theorem C04b_refines_list (ops : List SOp) :
    (({} : SStack).run ops).1 = (idealStack ops).1 ∧ (({} : SStack).run ops).2.screens = (idealStack ops).2 :=
  SStack.run_eq_ideal ops

/-- `append(e)` then `pop()` returns `e` and leaves the stack exactly as it was before. -/
theorem C04b_pop_after_append (s : SStack) (e : Nat) :
    (s.step (.append e)).2.step (.pop true) = (.entry e, s) :=
  s.pop_after_append e

/-- On a non-empty stack `add_first(e)` does not change what `pop` (removing or not) returns: the new
screen goes beneath everything. -/
theorem C04b_add_first_keeps_top (s : SStack) (e : Nat) (h : s.screens ≠ []) (remove : Bool) :
    ((s.step (.addFirst e)).2.step (.pop remove)).1 = (s.step (.pop remove)).1 :=
  s.add_first_keeps_top e h remove

/-- Every method preserves the relative order of the entries it does not remove: what an operation keeps of
the old stack (everything; for a removing `pop` everything but the top) is a sub-list, in order, of the new
stack. And the entry a removing `pop` returns is exactly the one it removed from the top. -/
theorem C04b_beneath_order (s : SStack) (op : SOp) :
    (keptBy s.screens op).Sublist (s.step op).2.screens ∧
    (∀ e, op = .pop true → (s.step op).1 = .entry e → s.screens = (s.step op).2.screens ++ [e]) :=
  ⟨s.kept_sublist op, fun e ho h => by subst ho; exact s.pop_removes_top e h⟩

/-- Along any run from any stack: size + number of removing pops that returned an entry
= initial size + number of `append`s + number of `add_first`s. -/
theorem C04b_size (s : SStack) (ops : List SOp) :
    (s.run ops).2.screens.length + (ops.zip (s.run ops).1).countP removedOne
      = s.screens.length + ops.countP SOp.isPush :=
  s.run_size ops

/-- … in particular `size()` asked at the end of a session from a fresh stack answers
#append + #add_first − #successful removing pops. -/
theorem C04b_size_answer (ops : List SOp) :
    ((({} : SStack).run ops).2.step .size).1
      = .num (ops.countP SOp.isPush - (ops.zip (({} : SStack).run ops).1).countP removedOne) := by
  have := C04b_size {} ops
  simp only [SStack.step, SOut.num.injEq]
  simp only [List.length_nil] at this
  omega

/-- `dump_stack` lists the stack top first: the reverse of `_screens`; it does not change the stack. -/
theorem C04b_dump_top_first (s : SStack) : s.step .dump = (.order s.screens.reverse, s) := rfl

/-- `pop` raises `ScreenStackEmptyException` (removing or not) iff the stack is empty iff `size()` is 0 iff
`empty()` answers `True`. -/
theorem C04b_empty_iff (s : SStack) :
    (((s.step (.pop true)).1 = .stackEmpty ↔ s.screens = []) ∧
     ((s.step (.pop false)).1 = .stackEmpty ↔ s.screens = [])) ∧
    ((s.step .size).1 = .num 0 ↔ s.screens = []) ∧
    ((s.step .empty).1 = .bool true ↔ s.screens = []) :=
  s.empty_iff

/-- `pop(False)` never changes the stack; neither do `size`, `empty`, `dump_stack`, nor a `pop` that raised. -/
theorem C04b_peek_pure (s : SStack) :
    (s.step (.pop false)).2 = s ∧ (s.step .size).2 = s ∧ (s.step .empty).2 = s ∧ (s.step .dump).2 = s ∧
    ((s.step (.pop true)).1 = .stackEmpty → (s.step (.pop true)).2 = s) := by
  refine ⟨s.peek_pure, rfl, rfl, rfl, ?_⟩
  simp only [SStack.step]; split <;> simp

/-! ### non-vacuity: concrete sessions -/

/-- a session with every method, a pop on the empty stack, an `add_first` under a non-empty stack -/
example :
    ({} : SStack).run [.pop true, .empty, .append 1, .append 2, .addFirst 3, .pop false, .size, .dump,
                       .pop true, .pop true, .pop true, .pop false, .empty]
      = ([.stackEmpty, .bool true, .unit, .unit, .unit, .entry 2, .num 3, .order [2, 1, 3],
          .entry 2, .entry 1, .entry 3, .stackEmpty, .bool true], {}) := by decide

example :
    idealStack [.pop true, .empty, .append 1, .append 2, .addFirst 3, .pop false, .size, .dump,
                .pop true, .pop true, .pop true, .pop false, .empty]
      = ([.stackEmpty, .bool true, .unit, .unit, .unit, .entry 2, .num 3, .order [2, 1, 3],
          .entry 2, .entry 1, .entry 3, .stackEmpty, .bool true], []) := by decide

/-- `C04b_add_first_keeps_top` needs the non-empty stack: on an empty one the new screen becomes the top -/
example : ((({} : SStack).step (.addFirst 7)).2.step (.pop true)).1 ≠ (({} : SStack).step (.pop true)).1 := by
  decide

/-- the counting of `C04b_size` on a run where a removing pop fails and two succeed -/
example :
    let ops : List SOp := [.pop true, .append 1, .addFirst 2, .append 3, .pop true, .pop false, .pop true]
    (ops.zip (({} : SStack).run ops).1).countP removedOne = 2 ∧ ops.countP SOp.isPush = 3 ∧
      (({} : SStack).run ops).2.screens = [2] := by decide

end Simpleline.Objects
