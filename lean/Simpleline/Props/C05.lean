/-
  C05 — A modal screen blocks its caller and shields everything beneath it.

  Property theorems only; proofs in `Simpleline/Lemmas/Shape{Modal,Frames,Window,Shield,ShieldFix,Intact}.lean`,
  vocabulary in `Simpleline/Spec/ShapeSpec.lean`.

  Reading guide.  `push_screen_modal(scr, args)` is the instruction `pushModal scr args`: it appends the
  entry `e` (`modal := true`) to the stack, logs `.stackOp "pushModal" _` and `.modalBegin e`, then runs
  `execute_new_loop(render signal)` (`newLoop`, event `.openLevel q _`) followed by `modalRet e`, which
  logs `.modalEnd e`: the call returns.  A modal entry leaves the stack through `close_screen`
  (`.stackOp "close" _`, then `closed()`, then — `closeScreen2` — `close_loop()`), or when its `setup`
  fails (`.stackOp "discard" _`, then `close_loop()`, fix F10); `replace_screen` hands the modal flag on
  to the replacing entry.  `.refresh x` / `.show x` are logged when entry `x` is refreshed / drawn.

  The quantifier of C05 — every place a modal push can be issued from, every nesting depth, every
  sequence of user actions inside the modal screen — is: every program `P`, every started `c0`, every
  reachable configuration / transition.  Hypotheses:

  * `ScreenOnly P`, `InitScreenOnly c0` (static): scripts and start-up actions do not call the raw
    nested-loop API `execute_new_loop` / `close_loop` / `force_quit` (C05 quantifies over modal pushes and
    user actions, not over raw loop calls; a raw call creates or removes a level that belongs to no
    screen).  Everything else — signals, `process_signals`, blocking input, all scheduler calls — is allowed.
  * `NoErr c` (history): no `ExceptionSignal` was enqueued, i.e. no exception escaped a callback.
    Needed: finding **K3** (`C05_levels_match_modals_needs_NoErr`, `C05_shield_needs_NoErr`): an exception
    raised by the `closed()` callback of a modal screen skips `close_loop`.  (The other variant of K3 —
    the `RenderUnexpectedError` raised by `close_screen` *after* it had popped a modal screen that did
    not ask to be closed — no longer exists: `closed_from` is checked before the pop,
    `C04_refused_close_keeps_stack`.)
    **Since that fix `NoErr` is needed only for `C05_levels_match_modals`** (the one clause that does not
    assume `ClosedSilent`): under `ClosedSilent P` and `WFQuietDrain c` no exception can separate the pop
    of a modal entry from the `close_loop` of its level, and the other clauses hold without `NoErr` —
    `C05_quiescent_after_fix`, `C05_shield_after_fix`, `C05_close_only_for_modal_after_fix`,
    `C05_intact_after_fix`.  The theorems with `NoErr` are kept as they were (they are corollaries).
  * `WFClose c`, `NoForceQuit c` (history): finding K1, as in C03.
  * for the shield clause, `ClosedSilent P` (static: `closed()` callbacks do nothing — no API call, no
    exception: they run between the pop of the entry and `close_loop`) and `WFQuietDrain c` (history: the drain of
    `close_loop` dispatched nothing).  Needed: finding **K2** (`C05_shield_needs_quiet`).  The call-time
    form `WFQuiet c` (no signal pending when `close_loop` was *called*) is not sufficient in this model,
    where the reader thread may deliver a line between the call and the drain (`Reach.deliver`).

  * for the intact clause additionally `WFDrain` and `NoStackOpAfterClose q tr` (history: after `close_loop`
    popped the modal screen's level, no stack operation before `push_screen_modal` returns).  Needed:
    `C05_intact_needs_NoStackOpAfterClose`.  `C05_intact` is stated at the moment the modal loop's
    activation returns (the next two steps are `_run_loop = True` and the `.modalEnd` statement).
-/
import Simpleline.Lemmas.ShapeExamplesModal

namespace Simpleline

open Shape

variable {P : Prog} {c0 c c' c1 c2 c3 : Cfg}

/-! ### modal entries and levels correspond -/

/-- **Levels match modals.** In every reachable configuration of a screen-level program in whose
history no exception escaped a callback — unless the run is over — the number of modal entries on the
stack plus one (the outermost loop), plus the level pops that are pending in the code (`pendCloses`:
a `close_loop` in progress for an entry that has been popped already), equals the number of open
levels plus the `execute_new_loop` calls that are pending (`pendOpens`: between the push of a modal
entry and the start of its loop).  In particular, when nothing is pending, every nested level has
exactly one modal entry on the stack, and vice versa. -/
theorem C05_levels_match_modals (h0 : Started c0) (hi : InitScreenOnly c0) (hP : ScreenOnly P)
    (hr : Reach P c0 c) (hn : NoErr c) :
    c.Over ∨ (c.L.forceQuit = false ∧
      modalCount c.A.stack + 1 + pendCloses c.code = c.L.levels.length + pendOpens c.code) := by
  rcases reach_match h0 hi hP hr hn with h | ⟨h1, _, h2⟩
  · exact .inl h
  · exact .inr ⟨h1, h2⟩

/-! ### blocks -/

/-- **A modal push returns only after its screen's loop has been closed.** If a transition lets
`push_screen_modal` return for entry `e` (`.modalEnd e`), then — according to the history up to that
moment — the call opened a level `q` (`.openLevel q _` directly follows `.modalBegin e` among the
modal/level events), that level has been popped by `close_loop` (`.closeLevel q`) and its `_mainloop`
activation has returned (`.loopReturn q`; by `C03_blocks` only after the pop).  This holds for every
program (raw loop calls included), wherever the push was issued from and whatever happened inside. -/
theorem C05_blocks (h0 : Started c0) (hr : Reach P c0 c) (ht : Trans P c c') (hw : WFClose c)
    (hf : NoForceQuit c) {e : Entry} (he : Tr.modalEnd e ∈ newTr c c') :
    ∃ q, OpenedFor q e c.tr ∧ Tr.loopReturn q ∈ c.tr ∧ Tr.closeLevel q ∈ c.tr :=
  modal_blocks h0 hr ht (WFOpen.of_WFClose hw) hf he

/-- … and in a screen-level program a level is popped only for a modal entry that has left the stack:
whenever `close_loop` is called (`.closeReq`), one more level is open than there are modal entries on the
stack (the entry was popped by `close_screen`, or discarded after a failed `setup`, just before). -/
theorem C05_close_only_for_modal (h0 : Started c0) (hi : InitScreenOnly c0) (hP : ScreenOnly P)
    (hC : ClosedSilent P) (hr : Reach P c0 c) (ht : Trans P c c') (hn : NoErr c) (hq : WFQuietDrain c)
    {b : Bool} {n : Nat} (hx : Tr.closeReq b n ∈ newTr c c') :
    modalCount c.A.stack + 2 = c.L.levels.length :=
  close_only_for_modal h0 hi hP hC hr ht hn hq hx

/-! ### shield -/

/-- **Outside the open / close windows the modal structure is intact.** Under the hypotheses of the
shield clause, in every reachable configuration whose head instruction is not one of the seven
straight-line window instructions (`Instr.isWindowHead`: between the push of a modal entry and its
`execute_new_loop`, and between the pop of an entry and the pop of its level — none of which runs
application code or dispatches a signal), nothing is pending and every nested level has its modal entry
on the stack.  In particular this holds whenever a screen callback other than `closed()` is invoked
(`setup`, `refresh`, `show`, `prompt`, `input`) and whenever a signal is dispatched. -/
theorem C05_quiescent (h0 : Started c0) (hi : InitScreenOnly c0) (hP : ScreenOnly P) (hC : ClosedSilent P)
    (hr : Reach P c0 c) (hn : NoErr c) (hq : WFQuietDrain c) {h : Instr} {rest : List Instr}
    (hc : c.code = h :: rest) (hh : h.isWindowHead = false) :
    c.Over ∨ (pendOpens c.code = 0 ∧ pendCloses c.code = 0 ∧ modalCount c.A.stack + 1 = c.L.levels.length) :=
  quiescent_of_head h0 hi hP hC hr hn hq hc hh

/-- **Shield.** Whenever an entry `x` is drawn (`.show x`) or refreshed (`.refresh x`), nothing is
pending and the number of modal entries on the stack is the number of nested levels: every
`push_screen_modal` call that has not returned still has its modal entry (or the entry that replaced
it) on the stack.  A drawn entry is, by identity, the top of the stack, hence that entry or one above
it: no screen beneath a modal screen is drawn, however many screens were pushed and closed on top of it
in the meantime.  (A refreshed entry was the top of the stack when its processing began, and is not
drawn if it is no longer the top: `C04`.) -/
theorem C05_shield (h0 : Started c0) (hi : InitScreenOnly c0) (hP : ScreenOnly P) (hC : ClosedSilent P)
    (hr : Reach P c0 c) (ht : Trans P c c') (hn : NoErr c) (hq : WFQuietDrain c) {x : Entry}
    (hx : Tr.show x ∈ newTr c c' ∨ Tr.refresh x ∈ newTr c c') :
    pendOpens c.code = 0 ∧ pendCloses c.code = 0 ∧ modalCount c.A.stack + 1 = c.L.levels.length ∧
    (Tr.show x ∈ newTr c c' → ∃ l, c.A.stack.getLast? = some l ∧ l.eid = x.eid) :=
  shield h0 hi hP hC hr ht hn hq hx

/-! ### intact -/

/-- **The caller's screen is still there, in its place.** Let `push_screen_modal scr args` be executed
in a reachable configuration `c` (stack `S`), creating entry `e` and — in the next step,
`execute_new_loop` — level `q`.  Let, at any later point of the execution, the activation serving level
`q` return (`.loopReturn q`: `push_screen_modal` is about to return).  Then, under the hypotheses of the
shield clause, a well-formed history without force-quit, and provided the code that closed the modal
screen performed no further stack operation after `close_loop` had popped level `q`
(`NoStackOpAfterClose`):
* the stack is `ins ++ S`: exactly the entries that were beneath `e`, in the same order, above only
  what `schedule_screen` inserted at the bottom meanwhile (`ins`, all non-modal) — nothing beneath the
  modal screen was removed, replaced or reordered, however many screens were pushed, replaced and
  closed on top of it in the meantime, and the modal entry (or what replaced it) is gone;
* the code is `mainCheck q :: modalRet e :: K0`, and the transition leaves `restoreRun :: modalRet e :: K0`
  with the same stack: `_run_loop` is set again, `.modalEnd e` is logged and the application continues
  with the statement after the call (`K0`); by `C03_resumes` the level stack and the active queue are
  those of the call, and by `C03_held` (Props/C03.lean) nothing queued for the enclosing levels was lost. -/
theorem C05_intact (h0 : Started c0) (hi : InitScreenOnly c0) (hP : ScreenOnly P) (hC : ClosedSilent P)
    (hr : Reach P c0 c) {scr : Nat} {args : Option Nat} {K0 : List Instr}
    (hc : c.code = .pushModal scr args :: K0) (hs1 : step P c = .ok c') (hs2 : step P c' = .ok c1)
    (hr2 : Reach P c1 c2) (ht : Trans P c2 c3) (hret : Tr.loopReturn c.L.queues.length ∈ newTr c2 c3)
    (hn : NoErr c3) (hq : WFQuietDrain c3) (hw : WFClose c3) (hd : WFDrain c3) (hf : NoForceQuit c3)
    (hafter : NoStackOpAfterClose c.L.queues.length (newTr c1 c2)) :
    (∃ ins, c2.A.stack = ins ++ c.A.stack ∧ ∀ y ∈ ins, y.modal = false) ∧
    c2.code = .mainCheck c.L.queues.length :: .modalRet ⟨c.A.nextEid, scr, args, true⟩ :: K0 ∧
    c3.code = .restoreRun :: .modalRet ⟨c.A.nextEid, scr, args, true⟩ :: K0 ∧ c3.A.stack = c2.A.stack :=
  intact' h0 hi hP hC hr hc hs1 hs2 hr2 ht hret hn hq hw hd hf hafter

/-! ### the same without `NoErr`

Since `close_screen` checks `closed_from` before it pops the top screen, a refused close request
(`RenderUnexpectedError`) leaves the stack alone (`C04_refused_close_keeps_stack`), and in a program
whose `closed()` callbacks are silent and whose `close_loop` drains dispatch nothing, the straight-line
windows between the pop of a modal entry and the pop of its level contain nothing that can raise.  An
exception raised anywhere else — in any callback, in any handler, by the scheduler itself — finds
nothing pending.  So the shield needs no hypothesis about exceptions any more. -/

/-- `C05_close_only_for_modal` without `NoErr`. -/
theorem C05_close_only_for_modal_after_fix (h0 : Started c0) (hi : InitScreenOnly c0) (hP : ScreenOnly P)
    (hC : ClosedSilent P) (hr : Reach P c0 c) (ht : Trans P c c') (hq : WFQuietDrain c)
    {b : Bool} {n : Nat} (hx : Tr.closeReq b n ∈ newTr c c') :
    modalCount c.A.stack + 2 = c.L.levels.length :=
  close_only_for_modal_fix h0 hi hP hC hr ht hq hx

/-- `C05_quiescent` without `NoErr`: outside the open / close windows nothing is pending and every
nested level has its modal entry on the stack — whatever exceptions were raised and caught so far. -/
theorem C05_quiescent_after_fix (h0 : Started c0) (hi : InitScreenOnly c0) (hP : ScreenOnly P) (hC : ClosedSilent P)
    (hr : Reach P c0 c) (hq : WFQuietDrain c) {h : Instr} {rest : List Instr}
    (hc : c.code = h :: rest) (hh : h.isWindowHead = false) :
    c.Over ∨ (pendOpens c.code = 0 ∧ pendCloses c.code = 0 ∧ modalCount c.A.stack + 1 = c.L.levels.length) :=
  quiescent_of_head_fix h0 hi hP hC hr hq hc hh

/-- **Shield, without `NoErr`.** In a screen-level program whose `closed()` callbacks are silent,
whenever an entry `x` is drawn or refreshed in a history whose `close_loop` drains dispatched nothing,
nothing is pending and the number of modal entries on the stack is the number of nested levels; a drawn
entry is, by identity, the top of the stack: no screen beneath a modal screen is drawn — even after
exceptions escaped from callbacks or close requests were refused. -/
theorem C05_shield_after_fix (h0 : Started c0) (hi : InitScreenOnly c0) (hP : ScreenOnly P) (hC : ClosedSilent P)
    (hr : Reach P c0 c) (ht : Trans P c c') (hq : WFQuietDrain c) {x : Entry}
    (hx : Tr.show x ∈ newTr c c' ∨ Tr.refresh x ∈ newTr c c') :
    pendOpens c.code = 0 ∧ pendCloses c.code = 0 ∧ modalCount c.A.stack + 1 = c.L.levels.length ∧
    (Tr.show x ∈ newTr c c' → ∃ l, c.A.stack.getLast? = some l ∧ l.eid = x.eid) :=
  shield_fix h0 hi hP hC hr ht hq hx

/-- `C05_intact` without `NoErr`. -/
theorem C05_intact_after_fix (h0 : Started c0) (hi : InitScreenOnly c0) (hP : ScreenOnly P) (hC : ClosedSilent P)
    (hr : Reach P c0 c) {scr : Nat} {args : Option Nat} {K0 : List Instr}
    (hc : c.code = .pushModal scr args :: K0) (hs1 : step P c = .ok c') (hs2 : step P c' = .ok c1)
    (hr2 : Reach P c1 c2) (ht : Trans P c2 c3) (hret : Tr.loopReturn c.L.queues.length ∈ newTr c2 c3)
    (hq : WFQuietDrain c3) (hw : WFClose c3) (hd : WFDrain c3) (hf : NoForceQuit c3)
    (hafter : NoStackOpAfterClose c.L.queues.length (newTr c1 c2)) :
    (∃ ins, c2.A.stack = ins ++ c.A.stack ∧ ∀ y ∈ ins, y.modal = false) ∧
    c2.code = .mainCheck c.L.queues.length :: .modalRet ⟨c.A.nextEid, scr, args, true⟩ :: K0 ∧
    c3.code = .restoreRun :: .modalRet ⟨c.A.nextEid, scr, args, true⟩ :: K0 ∧ c3.A.stack = c2.A.stack :=
  intact'_fix h0 hi hP hC hr hc hs1 hs2 hr2 ht hret hq hw hd hf hafter

/-- Non-vacuity of `C05_shield_after_fix` where `C05_shield` does not apply: `ShapeEx.progRefused` is the
program that used to break the shield (a `CloseScreenSignal` of screen 2 dispatched while the modal
screen 1 is on top).  The request is now refused with screen 1 still on the stack; the application
handles the `ExceptionSignal` (so `NoErr` fails from then on), and the modal screen is drawn again
inside its nested loop — two levels, stack `[entry 0, entry 1]`. -/
example :
    ∃ (P : Prog) (c0 c c' : Cfg) (x : Entry), Started c0 ∧ InitScreenOnly c0 ∧ ScreenOnly P ∧ ClosedSilent P ∧
      Reach P c0 c ∧ Trans P c c' ∧ ¬ NoErr c ∧ WFQuietDrain c ∧ WFClose c ∧ Tr.show x ∈ newTr c c' ∧
      c.L.levels.length = 2 ∧ c.A.stack = [ShapeEx.entry0, x] := by
  obtain ⟨c, c', hr, ht, hf⟩ := testTrans_spec ShapeEx.refused_check
  simp only [Bool.and_eq_true, decide_eq_true_eq, Bool.not_eq_true', decide_eq_false_iff_not] at hf
  obtain ⟨⟨⟨⟨⟨h1, h2⟩, h3⟩, h4⟩, h5⟩, h6⟩ := hf
  exact ⟨_, _, c, c', ShapeEx.entry1, ShapeEx.startedSX, ShapeEx.initSX, ShapeEx.progRefused_screenOnly,
    ShapeEx.progRefused_closedSilent, hr, ht, h2, h3, h4, h1, h5, h6⟩

/-! ### the hypotheses are needed, and satisfiable -/

/-- **K2.** Without the quiet hypotheses the shield fails: in `ShapeEx.progK2` the modal screen asks for
a redraw and closes itself; `close_loop` drains the pending render signal after the modal entry was
popped, and the parent (entry 0) is refreshed and drawn while the modal level is still open — before
`push_screen_modal` returns.  All other hypotheses hold.  Kernel-checked. -/
theorem C05_shield_needs_quiet :
    ∃ (P : Prog) (c0 c c' : Cfg) (x : Entry), Started c0 ∧ InitScreenOnly c0 ∧ ScreenOnly P ∧ ClosedSilent P ∧
      Reach P c0 c ∧ Trans P c c' ∧ NoErr c ∧ WFClose c ∧ WFDrain c ∧ ¬ WFQuiet c ∧ ¬ WFQuietDrain c ∧
      Tr.show x ∈ newTr c c' ∧ modalCount c.A.stack + 1 ≠ c.L.levels.length := by
  obtain ⟨c, c', hr, ht, hf⟩ := testTrans_spec ShapeEx.k2_check
  simp only [Bool.and_eq_true, decide_eq_true_eq, Bool.not_eq_true', decide_eq_false_iff_not] at hf
  obtain ⟨⟨⟨⟨⟨⟨⟨h1, h2⟩, h3⟩, h4⟩, h5⟩, h6⟩, h7⟩, h8⟩ := hf
  exact ⟨_, _, c, c', ShapeEx.entry0, ShapeEx.startedS, ShapeEx.initS, ShapeEx.progK2_screenOnly,
    ShapeEx.progK2_closedSilent, hr, ht, h2, h3, h4, h5, h6, h1, by rw [h7, h8]; decide⟩

/-- **K2, reader-thread race.** The call-time hypothesis `WFQuiet` (no signal pending when
`close_loop` is *called*) does not give the shield when the reader thread may hand in a line at any
moment (`Reach.deliver`): in `ShapeEx.progRace` the modal screen has asked for input and is closed by its
own `CloseScreenSignal`; `close_loop` is called with an empty queue; the typed line arrives before the
drain starts; the drain dispatches it, the popped screen's `input()` answers `REDRAW`, and the parent
is refreshed and drawn inside the modal level.  Hence the drain-time hypothesis `WFQuietDrain`.
Kernel-checked. -/
theorem C05_shield_needs_drain_quiet :
    ∃ (P : Prog) (c0 c c' : Cfg) (x : Entry), Started c0 ∧ InitScreenOnly c0 ∧ ScreenOnly P ∧ ClosedSilent P ∧
      Reach P c0 c ∧ Trans P c c' ∧ NoErr c ∧ WFClose c ∧ WFDrain c ∧ WFQuiet c ∧ ¬ WFQuietDrain c ∧
      Tr.show x ∈ newTr c c' ∧ modalCount c.A.stack + 1 ≠ c.L.levels.length := by
  obtain ⟨c, c', hr, ht, hf⟩ := testDeliver_spec ShapeEx.race_check
  simp only [Bool.and_eq_true, decide_eq_true_eq, Bool.not_eq_true', decide_eq_false_iff_not] at hf
  obtain ⟨⟨⟨⟨⟨⟨⟨h1, h2⟩, h3⟩, h4⟩, h5⟩, h6⟩, h7⟩, h8⟩ := hf
  exact ⟨_, _, c, c', ShapeEx.entry0, ShapeEx.startedRace, ShapeEx.initRace, ShapeEx.progRace_screenOnly,
    ShapeEx.progRace_closedSilent, hr, ht, h2, h4, h5, h3, h6, h1, by rw [h7, h8]; decide⟩

/-- **K3.** Without `NoErr` the correspondence of levels and modal entries (`C05_levels_match_modals`)
fails: `close_screen` pops the top screen and calls its `closed()` callback; when the popped screen is
modal and `closed()` raises an ordinary exception, the rest of `close_screen` — `close_loop` — is
skipped: the nested loop stays open without its screen.  In `ShapeEx.progK3` (with an application
handler for `ExceptionSignal`, so that the application survives) the modal screen 1 is closed by its
own `CloseScreenSignal` and its `closed()` raises; afterwards, with nothing pending and the run not
over, two levels are open for a stack without modal entry.  Kernel-checked. -/
theorem C05_levels_match_modals_needs_NoErr :
    ∃ (P : Prog) (c0 c : Cfg), Started c0 ∧ InitScreenOnly c0 ∧ ScreenOnly P ∧ Reach P c0 c ∧ ¬ NoErr c ∧
      ¬ c.Over ∧ c.L.forceQuit = false ∧
      modalCount c.A.stack + 1 + pendCloses c.code ≠ c.L.levels.length + pendOpens c.code := by
  obtain ⟨c, c', hr, _, hf⟩ := testTrans_spec ShapeEx.k3_check
  simp only [Bool.and_eq_true, decide_eq_true_eq, Bool.not_eq_true', decide_eq_false_iff_not] at hf
  obtain ⟨⟨⟨⟨⟨⟨⟨⟨⟨⟨⟨_, h2⟩, _⟩, _⟩, _⟩, _⟩, h7⟩, h8⟩, h9⟩, h10⟩, h11⟩, h12⟩ := hf
  exact ⟨_, _, c, ShapeEx.startedSX, ShapeEx.initSX, ShapeEx.progK3_screenOnly, hr, h2, h11, h12,
    by rw [h7, h8, h9, h10]; decide⟩

/-- **K3** for the shield. Without `NoErr` the shield fails even in a quiet, well-formed history, for a
program whose `closed()` callbacks call no library API (`ClosedNoApi`) but may raise: in
`ShapeEx.progK3` the exception raised by the modal screen's `closed()` skips `close_loop`, and the parent
(entry 0) is refreshed and drawn inside the modal screen's nested loop, which stays open without its
screen.  Kernel-checked.

The witness is *not* `ClosedSilent` (a `closed()` that raises is not silent), so this statement is weaker
than it was before `close_screen` was fixed (it had `ClosedSilent P` where it now has `ClosedNoApi P`):
then the witness was the `RenderUnexpectedError` raised by `close_screen` itself *after* popping a modal
screen that had not asked to be closed (a `CloseScreenSignal` of another screen dispatched while the
modal screen was on top), in a `ClosedSilent` program.  With `closed_from` checked before the pop that
run leaves the modal entry in place (`C04_refused_close_keeps_stack`, and the example after
`C05_shield_after_fix`), and the old statement is false: under `ClosedSilent` the shield holds without
`NoErr` (`C05_shield_after_fix`).  What the theorem still shows: in `C05_shield_after_fix` the hypothesis
`ClosedSilent` cannot be weakened to "`closed()` calls no library API": a `closed()` that merely raises
breaks the shield. -/
theorem C05_shield_needs_NoErr :
    ∃ (P : Prog) (c0 c c' : Cfg) (x : Entry), Started c0 ∧ InitScreenOnly c0 ∧ ScreenOnly P ∧ ClosedNoApi P ∧
      Reach P c0 c ∧ Trans P c c' ∧ ¬ NoErr c ∧ WFClose c ∧ WFDrain c ∧ WFQuiet c ∧ WFQuietDrain c ∧
      Tr.show x ∈ newTr c c' ∧ modalCount c.A.stack + 1 ≠ c.L.levels.length := by
  obtain ⟨c, c', hr, ht, hf⟩ := testTrans_spec ShapeEx.k3_check
  simp only [Bool.and_eq_true, decide_eq_true_eq, Bool.not_eq_true', decide_eq_false_iff_not] at hf
  obtain ⟨⟨⟨⟨⟨⟨⟨⟨⟨⟨⟨h1, h2⟩, h3⟩, h4⟩, h5⟩, h6⟩, h7⟩, h8⟩, _⟩, _⟩, _⟩, _⟩ := hf
  exact ⟨_, _, c, c', ShapeEx.entry0, ShapeEx.startedSX, ShapeEx.initSX, ShapeEx.progK3_screenOnly,
    ShapeEx.progK3_closedNoApi, hr, ht, h2, h3, h4, h5, h6, h1, by rw [h7, h8]; decide⟩

/-- Non-vacuity of `C05_shield`: in `ShapeEx.progModal` the modal screen (entry 1) is drawn inside its
nested loop — two levels, stack `[entry 0, entry 1]` — with all hypotheses satisfied. -/
example :
    ∃ (P : Prog) (c0 c c' : Cfg) (x : Entry), Started c0 ∧ InitScreenOnly c0 ∧ ScreenOnly P ∧ ClosedSilent P ∧
      Reach P c0 c ∧ Trans P c c' ∧ NoErr c ∧ WFQuietDrain c ∧ WFClose c ∧ Tr.show x ∈ newTr c c' ∧
      c.L.levels.length = 2 ∧ c.A.stack = [ShapeEx.entry0, x] := by
  obtain ⟨c, c', hr, ht, hf⟩ := testTrans_spec ShapeEx.modal_show_check
  simp only [Bool.and_eq_true, decide_eq_true_eq] at hf
  obtain ⟨⟨⟨⟨⟨h1, h2⟩, h3⟩, h4⟩, h5⟩, h6⟩ := hf
  exact ⟨_, _, c, c', ShapeEx.entry1, ShapeEx.startedS, ShapeEx.initS, ShapeEx.progModal_screenOnly,
    ShapeEx.progModal_closedSilent, hr, ht, h2, h3, h4, h1, h5, h6⟩

/-- Non-vacuity of `C05_blocks`: in `ShapeEx.progModal` the modal push does return, in a well-formed
history. -/
example :
    ∃ (P : Prog) (c0 c c' : Cfg) (e : Entry), Started c0 ∧ Reach P c0 c ∧ Trans P c c' ∧ WFClose c ∧
      NoForceQuit c ∧ Tr.modalEnd e ∈ newTr c c' := by
  obtain ⟨c, c', hr, ht, hf⟩ := testTrans_spec ShapeEx.modal_end_check
  simp only [Bool.and_eq_true, decide_eq_true_eq] at hf
  obtain ⟨⟨h1, h2⟩, h3⟩ := hf
  exact ⟨_, _, c, c', ShapeEx.entry1, ShapeEx.startedS, hr, ht, h2, h3, h1⟩

/-- `NoStackOpAfterClose` is needed for `C05_intact`: in `ShapeEx.progTwice` the modal screen's callback
calls `close_screen()` twice — it closes itself (its level is popped) and then, before
`push_screen_modal` has returned, its parent.  All other hypotheses hold; at the return only one of the
two entries that were beneath the modal entry is left.  Kernel-checked. -/
theorem C05_intact_needs_NoStackOpAfterClose :
    ∃ (P : Prog) (c0 c c' c1 c2 c3 : Cfg) (scr : Nat) (args : Option Nat) (K0 : List Instr),
      Started c0 ∧ InitScreenOnly c0 ∧ ScreenOnly P ∧ ClosedSilent P ∧ Reach P c0 c ∧
      c.code = .pushModal scr args :: K0 ∧ step P c = .ok c' ∧ step P c' = .ok c1 ∧ Reach P c1 c2 ∧ Trans P c2 c3 ∧
      Tr.loopReturn c.L.queues.length ∈ newTr c2 c3 ∧ NoErr c3 ∧ WFQuietDrain c3 ∧ WFClose c3 ∧ WFDrain c3 ∧
      NoForceQuit c3 ∧ ¬ NoStackOpAfterClose c.L.queues.length (newTr c1 c2) ∧
      c2.A.stack.length < c.A.stack.length := by
  obtain ⟨c, c', c1, c2, c3, scr, args, K, hr, hc, hs1, hs2, hr2, ht, hf⟩ := testModal_spec ShapeEx.twice_check
  simp only [Bool.and_eq_true, decide_eq_true_eq, Bool.not_eq_true', decide_eq_false_iff_not] at hf
  obtain ⟨⟨⟨⟨⟨⟨⟨⟨h1, h2⟩, h3⟩, h4⟩, h5⟩, h6⟩, h7⟩, h8⟩, h9⟩ := hf
  exact ⟨_, _, c, c', c1, c2, c3, scr, args, K, ShapeEx.startedTwice, ShapeEx.initTwice, ShapeEx.progTwice_screenOnly,
    ShapeEx.progTwice_closedSilent, hr, hc, hs1, hs2, hr2, ht, h1, h2, h3, h4, h5, h6, h7, by rw [h8, h9]; decide⟩

/-- Non-vacuity of `C05_intact`: in `ShapeEx.progModal` all its hypotheses hold for the modal push and the
return of its loop. -/
example :
    ∃ (P : Prog) (c0 c c' c1 c2 c3 : Cfg) (scr : Nat) (args : Option Nat) (K0 : List Instr),
      Started c0 ∧ InitScreenOnly c0 ∧ ScreenOnly P ∧ ClosedSilent P ∧ Reach P c0 c ∧
      c.code = .pushModal scr args :: K0 ∧ step P c = .ok c' ∧ step P c' = .ok c1 ∧ Reach P c1 c2 ∧ Trans P c2 c3 ∧
      Tr.loopReturn c.L.queues.length ∈ newTr c2 c3 ∧ NoErr c3 ∧ WFQuietDrain c3 ∧ WFClose c3 ∧ WFDrain c3 ∧
      NoForceQuit c3 ∧ NoStackOpAfterClose c.L.queues.length (newTr c1 c2) ∧ c.A.stack = [ShapeEx.entry0] := by
  obtain ⟨c, c', c1, c2, c3, scr, args, K, hr, hc, hs1, hs2, hr2, ht, hf⟩ := testModal_spec ShapeEx.modal_intact_check
  simp only [Bool.and_eq_true, decide_eq_true_eq] at hf
  obtain ⟨⟨⟨⟨⟨⟨⟨⟨h1, h2⟩, h3⟩, h4⟩, h5⟩, h6⟩, h7⟩, _⟩, h9⟩ := hf
  exact ⟨_, _, c, c', c1, c2, c3, scr, args, K, ShapeEx.startedS, ShapeEx.initS, ShapeEx.progModal_screenOnly,
    ShapeEx.progModal_closedSilent, hr, hc, hs1, hs2, hr2, ht, h1, h2, h3, h4, h5, h6, h7, h9⟩

end Simpleline
