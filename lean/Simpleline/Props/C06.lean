/-
  C06 — Each typed line reaches exactly the screen that asked — once, in order, intact.

  Property theorems only; the proofs are in `Simpleline/Lemmas/Input*.lean`, the vocabulary in
  `Simpleline/Spec/InputSpec.lean`.  See `Props/C18.lean` for the reading guide of the input pipeline.

  The path of a typed line: the reader thread (`Cfg.deliver`, an environment transition that can happen at
  any moment) logs `Ev.read line` and enqueues an `InputReceivedSignal` (`readSig`); the thread manager's
  handler (`inputReceived s`) hands it off as the successful `InputReadySignal` (`okSig`) to the newest
  requester; that requester's `InputHandler` (`inputReady n s`) stores it and, for a screen's request,
  invokes the one-shot callback `processInput scr line`, which calls the screen's `input` method
  (`callScr scr .input args (some line)`, logged as `Ev.cb scr .input args (some line)`).

  What is proved, and what is not:
  * intact / no invented line / at most once: full strength, as invariants of every reachable
    configuration (`C06_line_intact`, `C06_at_most_once`), under the two hypotheses `UserHandlers` and `NoForge`
    (both needed, see `C18`), plus the chain of single-transition lemmas, which hold for every configuration;
  * "exactly once" additionally needs liveness (the signals are eventually dispatched), which does not hold
    unconditionally: an `InputReadySignal` routed to an outer, blocked level of a screen that is closed in the
    meantime, `force_quit` (enqueues are dropped), or the end of the run can leave a line undelivered — not stated;
  * to the asking screen: the callback goes to the screen whose request it was (`C06_callback_owner`), with the
    arguments of that screen's **latest** request (`C06_args_*`); these are the arguments of the answered request
    unless the screen asked again before the answer was dispatched (`C06_args_can_be_a_later_request's`);
  * order: lines are read in order and strictly one after the other up to the hand-off
    (`C06_reads_in_order`, `C06_one_line_at_a_time`); **beyond the hand-off the order can be violated**
    (`C06_order_can_be_violated`).
-/
import Simpleline.Lemmas.InputC06

namespace Simpleline
open Input

/-! ### 1. the data path, transition by transition (every configuration, every program) -/

/-- **Reader thread.** A delivery consumes exactly the next line of the console input (the empty line if
the input is exhausted), logs it, and enqueues exactly one `InputReceivedSignal` carrying exactly that
line, for the request of the first waiting reader; nothing else changes in the pipeline. -/
theorem C06_deliver (c c' : Cfg) (h : c.deliver = some c') :
    ∃ r rs, c.A.readers = r :: rs ∧ c'.A.readers = rs ∧ c'.A.stdin = c.A.stdin.tail ∧
      newLog c c' = [.read (c.A.stdin.headD [])] ∧ newTr c c' = [enqEvent c (readSig c r)] ∧
      c'.code = c.code ∧ c'.A.ihs = c.A.ihs ∧ c'.A.reqs = c.A.reqs ∧ c'.A.inputStack = c.A.inputStack :=
  deliver_step h

/-- the signal of a delivery carries the line read, is an `InputReceivedSignal` of priority 0 -/
theorem C06_readSig (c : Cfg) (r : Nat) :
    (readSig c r).line = c.A.stdin.headD [] ∧ (readSig c r).cls = .inputReceived ∧ (readSig c r).prio = 0 ∧
    (readSig c r).src = .req r := ⟨rfl, rfl, rfl, rfl⟩

/-- **End of input is the empty line.** -/
theorem C06_eof_empty (c c' : Cfg) (h : c.deliver = some c') (heof : c.A.stdin = []) :
    newLog c c' = [.read []] ∧ ∀ r, (readSig c r).line = [] :=
  eof_empty h heof

/-- **Hand-off forwards the line unchanged.** The first signal of the hand-off is the successful one: it carries
`s.line` as it is and is addressed to the requester and handler of the newest request; none of the other signals
carries a line. (The full statement about the step is `C18_handoff`.) -/
theorem C06_handoff_forwards (reqs : List Request) (rs : List Nat) (r : Nat) (line : Str) (sid : Nat) :
    (handoffSigs reqs rs r line sid).head? = some (okSig reqs r line sid) ∧
    (okSig reqs r line sid).line = line ∧ (okSig reqs r line sid).ok = true ∧
    ∀ x ∈ (handoffSigs reqs rs r line sid).tail, x.ok = false ∧ x.line = [] ∧ x.carriesLine = false :=
  handoff_forwards reqs rs r line sid

/-- **Handler forwards the line unchanged** to the one-shot callback: for a successful signal addressed to
handler `n` whose callback is screen `scr`'s, the next instruction is `processInput scr s.line`, and the handler
keeps `s.line` as its value. (The full statement is `C18_handler_result`.) -/
theorem C06_handler_forwards (P : Prog) (c : Cfg) (n : Nat) (s : Sig) (rest : List Instr) (scr : Nat)
    (hc : c.code = .inputReady n s :: rest) (hn : n < c.A.ihs.length) (hs : s.ih = n) (hok : s.ok = true)
    (hcb : (c.A.ihs.getD n default).cb = some scr) :
    ∃ c', step P c = .ok c' ∧ c'.code = .processInput scr s.line :: rest ∧
      (c'.A.ihs.getD n default).value = some s.line ∧ (c'.A.ihs.getD n default).cb = none :=
  handler_forwards P c n s rest scr hc hn hs hok hcb

/-- **`process_input` passes the line unchanged** as `key` of the screen's `input` method, together with the
input arguments currently stored for that screen. -/
theorem C06_processInput (P : Prog) (c : Cfg) (scr : Nat) (key : Str) (rest : List Instr)
    (hc : c.code = .processInput scr key :: rest) :
    step P c = .ok { c with code := [.callScr scr .input (c.A.scr scr).inputArgs (some key), .classify scr,
                                     .catchPI scr, .countAndAct scr, .endPI] ++ rest } :=
  step_processInput P c scr key rest hc

/-- **The callback is logged as called**: a `callScr` step logs exactly its own callback event (and, if the
reader thread delivers at that moment, the line read, after it). -/
theorem C06_callback_logged (P : Prog) (c : Cfg) (scr : Nat) (cb : Cb) (arg : Option Nat) (key : Option Str)
    (rest : List Instr) (hc : c.code = .callScr scr cb arg key :: rest) :
    ∃ c', step P c = .ok c' ∧
      ∃ pre, c'.log = pre ++ .cb scr cb arg key :: c.log ∧ (pre = [] ∨ ∃ l, pre = [.read l]) :=
  step_callScr_log P c scr cb arg key rest hc

/-! ### 1'. intact: every line in the pipeline was read from the console -/

/-- **Intact.** In every reachable configuration: every pending signal that carries a line (an
`InputReceivedSignal`, or a successful `InputReadySignal`), every such signal ever enqueued or dropped
(`.enq`/`.dropped` in the history), and every line ever handed to an `input` callback is — character for
character — a line that was read from the console. -/
theorem C06_line_intact (P : Prog) (c0 c : Cfg) (h0 : Started c0) (hU : UserHandlers c0) (hF : NoForge P c0)
    (hr : Reach P c0 c) :
    (∀ s ∈ c.pending, s.carriesLine = true → s.line ∈ readLines c.log) ∧
    (∀ q s, (Tr.enq q s ∈ c.tr ∨ Tr.dropped s ∈ c.tr) → s.carriesLine = true → s.line ∈ readLines c.log) ∧
    (∀ l ∈ inputLines c.log, l ∈ readLines c.log) :=
  line_intact h0 hU hF hr

/-! ### 4. at most once -/

/-- **No duplication.** In every reachable configuration every text was handed to `input` callbacks at most as
many times as it was read from the console: no typed line is delivered twice (to the same or to different
screens), and none is invented. -/
theorem C06_at_most_once (P : Prog) (c0 c : Cfg) (h0 : Started c0) (hU : UserHandlers c0) (hF : NoForge P c0)
    (hr : Reach P c0 c) (l : Str) : (inputLines c.log).count l ≤ (readLines c.log).count l :=
  inputCount_le_readCount h0 hU hF hr l

/-- the one-shot callback: whatever a transition does, a handler's callback that is used up or absent stays so
(same statement as `C18_callback_one_shot`), and each `InputHandler` makes one request only
(`C18_references_valid`) -/
theorem C06_callback_one_shot (P : Prog) (c c' : Cfg) (ht : Trans P c c') (n : Nat) (hn : n < c.A.ihs.length)
    (scr : Nat) (h1 : (c'.A.ihs.getD n default).cb = some scr) : (c.A.ihs.getD n default).cb = some scr :=
  cb_never_rearmed (trans_inpTrans ht) n hn scr h1

/-! ### 3. to the screen that asked, with its arguments -/

/-- **The callback belongs to the asking screen.** In every reachable configuration (every program): a handler whose
one-shot callback is `process_input` of screen `scr` was created by — and is the source `.scr scr` of — that
screen, and every request's requester is the source of its handler. So the successful signal of a hand-off is
addressed (`src`, `ih`) to the screen and handler that made the newest request, and the `input` callback it
triggers is that screen's. -/
theorem C06_callback_owner (P : Prog) (c0 c : Cfg) (h0 : Started c0) (hr : Reach P c0 c) :
    (∀ (n : Nat) (h : IHandler), c.A.ihs[n]? = some h → ∀ scr, h.cb = some scr → h.source = .scr scr) ∧
    (∀ R ∈ c.A.reqs, ∃ h, c.A.ihs[R.ih]? = some h ∧ R.requester = h.source) :=
  ⟨(cbInv_reach h0 hr).cb_source, (cbInv_reach h0 hr).req_source⟩

/-- **A screen's request**: `maybeInput top` (after drawing an entry whose screen requires input) asks with the
entry's screen and arguments; the prompt callback gets the same arguments; and `getInput2 scr args` — unless the
prompt was `None` — creates the handler with callback and source `scr`, makes the request with requester `scr`,
and stores `args` as the input arguments of `scr` (and of no other screen). -/
theorem C06_maybeInput (P : Prog) (c : Cfg) (top : Entry) (rest : List Instr) (hc : c.code = .maybeInput top :: rest) :
    step P c = .ok (if (P.spec top.screen).inputRequired then
      { c with code := .getInput top.screen top.args :: rest } else { c with code := rest }) :=
  step_maybeInput P c top rest hc

theorem C06_getInput (P : Prog) (c : Cfg) (scr : Nat) (args : Option Nat) (rest : List Instr)
    (hc : c.code = .getInput scr args :: rest) :
    step P c = .ok { c with code := .callScr scr .prompt args none :: .getInput2 scr args :: rest } :=
  step_getInput P c scr args rest hc

theorem C06_screen_request (P : Prog) (c : Cfg) (scr : Nat) (args : Option Nat) (rest : List Instr)
    (hc : c.code = .getInput2 scr args :: rest) (hp : c.retPromptNone = false) :
    Requested c (final (step P c)) (freshIH (.scr scr) (P.spec scr).skipCheck (some scr))
      (promptText P defaultPrompt) ∧
    ∀ j, ((final (step P c)).A.scr j).inputArgs = if scr = j then args else (c.A.scr j).inputArgs :=
  ⟨screen_request P c scr args rest hc hp, getInput2_args P c scr args rest hc hp⟩

/-- **The arguments are those of the screen's latest request.** The input arguments stored for a screen — the ones
`process_input` passes to `input` (`C06_processInput`) — change in no transition other than that screen's own
`getInput2` (with a prompt that is not `None`), which sets them to its `args`. -/
theorem C06_args_change_only_by_request (P : Prog) (c c' : Cfg) (ht : Trans P c c') (j : Nat)
    (hne : (c'.A.scr j).inputArgs ≠ (c.A.scr j).inputArgs) :
    ∃ args rest, c.code = .getInput2 j args :: rest ∧ c.retPromptNone = false ∧ (c'.A.scr j).inputArgs = args :=
  inputArgs_change ht j hne

/-! ### 5. order -/

/-- **Lines are read in the order typed.** In every reachable configuration the lines read so far are the first
lines of the console input, in order (followed by empty lines once the input is exhausted), and the console holds
exactly the rest. -/
theorem C06_reads_in_order (P : Prog) (c0 c : Cfg) (h0 : Started c0) (hr : Reach P c0 c) :
    readLines c.log = (List.range (readLines c.log).length).map (c0.A.stdin.getD · []) ∧
    c.A.stdin = c0.A.stdin.drop (readLines c.log).length :=
  readOrder_reach h0 hr

/-- **One line at a time up to the hand-off.** Whenever a reader thread exists — in particular at every delivery —
no earlier `InputReceivedSignal` is waiting in any queue or being dispatched to the thread manager: line `k+1` is
not even read before line `k` has been handed off to its requester. So two lines cannot overtake each other
between the console and the hand-off (no FIFO argument is needed for this part). -/
theorem C06_one_line_at_a_time (P : Prog) (c0 c : Cfg) (h0 : Started c0) (hU : UserHandlers c0)
    (hF : NoForge P c0) (hr : Reach P c0 c) (hrd : c.A.readers ≠ []) :
    c.A.readers.length = 1 ∧ irQueued c = 0 ∧ irCode c.code = 0 :=
  (reader_busy_of_inv (inputInv_reach h0 hU hF hr) hrd).2.2

/-
  Beyond the hand-off: the `InputReadySignal`s are enqueued at priority 0 into the level their requester
  routes to, and each level's queue is FIFO per priority (C01: `C01_history`). Within one level, therefore,
  successful signals are dispatched in hand-off order, i.e. in the order typed. Across levels this fails:
  see `C06_order_can_be_violated`. The composition with C01 is not stated here.
-/

/-! ### non-vacuity and the limits of the property -/

/-- one screen, scheduled with argument 7; two lines are typed: "hello" (not understood: the screen asks again),
then "c" (continue: the screen closes and the application ends) -/
def C06_exP : Prog := { cc := asciiClass, screens := [{ name := ['A'], title := some ['T'] }] }
def C06_exC : Cfg := initCfg [.schedule 0 (some 7)] [] none ["hello".toList, ['c']]

example :
    let c := (runFuel C06_exP 400 C06_exC).1
    (runFuel C06_exP 400 C06_exC).2 = .returned ∧
    readLines c.log = ["hello".toList, ['c']] ∧ inputLines c.log = ["hello".toList, ['c']] ∧
    c.log.reverse.filterMap (fun e => match e with | .cb s .input a k => some (s, a, k) | _ => none) =
      [(0, some 7, some "hello".toList), (0, some 7, some ['c'])] ∧
    UserHandlers C06_exC ∧ C06_exC.NoForge := by
  decide +kernel

/-- **The arguments can be those of a later request.** Screen 0 asks with argument 1; while a handler runs, the
line "one" arrives and the handler replaces the screen by itself with argument 2; the redraw is dispatched before
the `InputReadySignal`, so the screen asks again (argument 2) before the answer to its first request is
dispatched: "one", typed at the prompt for argument 1, is handed to `input` with argument 2. -/
def C06_argsP : Prog :=
  { cc := asciiClass, screens := [{ name := ['A'] }],
    handlerScript := fun hid n => if hid = 0 ∧ n = 0 then [.replace 0 (some 2)] else [],
    deliverAt := [5] }
def C06_argsC : Cfg :=
  initCfg [.schedule 0 (some 1), .enq (.user 0) 0 .none 5] [(.user 0, .user 0, none)] none ["one".toList]

theorem C06_args_can_be_a_later_request's :
    ∃ c, Reach C06_argsP C06_argsC c ∧ UserHandlers C06_argsC ∧ C06_argsC.NoForge ∧
      c.log.reverse.filterMap (fun e => match e with
        | .cb s .prompt a _ => some (s, a, none) | .read l => some (0, none, some l)
        | .cb s .input a k => some (s, a, k) | _ => none) =
      [(0, some 1, none), (0, none, some "one".toList), (0, some 2, none), (0, some 2, some "one".toList),
       (0, some 2, none)] :=
  ⟨(runFuel C06_argsP 400 C06_argsC).1, reach_runFuel _ _ _ _ .init, by decide, by decide, by decide +kernel⟩

/-- **Beyond the hand-off the order typed can be violated — even for a single screen.** Screen 0 asks in the
outermost level; a handler opens a modal screen (a nested loop level); "one" arrives and is handed off, but its
`InputReadySignal` is routed to the outer level, which is blocked while the modal level runs; inside the modal level
screen 0 is pushed again and asks again: it gets "two" and "c" first, and "one" only after the modal level was
left. Every line still arrives intact and once. -/
def C06_orderP : Prog :=
  { cc := asciiClass,
    screens := [{ name := ['A'] }, { name := ['B'], inputRequired := false }],
    handlerScript := fun hid n =>
      if hid = 0 ∧ n = 0 then [.pushModal 1 none]
      else if hid = 1 ∧ n = 0 then [.push 0 none] else [],
    screenScript := fun scr cb n =>
      if scr = 1 ∧ cb = .show ∧ n = 0 then { acts := [.enq (.user 1) 0 .none 6] }
      else if scr = 1 ∧ cb = .show ∧ n = 1 then { acts := [.closeDirect] } else {},
    deliverAt := [8] }
def C06_orderC : Cfg :=
  initCfg [.schedule 0 none, .enq (.user 0) 0 .none 5] [(.user 0, .user 0, none), (.user 1, .user 1, none)] none
    ["one".toList, "two".toList, ['c'], ['c']]

theorem C06_order_can_be_violated :
    ∃ c, Reach C06_orderP C06_orderC c ∧ UserHandlers C06_orderC ∧ C06_orderC.NoForge ∧
      readLines c.log = ["one".toList, "two".toList, ['c'], ['c']] ∧
      c.log.reverse.filterMap (fun e => match e with | .cb s .input _ k => some (s, k) | _ => none) =
        [(0, some "two".toList), (0, some ['c']), (0, some "one".toList), (0, some ['c'])] :=
  ⟨(runFuel C06_orderP 2000 C06_orderC).1, reach_runFuel _ _ _ _ .init, by decide, by decide, by decide +kernel,
    by decide +kernel⟩

/-- **`NoForge` is needed** for "intact": an application that enqueues an `InputReceivedSignal` of its own
(the program of `C18_one_reader_needs_NoForge`) gets the empty line — which nobody typed — handed to the screen's
`input` method. -/
def C06_forgeP : Prog := { cc := asciiClass, screens := [{ name := ['A'] }] }
def C06_forgeC : Cfg := initCfg [.schedule 0 none, .enq .inputReceived 0 .none 7] [] none []

theorem C06_line_intact_needs_NoForge :
    ∃ c, Reach C06_forgeP C06_forgeC c ∧ UserHandlers C06_forgeC ∧
      inputLines c.log = [[]] ∧ readLines c.log = [] :=
  ⟨(runFuel C06_forgeP 60 C06_forgeC).1, reach_runFuel _ _ _ _ .init, by decide, by decide +kernel,
    by decide +kernel⟩

end Simpleline
