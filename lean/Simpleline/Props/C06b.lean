/-
  C06b — Typed lines reach `input()` in the order typed (the positive half of C06's order clause).

  Property theorems only; the proofs are in `Simpleline/Lemmas/InputOrder*.lean` (on top of `Lemmas/Input*.lean`
  and `Lemmas/Loop*.lean`), the vocabulary in `Simpleline/Spec/InputOrderSpec.lean`.

  `Props/C06.lean` proves the order up to the hand-off (`C06_reads_in_order`, `C06_one_line_at_a_time`) and shows
  that beyond it the order can be violated (`C06_order_can_be_violated`, finding K5). Here: **when** it is kept.

  `readLines c.log` are the lines read from the console so far, `inputLines c.log` the lines handed to `input`
  callbacks so far, both oldest first. "In the order typed, none twice" is `inputLines c.log <+ readLines c.log`
  (`List.Sublist`: a subsequence — positions, not only values: `C06_order_positions`). It is stronger than
  `C06_at_most_once`.

  Two decidable predicates over the history make it true; each excludes exactly one mechanism by which a later
  line overtakes an earlier one, and each is needed (kernel-checked counterexamples below):

  * `NoReadyCovered c.tr` — at no moment was a successful `InputReadySignal` pending in a *covered* loop level
    (a level of `MainLoop._event_queues` that is not the innermost one). It fails if the hand-off *routes* the
    signal into an enclosing level (K5 as found), **or** if a nested loop is *opened* (a modal screen,
    `execute_new_loop`) while the signal waits in the queue of the level that becomes covered. The second way is
    not seen by the routing-only condition `ReadyInTop` ("every `InputReadySignal` was put into the level that was
    innermost at that moment"), which is therefore **not** sufficient: `C06_order_within_level_needs_NoReadyCovered`.
  * `NoReadyReentry c.tr` — no successful `InputReadySignal` was taken for dispatch while an earlier one was still
    on its way to its `InputHandler`. It fails only if the application registered a handler of its own for
    `InputReadySignal` (such handlers run before the `InputHandler`'s) that re-enters the loop, and a further
    line is typed, handed off and dispatched in there — **even with a single loop level**:
    `C06_order_within_level_needs_NoReadyReentry`. For applications that register no handler for `InputReadySignal`
    (`NoReadyHandler c0`, a decidable condition on the start configuration) it is not needed:
    `C06_order_no_ready_handler`, `C06_exactly_typed_order_single_level`.

  For the harness: the right history classifier of finding K5 is `¬ NoReadyCovered` (not the routing-only flag
  `¬ ReadyInTop`); order violations outside it are classified by `¬ NoReadyReentry` (a second, independent finding:
  re-entrant dispatch of `InputReadySignal`).
-/
import Simpleline.Lemmas.InputOrderStatic
import Simpleline.Props.C06

namespace Simpleline
open Input InputOrder

/-! ### the order theorem -/

/-- **Lines reach `input()` in the order typed.** For every program and every reachable configuration whose history
never had a successful `InputReadySignal` pending in a covered loop level (`NoReadyCovered`) and never dispatched one
inside the dispatch of another (`NoReadyReentry`): the lines handed to `input` callbacks so far are a subsequence of
the lines read from the console so far — every line at most once, and in the order read, which is the order typed
(`C06_reads_in_order`). No bound on the number of screens, levels or lines; every timing of the reader thread.

Why it holds: a line is read only after the previous one was handed off (`C06_one_line_at_a_time`); under
`NoReadyCovered` the hand-off puts the successful signal, at priority 0, into the *active* queue, behind the
successful signals already there (C01: first-in first-out within a priority); signals are only ever taken from the
active queue (C03), whose successful `InputReadySignal`s therefore leave in hand-off order; opening a level starts
with an empty queue, and a level that becomes active again on `close_loop` holds none; under `NoReadyReentry` a taken
signal reaches its `InputHandler` — and the one-shot callback reaches `input` — before the next one is taken. -/
theorem C06_order_within_level (P : Prog) (c0 c : Cfg) (h0 : Started c0) (hU : UserHandlers c0) (hF : NoForge P c0)
    (hr : Reach P c0 c) (hC : NoReadyCovered c.tr) (hE : NoReadyReentry c.tr) :
    (inputLines c.log).Sublist (readLines c.log) :=
  order_reach h0 hU hF hr hC hE

/-- **The same for applications without a handler for `InputReadySignal`** (`NoReadyHandler c0`: none registered
before `run()`; the model has no later registration): between taking a successful `InputReadySignal` from the queue
and calling the handler of its `InputHandler` no application code runs at all, so nothing can be dispatched in
between, and only `NoReadyCovered` is left as a hypothesis on the history. It is still needed:
the program of `C06_order_within_level_needs_NoReadyCovered` registers no such handler. -/
theorem C06_order_no_ready_handler (P : Prog) (c0 c : Cfg) (h0 : Started c0) (hU : UserHandlers c0) (hF : NoForge P c0)
    (hH : NoReadyHandler c0) (hr : Reach P c0 c) (hC : NoReadyCovered c.tr) :
    (inputLines c.log).Sublist (readLines c.log) :=
  order_reach_static h0 hU hF hH hr hC

/-- **… with the positions made explicit.** There is a strictly increasing `f` such that the `k`-th line handed to an
`input` callback is line number `f k` of the console input (the empty line beyond its end): equal texts typed twice
are told apart, and the `k`-th delivery never goes back behind the `(k-1)`-th. -/
theorem C06_order_positions (P : Prog) (c0 c : Cfg) (h0 : Started c0) (hU : UserHandlers c0) (hF : NoForge P c0)
    (hr : Reach P c0 c) (hC : NoReadyCovered c.tr) (hE : NoReadyReentry c.tr) :
    ∃ f : Nat → Nat, (∀ i j, i < j → j < (inputLines c.log).length → f i < f j) ∧
      ∀ k, k < (inputLines c.log).length →
        f k < (readLines c.log).length ∧ (inputLines c.log)[k]? = some (c0.A.stdin.getD (f k) []) :=
  order_positions h0 hU hF hr hC hE

/-- `List.Sublist` is exactly "an embedding at strictly increasing positions" (`EmbedsAt`, in
`Spec/InputOrderSpec.lean`) -/
theorem C06_sublist_positions {α} (l₁ l₂ : List α) (h : l₁.Sublist l₂) : ∃ f, EmbedsAt f l₁ l₂ :=
  embedsAt_of_sublist h

/-- **What is still waiting is in order, too.** Under the same hypotheses: the lines already handed to `input`,
followed by the lines of the successful `InputReadySignal`s waiting in the active queue *in queue order*, are a
subsequence of the lines read. So whatever the loop dispatches next from this queue is later than everything
delivered, and the waiting lines will be delivered in the order typed. -/
theorem C06_pending_in_order (P : Prog) (c0 c : Cfg) (h0 : Started c0) (hU : UserHandlers c0) (hF : NoForge P c0)
    (hr : Reach P c0 c) (hC : NoReadyCovered c.tr) (hE : NoReadyReentry c.tr) :
    (inputLines c.log ++ ((c.queue c.L.active).sigs.filter Sig.okReady).map (·.line)).Sublist (readLines c.log) :=
  pending_order_reach h0 hU hF hr hC hE

/-- **Under `NoReadyCovered` the state agrees with the history:** no covered level holds a successful
`InputReadySignal` (`levelsOf c.tr` is `c.L.levels`, `readyPending q c.tr` counts queue object `q`). -/
theorem C06_covered_levels_hold_no_line (P : Prog) (c0 c : Cfg) (h0 : Started c0) (hr : Reach P c0 c)
    (hC : NoReadyCovered c.tr) :
    levelsOf c.tr = c.L.levels ∧ (∀ q, readyPending q c.tr = (c.queue q).sigs.countP Sig.okReady) ∧
      ∀ q ∈ c.L.levels.dropLast, ∀ s ∈ (c.queue q).sigs, s.okReady = false :=
  ⟨levOK_reach h0 hr, readyPending_reach h0 hr, covered_no_ready h0 hr hC⟩

/-! ### a single loop level -/

/-- **Applications that never open a nested loop** (no modal screen, no `execute_new_loop`: the history has no
`.openLevel`) **and register no handler for `InputReadySignal`**: the lines reach `input()` in the order typed, each
at most once — no further hypothesis on the history (`NoReadyCovered` holds by itself: there is never a covered
level). The condition on the handlers cannot be dropped: `C06_order_within_level_needs_NoReadyReentry` is a
single-level program. -/
theorem C06_exactly_typed_order_single_level (P : Prog) (c0 c : Cfg) (h0 : Started c0) (hU : UserHandlers c0)
    (hF : NoForge P c0) (hH : NoReadyHandler c0) (hr : Reach P c0 c) (hO : NoOpenLevel c.tr) :
    (inputLines c.log).Sublist (readLines c.log) :=
  order_reach_static h0 hU hF hH hr (noReadyCovered_of_noOpen hO)

/-- … or, with handlers for `InputReadySignal` registered, provided `NoReadyReentry`. -/
theorem C06_exactly_typed_order_single_level_of_NoReadyReentry (P : Prog) (c0 c : Cfg) (h0 : Started c0)
    (hU : UserHandlers c0) (hF : NoForge P c0) (hr : Reach P c0 c) (hO : NoOpenLevel c.tr)
    (hE : NoReadyReentry c.tr) : (inputLines c.log).Sublist (readLines c.log) :=
  order_reach h0 hU hF hr (noReadyCovered_of_noOpen hO) hE

/-- a history without `execute_new_loop` satisfies `NoReadyCovered` -/
theorem C06_single_level_never_covered (tr : List Tr) (hO : NoOpenLevel tr) : NoReadyCovered tr :=
  noReadyCovered_of_noOpen hO

/-! ### non-vacuity -/

/-- one screen, three lines: "hello" and "x" are not understood (the screen asks again), "c" closes the screen and
ends the application -/
def C06b_exP : Prog := { cc := asciiClass, screens := [{ name := ['A'], title := some ['T'] }] }
def C06b_exC : Cfg := initCfg [.schedule 0 (some 7)] [] none ["hello".toList, ['x'], ['c']]

example :
    let c := (runFuel C06b_exP 600 C06b_exC).1
    (runFuel C06b_exP 600 C06b_exC).2 = .returned ∧
    UserHandlers C06b_exC ∧ C06b_exC.NoForge ∧ NoReadyHandler C06b_exC ∧ NoReadyCovered c.tr ∧ NoReadyReentry c.tr ∧
    NoOpenLevel c.tr ∧
    readLines c.log = ["hello".toList, ['x'], ['c']] ∧ inputLines c.log = ["hello".toList, ['x'], ['c']] := by
  decide +kernel

/-- two levels: "one" makes screen 0 open the modal screen 1 (a nested loop), which gets "two" (not understood) and
"c" (closes it, the nested loop ends): three lines, two levels, every hand-off into the innermost level -/
def C06b_modalP : Prog :=
  { cc := asciiClass, screens := [{ name := ['A'] }, { name := ['B'] }],
    screenScript := fun scr cb n =>
      if scr = 0 ∧ cb = .input ∧ n = 0 then { acts := [.pushModal 1 none], ret := .state "PROCESSED" } else {} }
def C06b_modalC : Cfg := initCfg [.schedule 0 none] [] none ["one".toList, "two".toList, ['c']]

example :
    let c := (runFuel C06b_modalP 3000 C06b_modalC).1
    UserHandlers C06b_modalC ∧ C06b_modalC.NoForge ∧ NoReadyHandler C06b_modalC ∧ NoReadyCovered c.tr ∧
    NoReadyReentry c.tr ∧ ¬ NoOpenLevel c.tr ∧
    readLines c.log = ["one".toList, "two".toList, ['c']] ∧
    c.log.reverse.filterMap (fun e => match e with | .cb s .input _ k => some (s, k) | _ => none) =
      [(0, some "one".toList), (1, some "two".toList), (1, some ['c'])] := by
  decide +kernel

/-! ### the hypotheses are needed -/

/-- the K5 witness of `Props/C06.lean` (`C06_order_can_be_violated`) is excluded by `NoReadyCovered` — there the
hand-off routes the signal into the outer, covered level (`ReadyInTop` fails as well) -/
example :
    ¬ NoReadyCovered (runFuel C06_orderP 2000 C06_orderC).1.tr ∧ ¬ ReadyInTop (runFuel C06_orderP 2000 C06_orderC).1.tr ∧
      NoReadyReentry (runFuel C06_orderP 2000 C06_orderC).1.tr := by
  decide +kernel

/-- **The routing condition `ReadyInTop` is not enough; `NoReadyCovered` is needed** — ordinary user signals, one
modal screen and the timing of the reader thread suffice. Screen 0 asks in the outermost level. While the handler of
user signal 0 runs, "one" is read (its `InputReceivedSignal` is enqueued); then that handler enqueues user signal 1:
the queue is [received "one", user 1]. The hand-off puts the successful `InputReadySignal` for "one" *behind* user
signal 1 — into the outermost level, which is the innermost one at that moment. User signal 1 is dispatched first:
its handler opens the modal screen 1, a nested loop; "one" is now covered. Inside, screen 0 is pushed again, asks
again and gets "two" and "c"; "one" arrives when the modal screen has been closed. Every `InputReadySignal` of the
history was put into the then-innermost level (`ReadyInTop`), no application handler for `InputReadySignal` exists
(`NoReadyHandler`, hence no re-entry) — and the order is violated. -/
def C06b_coverP : Prog :=
  { cc := asciiClass,
    screens := [{ name := ['A'] }, { name := ['B'], inputRequired := false }],
    handlerScript := fun hid n =>
      if hid = 0 ∧ n = 0 then [.enq (.user 1) 0 .none 6]
      else if hid = 1 ∧ n = 0 then [.pushModal 1 none]
      else if hid = 2 ∧ n = 0 then [.push 0 none] else [],
    screenScript := fun scr cb n =>
      if scr = 1 ∧ cb = .show ∧ n = 0 then { acts := [.enq (.user 2) 0 .none 7] }
      else if scr = 1 ∧ cb = .show ∧ n = 1 then { acts := [.closeDirect] } else {},
    deliverAt := [5] }
def C06b_coverC : Cfg :=
  initCfg [.schedule 0 none, .enq (.user 0) 0 .none 5]
    [(.user 0, .user 0, none), (.user 1, .user 1, none), (.user 2, .user 2, none)] none
    ["one".toList, "two".toList, ['c'], ['c']]

theorem C06b_coverP_noForge : C06b_coverP.NoForge := by
  constructor
  · intro scr cb n a ha
    simp only [C06b_coverP] at ha
    split at ha
    · simp only [List.mem_singleton] at ha; subst ha; rfl
    · split at ha
      · simp only [List.mem_singleton] at ha; subst ha; rfl
      · cases ha
  · intro hid n a ha
    simp only [C06b_coverP] at ha
    split at ha
    · simp only [List.mem_singleton] at ha; subst ha; rfl
    · split at ha
      · simp only [List.mem_singleton] at ha; subst ha; rfl
      · split at ha
        · simp only [List.mem_singleton] at ha; subst ha; rfl
        · cases ha

theorem C06_order_within_level_needs_NoReadyCovered :
    ∃ c, Reach C06b_coverP C06b_coverC c ∧ UserHandlers C06b_coverC ∧ NoForge C06b_coverP C06b_coverC ∧
      NoReadyHandler C06b_coverC ∧ ReadyInTop c.tr ∧ NoReadyReentry c.tr ∧ ¬ NoReadyCovered c.tr ∧
      readLines c.log = ["one".toList, "two".toList, ['c'], ['c']] ∧
      inputLines c.log = ["two".toList, ['c'], "one".toList, ['c']] ∧
      ¬ (inputLines c.log).Sublist (readLines c.log) :=
  ⟨(runFuel C06b_coverP 3000 C06b_coverC).1, reach_runFuel _ _ _ _ .init, by decide,
    ⟨C06b_coverP_noForge, by decide⟩, by decide,
    by decide +kernel, by decide +kernel, by decide +kernel, by decide +kernel, by decide +kernel, by decide +kernel⟩

/-- **`NoReadyReentry` is needed — even with a single loop level.** The application registered a handler for
`InputReadySignal`; it runs before the `InputHandler`'s own handler. When "one" is dispatched, that handler redraws
and processes signals until the next `InputReadySignal` (`process_signals(return_after=InputReadySignal)`): the
screen is drawn and asks again, "two" is typed, handed off and dispatched to `input()` — inside the dispatch of
"one", which reaches `input()` only when the handler returns. No nested loop was ever opened. -/
def C06b_reentryP : Prog :=
  { cc := asciiClass, screens := [{ name := ['A'] }],
    handlerScript := fun hid n => if hid = 0 ∧ n = 0 then [.schedRedraw, .proc (some .inputReady)] else [],
    screenScript := fun scr cb _ => if scr = 0 ∧ cb = .input then { ret := .state "PROCESSED" } else {} }
def C06b_reentryC : Cfg :=
  initCfg [.schedule 0 none] [(.inputReady, .user 0, none)] none ["one".toList, "two".toList]

theorem C06b_reentryP_noForge : C06b_reentryP.NoForge := by
  constructor
  · intro scr cb n a ha
    simp only [C06b_reentryP] at ha
    split at ha <;> cases ha
  · intro hid n a ha
    simp only [C06b_reentryP] at ha
    split at ha
    · simp only [List.mem_cons, List.not_mem_nil, or_false] at ha
      rcases ha with rfl | rfl <;> rfl
    · cases ha

theorem C06_order_within_level_needs_NoReadyReentry :
    ∃ c, Reach C06b_reentryP C06b_reentryC c ∧ UserHandlers C06b_reentryC ∧ NoForge C06b_reentryP C06b_reentryC ∧
      ¬ NoReadyHandler C06b_reentryC ∧ NoOpenLevel c.tr ∧ NoReadyCovered c.tr ∧ ReadyInTop c.tr ∧
      ¬ NoReadyReentry c.tr ∧
      readLines c.log = ["one".toList, "two".toList] ∧ inputLines c.log = ["two".toList, "one".toList] ∧
      ¬ (inputLines c.log).Sublist (readLines c.log) :=
  ⟨(runFuel C06b_reentryP 3000 C06b_reentryC).1, reach_runFuel _ _ _ _ .init, by decide,
    ⟨C06b_reentryP_noForge, by decide⟩, by decide,
    by decide +kernel, by decide +kernel, by decide +kernel, by decide +kernel, by decide +kernel, by decide +kernel,
    by decide +kernel⟩

end Simpleline
