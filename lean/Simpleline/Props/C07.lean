/-
  C07 — What `input()` returns decides exactly one follow-up action.

  `process_input` is the instruction sequence `callScr scr .input … (some key)` (the screen's
  `input()`; its scripted return value goes through `scrRet` into the registers `retInput`/`retKey`),
  `classify scr` (`retAction := classifyRet retInput retKey`), `catchPI scr` (the `except` of
  `process_input`), `countAndAct scr` (count the rejection or reset the count, then act) and `endPI`.
  `Cfg.counted`, `Cfg.errAfter`, `InputOutcome` are in `Spec/SchedSpec.lean`.
-/
import Simpleline.Lemmas.SchedExamples

namespace Simpleline

/-! ### the table -/

/-- The classification of an answer is the stated table: the four states, `None`, a returned string
(one of the global keys or anything else); when the screen returns the typed key itself (the default
`input()`), the typed key is looked up the same way. The right-hand sides are pairwise different
actions, so every answer has exactly one. -/
theorem C07_table (key : Str) :
    classifyRet (.state "PROCESSED") key = .noop ∧
    classifyRet (.state "REDRAW") key = .redraw ∧
    classifyRet (.state "CLOSE") key = .close ∧
    classifyRet (.state "DISCARDED") key = .error ∧
    (∀ s, s ≠ "PROCESSED" → s ≠ "REDRAW" → s ≠ "CLOSE" → classifyRet (.state s) key = .error) ∧
    classifyRet .none key = .error ∧
    classifyRet (.key ['r']) key = .redraw ∧
    classifyRet (.key ['c']) key = .close ∧
    classifyRet (.key ['q']) key = .quit ∧
    (∀ k, k ≠ ['r'] → k ≠ ['c'] → k ≠ ['q'] → classifyRet (.key k) key = .error) ∧
    classifyRet .dflt key = classifyRet (.key key) key :=
  ⟨rfl, rfl, rfl, rfl, fun s => classifyRet_state_other s key, rfl, rfl, rfl, rfl,
   fun k => classifyRet_key_other k key, classifyRet_dflt key⟩

/-- the table read backwards: which answers lead to which action (for the answers `input()` can give:
a state, `None`, a string, or the typed key itself) -/
theorem C07_table_inv (r : Ret) (key : Str) (hr : (∃ s, r = .state s) ∨ r = .none ∨ (∃ k, r = .key k) ∨ r = .dflt) :
    (classifyRet r key = .noop ↔ r = .state "PROCESSED") ∧
    (classifyRet r key = .redraw ↔ r = .state "REDRAW" ∨ r = .key ['r'] ∨ (r = .dflt ∧ key = ['r'])) ∧
    (classifyRet r key = .close ↔ r = .state "CLOSE" ∨ r = .key ['c'] ∨ (r = .dflt ∧ key = ['c'])) ∧
    (classifyRet r key = .quit ↔ r = .key ['q'] ∨ (r = .dflt ∧ key = ['q'])) :=
  classifyRet_inv r key hr

/-- The classification that `countAndAct` acts on is the one of this very answer: when `input()` of
`scr` returns `ret` for the typed `key` (the instruction `scrRet scr .input ret key` is next), the code
continues with classification, catcher, counting step and end marker of the same screen, and three
steps later the counting step is next with `retAction = classifyRet ret key` and nothing else
changed. -/
theorem C07_answer_decides (P : Prog) (c0 c : Cfg) (h0 : Started c0) (hr : Reach P c0 c) (scr : Nat) (ret : Ret)
    (key : Option Str) (rest : List Instr) (hc : c.code = .scrRet scr .input ret key :: rest) :
    ∃ rest', rest = .classify scr :: .catchPI scr :: .countAndAct scr :: .endPI :: rest' ∧
      ∃ c1 c2, step P c = .ok c1 ∧ step P c1 = .ok c2 ∧
        step P c2 = .ok { c with code := .countAndAct scr :: .endPI :: rest', retInput := ret, retKey := key.getD [],
                                 retAction := classifyRet ret (key.getD []) } :=
  answer_decides h0 hr hc

/-! ### exactly one action -/

/-- The counting step `countAndAct scr`, with `top` on top of the stack, does exactly one thing,
chosen by the classified answer (`InputOutcome c c' scr pushed n`: the instruction is replaced by
`pushed`, the counter of `scr` is updated, `n` render requests of the scheduler are issued, and the
stack, the log and all other screens are untouched):
* processed — nothing;
* redraw / refresh key — exactly one render request;
* close / continue key — exactly `close_screen()` (`closeScreen none`);
* quit key — without a quit dialog `ExitMainLoop` is raised; with dialog `q`, the dialog is pushed
  modally and `afterQuit q` looks at its answer afterwards (`C07_quit_dialog`);
* rejected — if the new count is a multiple of five exactly one render request, otherwise exactly a
  new input request for the top screen with the arguments it was scheduled with. -/
theorem C07_one_action (P : Prog) (c : Cfg) (scr : Nat) (rest : List Instr) (top : Entry)
    (hc : c.code = .countAndAct scr :: rest) (ht : c.A.stack.getLast? = some top) :
    match c.retAction with
    | .noop => ∃ c', step P c = .ok c' ∧ InputOutcome c c' scr [] 0
    | .redraw => ∃ c', step P c = .ok c' ∧ InputOutcome c c' scr [] 1
    | .close => ∃ c', step P c = .ok c' ∧ InputOutcome c c' scr [.closeScreen none] 0
    | .quit =>
      match P.quitScreen with
      | none => step P c = (c.counted scr rest).raise .exit
      | some q => ∃ c', step P c = .ok c' ∧ InputOutcome c c' scr [.pushModal q none, .afterQuit q] 0
    | .error =>
      if ((c.A.scr scr).err + 1) % 5 = 0 then ∃ c', step P c = .ok c' ∧ InputOutcome c c' scr [] 1
      else ∃ c', step P c = .ok c' ∧ InputOutcome c c' scr [.getInput top.screen top.args] 0 :=
  one_action hc ht

/-- After the quit dialog `q` has been closed: the application quits (`ExitMainLoop`) iff the dialog
has no `answer` attribute or its answer is true; otherwise exactly one render request is issued and
nothing else changes. -/
theorem C07_quit_dialog (P : Prog) (c : Cfg) (q : Nat) (rest : List Instr) (hc : c.code = .afterQuit q :: rest) :
    if (P.spec q).answer = none ∨ (P.spec q).answer = some (some true) then
      step P c = ({ c with code := rest } : Cfg).raise .exit
    else
      ∃ c' t, step P c = .ok c' ∧ c'.code = rest ∧ c'.A = c.A ∧ c'.log = c.log ∧ c'.tr = t :: c.tr ∧
        t.isRedraw = true :=
  quit_dialog hc

/-! ### the counter of consecutive rejections -/

/-- The counter of screen `s` after any machine step is `c.errAfter s`: it changes only in the counting
step of `s` (one more for a rejected line, reset to 0 by any accepted one) and when `s` asks for input
with a `None` prompt (reset). In particular the counters of the other screens are untouched by these
steps. -/
theorem C07_counter (P : Prog) (c c' : Cfg) (h : StepTo P c c') (s : Nat) : (c'.A.scr s).err = c.errAfter s :=
  err_after h s

/-- the reader thread handing in a line touches no counter -/
theorem C07_counter_deliver (c c' : Cfg) (h : c.deliver = some c') (s : Nat) : c'.A.scr s = c.A.scr s := by
  rw [deliver_eq_dlv h]; simp

/-- independence, spelled out: a step whose instruction is not the counting step or the input request
of `s` itself leaves the counter of `s` alone -/
theorem C07_counter_other (P : Prog) (c c' : Cfg) (h : StepTo P c c') (s : Nat)
    (h1 : ∀ rest, c.code ≠ .countAndAct s :: rest) (h2 : ∀ args rest, c.code ≠ .getInput2 s args :: rest) :
    (c'.A.scr s).err = (c.A.scr s).err :=
  err_other h s h1 h2

/-! ### an exception inside `input()` -/

/-- An ordinary exception raised while the `input()` callback of `scr` runs — the code after the
raising instruction `ins` reaches the catcher `catchPI scr` without passing another catcher of
ordinary errors — is caught there: in every such state `c1` the raise lands behind the end marker of
this `process_input` (the counting step is skipped), the screens' records and so the counter are
untouched, nothing is logged, and exactly one exception signal with source `InputManager` of `scr` is
enqueued. -/
theorem C07_exception_in_input (P : Prog) (c0 c : Cfg) (h0 : Started c0) (hr : Reach P c0 c) (ins : Instr)
    (pre post : List Instr) (scr : Nat) (hc : c.code = ins :: (pre ++ .catchPI scr :: post))
    (hpre : ∀ i ∈ pre, i.catches .err = false) (c1 : Cfg) (hc1 : c1.code = pre ++ .catchPI scr :: post) :
    ∃ rest c' t, post = .countAndAct scr :: .endPI :: rest ∧ c1.raise .err = .ok c' ∧ c'.code = rest ∧
      c'.A = c1.A ∧ c'.log = c1.log ∧ c'.tr = t :: c1.tr ∧ t.isExcFrom (.im scr) = true :=
  exception_in_input h0 hr hc hpre c1 hc1

/-- the same for the scripted `raise` of a callback: the step itself -/
theorem C07_exception_in_input_step (P : Prog) (c0 c : Cfg) (h0 : Started c0) (hr : Reach P c0 c)
    (pre post : List Instr) (scr : Nat) (hc : c.code = .act .raiseErr :: (pre ++ .catchPI scr :: post))
    (hpre : ∀ i ∈ pre, i.catches .err = false) :
    ∃ rest c' t, post = .countAndAct scr :: .endPI :: rest ∧ step P c = .ok c' ∧ c'.code = rest ∧
      c'.A = c.A ∧ c'.log = c.log ∧ c'.tr = t :: c.tr ∧ t.isExcFrom (.im scr) = true := by
  have := exception_in_input h0 hr hc hpre { c with code := pre ++ .catchPI scr :: post } rfl
  simpa [step, hc, doAct] using this

/-! ### non-vacuity -/

namespace Ex
def A1 : Nat → Ret := fun n => if n = 0 then .state "REDRAW" else if n = 1 then .dflt else .state "PROCESSED"
def A2 : Nat → Ret := fun _ => .state "DISCARDED"
def A3 : Nat → Ret := fun _ => .dflt
end Ex

open Ex in
/-- "REDRAW" — one refresh and draw, then the prompt; the refresh key `r` (returned as typed) — the
same; "PROCESSED" — nothing further (the run waits for events that never come) -/
example : (runFuel (P4 A1) 2000 (c4 ["a", "r", "x"])).2 = .blocked ∧
    cbs (runFuel (P4 A1) 2000 (c4 ["a", "r", "x"])).1 =
      [.cb 0 .setup none none, .cb 0 .refresh none none, .cb 0 .show none none, .cb 0 .prompt none none,
       .cb 0 .input none (some ['a']),
       .cb 0 .refresh none none, .cb 0 .show none none, .cb 0 .prompt none none,
       .cb 0 .input none (some ['r']),
       .cb 0 .refresh none none, .cb 0 .show none none, .cb 0 .prompt none none,
       .cb 0 .input none (some ['x'])] := by
  decide +kernel

open Ex in
/-- a reachable configuration in which the hypotheses of `C07_one_action` hold (the counting step is
next, the stack is not empty, the answer was classified as redraw) -/
example : ∃ c, Reach (P4 A1) (c4 ["a", "r", "x"]) c ∧ (∃ rest, c.code = .countAndAct 0 :: rest) ∧
    c.A.stack.getLast? = some (e 0 0) ∧ c.retAction = .redraw :=
  ⟨(runFuel (P4 A1) 48 (c4 ["a", "r", "x"])).1, reach_runFuel _ .init, headCA_spec (by decide +kernel),
   by decide +kernel, by decide +kernel⟩

open Ex in
/-- five rejections in a row: four times only the prompt, the fifth time a redraw first; the count
goes on (6 after six lines) -/
example : cbs (runFuel (P4 A2) 300 (c4 ["1", "2", "3", "4", "5", "6"])).1 =
      [.cb 0 .setup none none, .cb 0 .refresh none none, .cb 0 .show none none, .cb 0 .prompt none none,
       .cb 0 .input none (some ['1']), .cb 0 .prompt none none,
       .cb 0 .input none (some ['2']), .cb 0 .prompt none none,
       .cb 0 .input none (some ['3']), .cb 0 .prompt none none,
       .cb 0 .input none (some ['4']), .cb 0 .prompt none none,
       .cb 0 .input none (some ['5']), .cb 0 .refresh none none, .cb 0 .show none none, .cb 0 .prompt none none,
       .cb 0 .input none (some ['6']), .cb 0 .prompt none none] ∧
    ((runFuel (P4 A2) 300 (c4 ["1", "2", "3", "4", "5", "6"])).1.A.scr 0).err = 6 := by
  decide +kernel

open Ex in
/-- the quit key with a dialog that answers "no": the dialog is shown modally, closed, the screen is
redrawn and asks again; the continue key then closes it and the application ends -/
example : (runFuel (P4 A3 (some 1)) 3000 (c4 ["q", "c"])).2 = .returned ∧
    cbs (runFuel (P4 A3 (some 1)) 3000 (c4 ["q", "c"])).1 =
      [.cb 0 .setup none none, .cb 0 .refresh none none, .cb 0 .show none none, .cb 0 .prompt none none,
       .cb 0 .input none (some ['q']),
       .cb 1 .setup none none, .cb 1 .refresh none none, .cb 1 .show none none, .cb 1 .closed none none,
       .cb 0 .refresh none none, .cb 0 .show none none, .cb 0 .prompt none none,
       .cb 0 .input none (some ['c']), .cb 0 .closed none none] := by
  decide +kernel

open Ex in
/-- the quit key without a dialog: the application quits at once -/
example : (runFuel (P4 A3) 3000 (c4 ["q", "c"])).2 = .returned ∧
    cbs (runFuel (P4 A3) 3000 (c4 ["q", "c"])).1 =
      [.cb 0 .setup none none, .cb 0 .refresh none none, .cb 0 .show none none, .cb 0 .prompt none none,
       .cb 0 .input none (some ['q'])] := by
  decide +kernel

open Ex in
/-- an exception raised by `input()`: exactly one exception signal from the screen's input manager,
the counter untouched; nobody handles the signal here, so the application is killed -/
example : (runFuel P9 400 (c4 ["a"])).2 = .killed 1 ∧
    ((runFuel P9 400 (c4 ["a"])).1.tr.filter (Tr.isExcFrom (.im 0))).length = 1 ∧
    ((runFuel P9 400 (c4 ["a"])).1.A.scr 0).err = 0 := by
  decide +kernel

open Ex in
/-- … and a reachable configuration in which the hypotheses of `C07_exception_in_input_step` hold: the
scripted raise is next, and the code behind it reaches the catcher through the return of `input()` and
the classification only (`pre = [scrRet …, classify 0]`) -/
example : ∃ c, Reach P9 (c4 ["a"]) c ∧
    (match c.code with
     | .act .raiseErr :: .scrRet 0 .input _ _ :: .classify 0 :: .catchPI 0 :: _ => true
     | _ => false) = true :=
  ⟨(runFuel P9 45 (c4 ["a"])).1, reach_runFuel _ .init, by decide +kernel⟩

end Simpleline
