/-
  C07 for the library's own input-driven dialogs (simpleline/render/adv_widgets.py): what `input()` of YesNoDialog,
  PasswordDialog, HelpScreen, ErrorDialog and GetInputScreen returns - the value the scheduler then turns into exactly
  one follow-up (Props/C07.lean) - and what the dialog remembers. Model: `Model/Dialogs.lean`, compared with the real
  classes on every run of the C07 check.
-/
import Simpleline.Model.Dialogs

namespace Simpleline

/-- YesNoDialog closes for exactly the two replies, and rejects every other line. -/
theorem C07_yesno_closes_iff (d : YesNo) (key : List Char) :
    (d.input key).2 = .close ↔ (key = "yes".toList ∨ key = "no".toList) := by
  unfold YesNo.input
  split
  · simp_all
  · split <;> simp_all

/-- Every other line is rejected (`DISCARDED`: it counts as a wrong input) and leaves the answer as it was. -/
theorem C07_yesno_rejects (d : YesNo) (key : List Char) (h1 : key ≠ "yes".toList) (h2 : key ≠ "no".toList) :
    d.input key = (d, .discarded) := by
  unfold YesNo.input
  simp_all

/-- The answer is `True` exactly after "yes", `False` exactly after "no", whatever it was before. -/
theorem C07_yesno_answer (d : YesNo) (key : List Char) :
    ((d.input key).1.answer = some true ↔ (key = "yes".toList ∨ (d.answer = some true ∧ key ≠ "no".toList))) ∧
    ((d.input key).1.answer = some false ↔ (key = "no".toList ∨ (d.answer = some false ∧ key ≠ "yes".toList))) := by
  have hy : "yes".toList = ['y', 'e', 's'] := rfl
  have hn : "no".toList = ['n', 'o'] := rfl
  unfold YesNo.input
  rw [hy, hn]
  by_cases h1 : key = ['y', 'e', 's']
  · subst h1; simp
  · by_cases h2 : key = ['n', 'o']
    · subst h2; simp
    · simp [h1, h2]

/-- The dialog never ends the process and never answers with anything but the two values the scheduler knows. -/
theorem C07_yesno_ret (d : YesNo) (key : List Char) : (d.input key).2 = .close ∨ (d.input key).2 = .discarded := by
  unfold YesNo.input
  split
  · simp
  · split <;> simp

/-- After any sequence of lines the answer is that of the last line that was a reply (or the initial one). -/
def YesNo.run (d : YesNo) (keys : List (List Char)) : YesNo := keys.foldl (fun d k => (d.input k).1) d

theorem C07_yesno_last_reply (d : YesNo) (keys : List (List Char)) (k : List Char) :
    (d.run (keys ++ [k])).answer =
      if k = "yes".toList then some true else if k = "no".toList then some false else (d.run keys).answer := by
  unfold YesNo.run
  rw [List.foldl_append]
  simp only [List.foldl_cons, List.foldl_nil]
  unfold YesNo.input
  split
  · simp_all
  · split <;> simp_all

/-- PasswordDialog: a non-empty line is stored as the password and closes the dialog; the empty line is rejected and
changes nothing. -/
theorem C07_password (d : PwDialog) (key : List Char) :
    (key ≠ [] → d.input key = ({ password := some key }, .close)) ∧ (key = [] → d.input key = (d, .discarded)) := by
  unfold PwDialog.input
  constructor <;> intro h <;> simp [h]

/-- HelpScreen closes on any line; ErrorDialog ends the process on any line. -/
theorem C07_help_error (key : List Char) : helpInput key = .close ∧ errorInput key = .exit1 := ⟨rfl, rfl⟩

/-- `_test_input` accepts iff every condition accepts … -/
theorem C07_getinput_accepts_iff (cs : List Cond) (key : List Char) :
    (testInput cs key).1 = true ↔ ∀ c ∈ cs, c.eval key = true := by
  induction cs with
  | nil => simp [testInput]
  | cons c cs ih =>
    unfold testInput
    by_cases h : c.eval key = true
    · simp [h, ih]
    · simp [h]

/-- … and asks the conditions in the order they were added, stopping at the first one that rejects: the number of
conditions asked is the length of the longest accepting prefix, plus one if some condition rejects. -/
theorem C07_getinput_asks_prefix (cs : List Cond) (key : List Char) :
    (testInput cs key).2 = (cs.takeWhile (·.eval key)).length + (if (testInput cs key).1 then 0 else 1) := by
  induction cs with
  | nil => simp [testInput]
  | cons c cs ih =>
    unfold testInput
    by_cases h : c.eval key = true
    · simp only [h, if_true, List.takeWhile_cons_of_pos, List.length_cons]
      rw [ih]; omega
    · simp [h]

/-- GetInputScreen: an accepted line is stored as the value and closes the screen; a rejected line is `DISCARDED`
and leaves the value (and the conditions) as they were. -/
theorem C07_getinput (d : GetInput) (key : List Char) :
    ((∀ c ∈ d.conds, c.eval key = true) → d.input key = ({ d with value := some key }, .close)) ∧
    ((∃ c ∈ d.conds, c.eval key = false) → d.input key = (d, .discarded)) := by
  unfold GetInput.input
  constructor
  · intro h
    rw [if_pos ((C07_getinput_accepts_iff d.conds key).2 h)]
  · rintro ⟨c, hc, hf⟩
    have : ¬ (testInput d.conds key).1 = true := by
      intro ht
      have := (C07_getinput_accepts_iff d.conds key).1 ht c hc
      simp_all
    rw [if_neg this]

/-- Without conditions every line - the empty one too - is accepted. -/
theorem C07_getinput_no_conditions (v : Option (List Char)) (key : List Char) :
    ({ value := v, conds := [] } : GetInput).input key = ({ value := some key, conds := [] }, .close) := by
  simp [GetInput.input, testInput]

/-- the hypotheses occur: a dialog with two conditions rejects "ab" at the second one and accepts "abc" -/
example :
    let d : GetInput := { conds := [.startsWith 'a', .minLen 3, .differs "abcd".toList] }
    d.input "ab".toList = (d, .discarded) ∧ (testInput d.conds "ab".toList).2 = 2 ∧
    d.input "abc".toList = ({ d with value := some "abc".toList }, .close) ∧ (testInput d.conds "abc".toList).2 = 3 := by
  decide

example : ((({} : YesNo).run ["x".toList, "yes".toList, "maybe".toList]).answer = some true) ∧
    ((({} : YesNo).run ["yes".toList, "no".toList]).answer = some false) := by decide

end Simpleline
