/-
  C08 — Screen lifecycle: set up once, refreshed before every draw, closed once.

  A callback `cb` of screen `scr` is invoked by the instruction `callScr scr cb arg key`; executing
  it logs `Ev.cb scr cb arg key`. `(c.A.scr scr).ready` is the screen's `screen_ready` flag. The trace
  has `.refresh e` / `.show e` when the scheduler is about to refresh / draw stack entry `e`, and
  `.stackOp "close" _` for every pop by `close_screen`.
-/
import Simpleline.Lemmas.SchedExamples

namespace Simpleline

/-! ### who invokes which callback, with which arguments -/

/-- Callbacks, `drawScreen` and the refresh step run as soon as they are pushed: in a reachable
configuration they occur nowhere but at the head of the pending code. -/
theorem C08_callbacks_run_at_once (P : Prog) (c0 c : Cfg) (h0 : Started c0) (hr : Reach P c0 c) :
    ∀ i ∈ c.code.tail, i.immediate = false :=
  hr.imm h0

/-- The complete table of callback invocations: if after a machine step of an execution the callback
`cb` of `scr` is about to be invoked with `arg`/`key`, then that step was
* `setup` — `_process_screen` finding `top` on top of the stack with a screen that is not ready, and
  the call is `top.screen.setup(top.args)`;
* `refresh` — the refresh step for an entry `top`: `top.screen.refresh(top.args)`, the arguments the
  entry was scheduled with;
* `show` — `drawScreen top`: `top.screen.show_all()`;
* `prompt` — an input request `getInput scr arg`;
* `input` — `process_input` of `scr` for a received line, with the arguments of its last request;
* `closed` — `close_screen(frm)` popping entry `e`: `e.screen.closed()`, and the request was made either
  without a requester (`frm = none`) or on behalf of that very screen (a refused request — `frm` names
  another screen — pops nothing and notifies nobody: `C08_close_refused`). No other instruction — in
  particular neither `replace_screen` nor the discarding of a failed screen — invokes `closed`. -/
theorem C08_who_calls (P : Prog) (c0 c c' : Cfg) (h0 : Started c0) (hr : Reach P c0 c) (h : StepTo P c c')
    (scr : Nat) (cb : Cb) (arg : Option Nat) (key : Option Str)
    (hh : c'.code.head? = some (.callScr scr cb arg key)) :
    match cb with
    | .setup => ∃ top rest, c.code = .processScreen :: rest ∧ c.A.stack.getLast? = some top ∧
        (c.A.scr top.screen).ready = false ∧ scr = top.screen ∧ arg = top.args ∧ key = none
    | .refresh => ∃ top rest, c.code = .afterSetup2 top :: rest ∧ scr = top.screen ∧ arg = top.args ∧ key = none
    | .show => ∃ top rest, c.code = .drawScreen top :: rest ∧ scr = top.screen ∧ arg = none ∧ key = none
    | .prompt => ∃ rest, c.code = .getInput scr arg :: rest ∧ key = none
    | .input => ∃ k rest, c.code = .processInput scr k :: rest ∧ arg = (c.A.scr scr).inputArgs ∧ key = some k
    | .closed => ∃ frm e rest, c.code = .closeScreen frm :: rest ∧ c.A.stack.getLast? = some e ∧
        (frm = none ∨ frm = some (.scr e.screen)) ∧ scr = e.screen ∧ arg = none ∧ key = none :=
  who_calls h0 hr h hh

/-- a log entry of a callback is written by the step of its `callScr` instruction and by nothing else -/
theorem C08_logged_by_call (P : Prog) (c c' : Cfg) (h : Trans P c c') (s : Nat) (cb : Cb) (a : Option Nat)
    (k : Option Str) (hm : .cb s cb a k ∈ newLog c c') : ∃ rest, c.code = .callScr s cb a k :: rest :=
  (cb_new_of_trans h hm).2

/-! ### set up once -/

/-- The ready flag is never reset, and it is set only by the return of the screen's own `setup` with a
value other than "failed before the base method ran". -/
theorem C08_ready_only_by_setup (P : Prog) (c c' : Cfg) (h : Trans P c c') (s : Nat) :
    (c'.A.scr s).ready = (c.A.scr s).ready ∨
    ((c'.A.scr s).ready = true ∧ ∃ ret key rest, c.code = .scrRet s .setup ret key :: rest ∧ ret ≠ .failBefore) :=
  ready_after h s

theorem C08_ready_stays (P : Prog) (c c' : Cfg) (h : Trans P c c') (s : Nat) (hr : (c.A.scr s).ready = true) :
    (c'.A.scr s).ready = true := by
  rcases ready_after h s with h' | h'
  · rw [h', hr]
  · exact h'.1

/-- `setup` never runs again once it has succeeded: from a reachable configuration in which screen `s`
is ready, no transition logs an invocation of `s.setup` — and by `C08_ready_stays` none ever will. -/
theorem C08_setup_once (P : Prog) (c0 c c' : Cfg) (h0 : Started c0) (hr : Reach P c0 c) (h : Trans P c c')
    (s : Nat) (hrd : (c.A.scr s).ready = true) (a : Option Nat) (k : Option Str) :
    .cb s .setup a k ∉ newLog c c' :=
  no_setup_when_ready h0 hr h hrd a k

/- Finding. "`setup` runs at most once successfully" is *not* a theorem of the model (nor of the
   library): the ready flag is set when `setup` returns, so a `setup` callback that itself processes
   signals (`process_signals()`) while a second render request is pending makes the scheduler start a
   second `setup` of the same screen — before the first has returned, hence not excluded by
   `C08_setup_once`, which needs no extra hypothesis. Both invocations succeed. The counterexample: -/

open Ex in
/-- two `setup` invocations of the same screen, the second nested in the first; both return success -/
example : cbs (runFuel P5 300 c5).1 =
    [.cb 0 .setup none none, .cb 0 .setup none none, .cb 0 .refresh none none, .cb 0 .show none none,
     .cb 0 .refresh none none, .cb 0 .show none none] ∧
    (P5.screenScript 0 .setup 0).ret = .dflt ∧ (P5.screenScript 0 .setup 1).ret = .dflt := by
  decide +kernel

open Ex in
/-- … the second one is about to start (step 17) while the first has not returned, the screen being
not ready yet -/
example : ∃ c, Reach P5 c5 c ∧ headSetup c 0 = true ∧ (c.A.scr 0).ready = false ∧
    (c.log.filter (Ev.isCbOf 0 .setup)).length = 1 :=
  ⟨(runFuel P5 17 c5).1, reach_runFuel _ .init, by decide +kernel, by decide +kernel, by decide +kernel⟩

/-- `setup` runs before the first `refresh`: in the log of every reachable configuration (newest
first), every invocation of `refresh` of a screen has an earlier invocation of `setup` of that screen. -/
theorem C08_setup_before_refresh (P : Prog) (c0 c : Cfg) (h0 : Started c0) (hr : Reach P c0 c) (s : Nat)
    (a : Option Nat) (k : Option Str) (l1 l2 : List Ev) (h : c.log = l1 ++ .cb s .refresh a k :: l2) :
    ∃ a' k', Ev.cb s .setup a' k' ∈ l2 :=
  setup_before_refresh h0 hr h

/-- The result of `setup` is looked at right after it returns, for the entry that was set up: the
return instruction `scrRet scr .setup ret key` is directly followed by `afterSetup top` with
`top.screen = scr`; the step sets the ready flag unless `ret` is "failed before", and the result
register to "succeeded" iff `ret` is neither failure. -/
theorem C08_setup_result_is_tested (P : Prog) (c0 c : Cfg) (h0 : Started c0) (hr : Reach P c0 c) (scr : Nat)
    (ret : Ret) (key : Option Str) (rest : List Instr) (hc : c.code = .scrRet scr .setup ret key :: rest) :
    ∃ top rest', rest = .afterSetup top :: rest' ∧ top.screen = scr ∧
      step P c = .ok (if ret = .failBefore then { c with code := rest, retSetup := false }
        else { c with code := rest, A := c.A.setScr scr fun s => { s with ready := true },
                      L := { c.L with queues := listSet c.L.queues c.L.active (addSource · (.scr scr)) },
                      retSetup := decide (ret ≠ .failAfter) }) :=
  setup_result_tested h0 hr hc

/-! ### refreshed before every draw -/

/-- On the trace of every reachable configuration (newest first): every draw event `.show e` has an
earlier refresh event `.refresh e` of the same entry — same screen, same arguments. -/
theorem C08_refresh_before_show (P : Prog) (c0 c : Cfg) (h0 : Started c0) (hr : Reach P c0 c) (e : Entry)
    (l1 l2 : List Tr) (h : c.tr = l1 ++ .show e :: l2) : .refresh e ∈ l2 :=
  shows_refreshed h0 hr h

/-- the same on the log of callback invocations: every `show` of a screen has an earlier `refresh` of
that screen -/
theorem C08_refresh_before_show_log (P : Prog) (c0 c : Cfg) (h0 : Started c0) (hr : Reach P c0 c) (s : Nat)
    (a : Option Nat) (k : Option Str) (l1 l2 : List Ev) (h : c.log = l1 ++ .cb s .show a k :: l2) :
    ∃ args, Ev.cb s .refresh args none ∈ l2 :=
  refresh_before_show_log h0 hr h

/-- `drawScreen top` is pushed only by the identity check of the same entry … -/
theorem C08_draw_after_check (P : Prog) (c0 c c' : Cfg) (h0 : Started c0) (hr : Reach P c0 c) (h : StepTo P c c')
    (top : Entry) (hh : c'.code.head? = some (.drawScreen top)) : ∃ rest, c.code = .identCheck top :: rest :=
  who_draws h0 hr h hh

/-- … and the identity check of `top` stands directly behind the `refresh` callback of `top.screen`
(while it runs: behind its return instruction), followed by the catcher of `_process_screen`: between
the return of `refresh` and the draw there is nothing but the comparison of `top` with the top of the
stack. -/
theorem C08_check_after_refresh (P : Prog) (c0 c : Cfg) (h0 : Started c0) (hr : Reach P c0 c) (scr : Nat)
    (ret : Ret) (key : Option Str) (pre post : List Instr) (hc : c.code = pre ++ .scrRet scr .refresh ret key :: post) :
    ∃ top rest, post = .identCheck top :: .catchPS :: rest ∧ top.screen = scr :=
  check_after_refresh h0 hr hc

/-- the refresh step pushes exactly: the `refresh` callback with the entry's arguments, the identity
check, the catcher -/
theorem C08_refresh_step (P : Prog) (c : Cfg) (top : Entry) (rest : List Instr) (hc : c.code = .afterSetup2 top :: rest) :
    ∃ c', step P c = .ok c' ∧
      c'.code = .callScr top.screen .refresh top.args none :: .identCheck top :: .catchPS :: rest ∧
      c'.tr = .refresh top :: c.tr ∧ c'.A = c.A ∧ c'.log = c.log :=
  refresh_step_eq P c top rest hc

/-! ### a screen whose setup fails -/

/-- When the result of `setup` is failure, the top entry `e` of the stack is discarded
(`Cfg.discarded`: popped, `.stackOp "discard"` traced) and this activation of `_process_screen` is
over — no refresh step, draw or input request is pushed; the next screen gets its turn through one
render request (`e` not modal), or, for a modal `e`, its nested loop is closed (and the application
ends if the stack is now empty). -/
theorem C08_failed_setup_discarded (P : Prog) (c : Cfg) (top e : Entry) (rest : List Instr)
    (hc : c.code = .afterSetup top :: rest) (hrs : c.retSetup = false) (he : c.A.stack.getLast? = some e) :
    step P c =
      .ok (if e.modal then push (c.discarded rest) [.closeLoop, .afterSetupFail e] else (c.discarded rest).redraw) :=
  step_discard P c top e rest hc hrs he

/-- what `redraw` is: one render request of the scheduler, nothing else the scheduler sees -/
theorem C08_redraw (c : Cfg) :
    ∃ t, c.redraw.tr = t :: c.tr ∧ t.isRedraw = true ∧ c.redraw.A = c.A ∧ c.redraw.code = c.code ∧
      c.redraw.log = c.log :=
  ⟨_, redraw_tr c, by simp [enqEv_isRedraw, renderSig], by simp, by simp, by simp⟩

/- Finding. The entry that is discarded is the one on top of the stack when `setup` has returned —
   `_process_screen` pops without looking. Normally that is the entry `top` whose screen failed; but a
   failing `setup` that pushed another screen gets the pushed screen discarded and is itself set up
   again at the next rendering (example `P7` below). -/

open Ex in
/-- the set-up of the top screen fails: it is discarded without refresh, draw or prompt; the screen
beneath is processed instead -/
example : cbs (runFuel P6 300 c6).1 =
      [.cb 1 .setup none none, .cb 0 .setup none none, .cb 0 .refresh none none, .cb 0 .show none none] ∧
    sched (runFuel P6 300 c6).1 =
      [.stackOp "schedule" [e 0 1], .stackOp "schedule" [e 1 0, e 0 1], .stackOp "discard" [e 1 0],
       .refresh (e 1 0), .show (e 1 0)] := by
  decide +kernel

open Ex in
/-- a reachable configuration satisfying the hypotheses of `C08_failed_setup_discarded` -/
example : ∃ c, Reach P6 c6 c ∧ c.retSetup = false ∧ c.A.stack.getLast? = some (e 0 1) ∧
    (match c.code with | .afterSetup t :: _ => t == e 0 1 | _ => false) = true :=
  ⟨(runFuel P6 12 c6).1, reach_runFuel _ .init, by decide +kernel, by decide +kernel, by decide +kernel⟩

open Ex in
/-- the finding: the failing `setup` of screen 0 pushed screen 1 — screen 1 is discarded, never set
up, and screen 0 is set up a second time -/
example : cbs (runFuel P7 300 c7).1 =
      [.cb 0 .setup none none, .cb 0 .setup none none, .cb 0 .refresh none none, .cb 0 .show none none,
       .cb 0 .refresh none none, .cb 0 .show none none] ∧
    (sched (runFuel P7 300 c7).1).take 3 =
      [.stackOp "schedule" [e 0 0], .stackOp "push" [e 0 0, e 1 1], .stackOp "discard" [e 0 0]] := by
  decide +kernel

/-! ### closed once -/

/-- In every reachable configuration the number of `closed` callbacks invoked so far, plus one if one
is about to be invoked (`pendClosed`: a `callScr _ .closed` at the head of the code), equals the number
of pops by `close_screen` (`.stackOp "close"` events): one `closed` per close, none for anything else. -/
theorem C08_closed_once (P : Prog) (c0 c : Cfg) (h0 : Started c0) (hr : Reach P c0 c) :
    (c.log.filter Ev.isClosed).length + pendClosed c.code = (c.tr.filter (Tr.isOp "close")).length :=
  hr.closedInv h0

/-- the `close_screen(frm)` step when the request is accepted — no requester given, or the requester is
the screen on top: pops the top `e`, traces the operation, and pushes exactly the `closed` callback of
`e.screen` followed by the rest of `close_screen` for `e`. (Since `close_screen` checks `closed_from`
against the top *before* popping, the hypothesis `hacc` is needed: see `C08_close_refused` for the
other case.) -/
theorem C08_close_step (P : Prog) (c : Cfg) (frm : Option Src) (e : Entry) (rest : List Instr)
    (hc : c.code = .closeScreen frm :: rest) (he : c.A.stack.getLast? = some e)
    (hacc : frm = none ∨ frm = some (.scr e.screen)) :
    ∃ c', step P c = .ok c' ∧
      c'.code = .callScr e.screen .closed none none :: .closeScreen2 e frm :: rest ∧
      c'.A.stack = c.A.stack.dropLast ∧ c'.tr = .stackOp "close" c.A.stack.dropLast :: c.tr ∧ c'.log = c.log :=
  close_step_eq P c frm e rest hc he hacc

/-- the `close_screen(frm)` step when `frm` names anything but the screen on top: `RenderUnexpectedError`
is raised at once — nothing is popped and no `closed` callback is pushed (what raising does to the rest
of the configuration: `C04_refused_close_keeps_stack`) -/
theorem C08_close_refused (P : Prog) (c : Cfg) (frm : Option Src) (e : Entry) (rest : List Instr)
    (hc : c.code = .closeScreen frm :: rest) (he : c.A.stack.getLast? = some e)
    (hrf : frm ≠ none ∧ frm ≠ some (.scr e.screen)) :
    step P c = ({ c with code := rest } : Cfg).raise .err :=
  close_step_refused P c frm e rest hc he hrf

open Ex in
/-- two closes (a modal dialog, then the screen): two `closed` callbacks, for the popped screens, in order -/
example : (cbs (runFuel (P4 (fun _ => .dflt) (some 1)) 3000 (c4 ["q", "c"])).1).filter Ev.isClosed =
      [.cb 1 .closed none none, .cb 0 .closed none none] ∧
    ((runFuel (P4 (fun _ => .dflt) (some 1)) 3000 (c4 ["q", "c"])).1.tr.filter (Tr.isOp "close")).length = 2 := by
  decide +kernel

open Ex in
/-- a replace is not a close: no `closed` callback -/
example : (cbs (runFuel P2 300 c2).1).filter Ev.isClosed = [.cb 3 .closed none none] ∧
    ((runFuel P2 300 c2).1.tr.filter (Tr.isOp "replace")).length = 1 := by
  decide +kernel

end Simpleline
