/-
  C09 — The application stops exactly when told to, completely, and says so once.

  Property theorems only; helper lemmas live in `Simpleline/Lemmas/Dispatch*.lean`, vocabulary in
  `Simpleline/Spec/DispatchSpec.lean`.

  How stopping appears in the machine.  `apprun` (`App.run()`) refuses an empty schedule or pushes
  `[mainCheck 0, catchExit, quitCb]`: the outermost `_mainloop` activation, the `except ExitMainLoop`
  scope of `run()`, the quit callback.  An exit request — a handler raising `ExitMainLoop`, the
  scheduler finding the screen stack empty, `close_loop` popping the outermost level — is
  `Cfg.raise .exit`: it traces `.exit` and drops every pending instruction up to the first `catchExit`.
  `force_quit` (`Act.forceQuit`) sets the flag, clears the levels and lowers `_run_loop`, tracing
  `.forceQuit`.  `mainCheck q` leaving its loop traces `.loopReturn q`.  `AfterStart c` says that no
  `apprun` is pending in `c` (`run()` has been entered — `apprun` resets the force-quit flag once).
  `Live P c0 c`: `c` is a configuration of a run that has not halted.
-/
import Simpleline.Lemmas.DispatchCount

namespace Simpleline
open Dispatch

/-! ### 1. after force-quit no handler is invoked, ever -/

/-- Once force-quit is set after `run()` was entered, it stays set: in every later configuration of the
execution, whatever happens. -/
theorem C09_force_quit_stays (P : Prog) (c c' : Cfg) (hA : AfterStart c) (hf : c.L.forceQuit = true)
    (hs : Steps P c c') : AfterStart c' ∧ c'.L.forceQuit = true :=
  fq_persist_steps hA hf hs

/-- **No handler after force-quit.**  Take a reachable configuration, reached after `run()` was entered,
in which force-quit is set.  Then no transition of the rest of the execution — at any nesting depth,
including the remaining handlers of the signal being dispatched and of every signal still queued —
adds a handler call to the history. -/
theorem C09_force_quit_no_call (P : Prog) (c0 c c1 c2 : Cfg) (h0 : Started c0) (hr : Reach P c0 c)
    (hA : AfterStart c) (hf : c.L.forceQuit = true) (hs : Steps P c c1) (ht : Trans P c1 c2)
    (h : HRef) (d : Option Nat) (s : Sig) : Tr.call h d s ∉ newTr c1 c2 :=
  fq_no_call h0 hr hA hf hs ht h d s

/-- … and in a single transition this needs no start-up hypothesis: out of a reachable configuration with
force-quit set no transition adds a handler call. -/
theorem C09_force_quit_no_call_step (P : Prog) (c0 c c' : Cfg) (h0 : Started c0) (hr : Reach P c0 c)
    (hf : c.L.forceQuit = true) (ht : Trans P c c') (h : HRef) (d : Option Nat) (s : Sig) :
    Tr.call h d s ∉ newTr c c' := by
  intro hm
  obtain ⟨_, _, _, _, hf0⟩ := (codeInv_reach h0 hr).headCall h d s ((trans_origin ht).toNewTr.2 _ hm)
  rw [hf] at hf0; cases hf0

/-! ### 2. after force-quit new signals are discarded and every loop winds down -/

/-- Under force-quit `enqueue_signal` changes no queue: the signal is dropped (only a `.dropped` event is
added to the model's history). -/
theorem C09_force_quit_discards (c : Cfg) (s : Sig) (hf : c.L.forceQuit = true) :
    c.enqueue s = { c with tr := .dropped s :: c.tr } :=
  enqueue_fq c s hf

/-- In every reachable configuration with force-quit set, `_run_loop` is down and no level is left — and
(by `C09_force_quit_stays`) this remains so. -/
theorem C09_force_quit_winds_down (P : Prog) (c0 c : Cfg) (h0 : Started c0) (hr : Reach P c0 c)
    (hf : c.L.forceQuit = true) : c.L.runLoop = false ∧ c.L.levels = [] :=
  fqInv_reach h0 hr hf

/-- Consequently each loop construct gives up at its next test, at any depth: `execute_new_loop` is a no-op … -/
theorem C09_force_quit_no_new_loop (P : Prog) (c : Cfg) (s : Sig) (rest : List Instr) (hc : c.code = .newLoop s :: rest)
    (hf : c.L.forceQuit = true) : step P c = .ok { c with code := rest } :=
  step_newLoop_fq P c s rest hc hf

/-- … a `_mainloop` activation leaves its `while` (and returns) as soon as `_run_loop` is down, and its epilogue
does not raise the flag again under force-quit … -/
theorem C09_mainloop_exits (P : Prog) (c : Cfg) (q : Nat) (rest : List Instr) :
    (c.code = .mainCheck q :: rest → c.L.runLoop = false →
      step P c = .ok { c with code := .restoreRun :: rest, tr := .loopReturn q :: c.tr }) ∧
    (c.code = .loopCheck :: rest → c.L.runLoop = false → step P c = .ok { c with code := rest }) ∧
    (c.code = .restoreRun :: rest → c.L.forceQuit = true → step P c = .ok { c with code := rest }) :=
  ⟨step_mainCheck_down P c q rest, step_loopCheck_down P c rest, step_restoreRun_fq P c rest⟩

/-- … and both forms of `process_signals` return without taking a signal. -/
theorem C09_process_signals_exits (P : Prog) (c : Cfg) (rest : List Instr) (hr : c.L.runLoop = false) :
    (∀ cls t, c.code = .waitStep cls t :: rest →
      step P c = .ok { c with code := rest, tr := .waitEnd cls t false :: c.tr }) ∧
    (∀ p, c.code = .procIter p :: rest → step P c = .ok { c with code := rest, tr := .procEnd :: c.tr }) :=
  ⟨fun cls t hc => step_waitStep_down P c cls t rest hc hr, fun p hc => step_procIter_down P c p rest hc hr⟩

/-! ### 3. an exit request unwinds everything, the quit callback runs once, `run()` returns -/

/-- **An exit request drops every pending instruction up to the `except ExitMainLoop` of `run()`** — all
loop tests, dispatches and handler bodies of all nesting depths in between. -/
theorem C09_exit_unwinds (c : Cfg) (pre rest : List Instr) (hcode : c.code = pre ++ .catchExit :: rest)
    (hpre : ∀ i ∈ pre, isCatchExit i = false) : c.raise .exit = .ok { c with code := rest, tr := .exit :: c.tr } :=
  raise_exit_caught c pre rest hcode hpre

/-- **After the start an exit request always succeeds and leaves exactly the quit callback to run**: if a
transition out of a reachable configuration in which `run()` has been entered records an exit request,
the next configuration's pending code is `[quitCb]`. -/
theorem C09_exit_lands_on_quit_callback (P : Prog) (c0 c c' : Cfg) (h0 : Started c0) (hr : Reach P c0 c)
    (hA : AfterStart c) (ht : Trans P c c') (hx : Tr.exit ∈ newTr c c') : c'.code = [.quitCb] :=
  exit_lands h0 hr hA ht hx

/-- (Before the start there is no `except ExitMainLoop` scope yet: an exit request raised by start-up code is not
caught, the run dies with it.) -/
theorem C09_exit_before_start (P : Prog) (c0 c c' : Cfg) (h0 : Started c0) (hr : Reach P c0 c)
    (hA : ¬ AfterStart c) (ht : Trans P c c') (hx : Tr.exit ∈ newTr c c') :
    c'.code = [] ∧ ∃ o, step P c = .error (o, c') :=
  exit_before_start h0 hr hA ht hx

/-- In every reachable configuration whose history contains an exit request, nothing but the quit callback is
pending (or nothing at all) … -/
theorem C09_after_exit (P : Prog) (c0 c : Cfg) (h0 : Started c0) (hr : Reach P c0 c) (hx : Tr.exit ∈ c.tr) :
    c.code = [.quitCb] ∨ c.code = [] :=
  exit_over_reach h0 hr hx

/-- … so **no handler runs after an exit request**: no transition of the rest of the execution adds a handler call. -/
theorem C09_exit_no_call (P : Prog) (c0 c c1 c2 : Cfg) (h0 : Started c0) (hr : Reach P c0 c) (hx : Tr.exit ∈ c.tr)
    (hs : Steps P c c1) (ht : Trans P c1 c2) (h : HRef) (d : Option Nat) (s : Sig) : Tr.call h d s ∉ newTr c1 c2 := by
  obtain ⟨new, hnew⟩ := (steps_static hs).2.2.2.1
  exact over_no_call ht (exit_over_reach h0 (reach_steps hr hs) (hnew ▸ List.mem_append_right _ hx)) h d s

/-- With only the quit callback pending the next step runs it — logging `quitcb d` for the registered `d`, if
one is registered — and then the machine halts with outcome `returned`: `run()` returns. -/
theorem C09_quit_then_returns (P : Prog) (c : Cfg) (hc : c.code = [.quitCb]) :
    ∃ c', step P c = .ok c' ∧ c'.code = [] ∧ step P c' = .error (.returned, c') ∧
      ∃ lg, (∀ e ∈ lg, softE e = true) ∧ c'.log = lg ++ c.L.quitCb.toList.map Ev.quitcb ++ c.log :=
  step_quitCb P c hc

/-- **The quit callback is invoked at most once, with the argument it was registered with, as the very
last thing.**  In every reachable configuration the log contains at most one quit-callback event; if it
contains one, nothing is pending any more; every such event carries the datum registered at start-up; and
the registration itself never changes. -/
theorem C09_quit_callback_once (P : Prog) (c0 c : Cfg) (h0 : Started c0) (hr : Reach P c0 c) :
    c.log.countP isQuitcbEv ≤ 1 ∧ (c.log.countP isQuitcbEv = 1 → c.code = []) ∧
    (∀ d, Ev.quitcb d ∈ c.log → c0.L.quitCb = some d) ∧ c.L.quitCb = c0.L.quitCb :=
  quit_once h0 hr

/-- … and it is there **iff the run has passed it**: the transition that logs it is the step of the last
pending instruction `quitCb`, and a run that returns has logged it (if one is registered). -/
theorem C09_quit_callback_when (P : Prog) (c0 c c' : Cfg) (h0 : Started c0) (hr : Reach P c0 c) (ht : Trans P c c')
    (d : Nat) (hm : Ev.quitcb d ∈ newLog c c') :
    c.code = [.quitCb] ∧ c'.code = [] ∧ c.L.quitCb = some d :=
  let ⟨h1, h2, h3, _⟩ := quitcb_logged (shape_reach h0 hr) ht hm
  ⟨h1, h2, h3⟩

/-- A run returns only through the quit callback: when a run that has not died halts with outcome `returned`, the
registered quit callback has been logged (exactly once, by `C09_quit_callback_once`). -/
theorem C09_returned_ran_quit_callback (P : Prog) (c0 c c' : Cfg) (h0 : Started c0) (hl : Live P c0 c)
    (hs : step P c = .error (.returned, c')) (d : Nat) (hd : c0.L.quitCb = some d) : Ev.quitcb d ∈ c.log :=
  ((liveInv_live (R := fun _ => True) (fun _ _ _ => trivial) h0 (fun _ _ _ _ => trivial) hl).done
    ((returned_iff P c c').1 hs).1).2 d hd

/-! ### 4. nothing else ends the loop -/

/-- The machine halts with outcome `returned` exactly when no instruction is pending.  (Every other way
of halting has another outcome: an empty queue with nothing to wait for is `blocked`, an uncaught exception
`raised`, the unhandled `ExceptionSignal` `killed 1`, the refusal to start `raised "NothingScheduled"`.) -/
theorem C09_returned_iff (P : Prog) (c c' : Cfg) : step P c = .error (.returned, c') ↔ c.code = [] ∧ c' = c :=
  returned_iff P c c'

/-- An empty queue does not end the loop: when `_mainloop`'s get (or a waiting `process_signals`) finds nothing to take
and no typed line can be delivered, the machine halts with outcome `blocked` — the real loop blocks — never `returned`. -/
theorem C09_empty_queue_blocks (P : Prog) (c c' : Cfg) (o : Outcome) (rest : List Instr)
    (hc : c.code = .getDispatch :: rest ∨ ∃ cls t, c.code = .waitStep cls t :: rest)
    (hs : step P c = .error (o, c')) : o = .blocked :=
  blocked_of_take hc hs

/-- A `_mainloop` activation leaves its `while` loop only when `_run_loop` is down … -/
theorem C09_loop_left_only_when_flag_down (P : Prog) (c c' : Cfg) (ht : Trans P c c') (q : Nat)
    (hm : Tr.loopReturn q ∈ newTr c c') : c.code.head? = some (.mainCheck q) ∧ c.L.runLoop = false :=
  (trans_origin ht).toNewTr.2 _ hm

/-- … and `_run_loop` goes down only in `force_quit` and when `close_loop` pops a level that is not the
outermost (popping the outermost one is an exit request instead): not by a failing handler, not by an
empty queue, not by anything else. -/
theorem C09_flag_lowered_only_by (P : Prog) (c c' : Cfg) (ht : Trans P c c') (h1 : c.L.runLoop = true)
    (h2 : c'.L.runLoop = false) :
    (c.code.head? = some (.act .forceQuit) ∧ Tr.forceQuit ∈ newTr c c') ∨
    (c.code.head? = some .popLevel ∧ ∃ q, Tr.closeLevel q ∈ newTr c c') :=
  runLoop_cleared ht h1 h2

/-- A failing handler does not touch the loop state: the caught exception changes neither `_run_loop` nor the
force-quit flag nor the levels (it only enqueues the `ExceptionSignal`; see `C02_failure_contained`). -/
theorem C09_failing_handler_keeps_loop (c c' : Cfg) (h : c.raise .err = .ok c') :
    c'.L.runLoop = c.L.runLoop ∧ c'.L.forceQuit = c.L.forceQuit ∧ c'.L.levels = c.L.levels ∧ c'.code <:+ c.code := by
  obtain ⟨code', Q, T, n, rfl, -, hsuf, -⟩ := raise_ok_nf h
  exact ⟨rfl, rfl, rfl, hsuf⟩

/-- The outermost `_mainloop` activation finds `_run_loop` down only after a force-quit: closing an inner level never
reaches it (the flag an inner `close_loop` lowers is consumed by an inner activation).  Proved by counting: while
`run()`'s loop is pending, the number of open levels, plus one if the flag is down, never exceeds the number of
pending `_mainloop` activations — which needs that an ordinary exception never unwinds an activation
(bracket invariant `Chained` of `Lemmas/ShapeChain`). -/
theorem C09_outer_loop_left_only_after_force_quit (P : Prog) (c0 c : Cfg) (h0 : Started c0) (hr : Reach P c0 c)
    (hc : c.code = [.mainCheck 0, .catchExit, .quitCb]) (hf : c.L.runLoop = false) : Tr.forceQuit ∈ c.tr :=
  outer_down_forceQuit h0 hr hc hf

/-- **Nothing else ends the loop.**  If a run that has not died halts with outcome `returned`, then its history
contains an exit request — a handler raising `ExitMainLoop`, the scheduler finding no screen left, `close_loop`
closing the outermost level: all of them `Cfg.raise .exit` — or a force-quit (after which the outermost
activation left its loop).  A failing handler, closing an inner level, an empty queue do not end it. -/
theorem C09_nothing_else_ends (P : Prog) (c0 c c' : Cfg) (h0 : Started c0) (hl : Live P c0 c)
    (hs : step P c = .error (.returned, c')) :
    Tr.exit ∈ c.tr ∨ (Tr.loopReturn 0 ∈ c.tr ∧ Tr.forceQuit ∈ c.tr) :=
  returned_reason h0 hl ((returned_iff P c c').1 hs).1

/-! ### 5. `run()` refuses to start with nothing scheduled -/

/-- With an empty screen stack and the default configuration `run()` raises `NothingScheduled` before anything
runs (the machine halts there; nothing else changes) … -/
theorem C09_refuses_empty (P : Prog) (c : Cfg) (rest : List Instr) (hc : c.code = .apprun :: rest)
    (he : P.runEmpty = false) (hs : c.A.stack = []) :
    step P c = .error (.raised "NothingScheduled", { c with code := rest }) :=
  apprun_refuses P c rest hc he hs

/-- … and with a screen scheduled, or when configured to run empty, it starts: the force-quit flag is reset,
`_run_loop` raised, and the outermost loop, the `except ExitMainLoop` scope and the quit callback are pending. -/
theorem C09_starts (P : Prog) (c : Cfg) (rest : List Instr) (hc : c.code = .apprun :: rest)
    (h : P.runEmpty = true ∨ c.A.stack ≠ []) :
    step P c = .ok { c with code := .mainCheck 0 :: .catchExit :: .quitCb :: rest,
                            L := { c.L with forceQuit := false, runLoop := true } } :=
  apprun_starts P c rest hc h

/-! ### non-vacuity -/

/-- callback 1 force-quits and then enqueues a signal; callback 2 is registered for the same class -/
def C09_fqProg : Prog :=
  { cc := asciiClass, runEmpty := true,
    handlerScript := fun hid _ => if hid = 1 then [.forceQuit, .enq (.user 0) 0 .none 8] else [] }

/-- force-quit inside the first handler of a signal: the second handler of that signal is not called, the
signal enqueued afterwards is dropped, `run()` returns and the quit callback ran once -/
example :
    let r := runFuel C09_fqProg 100
      (initCfg [.enq (.user 0) 0 .none 7] [(.user 0, .user 1, none), (.user 0, .user 2, none)] (some 5) [])
    r.2 = .returned ∧ r.1.L.forceQuit = true ∧ AfterStart r.1 ∧ Tr.forceQuit ∈ r.1.tr ∧
      callsOf { id := 7, cls := .user 0, prio := 0, src := .none } r.1.tr = [(.user 1, none)] ∧
      Tr.dropped { id := 8, cls := .user 0, prio := 0, src := .none } ∈ r.1.tr ∧
      r.1.log.countP isQuitcbEv = 1 ∧ Ev.quitcb 5 ∈ r.1.log := by
  decide +kernel

/-- callback 1 opens a nested loop, in which callback 2 raises `ExitMainLoop`; callback 3 is registered
behind callback 1 -/
def C09_exitProg : Prog :=
  { cc := asciiClass, runEmpty := true,
    handlerScript := fun hid _ =>
      if hid = 1 then [.newLoop (.user 1) 0 9] else if hid = 2 then [.raiseExit] else [] }

/-- an exit request at nesting depth 2: no handler runs afterwards (callback 3 is never called), `run()` returns,
the quit callback ran once with its argument -/
example :
    let r := runFuel C09_exitProg 100
      (initCfg [.enq (.user 0) 0 .none 7]
        [(.user 0, .user 1, none), (.user 1, .user 2, none), (.user 0, .user 3, none)] (some 5) [])
    r.2 = .returned ∧ Tr.exit ∈ r.1.tr ∧ r.1.tr.head? = some .exit ∧ r.1.L.levels.length = 2 ∧
      callsOf { id := 7, cls := .user 0, prio := 0, src := .none } r.1.tr = [(.user 1, none)] ∧
      r.1.log.countP isQuitcbEv = 1 ∧ Ev.quitcb 5 ∈ r.1.log := by
  decide +kernel

/-- … as a live run that returns: `C09_nothing_else_ends` and `C09_returned_ran_quit_callback` apply to it -/
example :
    ∃ c, Live C09_exitProg
        (initCfg [.enq (.user 0) 0 .none 7]
          [(.user 0, .user 1, none), (.user 1, .user 2, none), (.user 0, .user 3, none)] (some 5) []) c ∧
      step C09_exitProg c = .error (.returned, c) ∧ Tr.exit ∈ c.tr ∧ Tr.forceQuit ∉ c.tr :=
  ⟨runLive C09_exitProg 100 _, runLive_live 100 .init,
    (C09_returned_iff _ _ _).2 ⟨List.isEmpty_iff.1 (by decide +kernel), rfl⟩, by decide +kernel, by decide +kernel⟩

/-- … and the force-quit run: it returns without any exit request, after the outermost loop was left -/
example :
    ∃ c, Live C09_fqProg
        (initCfg [.enq (.user 0) 0 .none 7] [(.user 0, .user 1, none), (.user 0, .user 2, none)] (some 5) []) c ∧
      step C09_fqProg c = .error (.returned, c) ∧ Tr.exit ∉ c.tr ∧ Tr.loopReturn 0 ∈ c.tr ∧ Tr.forceQuit ∈ c.tr :=
  ⟨runLive C09_fqProg 100 _, runLive_live 100 .init,
    (C09_returned_iff _ _ _).2 ⟨List.isEmpty_iff.1 (by decide +kernel), rfl⟩, by decide +kernel, by decide +kernel,
    by decide +kernel⟩

/-- Why `Live` and not `Reach` in `C09_nothing_else_ends`: `Reach` also contains the *final* configuration of a run that
died (here: killed by an unhandled `ExceptionSignal`), which has no code left either, so that the machine, stepped once
more from there, reports `returned` — although that run neither saw an exit request nor a force-quit. -/
theorem C09_nothing_else_ends_needs_live :
    ∃ (P : Prog) (c0 c : Cfg), Started c0 ∧ Reach P c0 c ∧ step P c = .error (.returned, c) ∧
      Tr.kill ∈ c.tr ∧ Tr.exit ∉ c.tr ∧ Tr.forceQuit ∉ c.tr :=
  ⟨{ C09_fqProg with handlerScript := fun _ _ => [.raiseErr] },
    initCfg [.enq (.user 0) 0 .none 7] [(.user 0, .user 1, none)] none [], _, ⟨_, _, _, _, rfl⟩,
    runFuel_reach _ 100 _, (C09_returned_iff _ _ _).2 ⟨List.isEmpty_iff.1 (by decide +kernel), rfl⟩,
    by decide +kernel, by decide +kernel, by decide +kernel⟩

/-- nothing scheduled, default configuration: refused -/
example :
    (runFuel { C09_exitProg with runEmpty := false } 100 (initCfg [.enq (.user 0) 0 .none 7] [] none [])).2 =
      .raised "NothingScheduled" := by
  decide +kernel

end Simpleline
