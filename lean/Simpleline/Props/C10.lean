/-
  C10 — Waiting for a signal wakes up for that signal, and only for it.

  Property theorems only; helper lemmas live in `Simpleline/Lemmas/Dispatch*.lean`, vocabulary in
  `Simpleline/Spec/DispatchSpec.lean`.

  How waiting appears in the machine.  `process_signals(return_after=cls)` is `procWait cls`: it takes a
  *ticket* `{line := cls, id := t, marked := false}` with a fresh id `t` (trace `.waitBegin cls t`) and then
  loops `waitStep cls t` / `waitCheck cls t`: `waitStep` takes the head of the active queue (trace
  `.take q s`) and pushes `[processSignal s, waitCheck cls t]`; `waitCheck` returns — removes the ticket,
  trace `.waitEnd cls t true` — iff the ticket is marked, else loops; `waitStep` also returns when
  `_run_loop` is down (`.waitEnd cls t false`).  Tickets are marked by `processSignal s` — wherever it
  runs, at any nesting of processing calls —: `mark ts s.cls` marks every ticket whose line is `s.cls`.
  The non-waiting form `process_signals()` is `procIter none`, then `procIter (some p)` with `p` the priority
  of the first signal taken (trace `.procBegin … .procEnd`).  `since e tr` is the part of the history `tr`
  (newest first) that is newer than the event `e`.
-/
import Simpleline.Lemmas.DispatchWait

namespace Simpleline
open Dispatch

/-! ### 1. the ticket machine -/

/-- In every reachable configuration the outstanding tickets have distinct ids below the ticket counter, and
so have all waits ever begun: an id is never reused, `.waitBegin cls t` occurs at most once for a given `t`. -/
theorem C10_tickets_unique (P : Prog) (c0 c : Cfg) (h0 : Started c0) (hr : Reach P c0 c) :
    (∀ k ∈ c.L.tickets, k.id < c.L.tcounter) ∧ (c.L.tickets.map (·.id)).Nodup ∧
    (∀ cls t, Tr.waitBegin cls t ∈ c.tr → t < c.L.tcounter) :=
  let h := ticketInv_reach h0 hr
  ⟨h.lt, h.nodup, h.begun⟩

/-- The only ways a transition changes the ticket table: `procWait` appends a fresh unmarked ticket,
`processSignal s` marks the line of the class of `s`, `waitCheck cls t` removes its own ticket. -/
theorem C10_ticket_changes (P : Prog) (c c' : Cfg) (ht : Trans P c c') :
    c'.L.tickets = c.L.tickets ∨
    (∃ cls, c.code.head? = some (.procWait cls) ∧
      c'.L.tickets = c.L.tickets ++ [({ line := cls, id := c.L.tcounter, marked := false } : Ticket)]) ∨
    (∃ s, c.code.head? = some (.processSignal s) ∧ c'.L.tickets = mark c.L.tickets s.cls) ∨
    (∃ cls t, c.code.head? = some (.waitCheck cls t) ∧
      c'.L.tickets = c.L.tickets.filter fun k => ¬ (k.line = cls ∧ k.id = t)) :=
  trans_tickets ht

/-- A ticket becomes marked only by the processing of a signal of **exactly** its class: if the ticket with
id `k.id` is unmarked before a transition out of a reachable configuration and marked after it, the instruction
executed was `processSignal s` with `s.cls = k.line`. -/
theorem C10_marked_only_by_own_class (P : Prog) (c0 c c' : Cfg) (h0 : Started c0) (hr : Reach P c0 c) (ht : Trans P c c')
    (k k' : Ticket) (hk : k ∈ c.L.tickets) (hk' : k' ∈ c'.L.tickets) (hid : k'.id = k.id)
    (hu : k.marked = false) (hm : k'.marked = true) :
    ∃ s, c.code.head? = some (.processSignal s) ∧ s.cls = k.line :=
  mark_origin (ticketInv_reach h0 hr) ht hk hk' hid hu hm

/-! ### 2. a waiter returns only after a signal of exactly its class was dispatched since it began -/

/-- **Only after, and only for its own class.**  If a transition out of a reachable configuration makes the
waiting call with ticket `t` for class `cls` return as satisfied (adds `.waitEnd cls t true`), then the call
did begin (`.waitBegin cls t` is in the history) and *since it began* a signal `s` with `s.cls = cls` —
exactly that class — was taken for dispatch.  This holds at any nesting: the take may have been made by
this call's own loop, by the main loop, or by a processing call nested inside some handler. -/
theorem C10_only_after (P : Prog) (c0 c c' : Cfg) (h0 : Started c0) (hr : Reach P c0 c) (ht : Trans P c c')
    (cls : Cls) (t : Nat) (hm : Tr.waitEnd cls t true ∈ newTr c c') :
    Tr.waitBegin cls t ∈ c.tr ∧ ∃ q s, s.cls = cls ∧ Tr.take q s ∈ since (.waitBegin cls t) c.tr :=
  waitEnd_after_take h0 hr ht hm

/-- The other way a waiting call returns, stated, not hidden: *unsatisfied* (`.waitEnd cls t false`), which
happens only at its loop test `waitStep cls t` when `_run_loop` is down — the level was closed, or force-quit. -/
theorem C10_unsatisfied_only_when_flag_down (P : Prog) (c c' : Cfg) (ht : Trans P c c') (cls : Cls) (t : Nat)
    (hm : Tr.waitEnd cls t false ∈ newTr c c') : c.code.head? = some (.waitStep cls t) ∧ c.L.runLoop = false :=
  (trans_origin ht).toNewTr.2 _ hm

/-- A satisfied return happens only at the call's own check, on its own marked ticket. -/
theorem C10_satisfied_origin (P : Prog) (c c' : Cfg) (ht : Trans P c c') (cls : Cls) (t : Nat)
    (hm : Tr.waitEnd cls t true ∈ newTr c c') :
    c.code.head? = some (.waitCheck cls t) ∧ ∃ k ∈ c.L.tickets, k.line = cls ∧ k.id = t ∧ k.marked = true :=
  (trans_origin ht).toNewTr.2 _ hm

/-- Every signal is processed right after it was taken: `processSignal` is only ever the next instruction, and when
`processSignal s` is next, `s` was taken from a queue after every outstanding wait began. -/
theorem C10_process_follows_take (P : Prog) (c0 c : Cfg) (h0 : Started c0) (hr : Reach P c0 c) :
    (∀ s, Instr.processSignal s ∉ c.code.tail) ∧
    ∀ s, c.code.head? = some (.processSignal s) →
      ∀ k ∈ c.L.tickets, ∃ q, Tr.take q s ∈ since (.waitBegin k.line k.id) c.tr := by
  refine ⟨fun s hm => ?_, (ticketInv_reach h0 hr).head⟩
  have := (codeInv_reach h0 hr).noPS _ hm
  simp [isPS] at this

/-! ### 3. dispatches that preceded the call do not count -/

/-- The ticket a waiting call takes is fresh and **unmarked**, whatever was dispatched before (nothing else
changes but the counter; the wait begins now). -/
theorem C10_not_before (P : Prog) (c : Cfg) (cls : Cls) (rest : List Instr) (hc : c.code = .procWait cls :: rest) :
    step P c = .ok { c with code := .waitStep cls c.L.tcounter :: rest,
                            L := { c.L with tcounter := c.L.tcounter + 1,
                                            tickets := c.L.tickets ++ [({ line := cls, id := c.L.tcounter, marked := false } : Ticket)] },
                            tr := .waitBegin cls c.L.tcounter :: c.tr } :=
  step_procWait P c cls rest hc

/-- … and an unmarked ticket makes the call take the next signal instead of returning. -/
theorem C10_unmarked_continues (P : Prog) (c : Cfg) (cls : Cls) (t : Nat) (rest : List Instr)
    (hc : c.code = .waitCheck cls t :: rest) (hm : ∀ k ∈ c.L.tickets, k.line = cls → k.id = t → k.marked = false) :
    step P c = .ok { c with code := .waitStep cls t :: rest } :=
  step_waitCheck_unmarked P c cls t rest hc hm

/-! ### 4. one dispatch releases all waiters on the class -/

/-- Processing one signal `s` marks **every** outstanding ticket whose line is the class of `s`, at once (and
no ticket of another line; ids and lines are untouched), before any handler of `s` runs. -/
theorem C10_all_waiters (P : Prog) (c : Cfg) (s : Sig) (rest : List Instr) (hc : c.code = .processSignal s :: rest) :
    ∃ c', step P c = .ok c' ∧ c'.L.tickets = mark c.L.tickets s.cls ∧
      (∀ k ∈ c'.L.tickets, k.line = s.cls → k.marked = true) ∧
      (mark c.L.tickets s.cls).length = c.L.tickets.length ∧
      ∀ i (hi : i < c.L.tickets.length) (hi' : i < (mark c.L.tickets s.cls).length),
        (mark c.L.tickets s.cls)[i].line = c.L.tickets[i].line ∧ (mark c.L.tickets s.cls)[i].id = c.L.tickets[i].id ∧
        ((mark c.L.tickets s.cls)[i].marked = true ↔ c.L.tickets[i].marked = true ∨ c.L.tickets[i].line = s.cls) :=
  processSignal_marks P c s rest hc

/-! ### 5. a released waiter returns at its next check, without taking another signal -/

/-- `waitCheck` on a marked ticket returns: the ticket is handed back, `.waitEnd cls t true` is recorded, and the
continuation of the call is next — `waitStep` is **not** pushed, no further signal is taken. -/
theorem C10_prompt_return (P : Prog) (c : Cfg) (cls : Cls) (t : Nat) (rest : List Instr)
    (hc : c.code = .waitCheck cls t :: rest) (hm : ∃ k ∈ c.L.tickets, k.line = cls ∧ k.id = t ∧ k.marked = true) :
    step P c = .ok { c with code := rest,
                            L := { c.L with tickets := c.L.tickets.filter fun k => ¬ (k.line = cls ∧ k.id = t) },
                            tr := .waitEnd cls t true :: c.tr } :=
  step_waitCheck_marked P c cls t rest hc hm

/-- … and a mark is never lost before that: a marked ticket stays in the table, marked, through every
transition except the `waitCheck` of its own waiter. -/
theorem C10_mark_persists (P : Prog) (c c' : Cfg) (ht : Trans P c c') (k : Ticket) (hk : k ∈ c.L.tickets)
    (hm : k.marked = true) : k ∈ c'.L.tickets ∨ c.code.head? = some (.waitCheck k.line k.id) :=
  mark_persists ht hk hm

/-! ### 6. the non-waiting form: just the most urgent priority batch, never blocking -/

/-- The non-waiting form never halts the machine — in particular it never blocks on an empty queue (it does
not use the blocking `get`). -/
theorem C10_nonwaiting_never_blocks (P : Prog) (c : Cfg) (p : Option Int) (rest : List Instr)
    (hc : c.code = .procIter p :: rest) : ∃ c', step P c = .ok c' :=
  step_procIter_ok P c p rest hc

/-- On an empty queue (or with `_run_loop` down) it ends at once. -/
theorem C10_nonwaiting_empty (P : Prog) (c : Cfg) (p : Option Int) (rest : List Instr) (hc : c.code = .procIter p :: rest)
    (he : c.L.activeQ.entries = [] ∨ c.L.runLoop = false) :
    step P c = .ok { c with code := rest, tr := .procEnd :: c.tr } := by
  rcases he with he | he
  · exact step_procIter_empty P c p rest hc he
  · exact step_procIter_flag_down P c p rest hc he

/-- It takes the head of the active queue if that is the first signal it sees, or has the priority of the first
one it took; the priority it continues with is that of the signal taken. -/
theorem C10_nonwaiting_takes (P : Prog) (c : Cfg) (p : Option Int) (rest : List Instr) (hc : c.code = .procIter p :: rest)
    (e : Int × Nat × Sig) (es : List (Int × Nat × Sig)) (he : c.L.activeQ.entries = e :: es) (hr : c.L.runLoop = true)
    (hp : p = none ∨ p = some e.2.2.prio) :
    step P c = .ok { c with code := .processSignal e.2.2 :: .procIter (some e.2.2.prio) :: rest,
                            L := { c.L with queues := listSet c.L.queues c.L.active fun q => { q with entries := es } },
                            tr := .take c.L.active e.2.2 :: c.tr } :=
  step_procIter_take P c p rest hc e es he hr hp

/-- It ends when the head of the queue has another priority — leaving that signal in its place: the queues are
unchanged (`putBack` is only a trace event). -/
theorem C10_nonwaiting_stops (P : Prog) (c : Cfg) (pr : Int) (rest : List Instr) (hc : c.code = .procIter (some pr) :: rest)
    (e : Int × Nat × Sig) (es : List (Int × Nat × Sig)) (he : c.L.activeQ.entries = e :: es) (hr : c.L.runLoop = true)
    (hp : e.2.2.prio ≠ pr) :
    step P c = .ok { c with code := rest, tr := .procEnd :: .putBack c.L.active e.2.2 :: c.tr } :=
  step_procIter_stop P c pr rest hc e es he hr hp

/-- On the history: every signal the non-waiting form takes while it continues with priority `pr` has priority
`pr`, and whenever it ends the queues are as they were. -/
theorem C10_nonwaiting_history (P : Prog) (c c' : Cfg) (ht : Trans P c c') :
    (∀ pr q s, c.code.head? = some (.procIter (some pr)) → Tr.take q s ∈ newTr c c' → s.prio = pr) ∧
    (Tr.procEnd ∈ newTr c c' → c'.L.queues = c.L.queues) :=
  nonwaiting_history ht

/-! ### non-vacuity -/

/-- callbacks 1 and 2 wait for class `user 1`; callback 5 calls the non-waiting form -/
def C10_exProg : Prog :=
  { cc := asciiClass, runEmpty := true,
    handlerScript := fun hid _ =>
      if hid = 1 ∨ hid = 2 then [.proc (some (.user 1))] else if hid = 5 then [.proc none] else [] }

/-- Signals of classes 0, 2, 1, 3 are queued; the handler of class 0 waits for class 1, and while it waits the
handler of class 2 — dispatched by that wait — waits for class 1 too.  The one dispatch of the class-1 signal
(made by the inner waiter's loop) releases both waiters, the inner first; neither takes the class-3 signal, which
the main loop dispatches afterwards; then the run blocks on the empty queue. -/
example :
    let r := runFuel C10_exProg 200
      (initCfg [.enq (.user 0) 0 .none 1, .enq (.user 2) 0 .none 2, .enq (.user 1) 0 .none 3, .enq (.user 3) 0 .none 4]
        [(.user 0, .user 1, none), (.user 2, .user 2, none), (.user 1, .user 3, none), (.user 3, .user 4, none)] none [])
    r.2 = .blocked ∧
      r.1.tr.reverse.filter (fun t => match t with | .waitBegin .. | .waitEnd .. => true | .take _ s => s.id ≥ 3 | _ => false) =
        [.waitBegin (.user 1) 0, .waitBegin (.user 1) 1,
         .take 0 { id := 3, cls := .user 1, prio := 0, src := .none },
         .waitEnd (.user 1) 1 true, .waitEnd (.user 1) 0 true,
         .take 0 { id := 4, cls := .user 3, prio := 0, src := .none }] ∧
      r.1.L.tickets = [] := by
  decide +kernel

/-- The non-waiting form called from a handler with priorities −5, −5, 0 pending: it dispatches exactly the two
signals of priority −5 and puts the third back. -/
example :
    let r := runFuel C10_exProg 200
      (initCfg [.enq (.user 0) (-10) .none 1, .enq (.user 1) (-5) .none 2, .enq (.user 1) (-5) .none 3, .enq (.user 3) 0 .none 4]
        [(.user 0, .user 5, none), (.user 1, .user 3, none), (.user 3, .user 4, none)] none [])
    r.2 = .blocked ∧
      r.1.tr.reverse.filter (fun t => match t with | .procBegin | .procEnd | .putBack .. | .take .. => true | _ => false) =
        [.take 0 { id := 1, cls := .user 0, prio := -10, src := .none }, .procBegin,
         .take 0 { id := 2, cls := .user 1, prio := -5, src := .none },
         .take 0 { id := 3, cls := .user 1, prio := -5, src := .none },
         .putBack 0 { id := 4, cls := .user 3, prio := 0, src := .none }, .procEnd,
         .take 0 { id := 4, cls := .user 3, prio := 0, src := .none }] := by
  decide +kernel

end Simpleline
