/-
  C10b — the `TicketMachine` object (`simpleline/event_loop/ticket_machine.py`) under ARBITRARY sequences of
  calls of its public methods `take_ticket`, `check_ticket`, `mark_line_to_go`: the dictionary of dictionaries
  `_lines` refines the flat ticket list of the abstract machine (`Model/Machine.lean`: `LoopSt.tickets`,
  `LoopSt.tcounter`, `mark`, the `procWait`/`waitCheck` instructions) and obeys the user-level laws.

  Property theorems only. Model: `Simpleline/Model/Objects.lean` (`TM κ`, generic in the type `κ` of line ids,
  validated against the Python class); spec vocabulary (`FlatTM`, `TM.get`, `TM.Abs`, `TM.WF`, `ideal`,
  `PendingSince`, `MarkedBetween`): `Simpleline/Spec/ObjectsSpec.lean`; lemmas: `Simpleline/Lemmas/Objects*.lean`.

  `check_ticket` has three results: `ready` (Python returns `True` and pops the ticket), `wait` (`False`),
  `keyError` (Python raises `KeyError`: unknown line, or unknown ticket in a known line; the event loop never
  issues such a check, the object model says what happens if a user does).

  Abstraction relation (`TM.Abs`), CHOICE: up to order — same counter, and `_lines[l][t]` exists with value `b`
  iff `(l, t, b)` is in the flat list (the flat list is in take order, the dictionaries group by line).
-/
import Simpleline.Lemmas.ObjectsFlat
import Simpleline.Lemmas.ObjectsLaws
import Simpleline.Lemmas.ObjectsHistLaw
import Simpleline.Lemmas.ObjectsMachine

namespace Simpleline.Objects

variable {κ : Type} [DecidableEq κ]

/-- The representation invariant (line keys distinct, ticket keys inside a line distinct, every ticket id below
the counter, a ticket id in at most one line) holds for a fresh `TicketMachine()`, is preserved by every method
call, hence holds after every sequence of calls. -/
theorem C10b_wf :
    TM.WF ({} : TM κ) ∧ (∀ (m : TM κ) (op : TMOp κ), m.WF → (m.step op).2.WF) ∧
    (∀ ops : List (TMOp κ), (({} : TM κ).run ops).2.WF) :=
  ⟨TM.WF.empty, fun _ op h => h.step op, fun ops => TM.WF.empty.run ops⟩

/-- The ticket returned by a `take_ticket` is the number of `take_ticket` calls before it (whatever the lines);
so the tickets of a session are strictly increasing, in particular pairwise distinct and never reused; and the
counter moves only by takes: after a session it is the number of takes. -/
theorem C10b_tickets_fresh (ops : List (TMOp κ)) :
    (∀ (i : Nat) (l : κ), ops[i]? = some (TMOp.take l) →
        (({} : TM κ).run ops).1[i]? = some (TMOut.ticket (ticketAt ops i))) ∧
    (∀ (i j : Nat) (l l' : κ) (t t' : Nat), i < j →
        ops[i]? = some (TMOp.take l) → ops[j]? = some (TMOp.take l') →
        (({} : TM κ).run ops).1[i]? = some (TMOut.ticket t) →
        (({} : TM κ).run ops).1[j]? = some (TMOut.ticket t') → t < t') ∧
    (({} : TM κ).run ops).2.counter = ops.countP TMOp.isTake ∧
    (∀ (m : TM κ) (op : TMOp κ), (m.step op).2.counter = m.counter + if op.isTake then 1 else 0) := by
  have h1 : ∀ (i : Nat) (l : κ), ops[i]? = some (TMOp.take l) →
      (({} : TM κ).run ops).1[i]? = some (TMOut.ticket (ticketAt ops i)) := by
    intro i l h
    have := TM.run_ticket ({} : TM κ) ops i l h
    simpa using this
  refine ⟨h1, ?_, by simpa using TM.run_counter ({} : TM κ) ops, TM.step_counter⟩
  intro i j l l' t t' hij hi hj hti htj
  rw [h1 i l hi] at hti; rw [h1 j l' hj] at htj
  cases hti; cases htj
  exact ticketAt_lt_of_take ops l hi hij

/-- One method call refines one step of the flat machine: from related states (`m` well-formed) the results
are equal and the states are related again. (take ↔ append an unmarked ticket numbered by the counter,
mark ↔ `Machine.mark`, check ↔ the `any … marked` test and the `filter`.) -/
theorem C10b_refines_flat_step (m : TM κ) (f : FlatTM κ) (h : m.Abs f) (hwf : m.WF) (op : TMOp κ) :
    (m.step op).1 = (f.step op).1 ∧ (m.step op).2.Abs (f.step op).2 :=
  h.step hwf op

/-- For every sequence of calls from a fresh object: the same results as the flat machine, and related final
states. -/
theorem C10b_refines_flat (ops : List (TMOp κ)) :
    (({} : TM κ).run ops).1 = (({} : FlatTM κ).run ops).1 ∧
    (({} : TM κ).run ops).2.Abs (({} : FlatTM κ).run ops).2 :=
  TM.Abs.empty.run TM.WF.empty ops

/-- What the three results of `check_ticket` mean on the flat list (for related states): ready iff the
machine's test `any (line = l ∧ id = t ∧ marked)` succeeds — and then exactly that ticket is filtered out;
wait iff the ticket is there unmarked; `KeyError` iff the ticket is not outstanding in that line (a case the
abstract machine and the real loop never produce). -/
theorem C10b_check_vs_flat (m : TM κ) (f : FlatTM κ) (h : m.Abs f) (hwf : m.WF) (l : κ) (t : Nat) :
    ((m.check l t).1 = .ready ↔ f.tickets.any (fun k => k.1 = l ∧ k.2.1 = t ∧ k.2.2) = true) ∧
    ((m.check l t).1 = .ready → (m.check l t).2.Abs
        { f with tickets := f.tickets.filter fun k => ¬ (k.1 = l ∧ k.2.1 = t) }) ∧
    ((m.check l t).1 = .wait ↔ (l, t, false) ∈ f.tickets) ∧
    ((m.check l t).1 = .keyError ↔ ∀ b, (l, t, b) ∉ f.tickets) ∧
    ((m.check l t).1 ≠ .ready → (m.check l t).2 = m) := by
  refine ⟨?_, ?_, ?_, ?_, ?_⟩
  · rw [h.check_fst, FlatTM.check_fst_ready, FlatTM.any_marked_iff]
  · intro hr
    have h1 := h.check hwf l t
    rw [h.check_fst, FlatTM.check_fst_ready, ← FlatTM.any_marked_iff] at hr
    unfold FlatTM.check at h1
    rw [if_pos hr] at h1
    exact h1
  · rw [h.check_fst, FlatTM.check_fst_wait]
    exact ⟨fun e => e.2, fun e => ⟨fun e' => (by cases h.functional e e'), e⟩⟩
  · rw [h.check_fst, FlatTM.check_fst_keyError]
  · intro hr
    exact TM.check_snd_of_not_ready m l t (fun e => hr ((TM.check_ready_iff m l t).2 e))

/-- Anchor to the abstract machine: at line type `Cls` the flat machine of the spec IS the ticket component of
`Model/Machine.lean` — `take` is the update of `procWait` (append `{line, id := tcounter, marked := false}`,
counter + 1), `mark` is `Simpleline.mark`, and the test and the filter of `check` are those of `waitCheck`
(`toTicket` turns a triple into a `Machine.Ticket`). -/
theorem C10b_flat_is_machine (f : FlatTM Cls) (c : Cls) (t : Nat) :
    ((f.take c).1 = f.counter ∧ (f.take c).2.counter = f.counter + 1 ∧
      (f.take c).2.tickets.map toTicket
        = f.tickets.map toTicket ++ [({ line := c, id := f.counter, marked := false } : Ticket)]) ∧
    ((f.mark c).tickets.map toTicket = Simpleline.mark (f.tickets.map toTicket) c) ∧
    (f.tickets.any (fun k => k.1 = c ∧ k.2.1 = t ∧ k.2.2)
      = (f.tickets.map toTicket).any (fun k => k.line = c ∧ k.id = t ∧ k.marked)) ∧
    ((f.tickets.filter fun k => ¬ (k.1 = c ∧ k.2.1 = t)).map toTicket
      = (f.tickets.map toTicket).filter fun k => ¬ (k.line = c ∧ k.id = t)) :=
  ⟨flat_take_is_machine f c, flat_mark_is_machine f c, flat_check_is_machine f c t⟩

/-- History form I: the results of a whole session are those of the reference `ideal`, which computes every
answer by looking back into the operations issued so far (a take answers the number of takes before it; a check
of `(l, t)` looks for the take that issued `t` on line `l`, for a `mark l` after it, and for a `check l t` after
such a mark). No state is involved in `ideal`. -/
theorem C10b_run_eq_ideal (ops : List (TMOp κ)) : (({} : TM κ).run ops).1 = ideal ops :=
  TM.run_eq_ideal ops

/-- History form II, the user-level law, on a session `ops` and the answers `outs` it got: a `check l t` at
position `i` answers ready iff there is `j < i` with `ops[j] = take l` that returned `t`, no check of `(l, t)`
between `j` and `i` answered ready, and some `mark l` lies strictly between `j` and `i`; it answers wait iff
there is such a `j` (not yet answered ready) with no `mark l` in between; it answers `KeyError` iff there is no
such `j` at all (never taken on that line, or already answered ready). -/
theorem C10b_ready_iff_marked_since (ops : List (TMOp κ)) (i : Nat) (l : κ) (t : Nat)
    (h : ops[i]? = some (.check l t)) :
    ((({} : TM κ).run ops).1[i]? = some (.checked .ready) ↔
      ∃ j, PendingSince ops (({} : TM κ).run ops).1 i j l t ∧ MarkedBetween ops j i l) ∧
    ((({} : TM κ).run ops).1[i]? = some (.checked .wait) ↔
      ∃ j, PendingSince ops (({} : TM κ).run ops).1 i j l t ∧ ¬ MarkedBetween ops j i l) ∧
    ((({} : TM κ).run ops).1[i]? = some (.checked .keyError) ↔
      ¬ ∃ j, PendingSince ops (({} : TM κ).run ops).1 i j l t) :=
  TM.session_law ops i l t h

/-- `mark_line_to_go(l)` changes the answer of no check on another line (any state, no invariant needed). -/
theorem C10b_mark_only_own_line (m : TM κ) (l l' : κ) (t : Nat) (h : l' ≠ l) :
    ((m.mark l).check l' t).1 = (m.check l' t).1 :=
  m.check_mark_other l l' t h

/-- A released ticket is consumed exactly once: after `check_ticket(l, t)` answered ready, whatever calls
follow (ids are never reused), every later `check_ticket(l, t)` raises `KeyError`. -/
theorem C10b_ready_once (m : TM κ) (hwf : m.WF) (l : κ) (t : Nat) (h : (m.check l t).1 = .ready)
    (ops : List (TMOp κ)) : (((m.check l t).2.run ops).2.check l t).1 = .keyError :=
  TM.ready_once hwf l t h ops

/-- … the same on a session from a fresh object: `pre`, the check that answers ready, `mid`, the check again. -/
theorem C10b_ready_once_run (pre mid : List (TMOp κ)) (l : κ) (t : Nat)
    (h : (({} : TM κ).run (pre ++ [.check l t])).1[pre.length]? = some (.checked .ready)) :
    (({} : TM κ).run (pre ++ [.check l t] ++ mid ++ [.check l t])).1[pre.length + 1 + mid.length]?
      = some (.checked .keyError) := by
  have hlen := TM.run_length ({} : TM κ) pre
  rw [TM.run_append] at h
  simp only [TM.run, TM.step] at h
  rw [List.getElem?_append_right (by omega)] at h
  simp only [hlen, Nat.sub_self, List.getElem?_cons_zero, Option.some.injEq, TMOut.checked.injEq] at h
  have := TM.ready_once (TM.WF.empty.run pre) l t h mid
  simp only [List.append_assoc, TM.run_append, TM.run, TM.step]
  rw [List.getElem?_append_right (by omega)]
  simp only [hlen, List.singleton_append, List.getElem?_cons_succ,
    show pre.length + 1 + mid.length - pre.length = mid.length + 1 by omega]
  rw [List.getElem?_append_right (by rw [TM.run_length]; omega)]
  simp [TM.run_length, this]

/-- One `mark_line_to_go(l)` releases every waiter of the line: every ticket for which a check would not raise
`KeyError` answers ready right after the mark. -/
theorem C10b_all_waiters (m : TM κ) (l : κ) (t : Nat) (h : (m.check l t).1 ≠ .keyError) :
    ((m.mark l).check l t).1 = .ready :=
  m.check_mark_same l t h

/-! ### non-vacuity: a concrete session with two lines (`0`, `1`), an unknown line (`2`), three tickets;
ready, wait and both kinds of `KeyError` occur -/

/-- the session used below -/
def c10bDemo : List (TMOp Nat) :=
  [.take 0, .take 1, .take 0, .check 0 0, .mark 0, .check 0 0, .check 0 0, .check 1 1, .check 0 2,
   .check 1 5, .check 2 0, .mark 1, .check 1 1, .check 1 0]

example :
    (({} : TM Nat).run c10bDemo).1 =
      [.ticket 0, .ticket 1, .ticket 2, .checked .wait, .unit, .checked .ready, .checked .keyError,
       .checked .wait, .checked .ready, .checked .keyError, .checked .keyError, .unit, .checked .ready,
       .checked .keyError] := by decide

/-- the emptied dictionaries stay behind (as in Python) -/
example : (({} : TM Nat).run c10bDemo).2 = { lines := [(0, []), (1, [])], counter := 3 } := by decide

example : (({} : FlatTM Nat).run c10bDemo).1 = (({} : TM Nat).run c10bDemo).1 := by decide

example : ideal c10bDemo = (({} : TM Nat).run c10bDemo).1 := by decide

/-- an intermediate state with outstanding tickets in two lines; it is well-formed, and related to the flat list -/
example :
    (({} : TM Nat).run (c10bDemo.take 6)).2 = { lines := [(0, [(2, true)]), (1, [(1, false)])], counter := 3 } ∧
    (({} : FlatTM Nat).run (c10bDemo.take 6)).2 = { tickets := [(1, 1, false), (0, 2, true)], counter := 3 } ∧
    (({} : TM Nat).run (c10bDemo.take 6)).2.WF := by decide

/-- the hypotheses of `C10b_ready_iff_marked_since` on the demo: the check at position 5 is pending since the
take at 0 and marked in between (position 4); the check at 3 is pending and not marked -/
example :
    PendingSince c10bDemo (({} : TM Nat).run c10bDemo).1 5 0 0 0 ∧ MarkedBetween c10bDemo 0 5 0 ∧
    PendingSince c10bDemo (({} : TM Nat).run c10bDemo).1 3 0 0 0 ∧ ¬ MarkedBetween c10bDemo 0 3 0 := by
  refine ⟨⟨by decide, by decide, by decide, ?_⟩, ⟨4, by decide, by decide, by decide⟩,
    ⟨by decide, by decide, by decide, ?_⟩, ?_⟩
  · intro k h1 h2; have : k = 1 ∨ k = 2 ∨ k = 3 ∨ k = 4 := by omega
    rcases this with rfl | rfl | rfl | rfl <;> decide
  · intro k h1 h2; have : k = 1 ∨ k = 2 := by omega
    rcases this with rfl | rfl <;> decide
  · rintro ⟨k, h1, h2, h3⟩; have : k = 1 ∨ k = 2 := by omega
    rcases this with rfl | rfl <;> revert h3 <;> decide

/-- `TM.WF` is a real restriction: a hand-made object with a duplicated ticket key is not well-formed, and on it
a ready check does not consume the ticket (`C10b_ready_once` fails without `WF`) -/
example :
    let m : TM Nat := { lines := [(0, [(0, true), (0, true)])], counter := 1 }
    ¬ m.WF ∧ (m.check 0 0).1 = .ready ∧ ((m.check 0 0).2.check 0 0).1 = .ready := by decide

end Simpleline.Objects
