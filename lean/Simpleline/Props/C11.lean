/-
  C11 — Text never exceeds its width and nothing but whitespace is lost in wrapping.

  Property theorems only; helper lemmas live in `Simpleline/Lemmas/Text.lean`.
  `renderTextSt cc st t w` is `TextWidget(t).render(w)` on a widget object whose buffer/cursor are `st`.
-/
import Simpleline.Lemmas.Text

namespace Simpleline

/-- non-blank characters, in order -/
def nonSpace (cc : CharClass) (l : List Char) : List Char := l.filter fun c => !cc.isSpace c

/-- The wrap loop terminates: every iteration of `_wrap_chunks`' outer loop consumes a character or a
chunk (so the `else []` branch of `wrapLoop` is never taken for a width ≥ 1). -/
theorem C11_wrap_terminates (cc : CharClass) (w : Nat) (hw : 1 ≤ w) (haveLines : Bool)
    (chunks : List (List Char)) (hne : chunks ≠ []) (hch : ∀ c ∈ chunks, c ≠ []) :
    wrapMeasure (wrapStep cc w haveLines chunks).2 < wrapMeasure chunks ∧
    (∀ c ∈ (wrapStep cc w haveLines chunks).2, c ≠ []) :=
  wrapStep_decreases cc w hw haveLines chunks hne hch

/-- Every rendered line has at most `w` characters. -/
theorem C11_width (cc : CharClass) (st : WSt) (t : List Char) (w : Nat) (hw : 1 ≤ w) (s : WSt)
    (h : renderTextSt cc st t w = .ok s) : ∀ l ∈ s.buf, l.length ≤ w :=
  render_width cc st t w hw s h

/-- Every non-blank character of the source appears exactly once and in order: reading the rendered
lines in order and dropping blanks gives the source with its blanks dropped. -/
theorem C11_conserve (cc : CharClass) (hs : cc.Sane) (st : WSt) (t : List Char) (w : Nat) (hw : 1 ≤ w)
    (s : WSt) (h : renderTextSt cc st t w = .ok s) :
    nonSpace cc s.buf.flatten = nonSpace cc t :=
  render_conserve cc hs st t w hw s h

/-- Line breaks: the rendered lines are, source line by source line (split at `'\n'`), the wrap of
that source line, a source line whose wrap is empty giving one empty line — except that a text whose
wrapped form is empty altogether (no `'\n'` and nothing but blanks) gives no line. -/
theorem C11_breaks (cc : CharClass) (st : WSt) (t : List Char) (w : Nat) (hw : 1 ≤ w) (s : WSt)
    (h : renderTextSt cc st t w = .ok s) :
    s.buf = if wrapWords cc t w = [] then []
            else (splitOn '\n' t).flatMap fun l => if pyWrap cc l w = [] then [[]] else pyWrap cc l w :=
  render_breaks cc st t w hw s h

/-- No spurious blank lines: the wrap of a source line never contains an empty line. -/
theorem C11_no_empty_line (cc : CharClass) (l : List Char) (w : Nat) (hw : 1 ≤ w) :
    ∀ x ∈ pyWrap cc l w, x ≠ [] :=
  pyWrap_nonempty cc l w hw

/-- A source line consisting of blanks of `string.whitespace` only wraps to nothing (so it renders
as exactly one empty line when the text has a line break). -/
theorem C11_blank_line (cc : CharClass) (hs : cc.Sane) (l : List Char) (w : Nat) (hw : 1 ≤ w)
    (hb : ∀ c ∈ l, isWs6 c = true) : pyWrap cc l w = [] :=
  pyWrap_blank cc hs l w hw hb

/-- The cursor after rendering and the independence from the previous object state. -/
theorem C11_state_independent (cc : CharClass) (st st' : WSt) (t : List Char) (w : Int) :
    renderTextSt cc st t w = renderTextSt cc st' t w := rfl

/-- A width ≤ 0 is refused (ValueError) for a non-empty text. -/
theorem C11_refuse (cc : CharClass) (st : WSt) (t : List Char) (w : Int) (hw : w ≤ 0) (ht : t ≠ []) :
    renderTextSt cc st t w = .error .valueError := by
  simp [renderTextSt, WSt.writeWrapped, ht, hw]

/-! Non-vacuity: a concrete text that wraps, splits a long word and contains a line break. -/
example : (renderTextSt asciiClass {} "ab cde\nfghijkl m".toList 3).toOption =
    some { buf := ["ab".toList, "cde".toList, "fgh".toList, "ijk".toList, "l m".toList], cur := (4, 3) } := by
  decide +kernel

end Simpleline
