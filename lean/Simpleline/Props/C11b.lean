/-
  C11 (second part) — the wrapped text is exactly the greedy word wrap of each source line: no
  spurious blank lines, no dropped or repeated words, for every text and every width.

  `greedyLines cc w chunks` (Spec/GreedySpec.lean) is the textbook greedy rule on the chunks of
  `TextWrapper._split`, written independently of the model of `_wrap_chunks` (`wrapStep`/`wrapLoop` of
  Model/Text.lean): a line is the longest prefix of the remaining chunks that fits; a chunk longer
  than a whole line is cut and fills the room left; one whitespace-only chunk is dropped at the start
  of a line other than the first and at the end of every line; empty lines are not emitted.

  Property theorems only; helper lemmas live in `Lemmas/GreedyEq.lean` and `Lemmas/GreedyFacts.lean`.
  One iteration of the outer loop of `_wrap_chunks` is `wrapStep cc w haveLines chunks`, where
  `haveLines` says whether a line has been emitted before (`lines` non-empty in Python) and `chunks`
  are the chunks left; `stepCur cc w haveLines chunks` (Lemmas/TextWrap.lean) is Python's `cur_line`
  at the end of the iteration before its trailing blank chunk is dropped, `dropLead cc haveLines
  chunks` the chunks after the leading blank chunk was dropped. Statements about one iteration hold
  for every `haveLines` and `chunks`, hence for every iteration of every run.
-/
import Simpleline.Lemmas.GreedyFacts

namespace Simpleline

/-- `_wrap_chunks` computes the greedy wrap: from every state of its outer loop (`haveLines`: a line
has been emitted; `chunks`: the chunks left) the lines it still produces are those of the textbook
greedy rule, chunk for chunk. No hypothesis on the chunks; width ≥ 1 as `textwrap` requires. -/
theorem C11_eq_greedy (cc : CharClass) (w : Nat) (hw : 1 ≤ w) (haveLines : Bool)
    (chunks : List (List Char)) :
    wrapLoop cc w haveLines chunks = (greedyFrom cc w (!haveLines) chunks).map List.flatten :=
  wrapLoop_eq_greedyFrom cc w hw haveLines chunks

/-- The whole run of `_wrap_chunks` (no line emitted yet) on any list of chunks is the greedy wrap. -/
theorem C11_eq_greedyLines (cc : CharClass) (w : Nat) (hw : 1 ≤ w) (chunks : List (List Char)) :
    wrapLoop cc w false chunks = (greedyLines cc w chunks).map List.flatten :=
  wrapLoop_eq_greedyFrom cc w hw false chunks

/-- `textwrap.wrap(line, w)` is the greedy wrap of the chunks of the (whitespace-munged) line, for
every text and every width ≥ 1. -/
theorem C11_wrap_eq_greedy (cc : CharClass) (l : List Char) (w : Nat) (hw : 1 ≤ w) :
    pyWrap cc l w = (greedyLines cc w (splitChunks cc (munge l))).map List.flatten :=
  pyWrap_eq_greedyLines cc l w hw

/-- One iteration of the outer loop is one step of the greedy rule: `cur_line` is the line of
`greedyLine` (taken after the leading blank chunk was dropped), and so are the chunks left. -/
theorem C11_step_eq_greedy (cc : CharClass) (w : Nat) (haveLines : Bool) (chunks : List (List Char)) :
    stepCur cc w haveLines chunks = (greedyLine w (dropLead cc haveLines chunks)).1 ∧
    (wrapStep cc w haveLines chunks).2 = (greedyLine w (dropLead cc haveLines chunks)).2 :=
  ⟨stepCur_eq_greedyLine cc w haveLines chunks, wrapStep_snd_eq_greedyLine cc w haveLines chunks⟩

/-- What "the longest prefix that fits" of the greedy rule means: the first `fitCount w chunks`
chunks fit in `w` columns, and no longer prefix of the chunks does. -/
theorem C11_greedy_longest_prefix (w : Nat) (chunks : List (List Char)) :
    fitCount w chunks ≤ chunks.length ∧
    chunksWidth (chunks.take (fitCount w chunks)) ≤ w ∧
    ∀ n, n ≤ chunks.length → chunksWidth (chunks.take n) ≤ w → n ≤ fitCount w chunks :=
  ⟨fitCount_le_length w chunks, fitCount_fits w chunks, fitCount_max w chunks⟩

/-- A line break happens only where the next chunk does not fit: if an iteration leaves chunks, the
first of them, `c` — the chunk the line was ended before; the next iteration starts with it and
drops it if it is whitespace-only — together with what was put on the line (before the trailing blank
chunk is dropped) exceeds the width. When a long word was cut, `c` is its remainder.
(With `c` read as the first chunk of the next *line* the statement would be false: the whitespace
dropped in between counts, see the example below.) -/
theorem C11_greedy_maximal (cc : CharClass) (w : Nat) (haveLines : Bool) (chunks : List (List Char))
    (c : List Char) (rest : List (List Char)) (h : (wrapStep cc w haveLines chunks).2 = c :: rest) :
    w < totalLen (stepCur cc w haveLines chunks) + c.length :=
  wrapStep_maximal cc w haveLines chunks c rest h

/-- A chunk longer than a whole line is cut so that every piece but the last fills its line exactly
or ends right after a hyphen. Whenever an iteration meets, after the chunks `pre` that fit, a chunk
`c` longer than the width, it puts the first `k = cutPoint c room` characters of `c` on the line
(`room` = the columns left) and leaves the remainder `c.drop k` as the first chunk for the next
iteration (which treats it the same way, with `pre = []`, while it is still longer than the width).
The line is then full — or `k` is smaller than `room`, the piece ends with a hyphen that is not
part of a leading run of hyphens, and it is the last hyphen of `c` that leaves it on this line. -/
theorem C11_long_word_fills (cc : CharClass) (w : Nat) (haveLines : Bool) (chunks : List (List Char))
    (pre : List (List Char)) (c : List Char) (post : List (List Char))
    (hs : dropLead cc haveLines chunks = pre ++ c :: post) (hpre : totalLen pre ≤ w)
    (hc : w < c.length) :
    ∃ k, k = cutPoint c (w - totalLen pre) ∧
      stepCur cc w haveLines chunks = pre ++ [c.take k] ∧
      (wrapStep cc w haveLines chunks).2 = c.drop k :: post ∧
      (totalLen (stepCur cc w haveLines chunks) = w ∨
       (totalLen (stepCur cc w haveLines chunks) < w ∧ 2 ≤ k ∧ c[k - 1]? = some '-' ∧
        (∃ x ∈ c.take (k - 1), x ≠ '-') ∧
        ∀ i, k ≤ i → i < w - totalLen pre → c[i]? ≠ some '-')) :=
  wrapStep_long_fills cc w haveLines chunks pre c post hs hpre hc

/-- No word is lost or repeated, by the loop: the characters of the chunks are the produced lines,
in order, with whitespace-only stretches (the dropped blank chunks) re-inserted before, between and
after them. -/
theorem C11_no_word_lost_or_repeated (cc : CharClass) (w : Nat) (hw : 1 ≤ w) (haveLines : Bool)
    (chunks : List (List Char)) :
    WithBlanks cc chunks.flatten (wrapLoop cc w haveLines chunks) :=
  wrapLoop_withBlanks cc w hw haveLines chunks

/-- No word is lost or repeated, by `textwrap.wrap`: the source line (tabs expanded, each
whitespace character replaced by a blank) is the concatenation of its wrapped lines with
whitespace-only stretches re-inserted; nothing else is deleted, nothing is added or reordered. -/
theorem C11_wrap_no_word_lost_or_repeated (cc : CharClass) (l : List Char) (w : Nat) (hw : 1 ≤ w) :
    WithBlanks cc (munge l) (pyWrap cc l w) :=
  pyWrap_withBlanks cc l w hw

/-! Non-vacuity: a text with a word longer than the line, hyphenated words (one split by
`wordsep_re`, one cut by the hyphen rule of `_handle_long_word`) and runs of blanks, at width 5 and
8; the model and the greedy rule side by side (the same lines as CPython's `textwrap.wrap`). -/

example : pyWrap asciiClass "ab  extraordinarily well-known  r2-d2345678   yz".toList 5 =
    ["ab  e", "xtrao", "rdina", "rily", "well-", "known", "r2-", "d2345", "678", "yz"].map String.toList := by
  decide +kernel

example : greedyLines asciiClass 5
      (splitChunks asciiClass (munge "ab  extraordinarily well-known  r2-d2345678   yz".toList)) =
    [["ab", "  ", "e"], ["xtrao"], ["rdina"], ["rily"], ["well-"], ["known"], ["r2-"], ["d2345"],
     ["678"], ["yz"]].map (List.map String.toList) := by
  decide +kernel

example : pyWrap asciiClass "ab  extraordinarily well-known  r2-d2345678   yz".toList 8 =
    ["ab  extr", "aordinar", "ily", "well-", "known  r", "2-", "d2345678", "yz"].map String.toList := by
  decide +kernel

example : greedyLines asciiClass 8
      (splitChunks asciiClass (munge "ab  extraordinarily well-known  r2-d2345678   yz".toList)) =
    [["ab", "  ", "extr"], ["aordinar"], ["ily"], ["well-"], ["known", "  ", "r"], ["2-"],
     ["d2345678"], ["yz"]].map (List.map String.toList) := by
  decide +kernel

/-- The hypotheses of `C11_long_word_fills` and both of its alternatives occur: at width 8 the chunk
`2-d2345678` left over from `r2-d2345678` is cut after its hyphen (2 of 8 columns used), and its
remainder `d2345678` fills a line exactly. -/
example :
    stepCur asciiClass 8 true ["2-d2345678".toList, "   ".toList, "yz".toList] = ["2-".toList] ∧
    (wrapStep asciiClass 8 true ["2-d2345678".toList, "   ".toList, "yz".toList]).2 =
      ["d2345678".toList, "   ".toList, "yz".toList] ∧
    stepCur asciiClass 5 true ["extraordinarily".toList, " ".toList] = ["extra".toList] := by
  decide +kernel

/-- `C11_greedy_maximal` must count the chunk the line was ended before, not the first chunk of the
next line: `abc   d` on width 5 gives `abc` / `d` although `abc` and `d` together have 4 characters —
the line was ended before the three blanks, which did not fit and were then dropped. -/
example : pyWrap asciiClass "abc   d".toList 5 = ["abc".toList, "d".toList] ∧
    (wrapStep asciiClass 5 false ["abc".toList, "   ".toList, "d".toList]).2 =
      ["   ".toList, "d".toList] := by
  decide +kernel

end Simpleline
