/-
  C12 — A screen prints exactly its content then its prompt; paging loses nothing.

  `printWidget ls h` is `UIScreen._print_widget` on a widget with lines `ls` at screen height `h`
  (events: printed lines and blocking "press ENTER" requests); `Wd.window` is `WindowContainer`;
  `Prompt.str` is `str(prompt)`.
-/
import Simpleline.Lemmas.Screen

namespace Simpleline

def OutEv.line? : OutEv → Option Str
  | .line l => some l
  | .ask => none

/-! ### paging -/

/-- defined for every height the API allows -/
theorem C12_paging_defined (ls : List Str) (h : Nat) (hh : 3 ≤ h) : (printWidget ls h).isSome = true := by
  rw [printWidget_of_le ls h hh]; rfl

/-- every content line is printed exactly once and in order -/
theorem C12_paging_lines (ls : List Str) (h : Nat) (evs : List OutEv) (he : printWidget ls h = some evs) :
    evs.filterMap OutEv.line? = ls := by
  rw [printWidget_eq_some ls h evs he]
  exact pages_filterMap OutEv.line? (fun _ => rfl) rfl _ ls

/-- content that fits in `h - 2` lines is printed without any request -/
theorem C12_paging_short (ls : List Str) (h : Nat) (hh : 3 ≤ h) (hl : ls.length ≤ h - 2) :
    printWidget ls h = some (ls.map .line) := by
  rw [printWidget_of_le ls h hh, pages_of_short _ _ (Or.inl hl)]

/-- the requests sit exactly after every full page of `h - 2` lines: event number `i` is a request
iff `i % (h - 1) = h - 2` -/
theorem C12_paging_ask_positions (ls : List Str) (h : Nat) (hh : 3 ≤ h) (evs : List OutEv)
    (he : printWidget ls h = some evs) (i : Nat) (hi : i < evs.length) :
    evs[i] = .ask ↔ i % (h - 1) = h - 2 := by
  have hev := printWidget_eq_some ls h evs he
  subst hev
  have := pages_ask_iff (h - 2) (by omega) ls i hi
  rwa [show h - 2 + 1 = h - 1 by omega] at this

/-- the last page is not followed by a request -/
theorem C12_paging_last (ls : List Str) (h : Nat) (hh : 3 ≤ h) (evs : List OutEv)
    (he : printWidget ls h = some evs) : evs.getLast? ≠ some .ask := by
  rw [printWidget_of_le ls h hh] at he
  cases he
  exact pages_getLast?_ne_ask _ ls

/-- the number of requests is `⌈n / (h-2)⌉ - 1` -/
theorem C12_paging_count (ls : List Str) (h : Nat) (hh : 3 ≤ h) (hne : ls ≠ []) (evs : List OutEv)
    (he : printWidget ls h = some evs) :
    (evs.filter fun e => e == .ask).length = (ls.length - 1) / (h - 2) := by
  have _ := hne -- not needed by the proof: `(0 - 1) / _ = 0`
  rw [printWidget_eq_some ls h evs he]
  exact pages_count_ask (h - 2) (by omega) ls

/-! ### the window -/

/-- the title part: the wrapped title and one blank line, when there is a title -/
def titleLines (cc : CharClass) (title : Option Str) (w : Int) : Except RErr Grid :=
  match truthy title with
  | some t => (renderTextSt cc {} t w).map fun s => s.buf ++ [[]]
  | none => .ok []

/-- the window's lines are the title part followed by the lines of each item in the order they were
added, and nothing else -/
theorem C12_window (cc : CharClass) (st : WSt) (title : Option Str) (items : List Wd) (w : Int) (r : Wd)
    (h : (Wd.window st title items).render cc w = .ok r) :
    ∃ (tl : Grid) (items' : List Wd), titleLines cc title w = .ok tl ∧
      items'.length = items.length ∧
      (∀ i, (hi : i < items.length) → (hi' : i < items'.length) → items[i].render cc w = .ok items'[i]) ∧
      r.lines = tl ++ items'.flatMap Wd.lines :=
  window_render_spec cc st title items w r h

/-- a separator of `n` lines renders to `n` empty lines -/
theorem C12_separator (cc : CharClass) (st : WSt) (n : Nat) (w : Int) (r : Wd)
    (h : (Wd.sep st n).render cc w = .ok r) : r.lines = List.replicate n [] :=
  sep_render_lines cc st n w r h

/-! ### the prompt -/

def lookupOpt (opts : List (Str × Str)) (k : Str) : Option Str := (opts.find? fun kd => kd.1 = k).map (·.2)

/-- `add`/`update` then look up: finite-map semantics -/
theorem C12_prompt_set (opts : List (Str × Str)) (k d k' : Str) :
    lookupOpt (setOpt opts k d) k' = if k' = k then some d else lookupOpt opts k' :=
  find?_setOpt opts k d k'

theorem C12_prompt_remove (p : Prompt) (k k' : Str) :
    lookupOpt (p.removeOption k).options k' = if k' = k then none else lookupOpt p.options k' :=
  find?_filter_ne p.options k k'

/-- keys stay unique -/
theorem C12_prompt_set_nodup (opts : List (Str × Str)) (k d : Str) (h : (opts.map (·.1)).Nodup) :
    ((setOpt opts k d).map (·.1)).Nodup :=
  setOpt_keys_nodup opts k d h

/-- the options are listed sorted by key and are exactly the options currently defined -/
theorem C12_prompt_sorted (opts : List (Str × Str)) :
    (sortOpts opts).Perm opts ∧ (sortOpts opts).Pairwise (fun a b => strLt b.1 a.1 = false) :=
  ⟨sortOpts_perm opts, sortOpts_sorted opts⟩

/-- `str(prompt)`: message, bracketed key-sorted options joined by ", ", then ": " -/
theorem C12_prompt_str (m : Str) (hm : m ≠ []) (opts : List (Str × Str)) (ho : opts ≠ []) :
    ({ message := some m, options := opts } : Prompt).str =
      m ++ [' '] ++ (['['] ++ joinStr [',', ' '] ((sortOpts opts).map optStr) ++ [']']) ++ [':', ' '] :=
  prompt_str_some m hm opts ho

theorem C12_prompt_str_empty : ({ message := none, options := [] } : Prompt).str = [] := by
  decide

/-! Non-vacuity -/
example : printWidget ((List.range 7).map fun i => (toString i).toList) 5 =
    some [.line ['0'], .line ['1'], .line ['2'], .ask, .line ['3'], .line ['4'], .line ['5'], .ask, .line ['6']] := by
  decide +kernel

example : (({ message := some "Pick".toList } : Prompt).setOption ['r'] "to refresh".toList
            |>.setOption ['c'] "to continue".toList).str = "Pick ['c' to continue, 'r' to refresh]: ".toList := by
  decide +kernel

end Simpleline
