/-
  C12b — What the library's own dialog screens show (simpleline/render/adv_widgets.py).

  `DKind` (`Model/DialogViews.lean`) lists the dialogs with their constructor arguments: `ErrorDialog(msg)`,
  `PasswordDialog(msg=None)`, `YesNoDialog(msg)`, `HelpScreen(help_path)` (argument: the text `f.read()` returned,
  `none` = no help file) and `GetInputScreen(msg)` / `GetPasswordInputScreen(msg)`.  `k.title` is `screen.title`,
  `k.items` the content of `screen.window` after `refresh()`, `k.windowLines cc w` is
  `window.render(w); window.get_lines()`, `k.promptStr` is `str(screen.prompt())` (`none`: `prompt()` returned
  `None`) and `k.passPrompt` the text `PasswordDialog.prompt()` asks the passphrase with.  With `LANG=C`.

  Property theorems only; helper lemmas live in `Simpleline/Lemmas/ViewsDialog.lean`.  `titleLines` is the title
  part of a window of C12; `centerLines g w` moves every row of `g` right by `(w - width of g) / 2` columns.
-/
import Simpleline.Props.C12
import Simpleline.Props.C13b
import Simpleline.Lemmas.ViewsDialog
import Simpleline.Lemmas.LayoutOKExamples

namespace Simpleline

/-! ### 1. the shape of the window -/

/-- For every dialog, message, width and character classification: the lines of the dialog's window are the title
part (`titleLines`: the wrapped title and one blank line; nothing for the input screens, which have no title)
followed by the lines of each item of the window, in the order `refresh()` added them, and nothing else
(`C12_window` instantiated). -/
theorem C12b_dialog_window_shape (cc : CharClass) (k : DKind) (w : Int) (g : Grid)
    (h : k.windowLines cc w = .ok g) :
    ∃ (tl : Grid) (items' : List Wd), titleLines cc k.title w = .ok tl ∧
      items'.length = k.items.length ∧
      (∀ i, (hi : i < k.items.length) → (hi' : i < items'.length) → k.items[i].render cc w = .ok items'[i]) ∧
      g = tl ++ items'.flatMap Wd.lines := by
  obtain ⟨r, hr, rfl⟩ := k.windowLines_eq_ok cc w g h
  exact C12_window cc {} k.title k.items w r hr

/-- Closed form for the dialogs that have a message (all but the input screens): with `T` the title and `M` the
message rendered as text at the width, the window is: the lines of `T`, one blank line, the lines of `M` —
centered as a block for `ErrorDialog`, `PasswordDialog`, `YesNoDialog`, as they are for `HelpScreen` — and one
blank line (the separator). -/
theorem C12b_dialog_window_closed (cc : CharClass) (k : DKind) (w : Int) (g : Grid) (t m : Str)
    (ht : k.title = some t) (hm : k.message = some m) (h : k.windowLines cc w = .ok g) :
    ∃ T M, renderTextSt cc {} t w = .ok T ∧ renderTextSt cc {} m w = .ok M ∧
      g = T.buf ++ [[]] ++ (if k.centered then centerLines M.buf w else M.buf) ++ [[]] :=
  k.windowLines_closed cc w g t m ht hm h

/-- `GetInputScreen` / `GetPasswordInputScreen`: `refresh()` replaces the window by an empty `WindowContainer()`
without a title, so nothing is drawn, at any width (the message is shown by the prompt only). -/
theorem C12b_input_screen_window_empty (cc : CharClass) (m : Str) (w : Int) :
    (DKind.getInput m).windowLines cc w = .ok [] :=
  DKind.windowLines_getInput cc m w

/-- At every width ≥ 1 every dialog renders (no exception), whatever the message. -/
theorem C12b_dialog_defined (cc : CharClass) (k : DKind) (w : Int) (hw : 1 ≤ w) :
    ∃ g, k.windowLines cc w = .ok g :=
  k.windowLines_ok_of_pos cc w (by omega)

/-! ### 2. the width -/

/-- Every line of every dialog's window is at most `w` characters long (for a width ≤ 0: if the render succeeds
at all, every line is empty). From the `RespectsWidth` results of C13b for windows, centered widgets, texts and
separators, which rest on C11. -/
theorem C12b_dialog_within_width (cc : CharClass) (k : DKind) (w : Int) (g : Grid)
    (h : k.windowLines cc w = .ok g) : ∀ row ∈ g, row.length ≤ w.toNat := by
  obtain ⟨r, hr, rfl⟩ := k.windowLines_eq_ok cc w g h
  exact C13_respects_window cc {} k.title k.items w (k.items_respect cc w) r hr

/-- … in particular for a natural width `w ≥ 1` the window exists and none of its lines is longer than `w`. -/
theorem C12b_dialog_within_width_nat (cc : CharClass) (k : DKind) (w : Nat) (hw : 1 ≤ w) :
    ∃ g, k.windowLines cc w = .ok g ∧ ∀ row ∈ g, row.length ≤ w := by
  obtain ⟨g, hg⟩ := C12b_dialog_defined cc k w (by omega)
  exact ⟨g, hg, fun row hrow => by simpa using C12b_dialog_within_width cc k w g hg row hrow⟩

/-! ### 3. the prompts -/

/-- The exact prompt strings: `str(prompt())` of every dialog. `PasswordDialog.prompt()` returns `None` (it asks
for the passphrase itself, see `C12b_password_prompt`); an input screen shows its message followed by `": "`,
and nothing at all for the empty message. -/
theorem C12b_prompt_strings (k : DKind) :
    k.promptStr = match k with
      | .error _ => some "Press ENTER to exit: ".toList
      | .password _ => none
      | .yesNo _ => some "Please respond 'yes' or 'no': ".toList
      | .help _ => some "Press ENTER to return: ".toList
      | .getInput m => some (if m = [] then [] else m ++ [':', ' ']) := by
  cases k with
  | getInput m =>
    cases m with
    | nil => rfl
    | cons c cs => simp [DKind.promptStr, DKind.prompt, Prompt.str, joinStr]
  | _ => rfl

/-- None of the dialog prompts has options (no `'c' to continue` etc.). -/
theorem C12b_prompt_no_options (k : DKind) (p : Prompt) (h : k.prompt = some p) : p.options = [] := by
  cases k <;> simp only [DKind.prompt, Option.some.injEq, reduceCtorEq] at h <;> subst h <;> rfl

/-- `PasswordDialog.prompt()` asks with the text `"Passphrase: "`; no other dialog asks by itself. -/
theorem C12b_password_prompt (k : DKind) :
    k.passPrompt = match k with
      | .password _ => some "Passphrase: ".toList
      | _ => none := by
  cases k <;> rfl

/-! ### 4. the items -/

/-- The message the dialog shows: the constructor argument; `PasswordDialog` falls back to
`"Enter your passphrase"` for no message *and* for the empty message (`message or …`), `HelpScreen` to
`"The help is not available."` when it has no help file. -/
theorem C12b_message (k : DKind) :
    k.message = match k with
      | .error m => some m
      | .password none => some "Enter your passphrase".toList
      | .password (some m) => some (if m = [] then "Enter your passphrase".toList else m)
      | .yesNo m => some m
      | .help none => some "The help is not available.".toList
      | .help (some t) => some t
      | .getInput _ => none := by
  match k with
  | .password (some []) => rfl
  | .password (some (_ :: _)) => rfl
  | .password none | .help none | .help (some _) | .error _ | .yesNo _ | .getInput _ => rfl

/-- The window's items after `refresh()`: the message widget first (a `CenterWidget` around a `TextWidget`, a bare
`TextWidget` on the help screen), then exactly one `SeparatorWidget` of exactly one line
(`add_with_separator(item)` with the default `blank_lines=1`) and nothing else; the input screens' window has no
item. -/
theorem C12b_items_order (k : DKind) :
    k.items = match k.message with
      | none => []
      | some m => [if k.centered then .center {} (.text {} m) else .text {} m, .sep {} 1] :=
  k.items_eq

/-- The titles; a dialog has a title exactly when it has a message in its window. -/
theorem C12b_titles (k : DKind) :
    k.title = (match k with
      | .error _ => some "Error".toList
      | .password _ => some "Password".toList
      | .yesNo _ => some "Question".toList
      | .help _ => some "Help".toList
      | .getInput _ => none) ∧ (k.title = none ↔ k.message = none) :=
  ⟨by cases k <;> rfl, k.title_none_iff⟩

/-! Non-vacuity: concrete dialogs. -/

example : ((DKind.error "disk full".toList).windowLines asciiClass 20).toOption =
    some ["Error".toList, [], "     disk full".toList, []] := by decide +kernel

example : ((DKind.password (some [])).windowLines asciiClass 12).toOption =
    some ["Password".toList, [], " Enter your".toList, " passphrase".toList, []] := by decide +kernel

example : ((DKind.yesNo "Really quit?\nAll changes are lost.".toList).windowLines asciiClass 30).toOption =
    some ["Question".toList, [], "    Really quit?".toList, "    All changes are lost.".toList, []] := by
  decide +kernel

example : ((DKind.help none).windowLines asciiClass 10).toOption =
    some ["Help".toList, [], "The help".toList, "is not".toList, "available.".toList, []] := by decide +kernel

/-- width 0: `textwrap` refuses (ValueError) -/
example : errOf ((DKind.error "x".toList).windowLines asciiClass 0) = some .valueError := by decide +kernel

example : (DKind.getInput "User name".toList).promptStr = some "User name: ".toList := by decide +kernel

end Simpleline
