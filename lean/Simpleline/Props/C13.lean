/-
  C13 — List containers show every item once, in order, without overlap, within width.

  `Wd.list st colMajor columns cw spacing kp …` is `ListRowContainer` / `ListColumnContainer`.
  The drawing itself is `drawColumns used spacing labels grids rowH (orderedMap colMajor columns n)`:
  `labels`/`grids` are the rendered number labels and items, `rowH` the row heights.
-/
import Simpleline.Lemmas.Containers

namespace Simpleline

/-! ### order: row-major / column-major, every item exactly once -/

theorem C13_row_major (columns n i : Nat) : cellOf false columns n i = (i / columns, i % columns) := rfl

theorem C13_col_major (columns n i : Nat) :
    cellOf true columns n i = (i % ((n + columns - 1) / columns), i / ((n + columns - 1) / columns)) := rfl

/-- every item lands in one of the `columns` columns, and no two items share a cell -/
theorem C13_cells (cm : Bool) (columns n : Nat) (hc : 1 ≤ columns) :
    (∀ i, i < n → (cellOf cm columns n i).2 < columns) ∧
    (∀ i j, i < n → j < n → cellOf cm columns n i = cellOf cm columns n j → i = j) :=
  ⟨cellOf_col_lt cm columns n hc, fun i j _ _ h => cellOf_inj cm columns n i j h⟩

/-- the ordered map lists every item exactly once, each column top to bottom in item order, and
the `r`-th entry of a column is the item of layout row `r` -/
theorem C13_ordered_map (cm : Bool) (columns n : Nat) (hc : 1 ≤ columns) :
    (orderedMap cm columns n).flatten.Perm (List.range n) ∧
    (∀ c, (hcl : c < (orderedMap cm columns n).length) → ∀ r, (hr : r < ((orderedMap cm columns n)[c]).length) →
        cellOf cm columns n (((orderedMap cm columns n)[c])[r]) = (r, c)) :=
  ⟨orderedMap_flatten_perm cm columns n hc, orderedMap_cell cm columns n hc⟩

/-! ### a layout that cannot fit is refused -/

/-- with at least one item: a columns width ≤ 0, or a label that leaves no room for its item, makes
`render` raise instead of drawing -/
theorem C13_refuse (cc : CharClass) (st : WSt) (cm : Bool) (columns : Nat) (cw : Option Int) (spacing : Nat)
    (kp : Option KeyPat) (u : Option Int) (nw : List NumW) (items : List Wd) (w : Int)
    (hc : 1 ≤ columns) (hn : items ≠ [])
    (hbad : usedWidth cw columns spacing w ≤ 0 ∨
      ∃ k, kp = some k ∧ ∃ i, i < items.length ∧ usedWidth cw columns spacing w - (k.label i).length ≤ 0) :
    ∃ e, (Wd.list st cm columns cw spacing kp u nw items).render cc w = .error e := by
  rw [render_list_eq, if_neg (by omega)]
  have ⟨e, he⟩ := renderListItems_error cc (usedWidth cw columns spacing w) kp items 0 hn
    (by simpa only [Nat.zero_add] using hbad)
  rw [he]
  exact ⟨e, rfl⟩

/-- zero columns is an error of its own kind -/
theorem C13_zero_columns (cc : CharClass) (st : WSt) (cm : Bool) (cw : Option Int) (spacing : Nat)
    (kp : Option KeyPat) (u : Option Int) (nw : List NumW) (items : List Wd) (w : Int)
    (h : cw = none ∨ cm = true ∨ items ≠ []) :
    (Wd.list st cm 0 cw spacing kp u nw items).render cc w = .error .zeroDivision := by
  rw [render_list_eq, if_pos ⟨rfl, h⟩]

/-- an empty container renders to nothing at any width -/
theorem C13_empty (cc : CharClass) (st : WSt) (cm : Bool) (columns : Nat) (cw : Option Int) (spacing : Nat)
    (kp : Option KeyPat) (u : Option Int) (nw : List NumW) (w : Int) (hc : 1 ≤ columns) (r : Wd)
    (h : (Wd.list st cm columns cw spacing kp u nw []).render cc w = .ok r) : r.lines = [] := by
  rw [render_list_eq, if_neg (by omega), renderListItems.eq_1] at h
  cases h
  exact congrArg WSt.buf (drawColumns_all_nil _ _ _ _ _ _ {} 0 (orderedMap_zero_all_nil cm columns))

/-! ### what `render` draws -/

/-- A successful render of a list container is the drawing of its rendered labels and items:
item `i` is rendered at the columns width minus its label's length, its label is `kp.label i`
rendered at its own length, and the buffer is `drawColumns` of those over the ordered map. -/
theorem C13_render_shape (cc : CharClass) (st : WSt) (cm : Bool) (columns : Nat) (cw : Option Int)
    (spacing : Nat) (kp : Option KeyPat) (u : Option Int) (nw : List NumW) (items : List Wd) (w : Int) (r : Wd)
    (h : (Wd.list st cm columns cw spacing kp u nw items).render cc w = .ok r) :
    ∃ (items' : List Wd) (labels : List (Option NumW)),
      items'.length = items.length ∧ labels.length = items.length ∧
      (∀ i, (hi : i < items.length) → (hi' : i < items'.length) →
        items[i].render cc (usedWidth cw columns spacing w - labelLen labels i) = .ok items'[i]) ∧
      (∀ i, i < items.length →
        match kp with
        | some k => ∃ s, renderTextSt cc {} (k.label i) (k.label i).length = .ok s ∧
                      labels.getD i none = some ⟨s, k.label i⟩
        | none => labels.getD i none = none) ∧
      r.lines = (drawColumns (usedWidth cw columns spacing w) spacing labels (items'.map Wd.lines)
        (rowHeight cm columns (((items'.map Wd.lines).zip labels).map fun (g, l) =>
          max g.length (match l with | some nw => nw.st.buf.length | none => 0)))
        (orderedMap cm columns items'.length) {} 0).buf :=
  render_list_shape cc st cm columns cw spacing kp u nw items w r h

/-! ### placement: every item once, at its cell's position, nothing overlapping -/

/-- every character of the rendering of item `i` is shown at the position of its cell: row
`rowTop rowH r + a`, column `colLeft used spacing c + labelLen i + b` where `(r, c)` is the item's
cell -/
theorem C13_place_items (cm : Bool) (columns : Nat) (hc : 1 ≤ columns) (used : Int) (spacing : Nat)
    (labels : List (Option NumW)) (grids : List Grid) (rowH : Nat → Nat)
    (ok : LayoutOK used labels grids)
    (hH : ∀ i, (hi : i < grids.length) →
      max grids[i].length (labelBuf labels i).length ≤ rowH (cellOf cm columns grids.length i).1)
    (i : Nat) (hi : i < grids.length) (a b : Nat) (ha : a < grids[i].length) (hb : b < (grids[i][a]).length) :
    cell (drawColumns used spacing labels grids rowH (orderedMap cm columns grids.length) {} 0).buf
      (rowTop rowH (cellOf cm columns grids.length i).1 + a)
      (colLeft used spacing (cellOf cm columns grids.length i).2 + labelLen labels i + b) = some (grids[i][a])[b] :=
  place_items cm columns hc used spacing labels grids rowH ok hH i hi a b ha hb

/-- … and its number label (as rendered) is shown on the first row of the cell from the band's left
edge -/
theorem C13_place_labels (cm : Bool) (columns : Nat) (hc : 1 ≤ columns) (used : Int) (spacing : Nat)
    (labels : List (Option NumW)) (grids : List Grid) (rowH : Nat → Nat)
    (ok : LayoutOK used labels grids)
    (hH : ∀ i, (hi : i < grids.length) →
      max grids[i].length (labelBuf labels i).length ≤ rowH (cellOf cm columns grids.length i).1)
    (i : Nat) (hi : i < grids.length) (row : List Char) (hrow : labelBuf labels i = [row]) (b : Nat) (hb : b < row.length) :
    cell (drawColumns used spacing labels grids rowH (orderedMap cm columns grids.length) {} 0).buf
      (rowTop rowH (cellOf cm columns grids.length i).1)
      (colLeft used spacing (cellOf cm columns grids.length i).2 + b) = some row[b] :=
  place_labels cm columns hc used spacing labels grids rowH ok hH i hi row hrow b hb

/-- the row heights computed by the container dominate every item and label of the row -/
theorem C13_row_height (cm : Bool) (columns : Nat) (heights : List Nat) (i : Nat) (hi : i < heights.length) :
    heights[i] ≤ rowHeight cm columns heights (cellOf cm columns heights.length i).1 :=
  rowHeight_ge cm columns heights i hi

/-- Bands and rows do not overlap: the rectangles `[rowTop r, rowTop r + rowH r) × [colLeft c, colLeft c + used)`
of distinct cells are disjoint, consecutive bands are `spacing` apart and a row starts where the row
above ends. -/
theorem C13_disjoint (used : Int) (hu : 0 < used) (spacing : Nat) (rowH : Nat → Nat) (r r' c c' : Nat) :
    (c < c' → colLeft used spacing c + used.toNat + spacing ≤ colLeft used spacing c') ∧
    (r < r' → rowTop rowH r + rowH r ≤ rowTop rowH r') := by
  have _ := hu
  exact ⟨colLeft_mono used spacing c c', rowTop_mono rowH r r'⟩

/-- with no forced columns width the whole layout fits the requested width: every band ends at or
before column `w` -/
theorem C13_within_width (columns spacing : Nat) (hc : 1 ≤ columns) (w : Int) (c : Nat) (hcc : c < columns)
    (hu : 0 < usedWidth none columns spacing w) :
    ((colLeft (usedWidth none columns spacing w) spacing c : Nat) : Int) + usedWidth none columns spacing w ≤ w :=
  usedWidth_fits columns spacing hc w c hcc hu

/-! Non-vacuity: two columns, five numbered items, one of them wrapping. -/
example :
    (match (Wd.list {} false 2 none 3 (some {}) none []
        [.text {} "aa bb".toList, .text {} ['x'], .text {} ['y'], .text {} ['z'], .text {} ['w']]).render asciiClass 15 with
     | .ok r => r.lines
     | .error _ => []) =
    ["1) aa    2) x".toList, "   bb".toList, "3) y     4) z".toList, "5) w".toList] := by
  decide +kernel

end Simpleline
