/-
  C13b — the hypothesis `LayoutOK` of the placement theorems of C13 follows from the render itself.

  `C13_place_items` / `C13_place_labels` assume `LayoutOK used labels grids` ("everything that is drawn
  respects the room it was rendered for").  Here that hypothesis is discharged for every successful
  `render` of a list container whose items respect the width they are given (text widgets first of
  all), under one side condition on the key pattern (`KeyPat.Plain`: no line break and no tab around
  the number), which is needed only for the clause "a label is at most one row high".

  Vocabulary (`Spec/LayoutOKSpec.lean`): `ListShape … r items' labels` bundles the facts
  `C13_render_shape` gives about a successful render `r`; `RespectsWidth cc it w` says that every row
  of a successful rendering of `it` at width `w` is at most `w` long; `Wd.Fits` is a decidable
  sufficient condition on the widget tree; `WidthOK` is `LayoutOK` without the one-row clause.
  Property theorems only; helper lemmas live in `Simpleline/Lemmas/LayoutOK*.lean`.
-/
import Simpleline.Props.C13
import Simpleline.Lemmas.LayoutOKNewline
import Simpleline.Lemmas.LayoutOKPlaceW

namespace Simpleline

/-! ### the shape of a successful render, as a structure -/

/-- `C13_render_shape` once more: a successful render of a list container has rendered items
`items'` and number labels `labels` with the five facts bundled in `ListShape`. -/
theorem C13_list_shape (cc : CharClass) (st : WSt) (cm : Bool) (columns : Nat) (cw : Option Int)
    (spacing : Nat) (kp : Option KeyPat) (u : Option Int) (nw : List NumW) (items : List Wd) (w : Int) (r : Wd)
    (h : (Wd.list st cm columns cw spacing kp u nw items).render cc w = .ok r) :
    ∃ (items' : List Wd) (labels : List (Option NumW)),
      ListShape cc cm columns cw spacing kp items w r items' labels :=
  shape_of_render st u nw h

/-- The label of item `i` is as long as the text `kp.label i` (`kpLabelLen`: 0 without numbering): this
is how far right of its band's left edge the item is drawn. -/
theorem C13_label_len {cc : CharClass} {cm : Bool} {columns : Nat} {cw : Option Int} {spacing : Nat}
    {kp : Option KeyPat} {items : List Wd} {w : Int} {r : Wd} {items' : List Wd} {labels : List (Option NumW)}
    (sh : ListShape cc cm columns cw spacing kp items w r items' labels) (i : Nat) (hi : i < items.length) :
    labelLen labels i = kpLabelLen kp i :=
  shape_labelLen sh i hi

/-- A list container with at least one item renders successfully only if it has at least one column,
the columns width in use is positive and every number label leaves at least one character of room for
its item (otherwise Python raises `ValueError` / `ZeroDivisionError`: `C13_refuse`). -/
theorem C13_list_room (cc : CharClass) (st : WSt) (cm : Bool) (columns : Nat) (cw : Option Int)
    (spacing : Nat) (kp : Option KeyPat) (u : Option Int) (nw : List NumW) (items : List Wd) (w : Int) (r : Wd)
    (hne : items ≠ []) (h : (Wd.list st cm columns cw spacing kp u nw items).render cc w = .ok r) :
    1 ≤ columns ∧ 0 < usedWidth cw columns spacing w ∧
    ∀ k, kp = some k → ∀ i, i < items.length → 0 < usedWidth cw columns spacing w - (k.label i).length :=
  list_ok_room cc st cm columns cw spacing kp u nw items w r hne h

/-! ### number labels rendered at their own length -/

/-- Any text rendered at any width (C11 for an integer width): every row is at most `w` long. -/
theorem C13_text_rows (cc : CharClass) (st : WSt) (t : List Char) (w : Int) (s : WSt)
    (h : renderTextSt cc st t w = .ok s) : ∀ row ∈ s.buf, row.length ≤ w.toNat :=
  renderText_rows cc st t w s h

/-- Every row of a number label (a `TextWidget` rendered at the length of its own text) is at most as
long as the label text — for every key pattern. (A label such as `"1) "` renders to the shorter row
`"1)"`: the trailing blank is dropped by `textwrap`.) -/
theorem C13_label_fits (cc : CharClass) (lbl : List Char) (s : WSt)
    (h : renderTextSt cc {} lbl lbl.length = .ok s) : ∀ row ∈ s.buf, row.length ≤ lbl.length :=
  label_render_fits cc lbl s h

/-- A text without a line break which, tabs expanded, is no longer than the width renders to at most
one row (`textwrap` puts all its chunks on the first line). -/
theorem C13_one_row (cc : CharClass) (st : WSt) (t : List Char) (w : Nat) (hw : 1 ≤ w)
    (hnl : '\n' ∉ t) (hlen : (munge t).length ≤ w) (s : WSt)
    (h : renderTextSt cc st t w = .ok s) : s.buf.length ≤ 1 :=
  render_one_row cc st t w hw hnl hlen s h

/-- The number label of a key pattern with no line break and no tab around the number is at most one
row high, whatever the number. -/
theorem C13_label_one_row (cc : CharClass) (k : KeyPat) (hk : k.Plain) (i : Nat) (s : WSt)
    (h : renderTextSt cc {} (k.label i) (k.label i).length = .ok s) : s.buf.length ≤ 1 :=
  label_render_one_row cc k hk i s h

/-! ### widgets that respect their width -/

/-- A `TextWidget` never exceeds the width it is rendered at (C11). -/
theorem C13_respects_text (cc : CharClass) (st : WSt) (t : List Char) (w : Int) :
    RespectsWidth cc (.text st t) w :=
  respects_text cc st t w

/-- A `SeparatorWidget` renders empty rows. -/
theorem C13_respects_sep (cc : CharClass) (st : WSt) (n : Nat) (w : Int) :
    RespectsWidth cc (.sep st n) w :=
  respects_sep cc st n w

/-- A `CenterWidget` never exceeds its width, whatever its child: in the model a child wider than
the width is refused (`outOfDomain`: Python would compute a negative column), otherwise the child is
drawn at column `(w - child width) / 2`. -/
theorem C13_respects_center (cc : CharClass) (st : WSt) (child : Wd) (w : Int) :
    RespectsWidth cc (.center st child) w :=
  respects_center cc st child w

/-- A `CheckboxWidget` stays within its width if the width is at least 3 (the box `[x]`) or if it has
a non-empty title or text (then the title/text is rendered at `w - 4`, which raises `ValueError`
unless `w ≥ 5`). See `C13_checkbox_overflows` for the excluded case. -/
theorem C13_respects_checkbox (cc : CharClass) (st : WSt) (key : List Char) (title text : Option (List Char))
    (completed : Bool) (w : Int)
    (hyp : 3 ≤ w ∨ (truthy title).isSome = true ∨ (truthy text).isSome = true) :
    RespectsWidth cc (.checkbox st key title text completed) w :=
  respects_checkbox cc st key title text completed w hyp

/-- A `WindowContainer` stays within its width if its items do (title and items are rendered at the
window's width and drawn from column 0). -/
theorem C13_respects_window (cc : CharClass) (st : WSt) (title : Option (List Char)) (items : List Wd) (w : Int)
    (hfit : ∀ it ∈ items, RespectsWidth cc it w) : RespectsWidth cc (.window st title items) w :=
  respects_window cc st title items w hfit

/-- A list container with no forced columns width stays within the width it is rendered at if its
items respect theirs (item `i` is rendered at the columns width minus the length of its label) — for
every key pattern, any number of columns and any spacing: the whole drawing, not only the bands of
`C13_within_width`, ends at or before column `w`. -/
theorem C13_respects_list (cc : CharClass) (st : WSt) (cm : Bool) (columns spacing : Nat)
    (kp : Option KeyPat) (u : Option Int) (nw : List NumW) (items : List Wd) (w : Int)
    (hfit : ∀ i, (hi : i < items.length) →
      RespectsWidth cc items[i] (usedWidth none columns spacing w - kpLabelLen kp i)) :
    RespectsWidth cc (.list st cm columns none spacing kp u nw items) w :=
  respects_list cc st cm columns spacing kp u nw items w hfit

/-- The decidable predicate `Wd.Fits` (text, separators, centered widgets, checkboxes with a title or
text, windows and unforced list containers of such widgets, nested to any depth) is sufficient for
respecting every width. -/
theorem C13_fits_respects (cc : CharClass) (it : Wd) (hf : it.Fits = true) (w : Int) :
    RespectsWidth cc it w :=
  fits_respects cc it hf w

/-- Excluded case 1: a checkbox without title and text does not look at its width — at width 2 the
box `[x]` is 3 characters wide. -/
theorem C13_checkbox_overflows :
    ¬ RespectsWidth asciiClass (.checkbox {} ['x'] none none true) 2 :=
  not_respects_of_row [['[', 'x', ']']] (by decide +kernel) ['[', 'x', ']'] (by simp) (by decide)

/-- Excluded case 2: a forced columns width is used as it is, whatever the width of the render — a
one-column list with `columns_width = 10` rendered at width 3 draws the 8-character word unbroken.
This is why `C13_within_width`, `C13_respects_list` and `Wd.Fits` ask for no forced width. -/
theorem C13_forced_width_overflows :
    ¬ RespectsWidth asciiClass
      (.list {} false 1 (some 10) 0 none none [] [.text {} ['a', 'a', 'a', 'a', 'a', 'a', 'a', 'a']]) 3 :=
  not_respects_of_row [['a', 'a', 'a', 'a', 'a', 'a', 'a', 'a']] (by decide +kernel)
    ['a', 'a', 'a', 'a', 'a', 'a', 'a', 'a'] (by simp) (by decide)

/-- A centered widget whose child comes out wider than the width is outside the model's domain
(`outOfDomain`; Python would compute a negative column), so `C13_respects_center` says nothing about
it: here the child is the checkbox of `C13_checkbox_overflows`. -/
theorem C13_center_wide_child_refused :
    errOf ((Wd.center {} (.checkbox {} ['x'] none none true)).render asciiClass 2) = some .outOfDomain := by
  decide +kernel

/-! Non-vacuity of `Wd.Fits`: a numbered column-major list holding a window (title, text, separator), a
nested two-column list, a checkbox with a title and a centered text satisfies `Wd.Fits` and renders at
width 30 (columns width 14, items rendered at width 11) without a row longer than 30. -/
example :
    (fun nested : Wd =>
      nested.Fits = true ∧
      (nested.render asciiClass 30).toOption.map Wd.lines =
        some ["1) T            3) [x] title".toList, "   ".toList, "   hello world".toList, "   ".toList,
              "2) ab    cd ef  4)     mid".toList])
      (.list {} true 2 none 2 (some {}) none []
        [ .window {} (some "T".toList) [.text {} "hello world".toList, .sep {} 1],
          .list {} false 2 none 1 none none [] [.text {} "ab".toList, .text {} "cd ef".toList],
          .checkbox {} ['x'] (some "title".toList) none true,
          .center {} (.text {} "mid".toList) ]) := by
  decide +kernel

/-! ### `LayoutOK` from the render -/

/-- All the width clauses of `LayoutOK` (`WidthOK`: positive columns width, every item row plus its
label within the columns width, every label row within the label's length, room left by the label)
hold for every successful render of a non-empty list container whose items respect the widths they
are rendered at — with *any* key pattern. -/
theorem C13_width_ok (cc : CharClass) (st : WSt) (cm : Bool) (columns : Nat) (cw : Option Int)
    (spacing : Nat) (kp : Option KeyPat) (u : Option Int) (nw : List NumW) (items : List Wd) (w : Int) (r : Wd)
    (items' : List Wd) (labels : List (Option NumW)) (hne : items ≠ [])
    (h : (Wd.list st cm columns cw spacing kp u nw items).render cc w = .ok r)
    (sh : ListShape cc cm columns cw spacing kp items w r items' labels)
    (hfit : ∀ i, (hi : i < items.length) →
      RespectsWidth cc items[i] (usedWidth cw columns spacing w - kpLabelLen kp i)) :
    WidthOK (usedWidth cw columns spacing w) labels (items'.map Wd.lines) :=
  widthOK_of_render cc st cm columns cw spacing kp u nw items w r items' labels hne h sh hfit

/-- `LayoutOK` holds for every successful render of a list container (row or column kind, any number
of columns, any spacing, numbered or not, forced or computed columns width) whose items respect the
widths they are rendered at, provided the key pattern is plain. The hypothesis `h0` is only about the
empty container, which renders successfully at any width without checking that the columns width is
positive (`C13_layout_ok_needs_items`). -/
theorem C13_layout_ok (cc : CharClass) (st : WSt) (cm : Bool) (columns : Nat) (cw : Option Int)
    (spacing : Nat) (kp : Option KeyPat) (u : Option Int) (nw : List NumW) (items : List Wd) (w : Int) (r : Wd)
    (items' : List Wd) (labels : List (Option NumW)) (hkp : kpPlain kp)
    (h0 : items = [] → 0 < usedWidth cw columns spacing w)
    (h : (Wd.list st cm columns cw spacing kp u nw items).render cc w = .ok r)
    (sh : ListShape cc cm columns cw spacing kp items w r items' labels)
    (hfit : ∀ i, (hi : i < items.length) →
      RespectsWidth cc items[i] (usedWidth cw columns spacing w - kpLabelLen kp i)) :
    LayoutOK (usedWidth cw columns spacing w) labels (items'.map Wd.lines) :=
  layoutOK_of_render' cc st cm columns cw spacing kp u nw items w r items' labels hkp h0 h sh hfit

/-- `LayoutOK` for list containers of `TextWidget`s: no hypothesis about the rendering is left. -/
theorem C13_layout_ok_text_items (cc : CharClass) (st : WSt) (cm : Bool) (columns : Nat) (cw : Option Int)
    (spacing : Nat) (kp : Option KeyPat) (u : Option Int) (nw : List NumW) (items : List Wd) (w : Int) (r : Wd)
    (items' : List Wd) (labels : List (Option NumW)) (hkp : kpPlain kp)
    (htext : ∀ it ∈ items, it.isText = true)
    (h0 : items = [] → 0 < usedWidth cw columns spacing w)
    (h : (Wd.list st cm columns cw spacing kp u nw items).render cc w = .ok r)
    (sh : ListShape cc cm columns cw spacing kp items w r items' labels) :
    LayoutOK (usedWidth cw columns spacing w) labels (items'.map Wd.lines) :=
  layoutOK_of_render' cc st cm columns cw spacing kp u nw items w r items' labels hkp h0 h sh
    (fun i hi => text_items_respect cc items htext i hi _)

/-- `LayoutOK` for list containers of arbitrary item trees satisfying the decidable `Wd.Fits`. -/
theorem C13_layout_ok_fits (cc : CharClass) (st : WSt) (cm : Bool) (columns : Nat) (cw : Option Int)
    (spacing : Nat) (kp : Option KeyPat) (u : Option Int) (nw : List NumW) (items : List Wd) (w : Int) (r : Wd)
    (items' : List Wd) (labels : List (Option NumW)) (hkp : kpPlain kp)
    (hf : ∀ it ∈ items, it.Fits = true)
    (h0 : items = [] → 0 < usedWidth cw columns spacing w)
    (h : (Wd.list st cm columns cw spacing kp u nw items).render cc w = .ok r)
    (sh : ListShape cc cm columns cw spacing kp items w r items' labels) :
    LayoutOK (usedWidth cw columns spacing w) labels (items'.map Wd.lines) :=
  layoutOK_of_render' cc st cm columns cw spacing kp u nw items w r items' labels hkp h0 h sh
    (fun _ hi => fits_respects cc _ (hf _ (List.getElem_mem hi)) _)

/-! ### the side conditions are needed -/

/-- A line break in the key pattern: the label `"1\n)"` of the pattern `"{:d}\n)"` renders to two
rows, so `LayoutOK` (clause `label_rows`) fails for a render that succeeds. -/
theorem C13_layout_ok_needs_no_newline :
    (∃ r, (Wd.list {} false 1 none 0 (some { pre := [], post := ['\n', ')'] }) none []
        [.text {} ['x']]).render asciiClass 10 = .ok r) ∧
    ∀ r items' labels,
      ListShape asciiClass false 1 none 0 (some { pre := [], post := ['\n', ')'] })
        [.text {} ['x']] 10 r items' labels →
      ¬ LayoutOK (usedWidth none 1 0 10) labels (items'.map Wd.lines) :=
  ⟨render_ok_of_isSome _ (by decide +kernel),
   fun _ _ _ sh => not_layoutOK_of_label_rows sh 0 (by decide) 2 (by decide) (by decide +kernel)⟩

/-- In general: a text with a line break renders to at least two rows at any width ≥ 1 … -/
theorem C13_newline_two_rows (cc : CharClass) (st : WSt) (t : List Char) (w : Nat) (hw : 1 ≤ w)
    (hnl : '\n' ∈ t) (s : WSt) (h : renderTextSt cc st t w = .ok s) : 2 ≤ s.buf.length :=
  render_newline_rows cc st t w hw hnl s h

/-- … so with a line break anywhere in the key pattern *no* render of a non-empty list container
satisfies `LayoutOK`: for line breaks the side condition `KeyPat.Plain` is exact. -/
theorem C13_layout_ok_never_with_newline {cc : CharClass} {cm : Bool} {columns : Nat} {cw : Option Int}
    {spacing : Nat} {k : KeyPat} {items : List Wd} {w : Int} {r : Wd} {items' : List Wd}
    {labels : List (Option NumW)}
    (sh : ListShape cc cm columns cw spacing (some k) items w r items' labels)
    (hne : items ≠ []) (hnl : '\n' ∈ k.pre ++ k.post) :
    ¬ LayoutOK (usedWidth cw columns spacing w) labels (items'.map Wd.lines) :=
  not_layoutOK_of_newline sh hne hnl

/-- A tab in the key pattern: `textwrap` expands it to blanks *after* the label's length was taken as
the width, so the label `"1\t)"` of the pattern `"{:d}\t)"` no longer fits and renders to two rows.
(Unlike a line break a tab is not always fatal: one that happens to expand to a single blank keeps the
label on one row by `C13_one_row`, and so does a leading or trailing tab, whose blanks `textwrap`
drops. `KeyPat.Plain` excludes every tab.) -/
theorem C13_layout_ok_needs_no_tab :
    (∃ r, (Wd.list {} false 1 none 0 (some { pre := [], post := ['\t', ')'] }) none []
        [.text {} ['x']]).render asciiClass 10 = .ok r) ∧
    ∀ r items' labels,
      ListShape asciiClass false 1 none 0 (some { pre := [], post := ['\t', ')'] })
        [.text {} ['x']] 10 r items' labels →
      ¬ LayoutOK (usedWidth none 1 0 10) labels (items'.map Wd.lines) :=
  ⟨render_ok_of_isSome _ (by decide +kernel),
   fun _ _ _ sh => not_layoutOK_of_label_rows sh 0 (by decide) 2 (by decide) (by decide +kernel)⟩

/-- The empty container renders successfully at width 0 although the columns width in use is 0:
`LayoutOK` (clause `used_pos`) fails, whence the hypothesis `h0` of `C13_layout_ok`. -/
theorem C13_layout_ok_needs_items :
    (∃ r, (Wd.list {} false 1 none 0 none none [] []).render asciiClass 0 = .ok r) ∧
    ∀ labels grids, ¬ LayoutOK (usedWidth none 1 0 0) labels grids :=
  ⟨render_ok_of_isSome _ (by decide +kernel), fun _ _ ok => absurd ok.used_pos (by decide)⟩

/-! ### placement without the `LayoutOK` hypothesis -/

/-- `C13_place_items` for a successful render: every character of the rendering of item `i` is shown
in the container's lines at the position of its cell, when the items respect their widths and the key
pattern is plain. Both `LayoutOK` and the row-height hypothesis are discharged; the row heights are
the ones the container computes (`rowHeight` of `listHeights`). -/
theorem C13_place_items_render (cc : CharClass) (st : WSt) (cm : Bool) (columns : Nat) (cw : Option Int)
    (spacing : Nat) (kp : Option KeyPat) (u : Option Int) (nw : List NumW) (items : List Wd) (w : Int) (r : Wd)
    (items' : List Wd) (labels : List (Option NumW)) (hkp : kpPlain kp)
    (h : (Wd.list st cm columns cw spacing kp u nw items).render cc w = .ok r)
    (sh : ListShape cc cm columns cw spacing kp items w r items' labels)
    (hfit : ∀ i, (hi : i < items.length) →
      RespectsWidth cc items[i] (usedWidth cw columns spacing w - kpLabelLen kp i))
    (i : Nat) (hi : i < items'.length) (a b : Nat) (ha : a < items'[i].lines.length)
    (hb : b < (items'[i].lines[a]).length) :
    cell r.lines
      (rowTop (rowHeight cm columns (listHeights (items'.map Wd.lines) labels))
        (cellOf cm columns items.length i).1 + a)
      (colLeft (usedWidth cw columns spacing w) spacing (cellOf cm columns items.length i).2
        + labelLen labels i + b) = some (items'[i].lines[a])[b] :=
  place_items_render cc st cm columns cw spacing kp u nw items w r items' labels hkp h sh hfit i hi a b ha hb

/-- `C13_place_labels` for a successful render, same hypotheses. -/
theorem C13_place_labels_render (cc : CharClass) (st : WSt) (cm : Bool) (columns : Nat) (cw : Option Int)
    (spacing : Nat) (kp : Option KeyPat) (u : Option Int) (nw : List NumW) (items : List Wd) (w : Int) (r : Wd)
    (items' : List Wd) (labels : List (Option NumW)) (hkp : kpPlain kp)
    (h : (Wd.list st cm columns cw spacing kp u nw items).render cc w = .ok r)
    (sh : ListShape cc cm columns cw spacing kp items w r items' labels)
    (hfit : ∀ i, (hi : i < items.length) →
      RespectsWidth cc items[i] (usedWidth cw columns spacing w - kpLabelLen kp i))
    (i : Nat) (hi : i < items.length) (row : List Char) (hrow : labelBuf labels i = [row])
    (b : Nat) (hb : b < row.length) :
    cell r.lines
      (rowTop (rowHeight cm columns (listHeights (items'.map Wd.lines) labels))
        (cellOf cm columns items.length i).1)
      (colLeft (usedWidth cw columns spacing w) spacing (cellOf cm columns items.length i).2 + b)
      = some row[b] :=
  place_labels_render cc st cm columns cw spacing kp u nw items w r items' labels hkp h sh hfit i hi row hrow b hb

/-- End to end for `TextWidget` items: in every successful render of a list container of text
widgets with a plain key pattern, every character of the (wrapped) rendering of item `i` is in the
container's lines at row `rowTop r + a`, column `colLeft c + label length + b` of its cell `(r, c)`.
The only hypotheses are on the inputs. -/
theorem C13_place_items_text (cc : CharClass) (st : WSt) (cm : Bool) (columns : Nat) (cw : Option Int)
    (spacing : Nat) (kp : Option KeyPat) (u : Option Int) (nw : List NumW) (items : List Wd) (w : Int) (r : Wd)
    (items' : List Wd) (labels : List (Option NumW)) (hkp : kpPlain kp)
    (htext : ∀ it ∈ items, it.isText = true)
    (h : (Wd.list st cm columns cw spacing kp u nw items).render cc w = .ok r)
    (sh : ListShape cc cm columns cw spacing kp items w r items' labels)
    (i : Nat) (hi : i < items'.length) (a b : Nat) (ha : a < items'[i].lines.length)
    (hb : b < (items'[i].lines[a]).length) :
    cell r.lines
      (rowTop (rowHeight cm columns (listHeights (items'.map Wd.lines) labels))
        (cellOf cm columns items.length i).1 + a)
      (colLeft (usedWidth cw columns spacing w) spacing (cellOf cm columns items.length i).2
        + labelLen labels i + b) = some (items'[i].lines[a])[b] :=
  place_items_render cc st cm columns cw spacing kp u nw items w r items' labels hkp h sh
    (fun i hi => text_items_respect cc items htext i hi _) i hi a b ha hb

/-- … and the number label of item `i` (as rendered: one row) is on the first row of the cell from the
band's left edge. -/
theorem C13_place_labels_text (cc : CharClass) (st : WSt) (cm : Bool) (columns : Nat) (cw : Option Int)
    (spacing : Nat) (kp : Option KeyPat) (u : Option Int) (nw : List NumW) (items : List Wd) (w : Int) (r : Wd)
    (items' : List Wd) (labels : List (Option NumW)) (hkp : kpPlain kp)
    (htext : ∀ it ∈ items, it.isText = true)
    (h : (Wd.list st cm columns cw spacing kp u nw items).render cc w = .ok r)
    (sh : ListShape cc cm columns cw spacing kp items w r items' labels)
    (i : Nat) (hi : i < items.length) (row : List Char) (hrow : labelBuf labels i = [row])
    (b : Nat) (hb : b < row.length) :
    cell r.lines
      (rowTop (rowHeight cm columns (listHeights (items'.map Wd.lines) labels))
        (cellOf cm columns items.length i).1)
      (colLeft (usedWidth cw columns spacing w) spacing (cellOf cm columns items.length i).2 + b)
      = some row[b] :=
  place_labels_render cc st cm columns cw spacing kp u nw items w r items' labels hkp h sh
    (fun i hi => text_items_respect cc items htext i hi _) i hi row hrow b hb

/-! ### placement needs no condition on the key pattern

The clause `label_rows` of `LayoutOK` ("a label is at most one row high") is not used by the placement
proofs: they go through with `WidthOK` (`LayoutOK` without that clause), which holds for every key
pattern (`C13_width_ok`). So items and labels are placed as computed also when a label wraps to several
rows; the label then occupies the first rows of its cell, every row from the band's left edge. -/

/-- `LayoutOK` implies `WidthOK` (it is `WidthOK` plus the one-row clause). -/
theorem C13_width_ok_of_layout_ok {used : Int} {labels : List (Option NumW)} {grids : List Grid}
    (ok : LayoutOK used labels grids) : WidthOK used labels grids :=
  widthOK_of_layoutOK ok

/-- `C13_place_items` from `WidthOK` alone: labels of any height. -/
theorem C13_place_items_any_labels (cm : Bool) (columns : Nat) (hc : 1 ≤ columns) (used : Int) (spacing : Nat)
    (labels : List (Option NumW)) (grids : List Grid) (rowH : Nat → Nat)
    (wo : WidthOK used labels grids)
    (hH : ∀ i, (hi : i < grids.length) →
      max grids[i].length (labelBuf labels i).length ≤ rowH (cellOf cm columns grids.length i).1)
    (i : Nat) (hi : i < grids.length) (a b : Nat) (ha : a < grids[i].length) (hb : b < (grids[i][a]).length) :
    cell (drawColumns used spacing labels grids rowH (orderedMap cm columns grids.length) {} 0).buf
      (rowTop rowH (cellOf cm columns grids.length i).1 + a)
      (colLeft used spacing (cellOf cm columns grids.length i).2 + labelLen labels i + b) = some (grids[i][a])[b] :=
  place_itemsW cm columns hc used spacing labels grids rowH wo hH i hi a b ha hb

/-- `C13_place_labels` from `WidthOK` alone and for every row `a` of the rendered label: it is shown
on row `a` of the cell from the band's left edge. -/
theorem C13_place_labels_any_labels (cm : Bool) (columns : Nat) (hc : 1 ≤ columns) (used : Int) (spacing : Nat)
    (labels : List (Option NumW)) (grids : List Grid) (rowH : Nat → Nat)
    (wo : WidthOK used labels grids)
    (hH : ∀ i, (hi : i < grids.length) →
      max grids[i].length (labelBuf labels i).length ≤ rowH (cellOf cm columns grids.length i).1)
    (i : Nat) (hi : i < grids.length) (a b : Nat) (ha : a < (labelBuf labels i).length)
    (hb : b < ((labelBuf labels i)[a]).length) :
    cell (drawColumns used spacing labels grids rowH (orderedMap cm columns grids.length) {} 0).buf
      (rowTop rowH (cellOf cm columns grids.length i).1 + a)
      (colLeft used spacing (cellOf cm columns grids.length i).2 + b) = some ((labelBuf labels i)[a])[b] :=
  place_labelsW cm columns hc used spacing labels grids rowH wo hH i hi a b ha hb

/-- Placement of the items for a successful render with *any* key pattern, items that respect their
widths. -/
theorem C13_place_items_any_pattern (cc : CharClass) (st : WSt) (cm : Bool) (columns : Nat) (cw : Option Int)
    (spacing : Nat) (kp : Option KeyPat) (u : Option Int) (nw : List NumW) (items : List Wd) (w : Int) (r : Wd)
    (items' : List Wd) (labels : List (Option NumW))
    (h : (Wd.list st cm columns cw spacing kp u nw items).render cc w = .ok r)
    (sh : ListShape cc cm columns cw spacing kp items w r items' labels)
    (hfit : ∀ i, (hi : i < items.length) →
      RespectsWidth cc items[i] (usedWidth cw columns spacing w - kpLabelLen kp i))
    (i : Nat) (hi : i < items'.length) (a b : Nat) (ha : a < items'[i].lines.length)
    (hb : b < (items'[i].lines[a]).length) :
    cell r.lines
      (rowTop (rowHeight cm columns (listHeights (items'.map Wd.lines) labels))
        (cellOf cm columns items.length i).1 + a)
      (colLeft (usedWidth cw columns spacing w) spacing (cellOf cm columns items.length i).2
        + labelLen labels i + b) = some (items'[i].lines[a])[b] :=
  place_items_renderW cc st cm columns cw spacing kp u nw items w r items' labels h sh hfit i hi a b ha hb

/-- Placement of every row of every number label for a successful render with *any* key pattern. -/
theorem C13_place_labels_any_pattern (cc : CharClass) (st : WSt) (cm : Bool) (columns : Nat) (cw : Option Int)
    (spacing : Nat) (kp : Option KeyPat) (u : Option Int) (nw : List NumW) (items : List Wd) (w : Int) (r : Wd)
    (items' : List Wd) (labels : List (Option NumW))
    (h : (Wd.list st cm columns cw spacing kp u nw items).render cc w = .ok r)
    (sh : ListShape cc cm columns cw spacing kp items w r items' labels)
    (hfit : ∀ i, (hi : i < items.length) →
      RespectsWidth cc items[i] (usedWidth cw columns spacing w - kpLabelLen kp i))
    (i : Nat) (hi : i < items.length) (a b : Nat) (ha : a < (labelBuf labels i).length)
    (hb : b < ((labelBuf labels i)[a]).length) :
    cell r.lines
      (rowTop (rowHeight cm columns (listHeights (items'.map Wd.lines) labels))
        (cellOf cm columns items.length i).1 + a)
      (colLeft (usedWidth cw columns spacing w) spacing (cellOf cm columns items.length i).2 + b)
      = some ((labelBuf labels i)[a])[b] :=
  place_labels_renderW cc st cm columns cw spacing kp u nw items w r items' labels h sh hfit i hi a b ha hb

/-- End to end for `TextWidget` items with no side condition at all: the only hypothesis on the inputs
is that the items are text widgets (a successful render already implies `columns ≥ 1`). -/
theorem C13_place_items_text_any_pattern (cc : CharClass) (st : WSt) (cm : Bool) (columns : Nat)
    (cw : Option Int) (spacing : Nat) (kp : Option KeyPat) (u : Option Int) (nw : List NumW) (items : List Wd)
    (w : Int) (r : Wd) (items' : List Wd) (labels : List (Option NumW))
    (htext : ∀ it ∈ items, it.isText = true)
    (h : (Wd.list st cm columns cw spacing kp u nw items).render cc w = .ok r)
    (sh : ListShape cc cm columns cw spacing kp items w r items' labels)
    (i : Nat) (hi : i < items'.length) (a b : Nat) (ha : a < items'[i].lines.length)
    (hb : b < (items'[i].lines[a]).length) :
    cell r.lines
      (rowTop (rowHeight cm columns (listHeights (items'.map Wd.lines) labels))
        (cellOf cm columns items.length i).1 + a)
      (colLeft (usedWidth cw columns spacing w) spacing (cellOf cm columns items.length i).2
        + labelLen labels i + b) = some (items'[i].lines[a])[b] :=
  place_items_renderW cc st cm columns cw spacing kp u nw items w r items' labels h sh
    (fun i hi => text_items_respect cc items htext i hi _) i hi a b ha hb

/-- … and every row of every number label. -/
theorem C13_place_labels_text_any_pattern (cc : CharClass) (st : WSt) (cm : Bool) (columns : Nat)
    (cw : Option Int) (spacing : Nat) (kp : Option KeyPat) (u : Option Int) (nw : List NumW) (items : List Wd)
    (w : Int) (r : Wd) (items' : List Wd) (labels : List (Option NumW))
    (htext : ∀ it ∈ items, it.isText = true)
    (h : (Wd.list st cm columns cw spacing kp u nw items).render cc w = .ok r)
    (sh : ListShape cc cm columns cw spacing kp items w r items' labels)
    (i : Nat) (hi : i < items.length) (a b : Nat) (ha : a < (labelBuf labels i).length)
    (hb : b < ((labelBuf labels i)[a]).length) :
    cell r.lines
      (rowTop (rowHeight cm columns (listHeights (items'.map Wd.lines) labels))
        (cellOf cm columns items.length i).1 + a)
      (colLeft (usedWidth cw columns spacing w) spacing (cellOf cm columns items.length i).2 + b)
      = some ((labelBuf labels i)[a])[b] :=
  place_labels_renderW cc st cm columns cw spacing kp u nw items w r items' labels h sh
    (fun i hi => text_items_respect cc items htext i hi _) i hi a b ha hb

/-! Non-vacuity: a numbered two-column list of three texts that all wrap renders at width 15 (columns
width 6, labels 3 long, items rendered at width 3); the hypotheses of `C13_place_items_text` hold; the
`'f'` of `"ff"` (item 2, row `a = 1`, column `b = 0` of its rendering) is at the predicted cell: row
`rowTop 1 + 1 = 3`, column `colLeft 0 + 3 + 0 = 3`; the `'d'` of `"dd"` (item 1) at row 1, column 12. -/
example :
    kpPlain (some ({} : KeyPat)) ∧
    (∀ it ∈ [Wd.text {} "aa bb".toList, .text {} "cc dd".toList, .text {} "ee ff".toList],
      it.isText = true) ∧
    ((Wd.list {} false 2 none 3 (some {}) none []
        [.text {} "aa bb".toList, .text {} "cc dd".toList, .text {} "ee ff".toList]).render asciiClass 15).toOption.map
      (fun r => (r.lines,
        cell r.lines (rowTop (rowHeight false 2 [2, 2, 2]) (cellOf false 2 3 2).1 + 1)
          (colLeft (usedWidth none 2 3 15) 3 (cellOf false 2 3 2).2 + 3 + 0),
        cell r.lines (rowTop (rowHeight false 2 [2, 2, 2]) (cellOf false 2 3 1).1 + 1)
          (colLeft (usedWidth none 2 3 15) 3 (cellOf false 2 3 1).2 + 3 + 0))) =
      some (["1) aa    2) cc".toList, "   bb       dd".toList, "3) ee".toList, "   ff".toList],
        some 'f', some 'd') := by
  decide +kernel

/-! … and by construction: for that list the hypotheses of `C13_place_items_text` are satisfied together
(the render succeeds, `C13_list_shape` provides the shape, there are three rendered items). -/
example : ∃ r items' labels,
    ListShape asciiClass false 2 none 3 (some {})
      [.text {} "aa bb".toList, .text {} "cc dd".toList, .text {} "ee ff".toList] 15 r items' labels ∧
    items'.length = 3 ∧
    ∀ i (hi : i < items'.length) a b (ha : a < items'[i].lines.length) (hb : b < (items'[i].lines[a]).length),
      cell r.lines
        (rowTop (rowHeight false 2 (listHeights (items'.map Wd.lines) labels)) (cellOf false 2 3 i).1 + a)
        (colLeft (usedWidth none 2 3 15) 3 (cellOf false 2 3 i).2 + labelLen labels i + b)
        = some (items'[i].lines[a])[b] := by
  obtain ⟨r, hr⟩ := render_ok_of_isSome
    ((Wd.list {} false 2 none 3 (some {}) none []
      [.text {} "aa bb".toList, .text {} "cc dd".toList, .text {} "ee ff".toList]).render asciiClass 15)
    (by decide +kernel)
  obtain ⟨items', labels, sh⟩ := C13_list_shape _ _ _ _ _ _ _ _ _ _ _ _ hr
  exact ⟨r, items', labels, sh, sh.len_items, fun i hi a b ha hb =>
    C13_place_items_text _ _ _ _ _ _ _ _ _ _ _ _ _ _ (by decide) (by decide) hr sh i hi a b ha hb⟩

/-! Non-vacuity of the `_any_pattern` theorems: the pattern `"{:d}\n) "` (labels two rows high, 4 long)
in a two-column list with spacing 1 at width 15 (columns width 7): the `')'` of label 0 is on row 1 of
its cell at the band's left edge, the second `'b'` of item 0 (`"aa bb"` wrapped at width 3) at row 1,
column `0 + 4 + 1`. -/
example :
    ((Wd.list {} false 2 none 1 (some { pre := [], post := ['\n', ')', ' '] }) none []
        [.text {} "aa bb".toList, .text {} "c".toList, .text {} "d".toList]).render asciiClass 15).toOption.map
      (fun r => (r.lines,
        cell r.lines (rowTop (rowHeight false 2 [2, 2, 2]) (cellOf false 2 3 0).1 + 1)
          (colLeft (usedWidth none 2 1 15) 1 (cellOf false 2 3 0).2 + 0),
        cell r.lines (rowTop (rowHeight false 2 [2, 2, 2]) (cellOf false 2 3 0).1 + 1)
          (colLeft (usedWidth none 2 1 15) 1 (cellOf false 2 3 0).2 + 4 + 1))) =
      some (["1   aa  2   c".toList, ")   bb  )".toList, "3   d".toList, ")".toList],
        some ')', some 'b') := by
  decide +kernel

end Simpleline
