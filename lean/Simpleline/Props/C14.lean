/-
  C14 — The number shown next to an item is the number that selects it.

  `kp.label i` is what `KeyPattern.get_widget_label(i)` displays, `processKey cc kp cbs key` is
  `Container.process_user_input(key)` for a container whose items have / do not have a callback
  (`cbs`), `key = none` standing for a key that is not a `str`, `kp = none` for numbering switched off.
  `pyInt` is Python's `int(str)`.
-/
import Simpleline.Lemmas.KeyPattern

namespace Simpleline

/-- What the theorems need to know about the digits of a `CharClass`: ASCII digits have their
values and neither they nor the minus sign are stripped or misread. (True of Python.) -/
structure CharClass.Decimal (cc : CharClass) : Prop where
  digit : ∀ d, d < 10 → cc.digitVal (digitChar d) = some d
  digit_not_space : ∀ d, d < 10 → cc.isIntSpace (digitChar d) = false
  minus_not_space : cc.isIntSpace '-' = false
  minus_not_digit : cc.digitVal '-' = none

theorem asciiClass_decimal : asciiClass.Decimal :=
  ⟨asciiClass_digit, asciiClass_digit_not_space, asciiClass_minus_not_space, asciiClass_minus_not_digit⟩

/-- the label of item `i` is the pattern around the decimal form of `i + offset` -/
theorem C14_display (kp : KeyPat) (i : Nat) :
    kp.label i = kp.pre ++ intRepr ((i : Int) + kp.offset) ++ kp.post := rfl

/-- reading back the decimal form gives the number -/
theorem C14_roundtrip (cc : CharClass) (hd : cc.Decimal) (z : Int) : pyInt cc (intRepr z) = some z :=
  pyInt_intRepr cc hd.digit hd.digit_not_space hd.minus_not_space z

/-- a key is reported as handled exactly when it reads (as `int()` reads it) as the displayed
number of an existing item -/
theorem C14_select_iff (cc : CharClass) (kp : KeyPat) (cbs : List Bool) (k : List Char) :
    (processKey cc (some kp) cbs (some k)).handled = true ↔
      ∃ i, i < cbs.length ∧ pyInt cc k = some ((i : Int) + kp.offset) :=
  processKey_handled_iff cc kp cbs k

/-- … and then exactly that item's callback position is reached (once; the callback is invoked iff
the item has one), and no other -/
theorem C14_fired (cc : CharClass) (kp : KeyPat) (cbs : List Bool) (k : List Char) (i : Nat)
    (hi : i < cbs.length) (hk : pyInt cc k = some ((i : Int) + kp.offset)) :
    processKey cc (some kp) cbs (some k) =
      { handled := true, fired := if cbs.getD i false then some i else none } :=
  processKey_of_pyInt_index cc kp cbs k i hi hk

/-- typing exactly the displayed number of item `i` selects item `i` -/
theorem C14_displayed_number_selects (cc : CharClass) (hd : cc.Decimal) (kp : KeyPat) (cbs : List Bool)
    (i : Nat) (hi : i < cbs.length) :
    processKey cc (some kp) cbs (some (intRepr ((i : Int) + kp.offset))) =
      { handled := true, fired := if cbs.getD i false then some i else none } :=
  processKey_of_pyInt_index cc kp cbs _ i hi (C14_roundtrip cc hd _)

/-- input that is not a number is not handled and invokes nothing -/
theorem C14_not_a_number (cc : CharClass) (kp : KeyPat) (cbs : List Bool) (k : List Char)
    (hk : pyInt cc k = none) :
    processKey cc (some kp) cbs (some k) = { handled := false, fired := none } :=
  processKey_of_pyInt_none cc kp cbs k hk

/-- a number that is no item's displayed number (zero / negative / too large relative to the
offset) is not handled and invokes nothing -/
theorem C14_out_of_range (cc : CharClass) (kp : KeyPat) (cbs : List Bool) (k : List Char) (z : Int)
    (hk : pyInt cc k = some z) (hz : z - kp.offset < 0 ∨ (cbs.length : Int) ≤ z - kp.offset) :
    processKey cc (some kp) cbs (some k) = { handled := false, fired := none } :=
  processKey_of_out_of_range cc kp cbs k z hk hz

/-- nothing is invoked unless the key is handled -/
theorem C14_unhandled_fires_nothing (cc : CharClass) (kp : Option KeyPat) (cbs : List Bool)
    (key : Option (List Char)) (h : (processKey cc kp cbs key).handled = false) :
    (processKey cc kp cbs key).fired = none :=
  processKey_unhandled_fired cc kp cbs key h

/-- with numbering switched off nothing is ever selected -/
theorem C14_numbering_off (cc : CharClass) (cbs : List Bool) (key : Option (List Char)) :
    processKey cc none cbs key = { handled := false, fired := none } :=
  processKey_none_left cc cbs key

/-- a key that is not a string selects nothing -/
theorem C14_non_string (cc : CharClass) (kp : Option KeyPat) (cbs : List Bool) :
    processKey cc kp cbs none = { handled := false, fired := none } :=
  processKey_none_right cc kp cbs

/-- an item without a callback is handled but nothing is invoked -/
theorem C14_no_callback (cc : CharClass) (kp : KeyPat) (cbs : List Bool) (k : List Char) (i : Nat)
    (hi : i < cbs.length) (hk : pyInt cc k = some ((i : Int) + kp.offset)) (hcb : cbs.getD i false = false) :
    processKey cc (some kp) cbs (some k) = { handled := true, fired := none } := by
  rw [processKey_of_pyInt_index cc kp cbs k i hi hk, hcb]; rfl

/-! Non-vacuity: offset 5, three items, the key "6" selects item 1; "1" selects nothing. -/
example : processKey asciiClass (some { offset := 5 }) [true, true, false] (some "6".toList) =
    { handled := true, fired := some 1 } := by decide +kernel
example : processKey asciiClass (some { offset := 5 }) [true, true, false] (some "1".toList) =
    { handled := false, fired := none } := by decide +kernel
example : ({ offset := 5 } : KeyPat).label 1 = "6) ".toList := by decide +kernel

end Simpleline
