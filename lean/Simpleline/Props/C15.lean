/-
  C15 — Drawing and writing into a widget change exactly the intended cells.

  Property theorems only; helper lemmas live in `Simpleline/Lemmas/Grid.lean`.
  `s.drawAt src row col block` is `Widget.draw(w, row, col, block)` (`src` = `w.content`);
  `s.writeAt text row col width block` is `Widget.write(text, row, col, width, block)` (no word wrap).
-/
import Simpleline.Lemmas.Grid

namespace Simpleline


/-! ### draw -/

/-- the target grows only as far as needed -/
theorem C15_draw_height (s : WSt) (src : Grid) (row col : Nat) (block : Bool) :
    (s.drawAt src row col block).buf.length = max s.buf.length (row + src.length) :=
  drawInto_length s.buf src row col

/-- rows outside the rectangle's rows are as they were (rows created above the rectangle are empty) -/
theorem C15_draw_other_rows (s : WSt) (src : Grid) (row col : Nat) (block : Bool) (i : Nat)
    (hi : i < row ∨ row + src.length ≤ i) :
    (s.drawAt src row col block).buf.getD i [] = s.buf.getD i [] :=
  drawInto_other_rows s.buf src row col i hi

/-- a row of the rectangle grows only as far as needed -/
theorem C15_draw_row_length (s : WSt) (src : Grid) (row col : Nat) (block : Bool) (a : Nat)
    (ha : a < src.length) :
    ((s.drawAt src row col block).buf.getD (row + a) []).length =
      max (s.buf.getD (row + a) []).length (col + (src.getD a []).length) :=
  drawInto_row_length s.buf src row col a ha

/-- inside the rectangle the target shows the source's characters -/
theorem C15_draw_inside (s : WSt) (src : Grid) (row col : Nat) (block : Bool) (a b : Nat)
    (ha : a < src.length) (hb : b < (src.getD a []).length) :
    cell (s.drawAt src row col block).buf (row + a) (col + b) = cell src a b :=
  drawInto_inside s.buf src row col a b ha hb

/-- in a row of the rectangle, a cell outside the source row's span is what it was, or a blank if it
did not exist and lies left of the drawn span -/
theorem C15_draw_outside (s : WSt) (src : Grid) (row col : Nat) (block : Bool) (a c : Nat)
    (ha : a < src.length) (hc : c < col ∨ col + (src.getD a []).length ≤ c) :
    cell (s.drawAt src row col block).buf (row + a) c =
      if c < (s.buf.getD (row + a) []).length then cell s.buf (row + a) c
      else if c < col + (src.getD a []).length then some ' ' else none :=
  drawInto_outside s.buf src row col a c ha hc

/-- the cursor is left on the row below: same column in block mode, first column otherwise -/
theorem C15_draw_cursor (s : WSt) (src : Grid) (row col : Nat) (block : Bool) :
    (s.drawAt src row col block).cur = (row + src.length, if block then col else 0) := rfl

/-! ### write

The *path* of a write is determined by `(row, col, width, block)` and the text alone: `pathFrom`
lists, for every character of the text, the position the typewriter is at when it meets that
character. -/

/-- the typewriter's position is the path's, whatever the buffer holds -/
theorem C15_write_cursor (buf : Grid) (text : List Char) (row col : Nat) (width : Option Int) (block : Bool) :
    ((typewrite buf text row col width block).x, (typewrite buf text row col width block).y) =
      text.foldl (advance col width block) (row, col) :=
  typewrite_pos buf text row col width block

/-- the `i`-th character of the text, unless it is a line break, ends up in the cell at the `i`-th
path position -/
theorem C15_write_cell (buf : Grid) (text : List Char) (row col : Nat) (width : Option Int) (block : Bool)
    (i : Nat) (hi : i < text.length) (hc : text[i] ≠ '\n') :
    cell (typewrite buf text row col width block).buf
      ((pathFrom col width block (row, col) text).getD i (0, 0)).1
      ((pathFrom col width block (row, col) text).getD i (0, 0)).2 = some text[i] :=
  typewrite_cell buf text row col width block i hi hc

/-- reading order: the path positions are strictly increasing (row first, then column) — every
character, line break or wrap moves the typewriter forward, so no cell is typed at twice -/
theorem C15_path_increasing (text : List Char) (row col : Nat) (width : Option Int) (block : Bool)
    (i j : Nat) (hij : i < j) (hj : j < text.length) :
    ((pathFrom col width block (row, col) text).getD i (0, 0)).1 <
        ((pathFrom col width block (row, col) text).getD j (0, 0)).1 ∨
      (((pathFrom col width block (row, col) text).getD i (0, 0)).1 =
          ((pathFrom col width block (row, col) text).getD j (0, 0)).1 ∧
        ((pathFrom col width block (row, col) text).getD i (0, 0)).2 <
          ((pathFrom col width block (row, col) text).getD j (0, 0)).2) :=
  path_increasing text row col width block i j hij hj

/-- the path wraps at `col + width`: with a width `w ≥ 1` every character is typed left of column
`col + w` as long as the write starts there and returns to `col` (block mode) or to column 0 with
`col = 0` -/
theorem C15_path_within (text : List Char) (row col : Nat) (w : Nat) (hw : 1 ≤ w) (block : Bool)
    (hb : block = true ∨ col = 0) (i : Nat) (hi : i < text.length) :
    ((pathFrom col (some (w : Int)) block (row, col) text).getD i (0, 0)).2 < col + w ∧
    col ≤ ((pathFrom col (some (w : Int)) block (row, col) text).getD i (0, 0)).2 :=
  path_within text row col w hw block hb i hi

/-- a cell that is on no path position of a non-newline character is what it was, or a blank / absent
if it did not exist -/
theorem C15_write_frame (buf : Grid) (text : List Char) (row col : Nat) (width : Option Int) (block : Bool)
    (r c : Nat)
    (hoff : ∀ i, (hi : i < text.length) → text[i] ≠ '\n' →
      (pathFrom col width block (row, col) text).getD i (0, 0) ≠ (r, c)) :
    cell (typewrite buf text row col width block).buf r c = cell buf r c ∨
      (cell buf r c = none ∧
        (cell (typewrite buf text row col width block).buf r c = some ' ' ∨
         cell (typewrite buf text row col width block).buf r c = none)) :=
  typewrite_frame buf text row col width block r c hoff

/-- writing the empty text changes nothing, cursor included -/
theorem C15_write_empty (s : WSt) (row col : Nat) (width : Option Int) (block : Bool) (m : Option Nat) :
    s.writeAt [] row col width block m = s := by
  simp [WSt.writeAt]

/-! Non-vacuity -/
example : (({ buf := ["abc".toList, "d".toList], cur := (0, 0) } : WSt).drawAt ["XY".toList, [], "Z".toList] 1 2 true) =
    { buf := ["abc".toList, "d XY".toList, [' ', ' '], "  Z".toList], cur := (4, 2) } := by decide +kernel

example : (({ buf := ["abc".toList], cur := (0, 0) } : WSt).writeAt "hi\nxyz".toList 0 1 (some 2) true) =
    { buf := ["ahi".toList, [], " xy".toList, " z".toList], cur := (3, 2) } := by decide +kernel

end Simpleline
