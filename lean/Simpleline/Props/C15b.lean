/-
  C15b — Drawing one widget into another makes the target show the source's characters in that
  rectangle and leaves every other cell as it was: the composition `ColumnWidget.render` performs.

  `c : ColW` is a `ColumnWidget` (`c.cols`: the columns `(width or None, [widgets])`, `c.spacing`), and
  `c.render cc w = .ok r` says that `render(w)` succeeded and left the object `r`: `r.lines` is
  `get_lines()`, `r.cols` holds the rendered widgets. The *placement* is computed from the rendered
  widgets alone (`Spec/ColumnSpec.lean`), without any buffer:
  * `r.widgetGrid k j` — the lines of widget `j` of column `k` (no lines if there is no such widget);
  * `r.widgetTop k j`  — its first buffer row: the sum of the heights of the widgets above it in column `k`;
  * `r.colStart k`     — the first character column of column `k`: 0 for the first column, then
    `max (colStart k + width_k or 0) (the right edge of everything in columns ≤ k) + spacing`.
  No hypothesis says that a widget respects the width it was rendered at: the `max(…, self.width)` in
  the `col_pos` recurrence makes the statements true without one.
-/
import Simpleline.Lemmas.ColumnPlace

namespace Simpleline

/-! ### what `render` draws -/

/-- A successful `render(w)` keeps spacing, the number of columns, their widths and the number of
widgets in each; widget `j` of column `k` is that widget rendered at the column's width — the declared
one, or for `None` what is left of `w` right of the column's start (`colMaxW`) —; and the lines are
those rendered widgets drawn column by column, each column top to bottom (`drawCols`). -/
theorem C15_column_shape (cc : CharClass) (c r : ColW) (w : Int) (h : c.render cc w = .ok r) :
    r.spacing = c.spacing ∧ r.cols.length = c.cols.length ∧
    (∀ k, (hk : k < c.cols.length) → (hk' : k < r.cols.length) →
      r.cols[k].1 = c.cols[k].1 ∧ r.cols[k].2.length = c.cols[k].2.length ∧
      ∀ j, (hj : j < c.cols[k].2.length) → (hj' : j < r.cols[k].2.length) →
        c.cols[k].2[j].render cc (colMaxW c.cols[k].1 w (r.colStart k)) = .ok r.cols[k].2[j]) ∧
    r.lines = drawCols r.spacing [] 0 r.grids :=
  ColW.render_shape cc c r w h

/-- `widgetGrid k j` is the lines of the rendered widget `j` of column `k` … -/
theorem C15_column_widget_grid (r : ColW) (k : Nat) (hk : k < r.cols.length) (j : Nat)
    (hj : j < r.cols[k].2.length) : r.widgetGrid k j = r.cols[k].2[j].lines :=
  ColW.widgetGrid_eq r k hk j hj

/-- … and has no rows when there is no such widget -/
theorem C15_column_no_widget (r : ColW) (k j : Nat) (h : ¬ ∃ hk : k < r.cols.length, j < r.cols[k].2.length) :
    r.widgetGrid k j = [] :=
  ColW.widgetGrid_none r k j h

/-- `colStart` is Python's `col_pos`: 0 for the first column, and the next column starts at
`max(col_pos + col_width, self.width) + spacing` where `self.width` is the widest row of the buffer
after the columns up to this one have been drawn (`col_width` counts as 0 for `None`). -/
theorem C15_column_start_rec (r : ColW) :
    r.colStart 0 = 0 ∧
    ∀ k, (hk : k + 1 < r.cols.length) →
      r.colStart (k + 1) =
        max (r.colStart k + (r.cols[k]'(by omega)).1.getD 0)
          (gridWidth (drawCols r.spacing [] 0 (r.grids.take (k + 1)))) + r.spacing :=
  ⟨ColW.colStart_zero r, ColW.colStart_succ r⟩

/-! ### every widget at its place, nothing else, nothing overlapping -/

/-- Every character of every rendered widget is shown at its place: the character at `(a, b)` of
widget `j` of column `k` is at row `widgetTop k j + a`, column `colStart k + b` of the column widget's
lines. Later draws never overwrite earlier ones: a later widget of the same column is drawn below, a
later column starts at or right of the widest row drawn so far. -/
theorem C15_column_places_widgets (cc : CharClass) (c r : ColW) (w : Int) (h : c.render cc w = .ok r)
    (k j a b : Nat) (ch : Char) (hc : cell (r.widgetGrid k j) a b = some ch) :
    cell r.lines (r.widgetTop k j + a) (r.colStart k + b) = some ch :=
  ColW.places r (ColW.render_lines cc c r w h) k j a b ch hc

/-- Nothing else is drawn: every cell of the lines is a character of a widget at its place, or a
blank (the padding `draw` puts left of a drawn row). Together with `C15_column_places_widgets` and
`C15_column_unique`: a cell shows the character of exactly one widget, or it is a blank that no
widget character covers. -/
theorem C15_column_nothing_else (cc : CharClass) (c r : ColW) (w : Int) (h : c.render cc w = .ok r)
    (x y : Nat) (ch : Char) (hc : cell r.lines x y = some ch) :
    ch = ' ' ∨ ∃ k j a b, x = r.widgetTop k j + a ∧ y = r.colStart k + b ∧
      cell (r.widgetGrid k j) a b = some ch :=
  ColW.origin r (ColW.render_lines cc c r w h) x y ch hc

/-- The column widget is as high as its highest column (the sum of the heights of its widgets; 0
without columns or widgets), and every widget's rows lie within it. -/
theorem C15_column_height (cc : CharClass) (c r : ColW) (w : Int) (h : c.render cc w = .ok r) :
    r.lines.length = colsHeight r.grids ∧
    ∀ k j, r.widgetTop k j + (r.widgetGrid k j).length ≤ r.lines.length :=
  ColW.height r (ColW.render_lines cc c r w h)

/-- The bounding boxes `[widgetTop, widgetTop + height) × [colStart, colStart + width)` of different
widgets are disjoint: a widget of a later column starts at or right of the right edge of every widget
of an earlier column — however wide that widget made itself —, and a widget lower in a column starts
at or below the end of every widget above it. -/
theorem C15_column_disjoint (r : ColW) (k k' j j' : Nat) :
    (k < k' → k' < r.cols.length → r.colStart k + gridWidth (r.widgetGrid k j) ≤ r.colStart k') ∧
    (j < j' → r.widgetTop k j + (r.widgetGrid k j).length ≤ r.widgetTop k j') :=
  ColW.sep r k k' j j'

/-- … so no place of the buffer is claimed by characters of two different widgets. -/
theorem C15_column_unique (r : ColW) (k j a b k' j' a' b' : Nat) (ch ch' : Char)
    (hc : cell (r.widgetGrid k j) a b = some ch) (hc' : cell (r.widgetGrid k' j') a' b' = some ch')
    (hx : r.widgetTop k j + a = r.widgetTop k' j' + a') (hy : r.colStart k + b = r.colStart k' + b') :
    k = k' ∧ j = j' :=
  ColW.unique r k j a b k' j' a' b' ch ch' hc hc' hx hy

/-- When every column has a declared width and every rendered widget respects it (no row longer than
the column's width), the layout is the fixed grid the user asked for: column `k` starts at the sum of
`width_i + spacing` over the columns before it. (Without the hypothesis the column is pushed right:
last example below; a `TextWidget` always respects its width — C11 —, a list container with a forced
columns width or a checkbox need not.) -/
theorem C15_column_fixed_grid (r : ColW)
    (hw : ∀ p ∈ r.cols, ∃ n, p.1 = some n ∧ ∀ it ∈ p.2, ∀ row ∈ it.lines, row.length ≤ n)
    (k : Nat) (hk : k < r.cols.length) :
    r.colStart k = ((r.cols.take k).map fun p => p.1.getD 0 + r.spacing).sum :=
  ColW.fixed_grid r hw k hk

/-! Non-vacuity. Two columns `(6, [text, text])`, `(None, [text])`, spacing 2, at width 20: the render
succeeds, the second column starts at 6 + 2 and gets the remaining 12 columns, the second widget of
the first column starts on row 3, and its `x` is where the placement predicts. -/
example :
    let c : ColW := { spacing := 2, cols :=
      [(some 6, [.text {} "aaa bbb ccc".toList, .text {} ['x']]), (none, [.text {} "hello world again".toList])] }
    (match c.render asciiClass 20 with
     | .ok r => (r.lines, r.colStart 1, r.widgetTop 0 1, cell r.lines (r.widgetTop 0 1 + 0) (r.colStart 0 + 0),
         cell r.lines (r.widgetTop 1 0 + 1) (r.colStart 1 + 4))
     | .error _ => ([], 0, 0, none, none)) =
    (["aaa     hello world".toList, "bbb     again".toList, "ccc".toList, ['x']], 8, 3, some 'x', some 'n') := by
  decide +kernel

/-! … and these are the characters `(0, 0)` of widget 1 of column 0 and `(1, 4)` of widget 0 of column 1 -/
example :
    let c : ColW := { spacing := 2, cols :=
      [(some 6, [.text {} "aaa bbb ccc".toList, .text {} ['x']]), (none, [.text {} "hello world again".toList])] }
    (match c.render asciiClass 20 with
     | .ok r => (r.widgetGrid 0 1, cell (r.widgetGrid 0 1) 0 0, r.widgetGrid 1 0, cell (r.widgetGrid 1 0) 1 4)
     | .error _ => ([], none, [], none)) =
    ([['x']], some 'x', ["hello world".toList, "again".toList], some 'n') := by
  decide +kernel

/-! The `max` matters: the first column is declared 3 wide but holds a list container with a forced
columns width that renders 7 wide; the second column is pushed right to 7 + 1 = 8 instead of
3 + 1 = 4 and nothing is overwritten (so `C15_column_fixed_grid` needs its hypothesis). -/
example :
    let c : ColW := { spacing := 1, cols :=
      [(some 3, [.list {} false 2 (some 4) 1 none none [] [.text {} "ab".toList, .text {} "cd".toList]]),
       (some 4, [.text {} "xy z".toList, .sep {} 1, .text {} ['q']])] }
    (match c.render asciiClass 20 with
     | .ok r => (r.lines, r.widgetGrid 0 0, r.colStart 1, r.widgetTop 1 2, cell r.lines (r.widgetTop 1 2 + 0) (r.colStart 1 + 0))
     | .error _ => ([], [], 0, 0, none)) =
    (["ab   cd xy z".toList, "        ".toList, "        q".toList], ["ab   cd".toList], 8, 2, some 'q') := by
  decide +kernel

end Simpleline
