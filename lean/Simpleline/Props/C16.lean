/-
  C16 — Rendering depends only on current content and width, not on render history.

  A widget tree `t : Wd` carries, on every node, the state of the Python object (buffer, cursor, and for
  list containers the remembered number labels and columns width). `t.reset` forgets all of it.
  `t.render cc w` is `t.render(w)`: the object afterwards, or the exception.
-/
import Simpleline.Lemmas.Widgets

namespace Simpleline

/-- The result of a render (lines, cursor, and the state of every sub-object — or the error) is the
same whatever state the objects of the tree were in: it is a function of the contents and the width. -/
theorem C16_render_fresh (cc : CharClass) (t : Wd) (w : Int) : t.render cc w = t.reset.render cc w :=
  render_reset cc t w

/-- rendering changes state only: contents are untouched -/
theorem C16_render_keeps_contents (cc : CharClass) (t t' : Wd) (w : Int) (h : t.render cc w = .ok t') :
    t'.reset = t.reset :=
  render_keeps cc t t' w h

/-- two trees with the same contents render alike, whatever their histories -/
theorem C16_same_contents (cc : CharClass) (t u : Wd) (w : Int) (h : t.reset = u.reset) :
    t.render cc w = u.render cc w :=
  render_congr_reset cc w h

/-- rendering twice gives the same lines -/
theorem C16_render_twice (cc : CharClass) (t t1 : Wd) (w : Int) (h1 : t.render cc w = .ok t1) :
    t1.render cc w = .ok t1 := by
  rw [render_congr_reset cc w (render_keeps cc t t1 w h1), h1]

/-- rendering at another width (successfully or not) and then again at the first width gives the
same result as rendering at the first width directly -/
theorem C16_other_width_between (cc : CharClass) (t t1 : Wd) (w w' : Int) (h1 : t.render cc w' = .ok t1) :
    t1.render cc w = t.render cc w :=
  render_congr_reset cc w (render_keeps cc t t1 w' h1)

/-- adding an item after a render gives the same result as adding it to the container that was
never rendered -/
theorem C16_add_after_render (cc : CharClass) (t t1 x : Wd) (w w' : Int) (h1 : t.render cc w' = .ok t1) :
    (t1.add x).render cc w = (t.add x).render cc w := by
  apply render_congr_reset
  rw [Wd.reset_add, Wd.reset_add, render_keeps cc t t1 w' h1]

/-! Non-vacuity: a numbered list rendered, extended, rendered again at another width. -/
example :
    let t : Wd := .list {} false 2 none 3 (some {}) none [] [.text {} "aaa bbb".toList, .text {} ['x']]
    (match t.render asciiClass 40 with
     | .ok t1 => (match (t1.add (.text {} ['y'])).render asciiClass 12 with
        | .ok t2 => t2.lines
        | .error _ => [])
     | .error _ => []) =
    ["1) a   2) x".toList, "   a".toList, "   a".toList, "   b".toList, "   b".toList, "   b".toList, "3) y".toList] := by
  decide +kernel

end Simpleline
