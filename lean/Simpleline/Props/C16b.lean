/-
  C16b — Rendering depends only on current content and width, not on render history: `ColumnWidget`
  and `EntryWidget`.

  `c : ColW` is a `ColumnWidget` object: its own buffer and cursor `c.st`, its spacing, and its columns
  `(width or None, [widgets])`, every widget carrying the state of its Python object. `c.reset` forgets
  all the state (the column widget's and, by `Wd.reset`, every widget's) and keeps the contents.
  `c.render cc w` is `c.render(w)`: the object afterwards, or the exception a child raised (the model
  then has no object: in Python the object's contents are as before, see `C16_column_other_width_and_back`).
-/
import Simpleline.Lemmas.ColumnRender

namespace Simpleline

/-- The buffer and cursor a `ColumnWidget` was left with by earlier renders, draws or writes do not
matter: `render` starts by clearing them. -/
theorem C16_column_forgets_buffer (cc : CharClass) (c : ColW) (s : WSt) (w : Int) :
    ColW.render cc { c with st := s } w = ColW.render cc c w := rfl

/-- The result of `render(w)` (the lines, the cursor, the state of every widget in every column — or
the exception) is the same whatever state the column widget and its widgets were in: it is a function
of the contents and the width. -/
theorem C16_column_fresh (cc : CharClass) (c : ColW) (w : Int) : c.render cc w = c.reset.render cc w :=
  ColW.render_reset cc c w

/-- `render` changes state only: spacing, column widths and the widgets' contents are untouched. -/
theorem C16_column_keeps_contents (cc : CharClass) (c r : ColW) (w : Int) (h : c.render cc w = .ok r) :
    r.reset = c.reset :=
  ColW.render_keeps cc c r w h

/-- Two column widgets with the same contents (same spacing, same column widths, widgets equal up to
their forgotten state) render alike at every width, whatever their histories: both raise the same
exception, or both succeed with the same lines and cursor (the whole resulting objects are equal, so
every widget inside shows the same lines too) and again the same contents. -/
theorem C16_column_state_independent (cc : CharClass) (c d : ColW) (w : Int) (h : c.reset = d.reset) :
    c.render cc w = d.render cc w ∧
    ((∃ e, c.render cc w = .error e ∧ d.render cc w = .error e) ∨
     (∃ r r', c.render cc w = .ok r ∧ d.render cc w = .ok r' ∧ r.lines = r'.lines ∧ r.st.cur = r'.st.cur ∧
        r.reset = r'.reset ∧ r'.reset = d.reset)) := by
  have heq := ColW.render_congr_reset cc w h
  refine ⟨heq, ?_⟩
  cases hr : d.render cc w with
  | error e => exact Or.inl ⟨e, by rw [heq, hr], rfl⟩
  | ok r => exact Or.inr ⟨r, r, by rw [heq, hr], rfl, rfl, rfl, rfl, ColW.render_keeps cc d r w hr⟩

/-- Rendering twice at the same width gives the same object (lines, cursor, children) as rendering once. -/
theorem C16_column_render_twice (cc : CharClass) (c r : ColW) (w : Int) (h : c.render cc w = .ok r) :
    r.render cc w = .ok r := by
  rw [ColW.render_congr_reset cc w (ColW.render_keeps cc c r w h), h]

/-- Rendering at another width `w'` first — successfully, or with an exception (then the object keeps
its contents; the model keeps the object as it was) — and then at `w` gives the same result as rendering
at `w` directly. -/
theorem C16_column_other_width_and_back (cc : CharClass) (c : ColW) (w w' : Int) :
    (match c.render cc w' with
     | .ok c1 => c1
     | .error _ => c).render cc w = c.render cc w := by
  cases h : c.render cc w' with
  | error e => rfl
  | ok c1 => exact ColW.render_congr_reset cc w (ColW.render_keeps cc c c1 w' h)

/-- `EntryWidget(title, value)` is the `TextWidget` of `_create_text(title, value)`: the title alone
when the value is `None` or empty, otherwise the title, a line break and the value. (The driver builds
an entry as `Wd.text {} (entryText title value)`, so everything proved for text widgets — C11, C16 —
holds for entries.) -/
theorem C16_entry_text (t : List Char) :
    entryText t none = t ∧ entryText t (some []) = t ∧
    ∀ (c : Char) (v : List Char), entryText t (some (c :: v)) = t ++ '\n' :: c :: v := by
  refine ⟨rfl, rfl, fun c v => ?_⟩
  simp [entryText, truthy]

/-- … so the rendering of an entry depends on its title, value and the width only -/
theorem C16_entry_render (cc : CharClass) (s s' : WSt) (t : List Char) (v : Option (List Char)) (w : Int) :
    (Wd.text s (entryText t v)).render cc w = (Wd.text s' (entryText t v)).render cc w := by
  rw [render_reset cc (Wd.text s _), render_reset cc (Wd.text s' _)]
  rfl

/-! Non-vacuity: a two-column widget rendered at 20, at 12, at a width where a child refuses (the
`None` column has no room left), and at 20 again. -/
example :
    let c : ColW := { spacing := 2, cols :=
      [(some 6, [.text {} "aaa bbb ccc".toList, .text {} (entryText ['x'] (some ['y']))]),
       (none, [.text {} "hello world again".toList])] }
    (match c.render asciiClass 20 with
     | .ok c1 => (match c1.render asciiClass 12 with
        | .ok c2 => (c1.lines, c2.lines, (match c2.render asciiClass 8 with | .ok _ => false | .error _ => true),
            (match c2.render asciiClass 20 with | .ok c3 => c3.lines | .error _ => []))
        | .error _ => ([], [], false, []))
     | .error _ => ([], [], false, [])) =
    (["aaa     hello world".toList, "bbb     again".toList, "ccc".toList, "x".toList, "y".toList],
     ["aaa     hell".toList, "bbb     o wo".toList, "ccc     rld ".toList, "x       agai".toList, "y       n".toList],
     true,
     ["aaa     hello world".toList, "bbb     again".toList, "ccc".toList, "x".toList, "y".toList]) := by
  decide +kernel

end Simpleline
