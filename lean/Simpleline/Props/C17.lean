/-
  C17 — Console output is append-only and stays within the configured width.

  The console of the machine is `c.A.out : List Str`: the chunks written to stdout, in order (the byte
  stream is `c.A.out.flatten`). Property theorems only; the vocabulary (`allowed`, `frameworkLiterals`,
  `chunkLinesOK`, `NormalChunk`, `killChunks`, `OutShape`) is in `Spec/OutputSpec.lean`, the helper lemmas
  in `Lemmas/Output*.lean`.

  All theorems hold for every program `P` (every width — also widths ≤ 0 —, every title, text and name,
  every script) and every execution (`Reach`: every session of typed lines and every timing of the reader
  thread); the transition theorems hold for every transition out of *any* configuration.
-/
import Simpleline.Lemmas.OutputInv

namespace Simpleline
open Output

/-! ### 1. append-only -/

/-- The console starts empty. -/
theorem C17_starts_empty (c0 : Cfg) (h0 : Started c0) : c0.A.out = [] := by
  obtain ⟨init, hs, q, sin, rfl⟩ := h0; rfl

/-- Every transition (a machine step, the halting step, a delivery by the reader thread) leaves what is
on the console as it is and at most appends chunks at its end: the model has no operation on the output
other than appending, so nothing already printed is ever rewritten. -/
theorem C17_append_only (P : Prog) (c c' : Cfg) (ht : Trans P c c') : ∃ new, c'.A.out = c.A.out ++ new :=
  trans_append ht

/-- The same over any stretch of an execution: whatever is on the console at some moment is an
unchanged prefix of the console at every later moment (chunk by chunk, hence byte by byte). -/
theorem C17_never_rewritten (P : Prog) (c c' : Cfg) (h : Reach P c c') :
    ∃ new, c'.A.out = c.A.out ++ new ∧ c'.A.out.flatten = c.A.out.flatten ++ new.flatten := by
  obtain ⟨new, h1⟩ := reach_append h
  exact ⟨new, h1, by rw [h1, List.flatten_append]⟩

/-! ### 2. the alphabet -/

/-- Every chunk on the console is of a known kind: the separator, lines of a screen's window each ended
by a line break, one of the three prompt texts — followed, if and only if the run was killed (the crash
path of C02), by the two chunks of the screen stack dump, after which nothing is executed. -/
theorem C17_chunks (P : Prog) (c0 c : Cfg) (h0 : Started c0) (h : Reach P c0 c) : OutShape P c :=
  (outInv_reach h0 h).shape

/-- Every character ever written is a line break, a blank, `'='`, a character of one of the framework's
literal strings, a character of a screen name (printed as it is by the crash dump only), or a character
of a title or a text of the application that is **not** one of `'\t' '\n' '\x0b' '\x0c' '\r' ' '`.
In particular the framework never *introduces* a carriage return, a backspace or an escape character:
none of them is in `frameworkLiterals` (`C17_no_control`). -/
theorem C17_alphabet (P : Prog) (c0 c : Cfg) (h0 : Started c0) (h : Reach P c0 c) :
    ∀ ch ∈ c.A.out.flatten, allowed P ch :=
  outShape_allowed (C17_chunks P c0 c h0 h)

/-- As long as the run has not been killed, screen names do not reach the console either. -/
theorem C17_alphabet_alive (P : Prog) (c0 c : Cfg) (h0 : Started c0) (h : Reach P c0 c) (hk : Tr.kill ∉ c.tr) :
    ∀ ch ∈ c.A.out.flatten, ch = '\n' ∨ ch = ' ' ∨ ch = '=' ∨ ch ∈ frameworkLiterals.flatten ∨
      (textChar P ch ∧ isWs6 ch = false) :=
  outShape_chars_alive (C17_chunks P c0 c h0 h) hk

/-- No carriage return, backspace or escape character on the console unless the application supplied
it: `'\r'` appears only if a screen *name* contains it (in titles and texts it is turned into a blank);
backspace and ESC appear only if a screen name, a title or a text contains them. -/
theorem C17_no_control (P : Prog) (c0 c : Cfg) (h0 : Started c0) (h : Reach P c0 c) (ctl : Char)
    (hctl : ctl = '\r' ∨ ctl = '\x08' ∨ ctl = '\x1b')
    (hname : ¬ nameChar P ctl) (htext : ctl ≠ '\r' → ¬ textChar P ctl) : ctl ∉ c.A.out.flatten := by
  intro hm
  rcases allowed_control hctl (C17_alphabet P c0 c h0 h ctl hm) with h1 | ⟨h1, h2⟩
  · exact hname h1
  · exact htext h1 h2

/-! ### 3. the separator -/

/-- The separator is two lines of exactly `w` characters `'='`, each ended by a line break. -/
theorem C17_separator_shape (w : Int) :
    spacer w = List.replicate w.toNat '=' ++ ['\n'] ++ List.replicate w.toNat '=' ++ ['\n'] ∧
    splitOn '\n' (spacer w) = [List.replicate w.toNat '=', List.replicate w.toNat '=', []] :=
  ⟨rfl, spacer_lines w⟩

/-- Whenever a transition begins the draw of a stack entry `e` (adds the trace event `show e`), the same
transition appended exactly the separator of the configured width to the console — and nothing at all
if the screen disables the separator. As the console is append-only, everything the draw prints (window
lines, prompt) comes after it. -/
theorem C17_separator (P : Prog) (c c' : Cfg) (ht : Trans P c c') (e : Entry) (he : Tr.show e ∈ newTr c c') :
    c'.A.out = c.A.out ++ (if (P.spec e.screen).noSeparator then [] else [spacer P.width]) :=
  (trans_show ht e he).2

/-- Only the instruction that begins a draw adds a `show` event: a transition that adds `show e` is the
step of `drawScreen e` (the only instruction that starts the `show` callback and with it the printing of
the window). -/
theorem C17_only_draw_shows (P : Prog) (c c' : Cfg) (ht : Trans P c c') (e : Entry)
    (he : Tr.show e ∈ newTr c c') : ∃ rest, c.code = .drawScreen e :: rest :=
  (trans_show ht e he).1

/-- And every draw begins that way: the step of `drawScreen e` never fails and adds exactly the event
`show e` (so `C17_separator` applies to every draw). -/
theorem C17_draw_begins (P : Prog) (c : Cfg) (e : Entry) (rest : List Instr)
    (hc : c.code = .drawScreen e :: rest) : ∃ c', step P c = .ok c' ∧ newTr c c' = [.show e] :=
  draw_step P c e rest hc

/-! ### 4. the width -/

/-- (a) Every line of a screen's window — the wrapped title, the empty line after it, the wrapped text —
has at most the configured width. -/
theorem C17_width_window (P : Prog) (scr : Nat) (g : Grid) (h : windowLines P scr = .ok g) :
    ∀ l ∈ g, l.length ≤ P.width.toNat :=
  windowLines_width P scr g h

/-- (b) Every pending print instruction of a reachable configuration carries only lines of a window (of
the screen being drawn), and the chunk it will write is those lines, each followed by a line break. -/
theorem C17_pending_lines (P : Prog) (c0 c : Cfg) (h0 : Started c0) (h : Reach P c0 c) (ls : List Str)
    (hl : Instr.printLines ls ∈ c.code) :
    WindowLines P ls ∧ NormalChunk P (ls.flatMap fun l => l ++ ['\n']) := by
  have := (outInv_reach h0 h).code ls (mem_prints.mpr hl)
  exact ⟨this, .lines ls this⟩

/-- (b') The step of such an instruction appends exactly one chunk: its lines — none longer than the
configured width, none containing a line break — each followed by a line break. -/
theorem C17_print_step (P : Prog) (c0 c c' : Cfg) (h0 : Started c0) (h : Reach P c0 c) (ls : List Str)
    (rest : List Instr) (hc : c.code = .printLines ls :: rest) (hs : step P c = .ok c') :
    c'.A.out = c.A.out ++ [ls.flatMap fun l => l ++ ['\n']] ∧
    ∀ l ∈ ls, l.length ≤ P.width.toNat ∧ '\n' ∉ l :=
  ⟨print_step P c c' ls rest hc hs,
    windowLines_fit (C17_pending_lines P c0 c h0 h ls (by rw [hc]; simp)).1⟩

/-- (c) Every prompt text, at every width: each of its lines has, ignoring trailing blanks, at most the
configured width (the lines are those of the prompt rendered as text; the last one gets one blank). -/
theorem C17_width_prompt (P : Prog) (p : Prompt) : chunkLinesOK P.width.toNat (promptText P p) :=
  textPrompt_ok _ _ _

/-- (d) The separator lines have exactly the configured width. -/
theorem C17_width_separator (w : Int) :
    ∀ l ∈ splitOn '\n' (spacer w), l = [] ∨ (l.length = w.toNat ∧ ∀ ch ∈ l, ch = '=') :=
  spacer_lines_exact w

/-- Every kind of normal chunk satisfies the width clause. -/
theorem C17_width_chunk (P : Prog) (chunk : Str) (h : NormalChunk P chunk) : chunkLinesOK P.width.toNat chunk :=
  normalChunk_linesOK h

/-- The width clause for the whole console: every chunk ever written — separator, window lines, prompts —
has only lines that are, ignoring trailing blanks, no longer than the configured width; the only
exception are the two chunks of the crash dump, which are the last two chunks of a killed run.
(The clause is per written chunk: a prompt is written without a final line break and the next chunk
continues on the same line of the byte stream; on a real console the user's ENTER ends that line.) -/
theorem C17_width (P : Prog) (c0 c : Cfg) (h0 : Started c0) (h : Reach P c0 c) :
    (Tr.kill ∉ c.tr ∧ ∀ ch ∈ c.A.out, chunkLinesOK P.width.toNat ch) ∨
    (Tr.kill ∈ c.tr ∧ c.code = [] ∧
      ∃ pre stack, c.A.out = pre ++ killChunks P stack ∧ ∀ ch ∈ pre, chunkLinesOK P.width.toNat ch) :=
  outShape_width (C17_chunks P c0 c h0 h)

/-- In a run that has not been killed every chunk satisfies the width clause. -/
theorem C17_width_alive (P : Prog) (c0 c : Cfg) (h0 : Started c0) (h : Reach P c0 c) (hk : Tr.kill ∉ c.tr) :
    ∀ ch ∈ c.A.out, chunkLinesOK P.width.toNat ch := by
  rcases C17_width P c0 c h0 h with ⟨_, h1⟩ | ⟨h1, _⟩
  · exact h1
  · exact absurd h1 hk

/-! ### 5. non-vacuity -/

/-- one screen with a long title and a text with a tab, a hyphenated word and a carriage return, width
10; the user types `c` -/
def C17_exP : Prog :=
  { cc := asciiClass, width := 10,
    screens := [{ name := "S".toList, title := some "A long title here".toList,
                  text := some "Some\ttext to be-wrapped\rnow".toList }] }

def C17_exC : Cfg := initCfg [.schedule 0 none] [] none ["c".toList]

theorem C17_ex_reach (P : Prog) (n : Nat) : Reach P C17_exC (runFuel P n C17_exC).1 :=
  reach_runFuel n .init

/-- the theorems apply to the example runs -/
example : OutShape C17_exP (runFuel C17_exP 200 C17_exC).1 :=
  C17_chunks _ _ _ ⟨_, _, _, _, rfl⟩ (C17_ex_reach _ _)

/-- the whole console of the session: separator, window, prompt; three chunks, all within width 10 -/
example :
    (runFuel C17_exP 200 C17_exC).2 = .returned ∧
    (runFuel C17_exP 200 C17_exC).1.A.out.flatten =
      ("==========\n==========\nA long\ntitle here\n\nSome\ntext to\nbe-wrapped\nnow\n" ++
       "Please\nmake a\nselection\nfrom the\nabove ['c'\nto\ncontinue,\n'q' to\nquit, 'r'\nto\nrefresh]: ").toList ∧
    (runFuel C17_exP 200 C17_exC).1.A.out.length = 3 ∧
    (∀ ch ∈ (runFuel C17_exP 200 C17_exC).1.A.out, chunkLinesOK 10 ch) ∧
    Tr.show { eid := 0, screen := 0, args := none, modal := false } ∈ (runFuel C17_exP 200 C17_exC).1.tr := by
  decide +kernel

/-- a killed run: `refresh` raises, nobody handles the exception signal; the screen name (with its
carriage return) is dumped as it is, and the dump is wider than the configured width — the two reasons
for the name hypothesis of `C17_no_control` and for the exception in `C17_width` -/
def C17_exK : Prog :=
  { cc := asciiClass, width := 10,
    screens := [{ name := "S\rx".toList, title := some "T".toList }],
    screenScript := fun _ cb _ => if cb = .refresh then { acts := [.raiseErr] } else {} }

theorem C17_no_control_needs_names :
    (runFuel C17_exK 200 C17_exC).2 = .killed 1 ∧
    ¬ textChar C17_exK '\r' ∧
    '\r' ∈ (runFuel C17_exK 200 C17_exC).1.A.out.flatten := by
  decide +kernel

theorem C17_width_needs_kill_exception :
    (runFuel C17_exK 200 C17_exC).1.A.out = killChunks C17_exK [{ eid := 0, screen := 0, args := none, modal := false }] ∧
    ¬ ∀ ch ∈ (runFuel C17_exK 200 C17_exC).1.A.out, chunkLinesOK 10 ch := by
  decide +kernel

/-- a screen that disables the separator: the draw writes the window only -/
example :
    (runFuel { C17_exP with screens := [{ title := some "Hi".toList, noSeparator := true, inputRequired := false }] }
        60 C17_exC).1.A.out = ["Hi\n\n".toList] := by
  decide +kernel

end Simpleline
