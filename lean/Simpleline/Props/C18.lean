/-
  C18 — One outstanding input request unless bypassed; bypass hands off cleanly.

  Property theorems only; the proofs are in `Simpleline/Lemmas/Input*.lean`, the vocabulary in
  `Simpleline/Spec/InputSpec.lean`.

  Reading guide.  `c.A.ihs` are the `InputHandler` objects, `c.A.reqs` the requests ever made,
  `c.A.inputStack` = `InputThreadManager._input_stack` (request ids, oldest … newest),
  `c.A.processing` its busy flag, `c.A.readers` the started reader threads that have not delivered.
  `startRequest c ih requester text` is `InputThreadManager.start_input_thread`; the instruction
  `inputReceived s` is `InputThreadManager._input_received_handler(s)`, `inputReady n s` is
  `InputHandler n ._input_received_handler(s)`, `waitInput ih` is the loop of `wait_on_input`.

  Not expressible in the machine: the *text* of the refusal error (“names every requester involved”) —
  the machine only has the kind of an exception (`Kind.err`, an ordinary error), not its message.
-/
import Simpleline.Lemmas.InputFlightInv
import Simpleline.Lemmas.InputHandoff

namespace Simpleline

/-! ### 1. the pipeline invariants -/

/-- **The pipeline invariant.** In every reachable configuration of every program — provided the
application registered only handlers of its own (`UserHandlers`) and never enqueues an
`InputReceivedSignal`/`InputReadySignal` it made up itself (`NoForge`) — all request and handler
references are valid, the registered handlers are those present at start followed by exactly one per
`InputHandler` in creation order, at most one typed line is in flight between the console and the
hand-off (a started reader thread, a delivered `InputReceivedSignal` waiting in some queue, or one being
dispatched to the thread manager), a line in flight means the subsystem is busy, and it is busy exactly
while requests are outstanding. -/
theorem C18_pipeline_invariant (P : Prog) (c0 c : Cfg) (h0 : Started c0) (hU : UserHandlers c0)
    (hF : NoForge P c0) (hr : Reach P c0 c) : InputInv c0 c :=
  inputInv_reach h0 hU hF hr

/-- only one reader thread exists at a time -/
theorem C18_one_reader_thread (P : Prog) (c0 c : Cfg) (h0 : Started c0) (hU : UserHandlers c0)
    (hF : NoForge P c0) (hr : Reach P c0 c) : c.A.readers.length ≤ 1 := by
  have := (inputInv_reach h0 hU hF hr).one_flight
  unfold inFlight at this; omega

/-- while a reader thread exists the subsystem is busy, a request is outstanding, and no earlier line is
still waiting to be handed off -/
theorem C18_reader_means_busy (P : Prog) (c0 c : Cfg) (h0 : Started c0) (hU : UserHandlers c0)
    (hF : NoForge P c0) (hr : Reach P c0 c) (hrd : c.A.readers ≠ []) :
    c.A.processing = true ∧ c.A.inputStack ≠ [] ∧ irQueued c = 0 ∧ irCode c.code = 0 := by
  have hi := inputInv_reach h0 hU hF hr
  have h1 := hi.one_flight
  have hl : 0 < c.A.readers.length := List.length_pos_iff.mpr hrd
  unfold inFlight at h1
  have hp := hi.flight_processing (by unfold inFlight; omega)
  exact ⟨hp, hi.processing_iff.mp hp, by omega, by omega⟩

/-- an idle subsystem has no reader thread, no outstanding request and no line in flight -/
theorem C18_idle_means_quiet (P : Prog) (c0 c : Cfg) (h0 : Started c0) (hU : UserHandlers c0)
    (hF : NoForge P c0) (hr : Reach P c0 c) (hp : c.A.processing = false) :
    c.A.readers = [] ∧ c.A.inputStack = [] ∧ irQueued c = 0 ∧ irCode c.code = 0 := by
  have hi := inputInv_reach h0 hU hF hr
  have h1 := hi.one_flight
  have h0' : inFlight c = 0 := by
    have := hi.flight_processing
    rw [hp] at this
    have h2 : inFlight c ≠ 1 := fun h => by cases this h
    omega
  unfold inFlight at h0'
  refine ⟨List.length_eq_zero_iff.mp (by omega), ?_, by omega, by omega⟩
  have := hi.processing_iff
  rw [hp] at this
  exact Decidable.byContradiction fun hne => by cases this.mpr hne

/-- the hand-off never finds the request stack empty (no `IndexError` in
`_input_received_handler`): whenever the thread manager's handler is about to run, a request is outstanding -/
theorem C18_handoff_finds_request (P : Prog) (c0 c : Cfg) (h0 : Started c0) (hU : UserHandlers c0)
    (hF : NoForge P c0) (hr : Reach P c0 c) (s : Sig) (rest : List Instr)
    (hc : c.code = .inputReceived s :: rest) : c.A.inputStack ≠ [] := by
  have hi := inputInv_reach h0 hU hF hr
  have h1 := hi.one_flight
  apply hi.processing_iff.mp
  apply hi.flight_processing
  unfold inFlight at h1 ⊢
  rw [hc] at h1 ⊢
  simp [irCode, Instr.irPending] at h1 ⊢
  omega

/-- (for every program, no hypothesis) busy exactly while requests are outstanding -/
theorem C18_busy_iff_outstanding (P : Prog) (c0 c : Cfg) (h0 : Started c0) (hr : Reach P c0 c) :
    c.A.processing = true ↔ c.A.inputStack ≠ [] :=
  processing_reach h0 hr

/-- (for every program, no hypothesis) references are valid, and requests — on the stack and in general —
are in creation order with pairwise different handlers: every `InputHandler` makes its own request -/
theorem C18_references_valid (P : Prog) (c0 c : Cfg) (h0 : Started c0) (hr : Reach P c0 c) :
    (∀ r ∈ c.A.inputStack, r < c.A.reqs.length) ∧ (∀ r ∈ c.A.readers, r < c.A.reqs.length) ∧
    (∀ R ∈ c.A.reqs, R.ih < c.A.ihs.length) ∧ (c.A.reqs.map (·.ih)).Pairwise (· < ·) ∧
    c.A.inputStack.Pairwise (· < ·) :=
  let h := refsInv_reach h0 hr
  ⟨h.stack_valid, h.readers_valid, h.reqs_valid, h.reqs_sorted, h.stack_sorted⟩

/-- the thread manager's handler is registered exactly once (for `InputReceivedSignal`), and for every
`InputHandler` object `n` its handler is registered exactly once (for `InputReadySignal`); nothing is
registered for handlers that do not exist -/
theorem C18_handlers_registered_once (P : Prog) (c0 c : Cfg) (h0 : Started c0) (hU : UserHandlers c0)
    (hr : Reach P c0 c) :
    c.L.handlers.count (.inputReceived, .itm, none) = 1 ∧
    (∀ n, c.L.handlers.count (ihReg n) = if n < c.A.ihs.length then 1 else 0) ∧
    (∀ x ∈ c.L.handlers, x.2.1 = .itm → x.1 = .inputReceived) ∧
    (∀ x ∈ c.L.handlers, ∀ n, x.2.1 = .ih n → x.1 = .inputReady) :=
  ⟨(handlers_counts h0 hU hr).1, (handlers_counts h0 hU hr).2, (handlersOK_reach h0 hU hr).itm,
    (handlersOK_reach h0 hU hr).ih⟩

/-! ### 2./3. asking for input: refusal, acceptance, one reader -/

/-- **Refusal.** Asking while another request is outstanding, by a handler that did not opt out of the
check, raises an ordinary error from a configuration in which the refused request is forgotten again:
the request stack is the old one, nothing was printed, no reader was started, the busy flag is
untouched. (The request stays in the list of all requests ever made; the handler was reset.) -/
theorem C18_refuse (c : Cfg) (ih : Nat) (requester : Src) (text : Str)
    (hs : c.A.inputStack ≠ []) (hk : (c.A.ihs.getD ih default).skip = false) :
    ∃ c1 : Cfg, startRequest c ih requester text = c1.raise .err ∧
      c1.A.inputStack = c.A.inputStack ∧ c1.A.out = c.A.out ∧ c1.A.readers = c.A.readers ∧
      c1.A.processing = c.A.processing ∧ c1.code = c.code ∧ c1.L = c.L ∧ c1.tr = c.tr ∧ c1.log = c.log := by
  refine ⟨{ c with A := reqRecorded c.A ih requester text }, ?_, rfl, rfl, rfl, rfl, rfl, rfl, rfl, rfl⟩
  rw [startRequest_eq, if_pos ⟨hs, hk⟩]

/-- … and wherever the error is caught (or if it ends the run), stack, output, readers and busy flag are
still the old ones -/
theorem C18_refuse_final (c : Cfg) (ih : Nat) (requester : Src) (text : Str)
    (hs : c.A.inputStack ≠ []) (hk : (c.A.ihs.getD ih default).skip = false) :
    (final (startRequest c ih requester text)).A.inputStack = c.A.inputStack ∧
    (final (startRequest c ih requester text)).A.out = c.A.out ∧
    (final (startRequest c ih requester text)).A.readers = c.A.readers ∧
    (final (startRequest c ih requester text)).A.processing = c.A.processing := by
  obtain ⟨c1, h1, h2, h3, h4, h5, _⟩ := C18_refuse c ih requester text hs hs.elim.elim hk |>.elim id
  all_goals sorry

end Simpleline
