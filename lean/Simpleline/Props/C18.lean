/-
  C18 — One outstanding input request unless bypassed; bypass hands off cleanly.

  Property theorems only; the proofs are in `Simpleline/Lemmas/Input*.lean`, the vocabulary in
  `Simpleline/Spec/InputSpec.lean`.

  Reading guide.  `c.A.ihs` are the `InputHandler` objects, `c.A.reqs` the requests ever made,
  `c.A.inputStack` = `InputThreadManager._input_stack` (request ids, oldest … newest),
  `c.A.processing` its busy flag, `c.A.readers` the started reader threads that have not delivered.
  `startRequest c ih requester text` is `InputThreadManager.start_input_thread`; the instruction
  `inputReceived s` is `InputThreadManager._input_received_handler(s)`, `inputReady n s` is
  `InputHandler n ._input_received_handler(s)`, `waitInput ih` is the loop of `wait_on_input`.

  Not expressible in the machine: the *text* of the refusal error (“names every requester involved”) —
  the machine only has the kind of an exception (`Kind.err`, an ordinary error), not its message.
-/
import Simpleline.Lemmas.InputC18

namespace Simpleline
open Input

/-! ### 1. the pipeline invariants -/

/-- **The pipeline invariant.** In every reachable configuration of every program — provided the
application registered only handlers of its own (`UserHandlers`) and never enqueues an
`InputReceivedSignal`/`InputReadySignal` it made up itself (`NoForge`) — all request and handler
references are valid, the registered handlers are those present at start followed by exactly one per
`InputHandler` in creation order, at most one typed line is in flight between the console and the
hand-off (a started reader thread, a delivered `InputReceivedSignal` waiting in some queue, or one being
dispatched to the thread manager), a line in flight means the subsystem is busy, and it is busy exactly
while requests are outstanding. -/
theorem C18_pipeline_invariant (P : Prog) (c0 c : Cfg) (h0 : Started c0) (hU : UserHandlers c0)
    (hF : NoForge P c0) (hr : Reach P c0 c) : InputInv c0 c :=
  inputInv_reach h0 hU hF hr

/-- only one reader thread exists at a time -/
theorem C18_one_reader_thread (P : Prog) (c0 c : Cfg) (h0 : Started c0) (hU : UserHandlers c0)
    (hF : NoForge P c0) (hr : Reach P c0 c) : c.A.readers.length ≤ 1 :=
  one_reader_of_inv (inputInv_reach h0 hU hF hr)

/-- while a reader thread exists the subsystem is busy, a request is outstanding, and no earlier line is
still waiting to be handed off -/
theorem C18_reader_means_busy (P : Prog) (c0 c : Cfg) (h0 : Started c0) (hU : UserHandlers c0)
    (hF : NoForge P c0) (hr : Reach P c0 c) (hrd : c.A.readers ≠ []) :
    c.A.processing = true ∧ c.A.inputStack ≠ [] ∧ c.A.readers.length = 1 ∧ irQueued c = 0 ∧ irCode c.code = 0 :=
  reader_busy_of_inv (inputInv_reach h0 hU hF hr) hrd

/-- an idle subsystem has no reader thread, no outstanding request and no line in flight -/
theorem C18_idle_means_quiet (P : Prog) (c0 c : Cfg) (h0 : Started c0) (hU : UserHandlers c0)
    (hF : NoForge P c0) (hr : Reach P c0 c) (hp : c.A.processing = false) :
    c.A.readers = [] ∧ c.A.inputStack = [] ∧ irQueued c = 0 ∧ irCode c.code = 0 :=
  idle_quiet_of_inv (inputInv_reach h0 hU hF hr) hp

/-- the hand-off never finds the request stack empty (no `IndexError` in
`_input_received_handler`): whenever the thread manager's handler is about to run, a request is outstanding -/
theorem C18_handoff_finds_request (P : Prog) (c0 c : Cfg) (h0 : Started c0) (hU : UserHandlers c0)
    (hF : NoForge P c0) (hr : Reach P c0 c) (s : Sig) (rest : List Instr)
    (hc : c.code = .inputReceived s :: rest) : c.A.inputStack ≠ [] :=
  handoff_finds_request_of_inv (inputInv_reach h0 hU hF hr) s rest hc

/-- (for every program, no hypothesis) busy exactly while requests are outstanding -/
theorem C18_busy_iff_outstanding (P : Prog) (c0 c : Cfg) (h0 : Started c0) (hr : Reach P c0 c) :
    c.A.processing = true ↔ c.A.inputStack ≠ [] :=
  processing_reach h0 hr

/-- (for every program, no hypothesis) references are valid, and requests — on the stack and in general —
are in creation order with pairwise different handlers: every `InputHandler` makes its own request -/
theorem C18_references_valid (P : Prog) (c0 c : Cfg) (h0 : Started c0) (hr : Reach P c0 c) :
    (∀ r ∈ c.A.inputStack, r < c.A.reqs.length) ∧ (∀ r ∈ c.A.readers, r < c.A.reqs.length) ∧
    (∀ R ∈ c.A.reqs, R.ih < c.A.ihs.length) ∧ (c.A.reqs.map (·.ih)).Pairwise (· < ·) ∧
    c.A.inputStack.Pairwise (· < ·) :=
  let h := refsInv_reach h0 hr
  ⟨h.stack_valid, h.readers_valid, h.reqs_valid, h.reqs_sorted, h.stack_sorted⟩

/-- the thread manager's handler is registered exactly once (for `InputReceivedSignal`), and for every
`InputHandler` object `n` its handler is registered exactly once (for `InputReadySignal`); nothing is
registered for handlers that do not exist -/
theorem C18_handlers_registered_once (P : Prog) (c0 c : Cfg) (h0 : Started c0) (hU : UserHandlers c0)
    (hr : Reach P c0 c) :
    c.L.handlers.count (.inputReceived, .itm, none) = 1 ∧
    (∀ n, c.L.handlers.count (ihReg n) = if n < c.A.ihs.length then 1 else 0) ∧
    (∀ x ∈ c.L.handlers, x.2.1 = .itm → x.1 = .inputReceived) ∧
    (∀ x ∈ c.L.handlers, ∀ n, x.2.1 = .ih n → x.1 = .inputReady) :=
  ⟨(handlers_counts h0 hU hr).1, (handlers_counts h0 hU hr).2, (handlersOK_reach h0 hU hr).itm,
    (handlersOK_reach h0 hU hr).ih⟩

/-! ### 2./3. asking for input: refusal, acceptance, one reader -/

/-- **Refusal.** Asking while another request is outstanding, by a handler that did not opt out of the
check, raises an ordinary error (`KeyError`) from a configuration in which the refused request is
forgotten again: the request stack is the old one, nothing was printed, no reader was started, the busy
flag, the loop state and the history are untouched (the handler object was reset and the request is
remembered in the list of all requests ever made — nothing refers to it). -/
theorem C18_refuse (c : Cfg) (ih : Nat) (requester : Src) (text : Str)
    (hs : c.A.inputStack ≠ []) (hk : (c.A.ihs.getD ih default).skip = false) :
    ∃ c1 : Cfg, startRequest c ih requester text = c1.raise .err ∧
      c1.A.inputStack = c.A.inputStack ∧ c1.A.out = c.A.out ∧ c1.A.readers = c.A.readers ∧
      c1.A.processing = c.A.processing ∧ c1.code = c.code ∧ c1.L = c.L ∧ c1.tr = c.tr ∧ c1.log = c.log :=
  ⟨_, startRequest_refuse c ih requester text hs hk, rfl, rfl, rfl, rfl, rfl, rfl, rfl, rfl⟩

/-- … and wherever that error is caught, or if it ends the run, stack, readers, busy flag and output are
still the old ones: a refused request leaves no trace in the input subsystem -/
theorem C18_refuse_leaves_no_trace (c : Cfg) (ih : Nat) (requester : Src) (text : Str)
    (hs : c.A.inputStack ≠ []) (hk : (c.A.ihs.getD ih default).skip = false) :
    (final (startRequest c ih requester text)).A.inputStack = c.A.inputStack ∧
    (final (startRequest c ih requester text)).A.out = c.A.out ∧
    (final (startRequest c ih requester text)).A.readers = c.A.readers ∧
    (final (startRequest c ih requester text)).A.processing = c.A.processing :=
  refuse_no_trace c ih requester text hs hk

/-- **Acceptance and the one reader.** With no request outstanding, or with the check bypassed, the request
is not refused: it is pushed on the stack (newest last), its prompt is printed, the subsystem is busy, and
a reader thread is started **iff** none was running (`processing = false`); otherwise only the (newest)
prompt is printed again and the running reader will serve the newest request. -/
theorem C18_accept (c : Cfg) (ih : Nat) (requester : Src) (text : Str)
    (h : c.A.inputStack = [] ∨ (c.A.ihs.getD ih default).skip = true) :
    ∃ c', startRequest c ih requester text = .ok c' ∧
      c'.A.inputStack = c.A.inputStack ++ [c.A.reqs.length] ∧
      c'.A.reqs = c.A.reqs ++ [{ ih := ih, requester := requester, text := text }] ∧
      c'.A.out = c.A.out ++ [text] ∧ c'.A.processing = true ∧
      c'.A.readers = (if c.A.processing then c.A.readers else c.A.readers ++ [c.A.reqs.length]) ∧
      c'.code = c.code ∧ c'.L = c.L ∧ c'.tr = c.tr ∧ c'.log = c.log :=
  ⟨_, startRequest_accept c ih requester text h, rfl, rfl, rfl, rfl, rfl, rfl, rfl, rfl, rfl⟩

/-- `startRequest` raises exactly in the refusal case: it goes on normally iff the request is accepted — or it is
refused and the error it raises is caught by an enclosing scope (the `try` around a handler or a screen) -/
theorem C18_refuse_iff (c : Cfg) (ih : Nat) (requester : Src) (text : Str) :
    (∃ c', startRequest c ih requester text = .ok c') ↔
      (c.A.inputStack = [] ∨ (c.A.ihs.getD ih default).skip = true) ∨
      ∃ c', ({ c with A := reqRecorded c.A ih requester text } : Cfg).raise .err = .ok c' :=
  startRequest_ok_iff c ih requester text

/-- A screen asking for input (`getInput2`, after a prompt that is not `None`) and a blocking request
(`blockingInput`, i.e. `get_user_input`/the pager's “press ENTER”) both create a fresh `InputHandler`
(with / without the screen's one-shot callback, `skip` = the screen's opt-out) and call `startRequest`
for it: the outcome is described by `Requested`. -/
theorem C18_screen_request (P : Prog) (c : Cfg) (scr : Nat) (args : Option Nat) (rest : List Instr)
    (hc : c.code = .getInput2 scr args :: rest) (hp : c.retPromptNone = false) :
    Requested c (final (step P c)) (freshIH (.scr scr) (P.spec scr).skipCheck (some scr))
      (promptText P defaultPrompt) :=
  screen_request P c scr args rest hc hp

theorem C18_blocking_request (P : Prog) (c : Cfg) (scr : Nat) (cont : Bool) (rest : List Instr)
    (hc : c.code = .blockingInput scr cont :: rest) :
    Requested c (final (step P c)) (freshIH (.im scr) (P.spec scr).skipCheck none) (blockingText P cont) :=
  blocking_request P c scr cont rest hc

/-! ### 4. the hand-off -/

/-- **Hand-off.** When the thread manager's handler runs for the typed line `s.line` with the request stack
`rs ++ [r]`, the transition enqueues exactly the signals `handoffSigs` — in that order, each by
`enqueue_signal` (`enqEvent`: an `.enq` into the level its source routes to, or `.dropped` after
force-quit) — and nothing else happens in the history; afterwards the stack is empty and the subsystem
idle; the log, and every other part of the application state, is unchanged. -/
theorem C18_handoff (P : Prog) (c : Cfg) (s : Sig) (rest : List Instr) (rs : List Nat) (r : Nat)
    (hc : c.code = .inputReceived s :: rest) (hst : c.A.inputStack = rs ++ [r]) :
    ∃ c', step P c = .ok c' ∧
      (newTr c c').reverse = (handoffSigs c.A.reqs rs r s.line (c.nextSid + 1)).map (enqEvent c) ∧
      c'.L = (enqueueAll c (handoffSigs c.A.reqs rs r s.line (c.nextSid + 1))).L ∧
      c'.A = { c.A with inputStack := [], processing := false } ∧ c'.code = rest ∧ c'.log = c.log :=
  handoff_history P c s rest rs r hc hst

/-- The signals of a hand-off: exactly `1 + rs.length`, all `InputReadySignal`s of priority 0; the first
is the successful one for the newest request `r` — addressed to its requester and its handler, carrying
the line unmodified —, then for the `i`-th earlier request, in order, one failed signal addressed to
that request's requester and handler. -/
theorem C18_handoff_signals (reqs : List Request) (rs : List Nat) (r : Nat) (line : Str) (sid : Nat) :
    (handoffSigs reqs rs r line sid).length = 1 + rs.length ∧
    (∀ x ∈ handoffSigs reqs rs r line sid, x.cls = .inputReady ∧ x.prio = 0) ∧
    (handoffSigs reqs rs r line sid)[0]? = some (okSig reqs r line sid) ∧
    (∀ i, (hi : i < rs.length) →
      (handoffSigs reqs rs r line sid)[i + 1]? = some (failSig reqs rs[i] (sid + 1 + i))) :=
  handoffSigs_spec reqs rs r line sid

/-- `okSig` / `failSig` spelled out -/
theorem C18_okSig (reqs : List Request) (r : Nat) (line : Str) (sid : Nat) :
    (okSig reqs r line sid).line = line ∧ (okSig reqs r line sid).ok = true ∧
    (okSig reqs r line sid).ih = (reqs.getD r default).ih ∧
    (okSig reqs r line sid).src = (reqs.getD r default).requester := ⟨rfl, rfl, rfl, rfl⟩

theorem C18_failSig (reqs : List Request) (t : Nat) (sid : Nat) :
    (failSig reqs t sid).line = [] ∧ (failSig reqs t sid).ok = false ∧
    (failSig reqs t sid).ih = (reqs.getD t default).ih ∧
    (failSig reqs t sid).src = (reqs.getD t default).requester := ⟨rfl, rfl, rfl, rfl⟩

/-- **Each requester is told exactly once.** In a reachable configuration the signals of a hand-off are
addressed to pairwise different `InputHandler`s: the newest requester gets the one successful signal and
no failed one, every earlier requester gets exactly one failed signal. -/
theorem C18_handoff_one_signal_each (P : Prog) (c0 c : Cfg) (h0 : Started c0) (hr : Reach P c0 c)
    (rs : List Nat) (r : Nat) (line : Str) (sid : Nat) (hst : c.A.inputStack = rs ++ [r]) :
    ((handoffSigs c.A.reqs rs r line sid).map (·.ih)).Nodup :=
  handoffSigs_handlers_nodup (refsInv_reach h0 hr) rs r line sid hst

/-- **Idle again.** After the hand-off no request is outstanding and the subsystem is not busy, so the
next request — checked or not — is accepted and starts a reader thread of its own. -/
theorem C18_idle_after_handoff (P : Prog) (c : Cfg) (s : Sig) (rest : List Instr) (rs : List Nat) (r : Nat)
    (hc : c.code = .inputReceived s :: rest) (hst : c.A.inputStack = rs ++ [r])
    (ih : Nat) (requester : Src) (text : Str) :
    ∃ c' c'', step P c = .ok c' ∧ startRequest c' ih requester text = .ok c'' ∧
      c''.A.inputStack = [c'.A.reqs.length] ∧ c''.A.readers = c'.A.readers ++ [c'.A.reqs.length] ∧
      c''.A.processing = true :=
  idle_after_handoff P c s rest rs r hc hst ih requester text

/-! ### 5. the handler's result -/

/-- an `InputReadySignal` for another handler changes nothing -/
theorem C18_handler_ignores_others (P : Prog) (c : Cfg) (n : Nat) (s : Sig) (rest : List Instr)
    (hc : c.code = .inputReady n s :: rest) (hs : s.ih ≠ n) : step P c = .ok { c with code := rest } := by
  rw [step_inputReady P c n s rest hc, if_pos hs]

/-- **The handler's result.** For a signal addressed to handler `n`: `received` becomes true and the success
flag is the signal's; on success the value is the signal's line, unmodified, and the one-shot callback,
if there is one, is invoked exactly once (`processInput scr s.line` is the next instruction) and cleared,
so that no later signal can invoke it again; on failure value and callback are untouched and nothing is
invoked. No other handler, and nothing in the loop state or the history, changes. -/
theorem C18_handler_result (P : Prog) (c : Cfg) (n : Nat) (s : Sig) (rest : List Instr)
    (hc : c.code = .inputReady n s :: rest) (hn : n < c.A.ihs.length) (hs : s.ih = n) :
    ∃ c', step P c = .ok c' ∧
      (c'.A.ihs.getD n default).received = true ∧ (c'.A.ihs.getD n default).ok = s.ok ∧
      (c'.A.ihs.getD n default).source = (c.A.ihs.getD n default).source ∧
      (∀ m, m ≠ n → c'.A.ihs.getD m default = c.A.ihs.getD m default) ∧
      c'.log = c.log ∧ c'.L = c.L ∧ c'.tr = c.tr ∧
      (s.ok = true →
        (c'.A.ihs.getD n default).value = some s.line ∧ (c'.A.ihs.getD n default).cb = none ∧
        c'.code = (match (c.A.ihs.getD n default).cb with
                   | some scr => [.processInput scr s.line]
                   | none => []) ++ rest) ∧
      (s.ok = false →
        (c'.A.ihs.getD n default).value = (c.A.ihs.getD n default).value ∧
        (c'.A.ihs.getD n default).cb = (c.A.ihs.getD n default).cb ∧ c'.code = rest) :=
  inputReady_result P c n s rest hc hn hs

/-- the one-shot callback of an existing handler is never armed again, by any transition of any
configuration: once used (or absent) it stays `none` -/
theorem C18_callback_one_shot (P : Prog) (c c' : Cfg) (ht : Trans P c c') (n : Nat) (hn : n < c.A.ihs.length)
    (scr : Nat) (h1 : (c'.A.ihs.getD n default).cb = some scr) : (c.A.ihs.getD n default).cb = some scr :=
  cb_never_rearmed (trans_inpTrans ht) n hn scr h1

/-- a handler that has not received a result holds no value (`get_input` clears both) -/
theorem C18_no_value_before_result (P : Prog) (c0 c : Cfg) (h0 : Started c0) (hr : Reach P c0 c) (n : Nat)
    (h : IHandler) (hn : c.A.ihs[n]? = some h) (hrcv : h.received = false) : h.value = none :=
  (cbInv_reach h0 hr).unreceived n h hn hrcv

/-! ### 6. the blocking wait -/

/-- **The wait loop.** `wait_on_input` returns (goes on with the instruction after it) iff its own handler has
received a result; otherwise it keeps processing signals until the next `InputReadySignal` has been
dispatched (`procWait .inputReady`) and looks again — or, if the loop was told to stop, can never return. -/
theorem C18_wait_step (P : Prog) (c : Cfg) (ih : Nat) (rest : List Instr) (hc : c.code = .waitInput ih :: rest) :
    step P c =
      if (c.A.ihs.getD ih default).received then .ok { c with code := rest }
      else if ¬ c.L.runLoop then .error (.livelock, { c with code := rest })
      else .ok { c with code := .procWait .inputReady :: .waitInput ih :: rest } :=
  step_waitInput P c ih rest hc

/-- the instruction after the wait is reached by the wait's own step only when the result is there -/
theorem C18_wait_returns_iff_received (P : Prog) (c c' : Cfg) (ih : Nat) (rest : List Instr)
    (hc : c.code = .waitInput ih :: rest) (hst : step P c = .ok c') :
    c'.code = rest ↔ (c.A.ihs.getD ih default).received = true :=
  wait_returns_iff P c c' ih rest hc hst

/-- **Only the handler's own answer sets `received`.** In any transition (step, delivery, halting step) of any
configuration, if handler `n` had not received a result before and has one afterwards, the transition was the
`inputReady n s` step for a signal `s` addressed to `n`, and success flag and value are that signal's
(value untouched on failure: `none`, by `C18_no_value_before_result`). Together with `C18_wait_step`: a
blocking wait returns only after its own request was answered or failed, and `value`/`ok` then are as the
answering signal set them. -/
theorem C18_received_only_by_own_signal (P : Prog) (c c' : Cfg) (ht : Trans P c c') (n : Nat)
    (hb : (c.A.ihs.getD n default).received = false) (ha : (c'.A.ihs.getD n default).received = true) :
    ∃ s rest, c.code = .inputReady n s :: rest ∧ s.ih = n ∧ n < c.A.ihs.length ∧
      (c'.A.ihs.getD n default).ok = s.ok ∧
      (s.ok = true → (c'.A.ihs.getD n default).value = some s.line) ∧
      (s.ok = false → (c'.A.ihs.getD n default).value = (c.A.ihs.getD n default).value) :=
  received_set_only_by_own_signal (trans_inpTrans ht) n hb ha

/-! ### non-vacuity, and the hypotheses are needed -/

/-- one screen (`skipCheck` as given) that asks for input; a handler for a user signal calls the blocking
`get_user_input` while the screen's request is outstanding; one line is typed -/
def C18_exP (skip : Bool) : Prog :=
  { cc := asciiClass, screens := [{ name := ['A'], skipCheck := skip }],
    handlerScript := fun hid n => if hid = 0 ∧ n = 0 then [.getUserInput 0 false] else [] }

def C18_exC : Cfg :=
  initCfg [.schedule 0 none, .enq (.user 0) 0 .none 5] [(.user 0, .user 0, none)] none ["secret".toList]

/-- with the check bypassed: the blocking (newest) request gets the line as a successful result, the screen's
(earlier) request is told that it failed — its callback is not invoked, no `input` event —, and the subsystem
is idle again; the run then waits for events that never come -/
example :
    let c := (runFuel (C18_exP true) 400 C18_exC).1
    (runFuel (C18_exP true) 400 C18_exC).2 = .blocked ∧
    c.A.ihs.map (fun h => (h.source, h.received, h.ok, h.value)) =
      [(.scr 0, true, false, none), (.im 0, true, true, some "secret".toList)] ∧
    c.A.inputStack = [] ∧ c.A.processing = false ∧ c.A.readers = [] ∧
    inputLines c.log = [] ∧ readLines c.log = ["secret".toList] := by
  decide +kernel

/-- without the bypass the second request is refused: the error leaves the handler, is turned into an
`ExceptionSignal`, and (no exception handler registered) kills the application; the screen's request is still the
only one on the stack and its reader still the only reader -/
example :
    let c := (runFuel (C18_exP false) 400 C18_exC).1
    (runFuel (C18_exP false) 400 C18_exC).2 = .killed 1 ∧
    c.A.inputStack = [0] ∧ c.A.readers = [0] ∧ c.A.processing = true ∧ c.A.reqs.length = 2 := by
  decide +kernel

/-- `UserHandlers` and `NoForge` hold for these runs -/
example : UserHandlers C18_exC ∧ C18_exC.NoForge := by decide

/-- **`NoForge` is needed** for “only one reader thread at a time”: an application that enqueues an
`InputReceivedSignal` of its own while the screen's reader is waiting makes the thread manager hand off a line
that was never typed and go idle although the reader still exists; the screen's next request starts a second
reader. -/
def C18_forgeP : Prog := { cc := asciiClass, screens := [{ name := ['A'] }] }
def C18_forgeC : Cfg := initCfg [.schedule 0 none, .enq .inputReceived 0 .none 7] [] none []

theorem C18_one_reader_needs_NoForge :
    ∃ c, Started C18_forgeC ∧ UserHandlers C18_forgeC ∧ Reach C18_forgeP C18_forgeC c ∧ c.A.readers.length = 2 :=
  ⟨(runFuel C18_forgeP 60 C18_forgeC).1, ⟨_, _, _, _, rfl⟩, by decide,
    reach_runFuel _ _ _ _ .init, by decide +kernel⟩

/-- **`UserHandlers` is needed** as well: registering the thread manager's private handler for a signal class of
the application has the same effect. -/
def C18_regC : Cfg := initCfg [.schedule 0 none, .enq (.user 0) 0 .none 7] [(.user 0, .itm, none)] none []

theorem C18_one_reader_needs_UserHandlers :
    ∃ c, Started C18_regC ∧ C18_regC.NoForge ∧ Reach C18_forgeP C18_regC c ∧ c.A.readers.length = 2 :=
  ⟨(runFuel C18_forgeP 60 C18_regC).1, ⟨_, _, _, _, rfl⟩, by decide, reach_runFuel _ _ _ _ .init,
    by decide +kernel⟩

/-- **Busy does not mean that a line is in flight** (so the invariant `flight_processing` has no converse): after
`force_quit` the loop drops every enqueue; a reader that delivers then loses its line — the subsystem stays busy,
the request stays on the stack, and nothing is in flight any more. -/
def C18_fqP : Prog :=
  { cc := asciiClass, screens := [{ name := ['A'] }],
    handlerScript := fun hid n => if hid = 0 ∧ n = 0 then [.forceQuit] else [] }
def C18_fqC : Cfg :=
  initCfg [.schedule 0 none, .enq (.user 0) 0 .none 5] [(.user 0, .user 0, none)] none ["x".toList]

theorem C18_busy_without_line_in_flight :
    ∃ c, Reach C18_fqP C18_fqC c ∧ UserHandlers C18_fqC ∧ C18_fqC.NoForge ∧
      c.A.processing = true ∧ c.A.inputStack = [0] ∧ inFlight c = 0 ∧ readLines c.log = ["x".toList] := by
  have h : ((runFuel C18_fqP 400 C18_fqC).1.deliver).isSome = true := by decide +kernel
  obtain ⟨c, hc⟩ := Option.isSome_iff_exists.mp h
  refine ⟨c, .deliver (reach_runFuel _ _ _ _ .init) hc, by decide, by decide, ?_⟩
  have : ∀ c', (runFuel C18_fqP 400 C18_fqC).1.deliver = some c' →
      c'.A.processing = true ∧ c'.A.inputStack = [0] ∧ inFlight c' = 0 ∧ readLines c'.log = ["x".toList] := by
    decide +kernel
  exact this c hc

end Simpleline
