/-
  C19 — Signals may be submitted from any thread: none lost, duplicated or reordered.

  Property theorems only; the proofs are in `Simpleline/Lemmas/Thread*.lean`, the vocabulary in
  `Simpleline/Spec/ThreadSpec.lean`, the model in `Simpleline/Model/Threads.lean`.

  Reading guide.  The model is a labelled transition system at the granularity of single shared accesses (finer
  than source lines): `tstep s t e = some s'` = thread `t` performs access `e`; `run s0 sched` folds it over a
  schedule `sched : List (thread × access)`.  Thread 0 is the loop thread (dispatching with `get`/`putBack`,
  `register_signal_source`, `execute_new_loop`, `close_loop`); every other thread only runs `enqueue_signal`.
  "Every interleaving" = every schedule accepted by `run` from `initState src0`; `TReach src0 s` = `s` is the
  state after some accepted schedule.  All theorems hold for any number of threads and any schedule length.
  `s.levels` is `MainLoop._event_queues` (indices into the store `s.queues` of all `EventQueue` objects ever
  created — objects are never deleted, a closed level's queue stays in the store), `s.active` is `_active_queue`,
  `s.pc t` is the code position of thread `t`, `s.dispatched` the (queue, id) pairs handed to the dispatcher
  (newest first), `s.completed` the ids whose `enqueue_signal` has returned.

  What the property's sentences become:
  * "each dispatched exactly once … none lost, duplicated": `C19_ids_conserved` (the multiset law),
    `C19_no_dup`, `C19_exactly_once`, `C19_conserve`, `C19_stored_stable`, and the exact effect of
    `put`/`get`/`putBack` (`C19_put_adds_one`, `C19_get_takes_min`, `C19_putBack_undoes_get`).  These are safety
    statements: a submitted signal is always accounted for (in a thread's hands, waiting, or dispatched), never
    twice; that the loop thread eventually gets to it is liveness of the dispatch loop, not of the interleaving;
  * "signals of equal priority submitted by one thread are dispatched in that thread's submission order":
    `C19_thread_fifo` (history form, per thread) and `C19_fifo_dispatch` (per queue, any threads), on top of the
    state form `C19_fifo_state`;
  * "registering sources and opening or closing nested loops … never corrupts the loop": `C19_mutex`,
    `C19_mutex_exclusive`, `C19_structure`, `C19_levels_written_under_lock`, `C19_levels_stable_while_locked`,
    `C19_snapshot`, `C19_sources_only_grow`;
  * "… or misroutes a signal whose source belongs to a loop level that stays open": `C19_routing_found`; the
    fallback path (source owned by no level) is characterised by `C19_routing_fallback` and is outside the claim.
-/
import Simpleline.Lemmas.ThreadOrder

namespace Simpleline.Threads

/-! ### 1. lock discipline -/

/-- **Mutual exclusion, as an invariant of every reachable state.**  The main lock (`MainLoop._lock`) is held by
thread `t` exactly when `t` is at a code position inside a `with self._lock:` block (`PC.holdsMain`: the level
search of `enqueue_signal` up to and including a `put` on the found path, the `append` of `execute_new_loop`,
the `pop`/re-read of `close_loop`); likewise every queue's `_lock` (`holdsSrc`: asking `contains_source`, or
`add_source`) and `_order_lock` (`holdsOrd`: the `put` and the counter increment). -/
theorem C19_mutex (src0 : List Nat) (s : TState) (hr : TReach src0 s) :
    (∀ t, s.mainLock = some t ↔ (s.pc t).holdsMain = true) ∧
    (∀ q, q < s.queues.length → ∀ t, (s.q q).srcLock = some t ↔ (s.pc t).holdsSrc q = true) ∧
    (∀ q, q < s.queues.length → ∀ t, (s.q q).ordLock = some t ↔ (s.pc t).holdsOrd q = true) :=
  ⟨(tinv_reach hr).main, (tinv_reach hr).src, (tinv_reach hr).ord⟩

/-- hence at most one thread is inside each critical section at any moment -/
theorem C19_mutex_exclusive (src0 : List Nat) (s : TState) (hr : TReach src0 s) (t1 t2 : Nat) :
    ((s.pc t1).holdsMain = true → (s.pc t2).holdsMain = true → t1 = t2) ∧
    (∀ q, q < s.queues.length → (s.pc t1).holdsSrc q = true → (s.pc t2).holdsSrc q = true → t1 = t2) ∧
    (∀ q, q < s.queues.length → (s.pc t1).holdsOrd q = true → (s.pc t2).holdsOrd q = true → t1 = t2) := by
  have h := tinv_reach hr
  refine ⟨fun h1 h2 => ?_, fun q hq h1 h2 => ?_, fun q hq h1 h2 => ?_⟩
  · have a := (h.main t1).2 h1; have b := (h.main t2).2 h2; rw [a] at b; injection b
  · have a := (h.src q hq t1).2 h1; have b := (h.src q hq t2).2 h2; rw [a] at b; injection b
  · have a := (h.ord q hq t1).2 h1; have b := (h.ord q hq t2).2 h2; rw [a] at b; injection b

/-! ### 2. the level list and `_active_queue` are never corrupted -/

/-- **Structure invariant.**  In every reachable state: only thread 0 is ever at a loop-thread code position;
every queue index a thread works with exists; every level is an existing queue, no queue is a level twice;
`_active_queue` is an existing queue and it is (`PC.activeOK`, by the code position of the loop thread) the
queue just created by `execute_new_loop` and not yet appended (`nlRead`/`nlAppend`: not a level yet), or the
level just popped by `close_loop` whose replacement has not been written yet (`clPopped`/`clSetActive`: not a
level any more), or otherwise the top level — unless the last level has been popped (`levels = []`, the loop is
over). -/
theorem C19_structure (src0 : List Nat) (s : TState) (hr : TReach src0 s) :
    (∀ t, t ≠ 0 → (s.pc t).isSub = true) ∧
    (∀ t, (s.pc t).valid s.queues.length) ∧
    (∀ q ∈ s.levels, q < s.queues.length) ∧ s.levels.Nodup ∧
    s.active < s.queues.length ∧ (s.pc 0).activeOK s.levels s.active :=
  let h := tinv_reach hr
  ⟨h.sub, h.valid, h.lvValid, h.lvNodup, h.actValid, h.act⟩

/-- `MainLoop._event_queues` changes only in `lvAppend` / `lvPop` steps, and these are taken only by the loop
thread while it holds the main lock. -/
theorem C19_levels_written_under_lock (src0 : List Nat) (s s' : TState) (hr : TReach src0 s) (t : Nat) (e : Ev)
    (hs : tstep s t e = some s') :
    (e.isLevelWrite = false → s'.levels = s.levels) ∧
    (e.isLevelWrite = true → s.mainLock = some t ∧ t = 0) :=
  ⟨(levels_step (tstep_sound hs)).1,
    fun he => ⟨(levels_step (tstep_sound hs)).2 he, levelWrite_thread (tinv_reach hr) (tstep_sound hs) he⟩⟩

/-- so while a submitter holds the main lock nobody else changes the level list -/
theorem C19_levels_stable_while_locked (src0 : List Nat) (s s' : TState) (hr : TReach src0 s) (t t' : Nat)
    (e : Ev) (hl : s.mainLock = some t) (hne : t' ≠ t) (hs : tstep s t' e = some s') : s'.levels = s.levels := by
  have h := C19_levels_written_under_lock src0 s s' hr t' e hs
  cases he : e.isLevelWrite
  · exact h.1 he
  · have := (h.2 he).1; rw [hl] at this; injection this with this; exact absurd this.symm hne

/-- **The snapshot a submitter iterates over stays the truth** (`PC.snapOK`): while thread `t` is in the level
search (`iter sg todo` / `asking sg q todo` / `asked sg q todo _`), the levels it has already asked followed by
those still to ask are exactly the current `reversed(self._event_queues)`; and a level it found under the lock
(`putAcq/putDo/putRel _ q true`) is still a level. -/
theorem C19_snapshot (src0 : List Nat) (s : TState) (hr : TReach src0 s) (t : Nat) : (s.pc t).snapOK s.levels :=
  (tinv_reach hr).snap t

/-- registered sources are never removed by any step of any thread (and `add_source` runs under the queue's own
lock: `C19_mutex`) -/
theorem C19_sources_only_grow (s s' : TState) (t : Nat) (e : Ev) (hs : tstep s t e = some s') (q n : Nat)
    (h : n ∈ (s.q q).sources) : n ∈ (s'.q q).sources :=
  sources_step (tstep_sound hs) q n h

/-! ### 3. nothing is duplicated -/

/-- **Conservation of signal ids, as multisets.**  After every accepted schedule the ids whose submission has
begun (`submit` / `newLoop` events) are exactly — with multiplicities — the ids still in the hands of a thread
that has not reached its `put` yet (`preIds`), the ids waiting in the queues (`entryIds`, all queue objects
ever created) and the ids dispatched.  No hypothesis on the ids. -/
theorem C19_ids_conserved (src0 : List Nat) (sched : List (Nat × Ev)) (s : TState)
    (hr : run (initState src0) sched = some s) :
    (s.preIds ++ s.entryIds ++ s.dispatchedIds).Perm (submitted sched) :=
  ids_perm hr

/-- **No duplication.**  If the submitted ids are pairwise distinct, then at every moment the ids in flight, in
all queues and in `dispatched` are pairwise distinct: no signal is in two queues, or twice in a queue, or
dispatched twice, or dispatched while still waiting. -/
theorem C19_no_dup (src0 : List Nat) (sched : List (Nat × Ev)) (s : TState)
    (hr : run (initState src0) sched = some s) (hd : DistinctIds sched) :
    (s.preIds ++ s.entryIds ++ s.dispatchedIds).Nodup :=
  (ids_perm hr).nodup_iff.2 hd

/-- the hypothesis is needed: with a repeated id the lists are of course not duplicate-free (two threads submit
id 5; the multiset law `C19_ids_conserved` still holds) -/
example : (run (initState []) [(1, .submit ⟨5, none, 0⟩), (2, .submit ⟨5, none, 0⟩)]).map
    (fun s => decide (s.preIds ++ s.entryIds ++ s.dispatchedIds).Nodup) = some false := by
  decide +kernel

/-- **Exactly once.**  With distinct ids, a signal whose `enqueue_signal` has returned is at exactly one place,
exactly once: waiting in one queue or dispatched once — and no thread still holds it. -/
theorem C19_exactly_once (src0 : List Nat) (sched : List (Nat × Ev)) (s : TState)
    (hr : run (initState src0) sched = some s) (hd : DistinctIds sched) (id : Nat) (hc : id ∈ s.completed) :
    List.count id (s.entryIds ++ s.dispatchedIds) = 1 ∧ id ∉ s.preIds :=
  exactly_once hr hd id hc

/-- a `put` step adds exactly one entry — the acting thread's signal with the queue's arrival counter, which it
increments — to exactly one queue, and nothing else changes in the queues or in `dispatched` -/
theorem C19_put_adds_one (src0 : List Nat) (s s' : TState) (hr : TReach src0 s) (t q sid : Nat) (prio : Int)
    (o : Nat) (hs : tstep s t (.put q sid prio o) = some s') :
    o = (s.q q).seq ∧ (s'.q q).entries = (prio, o, sid) :: (s.q q).entries ∧ (s'.q q).seq = o + 1 ∧
      (∀ q', q' ≠ q → s'.q q' = s.q q') ∧ s'.dispatched = s.dispatched :=
  put_effect (tinv_reach hr) hs

/-- a `get` step (loop thread, active queue) removes exactly one entry, one that is minimal in
(priority, arrival number) among all entries of the queue, and records it as dispatched -/
theorem C19_get_takes_min (src0 : List Nat) (s s' : TState) (hr : TReach src0 s) (t q sid : Nat)
    (hs : tstep s t (.get q sid) = some s') :
    t = 0 ∧ q = s.active ∧ ∃ m, minEntry (s.q q).entries = some m ∧ m.2.2 = sid ∧ m ∈ (s.q q).entries ∧
      (∀ e ∈ (s.q q).entries, entryLe m e = true) ∧
      (s'.q q).entries = (s.q q).entries.erase m ∧ ((s.q q).entries).Perm (m :: (s'.q q).entries) ∧
      (∀ q', q' ≠ q → s'.q q' = s.q q') ∧ s'.dispatched = (q, sid) :: s.dispatched :=
  get_effect (tinv_reach hr) hs

/-- `putBack` undoes exactly the last `get`: the entry taken goes back into its queue and leaves `dispatched` -/
theorem C19_putBack_undoes_get (src0 : List Nat) (s s' : TState) (hr : TReach src0 s) (t q sid : Nat)
    (hs : tstep s t (.putBack q sid) = some s') :
    t = 0 ∧ ∃ m, s.lastTaken = some (q, m) ∧ m.2.2 = sid ∧ s.dispatched = (q, sid) :: s'.dispatched ∧
      (s'.q q).entries = m :: (s.q q).entries ∧ (∀ q', q' ≠ q → s'.q q' = s.q q') :=
  putBack_effect (qcinv_reach hr).1 hs

/-! ### 4. nothing is lost -/

/-- **No loss.**  Every signal whose `enqueue_signal` has returned (`completed`) is waiting in some queue of the
store or has been dispatched (`TState.stored`).  The queue may be a level that has since been closed — leftovers
of a closed level stay in its queue object, which is the single-threaded semantics too; what the interleaving
cannot do is make a submitted signal vanish.  (`putBack` moves an id from `dispatched` back to its queue, so
"dispatched" alone is not monotone; "stored" is: `C19_stored_stable`.) -/
theorem C19_conserve (src0 : List Nat) (s : TState) (hr : TReach src0 s) :
    ∀ id ∈ s.completed, s.stored id :=
  (qcinv_reach hr).2.compl

/-- the same already between the `put` and the return of `enqueue_signal` -/
theorem C19_conserve_put_done (src0 : List Nat) (s : TState) (hr : TReach src0 s) (t : Nat) :
    ∀ id ∈ (s.pc t).postId, s.stored id :=
  (qcinv_reach hr).2.post t

/-- no step of any thread makes a stored id disappear -/
theorem C19_stored_stable (src0 : List Nat) (s s' : TState) (hr : TReach src0 s) (t : Nat) (e : Ev)
    (hs : tstep s t e = some s') (id : Nat) (h : s.stored id) : s'.stored id :=
  stored_step (tinv_reach hr) (qcinv_reach hr).1 (tstep_sound hs) id h

/-! ### 5. routing -/

/-- **Routing on the found path.**  Suppose the schedule `pre` is accepted and leads to `s`, and thread `t` is
about to `put` into `q` inside the main lock (`putDo sg q true`; the `put q sg.sid sg.prio _` step is the only
step it can take).  Then: `t` holds the main lock; `q` is an open level at this very moment; the signal has a
source and `q` has it registered; and the history is `pre = pre0 ++ (t, lvIter s.levels) :: mid` where the
`lvIter` event read exactly the current level list, nobody has written the level list since (`NoLevelWrite mid`),
and `t`'s own accesses since are, for the levels `above` `q` (innermost first): lock it, ask, get the answer
"not mine", unlock it — then lock `q`, ask, get "mine", unlock, take `q`'s order lock.  So the signal goes into
the innermost level that answered "mine" when asked under that level's own lock during this one critical
section of the main lock, and that level cannot have been closed in between.  (A source registered in an inner
level *after* that level was asked is legitimately missed: the answers are those of the moments of asking.) -/
theorem C19_routing_found (src0 : List Nat) (pre : List (Nat × Ev)) (s : TState) (t : Nat) (sg : TSig) (q : Nat)
    (hr : run (initState src0) pre = some s) (hpc : s.pc t = .putDo sg q true) :
    s.mainLock = some t ∧ q ∈ s.levels ∧ (∃ n, sg.src = some n ∧ n ∈ (s.q q).sources) ∧
      ∃ above below, s.levels.reverse = above ++ q :: below ∧
        CritSec t pre s.levels (above.flatMap (askNo sg.src) ++ askYes sg.src q ++ [.acqO q]) :=
  routing_found hr hpc

/-- **Routing on the fallback path** (`putDo sg q false`: no level owns the source).  The history is
`pre = pre0 ++ (t, lvIter lv) :: mid1 ++ (t, relMain) :: mid2`: `t` read the level list `lv`, nobody wrote it
while `t` asked *every* level of it (innermost first) and got "not mine" from each, `t` released the main lock,
then read `_active_queue` (the `activeRead q` event: `q` was the active queue at that moment,
`C19_activeRead_reads_active`) and took `q`'s order lock.  Between that read and the `put` the loop thread may
close level `q`: then the signal lands in a closed level (see the last example at the end of this file).  This
is outside the property's claim, which is about sources owned by a level that stays open. -/
theorem C19_routing_fallback (src0 : List Nat) (pre : List (Nat × Ev)) (s : TState) (t : Nat) (sg : TSig)
    (q : Nat) (hr : run (initState src0) pre = some s) (hpc : s.pc t = .putDo sg q false) :
    Fallback t pre sg.src [.activeRead q, .acqO q] :=
  routing_fallback hr hpc

/-- every accepted `put` step is one of the two cases above, and puts the thread's own signal -/
theorem C19_put_is_routed (s s' : TState) (t q sid : Nat) (prio : Int) (o : Nat)
    (hs : tstep s t (.put q sid prio o) = some s') :
    ∃ sg found, s.pc t = .putDo sg q found ∧ sg.sid = sid ∧ sg.prio = prio ∧ o = (s.q q).seq :=
  put_inv hs

/-- the events the routing theorems talk about carry the truth: an accepted `lvIter lv` read the current level
list, an accepted `activeRead q` of a submitter on the fallback path read the current `_active_queue`, an
accepted `contains q src res` got the current answer of queue `q` -/
theorem C19_lvIter_reads_levels (s s' : TState) (t : Nat) (lv : List Nat)
    (hs : tstep s t (.lvIter lv) = some s') : lv = s.levels := by
  have := tstep_sound hs; cases this; rfl

theorem C19_activeRead_reads_active (s s' : TState) (t q : Nat) (sg : TSig) (hpc : s.pc t = .fallback sg)
    (hs : tstep s t (.activeRead q) = some s') : q = s.active := by
  have := tstep_sound hs
  cases this <;> simp_all

theorem C19_contains_answers (s s' : TState) (t q : Nat) (src : Option Nat) (res : Bool)
    (hs : tstep s t (.contains q src res) = some s') :
    res = match (generalizing := false) src with | some n => (s.q q).sources.contains n | none => false := by
  have := tstep_sound hs
  clear hs
  cases this
  assumption

/-! ### 6. FIFO among equal priorities -/

/-- **State form.**  In every reachable state, within one queue all entries have pairwise distinct arrival
numbers, all below the queue's counter.  Together with `C19_put_adds_one` (a `put` uses the counter and increments
it: of two puts into one queue the later has the larger number) and `C19_get_takes_min` (`get` takes an entry
minimal in (priority, arrival number)), a queue is FIFO among equal priorities: `C19_get_fifo`. -/
theorem C19_fifo_state (src0 : List Nat) (s : TState) (hr : TReach src0 s) (q : Nat) :
    (∀ e ∈ (s.q q).entries, e.2.1 < (s.q q).seq) ∧ ((s.q q).entries.map (·.2.1)).Nodup :=
  ⟨(qcinv_reach hr).1.arrLt q, (qcinv_reach hr).1.arrNodup q⟩

/-- the entry `get` returns has the smallest arrival number among the waiting entries of its priority -/
theorem C19_get_fifo (l : List (Int × Nat × Nat)) (m : Int × Nat × Nat) (h : minEntry l = some m) :
    m ∈ l ∧ (∀ e ∈ l, entryLe m e = true) ∧ ∀ e ∈ l, e.1 = m.1 → m.2.1 ≤ e.2.1 :=
  ⟨minEntry_mem h, minEntry_le h, minEntry_fifo h⟩

/-- **History form, per queue.**  Let the submitted ids be distinct.  If signal `a` was put into queue `q` before
signal `b` was (put records in schedule order: `puts sched = P1 ++ (q,a,p,oa) :: P2 ++ (q,b,p,ob) :: P3`), both
with priority `p`, by whatever threads, and `b` has been dispatched, then `a` got the smaller arrival number and
has been dispatched before `b` (it is further back in the newest-first list `dispatched`) — whatever the
interleaving, including `putBack`s. -/
theorem C19_fifo_dispatch (src0 : List Nat) (sched : List (Nat × Ev)) (s : TState)
    (hr : run (initState src0) sched = some s) (hd : DistinctIds sched)
    (q a b : Nat) (p : Int) (oa ob : Nat) (P1 P2 P3 : List (Nat × Nat × Int × Nat))
    (hp : puts sched = P1 ++ (q, a, p, oa) :: (P2 ++ (q, b, p, ob) :: P3))
    (hb : (q, b) ∈ s.dispatched) :
    oa < ob ∧ ∃ l1 l2, s.dispatched = l1 ++ (q, b) :: l2 ∧ (q, a) ∈ l2 :=
  fifo_dispatch hr hd hp hb

/-- `DistinctIds` is needed in `C19_fifo_dispatch`: in `dupSchedule` thread 1 submits id 5 twice, both are put into
queue 0 with priority 0, one is dispatched — "the earlier put is further back in `dispatched`" cannot hold for
the pair (5, 5). -/
theorem C19_fifo_dispatch_needs_distinct :
    ¬ ∀ (sched : List (Nat × Ev)) (s : TState), run (initState []) sched = some s →
      ∀ (q a b : Nat) (p : Int) (oa ob : Nat) (P1 P2 P3 : List (Nat × Nat × Int × Nat)),
        puts sched = P1 ++ (q, a, p, oa) :: (P2 ++ (q, b, p, ob) :: P3) → (q, b) ∈ s.dispatched →
        oa < ob ∧ ∃ l1 l2, s.dispatched = l1 ++ (q, b) :: l2 ∧ (q, a) ∈ l2 := by
  intro h
  have hd : (run (initState []) dupSchedule).map (·.dispatched) = some [(0, 5)] := by decide +kernel
  cases hrun : run (initState []) dupSchedule with
  | none => rw [hrun] at hd; simp at hd
  | some s =>
    rw [hrun] at hd
    simp only [Option.map_some, Option.some.injEq] at hd
    obtain ⟨_, l1, l2, hl, hm⟩ := h dupSchedule s hrun 0 5 5 0 0 1 [] [] [] (by decide +kernel) (by simp [hd])
    rw [hd] at hl
    cases l1 with
    | nil => simp at hl; subst hl; simp at hm
    | cons x l1 => simp at hl

/-- **History form, per thread: a thread's submission order is its dispatch order.**  Let the submitted ids be
distinct.  If thread `t` called `enqueue_signal(a)` and later `enqueue_signal(b)`
(`sched = A ++ (t, submit a) :: B ++ (t, submit b) :: C`), both signals were put into the same queue `q` with
the same priority `p` (the `put` events are in the schedule), and `b` has been dispatched, then `a` has been
dispatched before `b` — whatever other submitters and the loop thread did in between.  (The second call begins
only after the first one's `put`: code-position discipline, proved on the history.) -/
theorem C19_thread_fifo (src0 : List Nat) (sched : List (Nat × Ev)) (s : TState)
    (hr : run (initState src0) sched = some s) (hd : DistinctIds sched)
    (t : Nat) (A B C : List (Nat × Ev)) (a b : TSig)
    (hsub : sched = A ++ (t, .submit a) :: (B ++ (t, .submit b) :: C))
    (ta tb q : Nat) (p : Int) (oa ob : Nat)
    (hpa : (ta, Ev.put q a.sid p oa) ∈ sched) (hpb : (tb, Ev.put q b.sid p ob) ∈ sched)
    (hdisp : (q, b.sid) ∈ s.dispatched) :
    oa < ob ∧ ∃ l1 l2, s.dispatched = l1 ++ (q, b.sid) :: l2 ∧ (q, a.sid) ∈ l2 :=
  thread_fifo hr hd hsub hpa hpb hdisp

/-! ### 7. non-vacuity: concrete schedules -/

/-- it is accepted, its ids are distinct, and it ends with all three signals dispatched (newest first), all three
submissions returned, level 0 active again -/
example :
    (run (initState [7]) demoSchedule).map (fun s => (s.dispatched, s.completed, s.levels, s.active)) =
      some ([(0, 11), (0, 10), (1, 99)], [99, 11, 10], [0], 0) ∧ DistinctIds demoSchedule := by
  decide +kernel

/-- a non-trivial reachable state on the found path (thread 2 about to put into level 0, having asked the
nested level 1 first) -/
example : (run (initState [7]) (demoSchedule.take 26)).map (fun s => (s.pc 2, s.levels, s.mainLock)) =
    some (.putDo ⟨11, some 7, 0⟩ 0 true, [0, 1], some 2) := by
  decide +kernel

/-- the hypotheses of `C19_thread_fifo` are satisfiable: in `fifoSchedule` thread 1 submits 10 then 11, both are
put into queue 0 with priority 0, both are dispatched — 10 first (it is further back in `dispatched`) -/
example :
    (run (initState []) fifoSchedule).map (·.dispatched) = some [(0, 11), (0, 10)] ∧ DistinctIds fifoSchedule ∧
      fifoSchedule = [] ++ (1, .submit ⟨10, none, 0⟩) ::
        ((fifoSchedule.drop 1).take 10 ++ (1, .submit ⟨11, none, 0⟩) :: fifoSchedule.drop 12) ∧
      (1, Ev.put 0 10 0 0) ∈ fifoSchedule ∧ (1, Ev.put 0 11 0 1) ∈ fifoSchedule := by
  decide +kernel

/-- rejected: appending a level without holding the main lock -/
example : run (initState [7]) [(0, .newLoop ⟨99, none, 0⟩), (0, .activeWrite 1), (0, .lvAppend 1)] = none := by
  decide +kernel

/-- rejected: the loop thread taking the main lock while a submitter holds it (index 22 of this prefix) -/
example : (replay (initState [7]) (demoSchedule.take 22 ++ [(0, .acqMain)]) 0).2 = some 22 := by
  decide +kernel

/-- The fallback path can land in a closed level (outside the property's claim): the signal is stored (not lost)
in queue 1, which is no longer a level. -/
example :
    (run (initState [7]) closedLevelSchedule).map (fun s => (s.levels, s.active, s.completed)) =
        some ([0], 0, [20, 99]) ∧
      (run (initState [7]) closedLevelSchedule).map (fun s => (s.q 1).entries.map (·.2.2)) = some [20, 99] := by
  decide +kernel

end Simpleline.Threads
