/-
  C20 — Both event loops drive an application identically (loop-level core).

  The rest of the library is the same code on both loops, driven by handler invocations; what differs is the
  dispatch discipline. `Model/GLoop.lean` has both, on one loop level, for state-passing handler programs
  `P : Prog σ` (dispatching a signal in program state `st` gives the new state and the signals the handlers enqueue):
  `mrun` is `MainLoop` (stable priority queue, one signal taken at a time), `grun` is `GLibEventLoop` on a GLib
  main context (an iteration collects all attached sources of the most urgent priority and dispatches that batch;
  sources attached meanwhile wait for a later iteration). `calmRun P n m` is the decidable hypothesis Calm: along
  the first `n` dispatches, whenever a signal is dispatched while others are pending, its handlers enqueue nothing
  more urgent than it.

  No hypothesis on signal ids is needed: equal signals (duplicates) are handled (`stableSort_erase_head`).
-/
import Simpleline.Lemmas.GLoopSim
import Simpleline.Lemmas.GLoopExamples

namespace Simpleline.GLoop

/-- On a calm run the GLib-based loop has, after any number `n` of dispatches, dispatched the same signals in the
same order (`done`) and driven the program through the same state (`st`) as the default loop — for every
program, every start state, every enqueue history before the loop starts (any number of pending signals, any
priorities) and every `n`. Since the handlers invoked, and everything they do (screens shown, input delivered),
are a function of the dispatch sequence and the state, an application cannot tell the loops apart. -/
theorem C20_flat_calm_equiv {σ : Type} (P : Prog σ) (st : σ) (initial : List GSig) (n : Nat)
    (hcalm : calmRun P n (minit st initial) = true) :
    (grun P n (ginit st initial)).done = (mrun P n (minit st initial)).done ∧
    (grun P n (ginit st initial)).st = (mrun P n (minit st initial)).st :=
  have h := sim_run P n (sim_init st initial) (calmRun_imp_sibCalmRun P n hcalm)
  ⟨h.done.symm, h.st.symm⟩

/-- Moreover the same signals are pending, in the order the default loop will take them: the `MainLoop` queue is
the stable priority sort of the sources attached to the GLib context; and the rest of GLib's current batch is
what `MainLoop` takes next. -/
theorem C20_flat_calm_pending {σ : Type} (P : Prog σ) (st : σ) (initial : List GSig) (n : Nat)
    (hcalm : calmRun P n (minit st initial) = true) :
    (mrun P n (minit st initial)).queue = stableSort (grun P n (ginit st initial)).attached ∧
    (grun P n (ginit st initial)).batch <+: (mrun P n (minit st initial)).queue :=
  have h := sim_run P n (sim_init st initial) (calmRun_imp_sibCalmRun P n hcalm)
  ⟨h.queue, h.batch_prefix⟩

/-- A sharper form: the conclusions hold under sibling-calm (`sibCalmRun`, implied by `calmRun`): it is enough that
handlers enqueue nothing more urgent than the signal being dispatched while another signal *of the same
priority* is pending. A more urgent enqueue while only less urgent signals are pending is harmless: the GLib batch
is exhausted, so the next iteration picks the newcomer up just as `MainLoop` does. -/
theorem C20_flat_sibling_calm_equiv {σ : Type} (P : Prog σ) (st : σ) (initial : List GSig) (n : Nat)
    (hcalm : sibCalmRun P n (minit st initial) = true) :
    (grun P n (ginit st initial)).done = (mrun P n (minit st initial)).done ∧
    (grun P n (ginit st initial)).st = (mrun P n (minit st initial)).st ∧
    (mrun P n (minit st initial)).queue = stableSort (grun P n (ginit st initial)).attached :=
  have h := sim_run P n (sim_init st initial) hcalm
  ⟨h.done.symm, h.st.symm, h.queue⟩

/-- illustration of the sharper form: not calm, sibling-calm, and the loops agree (1, 3, 2) -/
example :
    calmRun exSib 3 (minit [] exSibInit) = false ∧
    sibCalmRun exSib 3 (minit [] exSibInit) = true ∧
    ids (mrun exSib 3 (minit [] exSibInit)).done = [1, 3, 2] ∧
    ids (grun exSib 3 (ginit [] exSibInit)).done = [1, 3, 2] := by
  decide +kernel

/-- Calm is needed (finding G1): two signals of priority 0 are pending and the handler of the first enqueues a
signal of priority -10. `MainLoop` dispatches the urgent one next (1, 3, 2), GLib finishes its batch first
(1, 2, 3); the program states differ as well. -/
theorem C20_needs_calm :
    calmRun exUrgent 3 (minit [] exUrgentInit) = false ∧
    sibCalmRun exUrgent 3 (minit [] exUrgentInit) = false ∧
    ids (mrun exUrgent 3 (minit [] exUrgentInit)).done = [1, 3, 2] ∧
    ids (grun exUrgent 3 (ginit [] exUrgentInit)).done = [1, 2, 3] ∧
    (mrun exUrgent 3 (minit [] exUrgentInit)).st ≠ (grun exUrgent 3 (ginit [] exUrgentInit)).st := by
  decide +kernel

/-- While a GLib batch lasts, both loops dispatch exactly the batch: if after `n` dispatches the rest of GLib's
batch has at least `k` signals, the next `k` dispatches of both loops are the first `k` of them. So whatever the
handlers enqueue during a batch — in particular signals of the priority being dispatched — is dispatched after
the batch on both loops (no hypothesis beyond Calm). -/
theorem C20_same_priority_arrivals {σ : Type} (P : Prog σ) (st : σ) (initial : List GSig) (n k : Nat)
    (hcalm : calmRun P (n + k) (minit st initial) = true)
    (hk : k ≤ (grun P n (ginit st initial)).batch.length) :
    (mrun P (n + k) (minit st initial)).done
      = (mrun P n (minit st initial)).done ++ (grun P n (ginit st initial)).batch.take k ∧
    (grun P (n + k) (ginit st initial)).done
      = (grun P n (ginit st initial)).done ++ (grun P n (ginit st initial)).batch.take k := by
  rw [calmRun_add, Bool.and_eq_true] at hcalm
  have h := sim_run P n (sim_init st initial) (calmRun_imp_sibCalmRun P n hcalm.1)
  have ⟨h1, h2, _⟩ := sim_batch_first P k h hk (calmRun_imp_sibCalmRun P k hcalm.2)
  rw [mrun_add, grun_add]
  exact ⟨h1, h2⟩

/-- illustration: 1 and 2 (priority 0) and 3 (priority 5) are pending; the handlers of 1 and 2 enqueue 4 and 5 of
priority 0, the handler of 4 enqueues 6 of priority 0. After the first dispatch GLib's batch is `[2]`; both loops
dispatch 1, 2, then the arrivals 4, 5, 6 in arrival order, then 3. -/
example :
    calmRun exSame 6 (minit [] exSameInit) = true ∧
    ids (grun exSame 1 (ginit [] exSameInit)).batch = [2] ∧
    ids (mrun exSame 6 (minit [] exSameInit)).done = [1, 2, 4, 5, 6, 3] ∧
    ids (grun exSame 6 (ginit [] exSameInit)).done = [1, 2, 4, 5, 6, 3] := by
  decide +kernel

/-- non-vacuity: a calm run over four priorities where handlers enqueue less urgent, equally urgent and (with
nothing else pending) more urgent signals: Calm holds for all 9 dispatches (and the 3 idle steps after them),
and both loops dispatch 2, 6, 1, 3, 5, 8, 4, 7, 9 — which is not the enqueue order. -/
example :
    calmRun exCalm 12 (minit [] exCalmInit) = true ∧
    ids (mrun exCalm 12 (minit [] exCalmInit)).done = [2, 6, 1, 3, 5, 8, 4, 7, 9] ∧
    ids (grun exCalm 12 (ginit [] exCalmInit)).done = [2, 6, 1, 3, 5, 8, 4, 7, 9] ∧
    (grun exCalm 12 (ginit [] exCalmInit)).st = [2, 6, 1, 3, 5, 8, 4, 7, 9] ∧
    ids (grun exCalm 3 (ginit [] exCalmInit)).batch = [3, 5] := by
  decide +kernel

/-- equal signals are no obstacle (no distinct-ids hypothesis): the same signal value is pending twice and handlers
enqueue it again; the run is calm and the loops agree -/
example :
    calmRun exDup 10 (minit [] exDupInit) = true ∧
    ids (mrun exDup 10 (minit [] exDupInit)).done = ids (grun exDup 10 (ginit [] exDupInit)).done ∧
    ids (grun exDup 10 (ginit [] exDupInit)).done = [2, 2, 2, 1, 1, 3, 1, 1] := by
  decide +kernel

/-- On a calm run both loops run out of work at the same moment: after `n` dispatches the default loop has
nothing to dispatch exactly when the GLib loop has nothing to dispatch. -/
theorem C20_quiescent {σ : Type} (P : Prog σ) (st : σ) (initial : List GSig) (n : Nat)
    (hcalm : calmRun P n (minit st initial) = true) :
    mstep P (mrun P n (minit st initial)) = none ↔ gstep P (grun P n (ginit st initial)) = none :=
  sim_stuck_iff P (sim_run P n (sim_init st initial) (calmRun_imp_sibCalmRun P n hcalm))

end Simpleline.GLoop
