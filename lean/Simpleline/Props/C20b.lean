/-
  C20b — the GLib machine (`Model/GMachine.lean`: `GLibEventLoop` over a GLib main context + scheduler + input pipeline).

  Property theorems only; vocabulary in `Spec/GMSpec.lean` (`G.Started`, `G.Reach`, `G.Trans`, `G.Steps`, `G.newTr`,
  `G.AfterStart`), helper lemmas in `Lemmas/GM*.lean` (`step_facts`: for every instruction of the
  machine, where handler calls / batch collections / dispatch starts in the history and the handler-call and batch
  instructions in the pending code come from).

  Every theorem is for every program `P`, every started configuration, every reachable configuration (every timing of the
  reader thread), with no bound on steps, nesting depth or the number of attached sources.
-/
import Simpleline.Lemmas.GMInv

namespace Simpleline.G

/-! ### 1. force-quit (C09's clause, on GLib) -/

/-- Once force-quit is set after `run()` was entered it stays set. -/
theorem C20b_force_quit_stays (P : Prog) (c c' : Cfg) (hA : AfterStart c) (hf : c.L.forceQuit = true)
    (hs : Steps P c c') : AfterStart c' ∧ c'.L.forceQuit = true :=
  afterStart_fq_steps hA hf hs

/-- **No handler after force-quit** (C09's clause, in the same form as `C09_force_quit_no_call_step` for `MainLoop`): out of a
reachable configuration with force-quit set no transition adds a handler call to the history — whatever is attached,
whatever batch is running, at any nesting depth, including the remaining handlers of the signal being dispatched and of
every signal being dispatched at an outer nesting level (`_run_handlers` tests `_force_quit` before each handler call). -/
theorem C20b_force_quit_silences_step (P : Prog) (c0 c c' : Cfg) (h0 : Started c0) (hr : Reach P c0 c)
    (hf : c.L.forceQuit = true) (ht : Trans P c c') (h : HRef) (d : Option Nat) (s : Sig) :
    Tr.m (.call h d s) ∉ newTr c c' := by
  intro hm
  have hl : c.code.head? = some (.callH h d s) := trans_loud ht _ hm rfl
  have := (callInv_reach h0 hr h d s (head_mem hl)).2.2
  rw [hf] at this; cases this

/-- **After `force_quit` no handler is ever called again.**  Take a reachable configuration, reached after `run()` was
entered, in which force-quit is set.  Then no transition of the rest of the execution adds a handler call to the history
(same statement as `C09_force_quit_no_call`). -/
theorem C20b_force_quit_silences (P : Prog) (c0 c c1 c2 : Cfg) (h0 : Started c0) (hr : Reach P c0 c)
    (hA : AfterStart c) (hf : c.L.forceQuit = true) (hs : Steps P c c1) (ht : Trans P c1 c2)
    (h : HRef) (d : Option Nat) (s : Sig) : Tr.m (.call h d s) ∉ newTr c1 c2 :=
  C20b_force_quit_silences_step P c0 c1 c2 h0 (reach_steps hr hs) (afterStart_fq_steps hA hf hs).2 ht h d s

/-- The handler loop of `_run_handlers` leaves (`break`) at its next handler once force-quit is set; the rest of
`_run_handlers` — destroying the source, marking the signal processed — is still pending behind it. -/
theorem C20b_force_quit_breaks_handler_loop (P : Prog) (c : Cfg) (s : Sig) (hs : HList) (i : Nat) (rest : List Instr)
    (hc : c.code = .gCall s hs i :: rest) (hf : c.L.forceQuit = true) :
    step P c = .ok { c with code := rest, tr := .m (.dispatched s i) :: c.tr } := by
  cases hs with
  | live =>
    simp only [step, hc, hf]
    split <;> rfl
  | kill => simp [step, hc, hf, Cfg.trace]
  | empty => simp [step, hc, Cfg.trace]

/-- In particular a dispatch that starts under force-quit runs no handler: `_run_handlers` goes straight to destroying
the source and marking the signal processed. -/
theorem C20b_force_quit_skips_handlers (P : Prog) (c : Cfg) (q : Nat) (g : GSource) (rest : List Instr)
    (hc : c.code = .runH q g :: rest) (hf : c.L.forceQuit = true) :
    step P c = .ok { c with code := .endRun q g :: rest } := by
  simp [step, hc, hf, push]

/-- Under force-quit `enqueue_signal` attaches nothing: the signal is dropped (only a `dropped` event is added to the
model's history). -/
theorem C20b_force_quit_discards (c : Cfg) (s : Sig) (hf : c.L.forceQuit = true) :
    c.enq? s = some { c with tr := .m (.dropped s) :: c.tr } :=
  enq?_fq c s hf

/-- … and waiting calls give up, nested loops are not started: `process_signals(c)` returns, `execute_new_loop` is a no-op. -/
theorem C20b_force_quit_loops_give_up (P : Prog) (c : Cfg) (rest : List Instr) (hf : c.L.forceQuit = true) :
    (∀ s, c.code = .newLoop s :: rest → step P c = .ok { c with code := rest }) ∧
    (∀ cls t q, c.code = .gWait cls t q :: rest → c.L.tickets.any (fun k => k.line = cls ∧ k.id = t ∧ k.marked) = false →
      step P c = .ok { c with code := rest, tr := .m (.waitEnd cls t false) :: c.tr }) := by
  refine ⟨fun s hc => by simp [step, hc, hf], fun cls t q hc hm => ?_⟩
  simp only [step, hc, hm, hf]
  rfl

def exFQ : Prog :=
  { cc := asciiClass, runEmpty := true,
    handlerScript := fun hid n => if hid = 0 ∧ n = 0 then [.forceQuit, .enq (.user 0) 0 .none 8] else [] }

def exFQsig : Sig := { id := 7, cls := .user 0, prio := 0, src := .none }

/-- **The remaining handlers of the signal being dispatched do not run after `force_quit`** (kernel-checked run of the
machine; the same program behaves the same way on the repaired `GLibEventLoop` — the family `fqh` of the validation): two
handlers for one class, the first calls `force_quit()` (and enqueues another signal, which is dropped); the second handler
is *not* invoked: after the force-quit the history contains no call at all; the source is still destroyed and the run
returns.  (Before the repair of `_run_handlers` — the force-quit test was made once, in front of the loop — handler 1 was
called: this example was the counterexample `C20b_force_quit_remaining_handlers_run`.)  Non-vacuity of
`C20b_force_quit_silences`. -/
theorem C20b_force_quit_remaining_handlers_skipped :
    let r := runFuel exFQ 100 (initCfg [.enq (.user 0) 0 .none 7] [(.user 0, .user 0, none), (.user 0, .user 1, none)] none [])
    r.2 = .returned ∧ r.1.L.forceQuit = true ∧
    -- events newer than the force-quit: no handler call among them; the dispatch of signal 7 ended after one handler
    ((r.1.tr.takeWhile fun t => t != .m .forceQuit).all fun t => match t with | .m (.call ..) => false | _ => true) = true ∧
    Tr.m (.dispatched exFQsig 1) ∈ r.1.tr ∧ Tr.destroy 0 0 ∈ r.1.tr ∧
    Tr.m (.call (.user 0) none exFQsig) ∈ r.1.tr ∧
    Tr.m (.dropped { id := 8, cls := .user 0, prio := 0, src := .none }) ∈ r.1.tr ∧
    r.1.log.reverse = [.h 0 7 none 1, .hret 0] := by
  decide +kernel

/-! ### 2. only registered handlers, with their registration data; which list is used (C02's clause) -/

/-- **Every handler invocation is of a handler registered for the signal's exact class, with its registration data**:
whenever a transition out of a reachable configuration adds `call h d s` to the history, `(class of s, h, d)` is a
registration of the loop (`_handlers[type(signal)]` contains the handler with data `d`). -/
theorem C20b_call_registered (P : Prog) (c0 c c' : Cfg) (h0 : Started c0) (hr : Reach P c0 c) (ht : Trans P c c')
    (h : HRef) (d : Option Nat) (s : Sig) (hm : Tr.m (.call h d s) ∈ newTr c c') :
    (s.cls, h, d) ∈ c.L.handlers :=
  regInv_reach h0 hr h d s (head_mem (trans_loud ht _ hm rfl))

/-- **Which list**: a handler-call instruction `callH h d s` enters the pending code only from the handler loop of a
source that carries the *live* list (`gCall s .live k` at the head), and `(h, d)` is the `k`-th entry, at that moment, of
the list registered for the exact class of `s` — so handlers appended to a class's list while one of its signals is
being dispatched are reached (the list is walked by index), in registration order. -/
theorem C20b_call_from_live_list (P : Prog) (c c' : Cfg) (ht : Trans P c c') (h : HRef) (d : Option Nat) (s : Sig)
    (hm : Instr.callH h d s ∈ c'.code) (hn : Instr.callH h d s ∉ c.code) :
    ∃ k, c.code.head? = some (.gCall s .live k) ∧ (handlersOf c.L s.cls)[k]? = some (h, d) := by
  rcases trans_cases ht with sf | ⟨hc, _⟩
  · rcases sf.code _ hm rfl with h1 | h1
    · exact absurd (List.mem_of_mem_tail h1) hn
    · obtain ⟨⟨k, hk, hl, _⟩, _⟩ := h1
      exact ⟨k, hk, hl⟩
  · rw [hc] at hm; exact absurd hm hn

/-- **The snapshot at enqueue**: which list a source carries is decided when the signal is enqueued (`hlistFor`): the
class's live list if the class has a handler at that moment; else, for an `ExceptionSignal`, the one-element list
`[kill_app_with_traceback]`; else a fresh empty list. -/
theorem C20b_snapshot_at_enqueue (c c' : Cfg) (s : Sig) (hf : c.L.forceQuit = false) (h : c.enq? s = some c') :
    ∃ q, c.L.route s.src = some q ∧
      c'.tr = .attach q (GSource.mk c.L.nextSrc s (c.L.hlistFor s) false) :: .m (.enq q s) :: c.tr ∧
      c.L.hlistFor s = (if handlersOf c.L s.cls ≠ [] then .live else if s.cls = .exception then .kill else .empty) := by
  unfold Cfg.enq? at h
  simp only [hf, Bool.false_eq_true, ↓reduceIte] at h
  split at h
  · cases h
  · rename_i q hq
    cases h
    exact ⟨q, hq, rfl, rfl⟩

/-- … and a source with the empty snapshot never calls anything, whatever was registered in the meantime; the one with
the `kill` snapshot calls `kill_app_with_traceback` once (unless force-quit is set). -/
theorem C20b_snapshot_fixed (P : Prog) (c : Cfg) (s : Sig) (i : Nat) (rest : List Instr) :
    (c.code = .gCall s .empty i :: rest → step P c = .ok { c with code := rest, tr := .m (.dispatched s i) :: c.tr }) ∧
    (c.code = .gCall s .kill 0 :: rest → c.L.forceQuit = false →
      step P c = .ok { c with code := .kill s :: .gCall s .kill 1 :: rest }) := by
  refine ⟨fun hc => by simp [step, hc, Cfg.trace], fun hc hf => by simp [step, hc, hf, push]⟩

/-- non-vacuity: a signal of a class nobody handles is attached with the empty snapshot and dispatched without any call;
an `ExceptionSignal` nobody handles kills the application (exit status 1) -/
example :
    let r := runFuel exFQ 100 (initCfg [.enq (.user 5) 0 .none 7, .enq .exception (-20) .none 9] [] none [])
    r.2 = .killed 1 ∧
    Tr.attach 0 { id := 0, sig := { id := 7, cls := .user 5, prio := 0, src := .none }, hs := .empty } ∈ r.1.tr ∧
    Tr.attach 0 { id := 1, sig := { id := 9, cls := .exception, prio := -20, src := .none }, hs := .kill } ∈ r.1.tr ∧
    (r.1.tr.all fun t => match t with | .m (.call ..) => false | _ => true) = true := by
  decide +kernel

/-! ### 3. one iteration dispatches one priority: the most urgent one attached, in attach order (C01's clause in GLib's form) -/

/-- **Every dispatch belongs to a batch of one priority, the most urgent one attached.**  Whenever a transition out of a
reachable configuration starts dispatching a source `g` in iteration `e` of context `q` (`disp q e g`), the history
contains the collection `iter q e p att batch` of that iteration, where `att` are the sources attached to the context at
collection time (attach order), and:
* `g` is a member of `batch` and its priority is `p` — all sources dispatched by one iteration have the same priority;
* `batch` is exactly the sub-sequence (attach order kept) of the attached sources not in dispatch whose priority is `p`;
* `p` is the most urgent (numerically least) priority among the attached sources not in dispatch, and it is attained. -/
theorem C20b_batch_one_priority (P : Prog) (c0 c c' : Cfg) (h0 : Started c0) (hr : Reach P c0 c) (ht : Trans P c c')
    (q e : Nat) (g : GSource) (hm : Tr.disp q e g ∈ newTr c c') :
    ∃ p att batch, Tr.iter q e p att batch ∈ c.tr ∧ g ∈ batch ∧ g.sig.prio = p ∧
      batch = (att.filter fun x => !x.inCall).filter (fun x => x.sig.prio = p) ∧ batch.Sublist att ∧
      (∀ x ∈ att, x.inCall = false → p ≤ x.sig.prio) ∧ (∃ x ∈ att, x.inCall = false ∧ x.sig.prio = p) := by
  have hl : c.code.head? = some (.gDisp q e g) := trans_loud ht _ hm rfl
  have inv := batchInv_reach h0 hr
  obtain ⟨p, att, batch, hi, hg⟩ := inv.1 q e g (head_mem hl)
  obtain ⟨hmin, hb⟩ := inv.2 q e p att batch hi
  refine ⟨p, att, batch, hi, hg, ?_, hb, ?_, ?_, ?_⟩
  · rw [hb] at hg
    simpa using (List.mem_filter.1 hg).2
  · rw [hb]; exact (List.filter_sublist).trans List.filter_sublist
  · intro x hx hxc
    exact minPrio_le _ p hmin x (List.mem_filter.2 ⟨hx, by simp [hxc]⟩)
  · obtain ⟨x, hx, hp⟩ := minPrio_attained _ p hmin
    obtain ⟨hx1, hx2⟩ := List.mem_filter.1 hx
    exact ⟨x, hx1, by simpa using hx2, hp⟩

/-
  NOT PROVED (kept as a comment, per the house rules): the *order of the dispatch events* of one iteration.
  `C20b_batch_one_priority` gives `batch.Sublist att` (the batch is in attach order) and the machine pushes the turns of the
  batch loop in batch order (`step`, case `gIter`: `batch.map fun g => .gDisp q e g` in front of the code, executed front to
  back), but the history-level statement

      theorem C20b_batch_in_attach_order … (h1 : Tr.disp q e g1 ∈ c.tr is older than Tr.disp q e g2 ∈ c.tr) :
          g1 occurs before g2 in `batch`

  needs two more invariants, which were not done in the time available: (a) for every collection `iter q e p att batch` in
  the history, the sources of the `disp q e _` events so far (oldest first) followed by the pending `gDisp q e _`
  instructions in code order form a sub-sequence of `batch` (a sub-sequence, not all of it: skipped turns and turns dropped
  by an exception that unwinds through the batch loop are missing); (b) iteration identities are fresh — every `iter q e …`,
  `disp q e _` and pending `gDisp q e _` has `e ≤ epoch(q)`, and no helper ever lowers an epoch — so that a later collection
  cannot reuse `(q, e)`; (b) needs an epoch clause in the frame relation `Keep` of `Lemmas/GMFrame.lean` and a lemma about
  `List.modify`/`getD` for `setCtx`.  The concrete order is exhibited on the example below.

  NOT DONE: `C20b_same_scheduler` (priority 4) and the simulation theorem (priority 5).  The scheduler / input / callback
  instructions of `Model/GMachine.lean` are textual copies of `Model/Machine.lean`'s with three systematic differences, which
  are what a formal statement has to quantify over: (i) `enqueue_signal` / `register_signal_source` are partial on GLib
  (`IndexError` when no loop is left: `Cfg.enqueue`, `Cfg.redraw`, `Cfg.regSource` return in `Except` and the instruction
  is written with `do`), (ii) a raise unwinds to different catchers (`catchRun` instead of `catchHandler` / `catchExit`),
  (iii) `waitInput`'s livelock test reads the force-quit flag and the loop list instead of `_run_loop`.  The intended statement:
  for every instruction `i` outside the loop group, configurations `g : G.Cfg`, `m : Simpleline.Cfg` with the same head
  instruction (under the obvious embedding), equal `A`, `log`, `nextSid`, return registers, `handlers`, and equal user-call
  counts, if both steps return `.ok` without unwinding then the results again agree on those components and push
  corresponding instructions.
-/

def exBatch : Prog :=
  { cc := asciiClass, runEmpty := true,
    handlerScript := fun hid n => if hid = 0 ∧ n = 0 then [.enq (.user 0) (-5) .none 20] else [] }

/-- non-vacuity: three signals attached (priorities 0, 1, 0); the first iteration collects the two of priority 0 in
attach order; the first handler enqueues a more urgent signal (priority −5), which nevertheless waits for the next
iteration: the dispatch order is 10, 12, 20, 11 (`MainLoop` dispatches 10, 20, 12, 11 — finding G1) -/
example :
    let r := runFuel exBatch 200 (initCfg [.enq (.user 0) 0 .none 10, .enq (.user 0) 1 .none 11, .enq (.user 0) 0 .none 12]
      [(.user 0, .user 0, none)] none [])
    r.2 = .blocked ∧
    (r.1.tr.reverse.filterMap fun t => match t with | .disp _ e g => some (e, g.sig.id) | _ => none) = [(1, 10), (1, 12), (2, 20), (3, 11)] ∧
    (r.1.tr.reverse.filterMap fun t => match t with | .iter _ e p att batch => some (e, p, att.map (·.sig.id), batch.map (·.sig.id)) | _ => none) =
      [(1, 0, [10, 11, 12], [10, 12]), (2, -5, [11, 20], [20]), (3, 1, [11], [11])] := by
  decide +kernel

end Simpleline.G
