/-
  C20c — the clauses of the other properties anchored in `glib_event_loop.py` (C02, C09, C10, C03), stated on the GLib
  machine (`Model/GMachine.lean`) and each either PROVED or REFUTED by a kernel-checked run of a small concrete program —
  so that the known divergences between the two loops (G2 handler exception, G3 exit / close with a running batch, G4
  waiting calls) are precise statements about the machine.

  Property theorems only; lemmas in `Lemmas/GMcUnwind.lean` (+ `Lemmas/GM*.lean`), vocabulary in `Spec/GMSpec.lean`.

  Replaying a counterexample on the real code: the JSON case next to it is in the driver's case format; run it with
      from harness.props.session import with_cc; from harness.impl.app import run_real
      run_real(with_cc(case), "glib")      # GLibEventLoop over the stand-in        run_real(with_cc(case))   # MainLoop
  Common fields of every case below:
      "op": "gmachine", "mode": "loop", "width": 80, "screens": [], "stdin": [], "quit_screen": null, "run_empty": true, "deliver_at": []
-/
import Simpleline.Lemmas.GMcUnwind

namespace Simpleline.G

def mkProg (f : Nat → Nat → List Act) : Prog := { cc := asciiClass, runEmpty := true, handlerScript := f }

theorem prefix_getElem? {α} {l1 l2 : List α} (h : l1 <+: l2) {k : Nat} {x : α} (hk : l1[k]? = some x) : l2[k]? = some x := by
  obtain ⟨t, rfl⟩ := h
  have hlt : k < l1.length := by
    rcases Nat.lt_or_ge k l1.length with h | h
    · exact h
    · rw [List.getElem?_eq_none h] at hk; cases hk
  rw [List.getElem?_append_left hlt]; exact hk

theorem handlersOf_prefix {L L' : GSt} (h : L.handlers <+: L'.handlers) (cls : Cls) : handlersOf L cls <+: handlersOf L' cls := by
  unfold handlersOf
  exact (h.filter _).map _

/-! ### 1. C02 on GLib -/

/-- **(a) Within one dispatch the handlers are called in list order, without gaps, up to the point where the chain ends.**
For every transition of every execution:
* registrations are only appended: the `k`-th handler registered for a class stays the `k`-th;
* a handler-call instruction enters the pending code only from the handler loop of its own signal at some position `k`
  (`gCall s .live k` at the head), it is the `k`-th entry of the list registered for the exact class of `s` at that
  moment, and what is pending next is that call followed by the same loop at position `k + 1`;
* a handler-loop position enters the pending code only as position `0` (from `_run_handlers` of that source, `runH`) or
  as the successor `k₀ + 1` of the position `k₀` at the head.
So the positions a chain visits are `0, 1, 2, …` and at position `k` the `k`-th registered handler is called; the chain ends
(`dispatched s k`) at the end of the list, at a force-quit (`C20b_force_quit_breaks_handler_loop`), or by an exception
(clause (b)). -/
theorem C20c_handlers_in_registration_order (P : Prog) (c c' : Cfg) (ht : Trans P c c') :
    (∀ (cls : Cls) (k : Nat) (x : HRef × Option Nat), (handlersOf c.L cls)[k]? = some x → (handlersOf c'.L cls)[k]? = some x) ∧
    (∀ h d s, Instr.callH h d s ∈ c'.code → Instr.callH h d s ∉ c.code →
      ∃ k, c.code.head? = some (.gCall s .live k) ∧ (handlersOf c.L s.cls)[k]? = some (h, d) ∧
        c'.code = .callH h d s :: .gCall s .live (k + 1) :: c.code.tail) ∧
    (∀ s hs k, Instr.gCall s hs k ∈ c'.code → Instr.gCall s hs k ∉ c.code →
      (∃ k0, c.code.head? = some (.gCall s hs k0) ∧ k = k0 + 1) ∨
      (∃ q g, c.code.head? = some (.runH q g) ∧ g.sig = s ∧ g.hs = hs ∧ k = 0)) := by
  rcases trans_cases ht with sf | ⟨hc, hk⟩
  · refine ⟨fun cls k x hx => prefix_getElem? (handlersOf_prefix sf.handlers cls) hx, fun h d s hm hn => ?_, fun s hs k hm hn => ?_⟩
    · rcases sf.code _ hm rfl with h1 | h1
      · exact absurd (List.mem_of_mem_tail h1) hn
      · exact h1.1
    · rcases sf.code _ hm rfl with h1 | h1
      · exact absurd (List.mem_of_mem_tail h1) hn
      · rcases h1 with h1 | ⟨q, g, h2, h3, h4, _, h5⟩
        · exact Or.inl h1
        · exact Or.inr ⟨q, g, h2, h3, h4, h5⟩
  · refine ⟨fun cls k x hx => prefix_getElem? (handlersOf_prefix hk.handlers cls) hx, fun h d s hm hn => ?_, fun s hs k hm hn => ?_⟩
    · rw [hc] at hm; exact absurd hm hn
    · rw [hc] at hm; exact absurd hm hn

/-- … and the end of the list ends the chain: the dispatch is complete after `k` handlers. -/
theorem C20c_chain_ends_at_end_of_list (P : Prog) (c : Cfg) (s : Sig) (k : Nat) (rest : List Instr)
    (hc : c.code = .gCall s .live k :: rest) (hn : (handlersOf c.L s.cls)[k]? = none) :
    step P c = .ok { c with code := rest, tr := .m (.dispatched s k) :: c.tr } := by
  simp [step, hc, hn, Cfg.trace]

def exOrderHandlers : List (Cls × HRef × Option Nat) :=
  [(.user 0, .user 1, some 1), (.user 1, .user 9, none), (.user 0, .user 2, none), (.user 0, .user 1, some 2)]

/-- non-vacuity: one signal of class U0; its three handlers (one callback registered twice with different data, a
handler of another class registered in between) are called in registration order -/
example :
    let r := runFuel (mkProg fun _ _ => []) 100 (initCfg [.enq (.user 0) 0 .none 7] exOrderHandlers none [])
    r.2 = .blocked ∧ r.1.log.reverse = [.h 1 7 (some 1) 1, .hret 1, .h 2 7 none 1, .hret 2, .h 1 7 (some 2) 1, .hret 1] ∧
    Tr.m (.dispatched { id := 7, cls := .user 0, prio := 0, src := .none } 3) ∈ r.1.tr := by
  decide +kernel

/-! #### (b) failure containment -/

def exFail : Prog := mkProg fun hid n => if hid = 0 ∧ n = 0 then [.raiseErr] else []
def exFailHandlers : List (Cls × HRef × Option Nat) := [(.user 0, .user 0, none), (.user 0, .user 1, none), (.exception, .exc, none)]
def exFailInit : List Act := [.enq (.user 0) 0 .none 7, .enq (.user 0) 0 .none 8]
def sig7 : Sig := { id := 7, cls := .user 0, prio := 0, src := .none }
def sig8 : Sig := { id := 8, cls := .user 0, prio := 0, src := .none }

/-- **REFUTED on GLib (G2): "a failing handler does not keep the other handlers of the signal from being called"**
(C02's containment clause, `C02_failure_contained` on `MainLoop`).  Two handlers for class U0, the first raises an ordinary
exception at its first invocation; the application handles `ExceptionSignal` itself.  On the GLib machine the second
handler is never called for signal 7 (one `try` around the whole list); on the `MainLoop` machine it is.

    "handlers": [{"cls": "U0", "hid": 0, "data": null, "scripts": [[["raise_err"]]]}, {"cls": "U0", "hid": 1, "data": null, "scripts": []}],
    "init": [["enq", "U0", 0, null, 7], ["enq", "U0", 0, null, 8]], "exc_handler": true, "quit_cb": null
    GLib log:     H 0 7 | H 0 8, h< 0, H 1 8, h< 1 | EXC-handled          MainLoop log: H 0 7, H 1 7, h< 1 | EXC-handled | H 0 8, h< 0, H 1 8, h< 1 -/
theorem C20c_failure_skips_remaining_handlers :
    let g := runFuel exFail 200 (initCfg exFailInit exFailHandlers none [])
    let m := Simpleline.runFuel exFail 200 (Simpleline.initCfg exFailInit exFailHandlers none [])
    -- GLib: handler 1 is never called for signal 7
    Tr.m (.call (.user 1) none sig7) ∉ g.1.tr ∧ Tr.m (.call (.user 0) none sig7) ∈ g.1.tr ∧
    g.1.log.reverse = [.h 0 7 none 1, .h 0 8 none 1, .hret 0, .h 1 8 none 1, .hret 1, .note "EXC-handled"] ∧
    -- MainLoop: it is
    Simpleline.Tr.call (.user 1) none sig7 ∈ m.1.tr ∧
    m.1.log.reverse = [.h 0 7 none 1, .h 1 7 none 1, .hret 1, .note "EXC-handled", .h 0 8 none 1, .hret 0, .h 1 8 none 1, .hret 1] := by
  decide +kernel

/-- **What is true instead: the failure is contained per signal.**  `_run_handlers` puts the handler loop, the `try` and
the epilogue of the same source behind one another (1); an ordinary exception raised anywhere in the handler loop — with
nothing in between that catches it — drops the rest of the loop, lands right behind the `try`, and enqueues exactly one
`ExceptionSignal` (priority −20, source = the loop object, attached to the context the source `loop` is routed to: the top
loop unless the application registered the loop object as a source) (2); the epilogue then destroys the source and marks
the signal's ticket line all the same (3); and the failure does not touch the loop state: force-quit flag, loop list and
the pending code behind the `try` are as before — later signals are dispatched (see the run above: signal 8 reaches both
handlers). -/
theorem C20c_failure_contained_per_signal (P : Prog) (c : Cfg) (q : Nat) (g : GSource) (rest : List Instr) :
    -- (1)
    (c.code = .runH q g :: rest → c.L.forceQuit = false →
      step P c = .ok { c with code := .gCall g.sig g.hs 0 :: .catchRun :: .endRun q g :: rest }) ∧
    -- (2)
    (∀ pre qx, c.code = pre ++ .catchRun :: .endRun q g :: rest → (∀ i ∈ pre, i.passes .err = true) →
      c.L.forceQuit = false → c.L.route .loop = some qx →
      ∃ c' gx, c.raise .err = .ok c' ∧ c'.code = .endRun q g :: rest ∧
        c'.tr = .attach qx gx :: .m (.enq qx gx.sig) :: c.tr ∧
        gx.sig.cls = .exception ∧ gx.sig.prio = -20 ∧ gx.sig.src = .loop ∧
        c'.L.forceQuit = false ∧ c'.L.loops = c.L.loops ∧ c'.L.tickets = c.L.tickets ∧ c'.A = c.A ∧ c'.log = c.log) ∧
    -- (3)
    (c.code = .endRun q g :: rest →
      step P c = .ok { ((({ c with code := rest } : Cfg).destroy q g.id).gtrace (.destroy q g.id)) with
        L := { ((({ c with code := rest } : Cfg).destroy q g.id).gtrace (.destroy q g.id)).L with tickets := mark c.L.tickets g.sig.cls } }) := by
  refine ⟨fun hc hf => by simp [step, hc, hf, push], fun pre qx hc hp hf hr => ?_, fun hc => by simp [step, hc]; rfl⟩
  have he : (c.newSig .exception (-20) .loop).2.enq? (c.newSig .exception (-20) .loop).1 =
      some { (c.newSig .exception (-20) .loop).2 with
        L := { ((c.newSig .exception (-20) .loop).2.L.setCtx qx fun x => { x with sources := x.sources ++ [GSource.mk c.L.nextSrc (c.newSig .exception (-20) .loop).1 (c.L.hlistFor (c.newSig .exception (-20) .loop).1) false] }) with nextSrc := c.L.nextSrc + 1 },
        tr := .attach qx (GSource.mk c.L.nextSrc (c.newSig .exception (-20) .loop).1 (c.L.hlistFor (c.newSig .exception (-20) .loop).1) false) :: .m (.enq qx (c.newSig .exception (-20) .loop).1) :: c.tr } := by
    have hr' : (c.newSig .exception (-20) .loop).2.L.route Src.loop = some qx := hr
    have hf' : (c.newSig .exception (-20) .loop).2.L.forceQuit = false := hf
    simp only [Cfg.enq?, hf', Bool.false_eq_true, ↓reduceIte]
    have : (c.newSig .exception (-20) .loop).1.src = Src.loop := rfl
    rw [this, hr']
    rfl
  refine ⟨_, _, raise_err_catchRun c _ pre _ hc hp he, rfl, rfl, rfl, rfl, rfl, hf, rfl, rfl, rfl, rfl⟩

/-! ### 2. C09 on GLib -/

/-- **An `ExitMainLoop` raised by a handler quits every loop and skips the remaining handlers of that signal — and unwinds
nothing else.**  Raised anywhere in the handler loop of `_run_handlers` (nothing in between that is a `try` of another
`_run_handlers`), the exit request lands right behind the `try`: the rest of the handler and the remaining handlers of
the signal (`pre`) are dropped, every loop of `_event_loops` is set to not running, the loop list itself is unchanged,
and what was pending behind the `try` — the epilogue of the source, the rest of the batch, the `run()` of every loop, the
rest of the handlers of outer dispatches — is still pending.  (On `MainLoop` the exit unwinds everything up to `run()`:
`C09_exit_unwinds`.) -/
theorem C20c_exit_quits_all_loops (c : Cfg) (pre rest : List Instr) (hc : c.code = pre ++ .catchRun :: rest)
    (hp : ∀ i ∈ pre, i.passes .exit = true) :
    ∃ c', c.raise .exit = .ok c' ∧ c'.code = rest ∧ (∀ q ∈ c.L.loops, (c'.ctx q).running = false) ∧
      c'.L.loops = c.L.loops ∧ c'.L.forceQuit = c.L.forceQuit ∧ c'.tr = .quitAll :: .m .exit :: c.tr :=
  ⟨_, raise_exit_catchRun c pre rest hc hp, rfl, fun q hq => quitAll_not_running (c.trace .exit) q hq, rfl, rfl, rfl⟩

def exExit : Prog := mkProg fun hid n => if hid = 0 ∧ n = 0 then [.raiseExit] else []
def exExitHandlers : List (Cls × HRef × Option Nat) := [(.user 0, .user 0, none), (.user 0, .user 1, none)]

/-- **REFUTED on GLib (G3): "no handler runs after an exit request"** (`C09_exit_no_call` on `MainLoop`).  Two signals
of one priority are attached, so the first iteration's batch holds both; the first handler raises `ExitMainLoop` while
dispatching signal 7.  On the GLib machine the remaining handler of signal 7 is skipped, but the rest of the batch is
still dispatched: both handlers run for signal 8 after the exit request; only then `run()` returns and the quit callback
runs (once).  On the `MainLoop` machine nothing runs after the exit.

    "handlers": [{"cls": "U0", "hid": 0, "data": null, "scripts": [[["raise_exit"]]]}, {"cls": "U0", "hid": 1, "data": null, "scripts": []}],
    "init": [["enq", "U0", 0, null, 7], ["enq", "U0", 0, null, 8]], "exc_handler": false, "quit_cb": 9
    GLib log:     H 0 7 | H 0 8, h< 0, H 1 8, h< 1 | quitcb 9           MainLoop log: H 0 7 | quitcb 9 -/
theorem C20c_exit_batch_continues :
    let g := runFuel exExit 200 (initCfg exFailInit exExitHandlers (some 9) [])
    let m := Simpleline.runFuel exExit 200 (Simpleline.initCfg exFailInit exExitHandlers (some 9) [])
    g.2 = .returned ∧ m.2 = .returned ∧
    -- GLib: calls newer than the exit request: both handlers for signal 8; handler 1 never for signal 7
    ((g.1.tr.takeWhile fun t => t != .m .exit).filterMap fun t => match t with | .m (.call h _ s) => some (h, s.id) | _ => none)
      = [(.user 1, 8), (.user 0, 8)] ∧
    Tr.m (.call (.user 1) none sig7) ∉ g.1.tr ∧
    g.1.log.reverse = [.h 0 7 none 1, .h 0 8 none 1, .hret 0, .h 1 8 none 1, .hret 1, .quitcb 9] ∧
    -- … and the loop has stopped: not running, nothing attached, one quit callback
    g.1.L.ctxs.map (fun x => (x.running, x.sources.length)) = [(false, 0)] ∧
    -- MainLoop: no call after the exit request
    ((m.1.tr.takeWhile fun t => t != .exit).all fun t => match t with | .call .. => false | _ => true) = true ∧
    m.1.log.reverse = [.h 0 7 none 1, .quitcb 9] := by
  decide +kernel

/-- **What is true instead.**  A loop whose `running` flag is down leaves its `run()` at the next test, i.e. after the
iteration that contains the exit request (`gRun` is pending behind that iteration's batch): with
`C20c_exit_quits_all_loops`, after an exit request the `run()` of every loop of `_event_loops` returns as soon as control
comes back to it, without starting another iteration … -/
theorem C20c_exit_loops_return (P : Prog) (c : Cfg) (q : Nat) (rest : List Instr) (hc : c.code = .gRun q :: rest)
    (hr : (c.ctx q).running = false) :
    step P c = .ok { c with code := rest, tr := .m (.loopReturn q) :: c.tr } := by
  have hr' : ((({ c with code := rest } : Cfg).ctx q).running) = false := hr
  simp [step, hc, hr', Cfg.trace]

/-- … and the outermost `run()` is followed by the quit callback, which then is the last thing that happens: with only it
pending the machine logs `quitcb d` (if one is registered) and halts with outcome `returned`. -/
theorem C20c_quit_then_returns (P : Prog) (c : Cfg) (hc : c.code = [.quitCb]) :
    ∃ c', step P c = .ok c' ∧ c'.code = [] ∧ step P c' = .error (.returned, c') := by
  cases hq : c.L.quitCb with
  | none => exact ⟨{ c with code := [] }, by simp [step, hc, hq], rfl, by simp [step]⟩
  | some d =>
    refine ⟨({ c with code := [] } : Cfg).emit P (.quitcb d), by simp [step, hc, hq], by simp, ?_⟩
    have : (({ c with code := [] } : Cfg).emit P (.quitcb d)).code = [] := by simp
    simp [step, this]

/-! ### 3. C10 on GLib -/

/-- **A waiting `process_signals(c)` returns only after its ticket was marked, or at a force-quit.**  The wait loop
(`gWait cls t q`: ticket `t` of line `cls`, polling the context of loop `q`) has exactly three behaviours: ticket marked →
the ticket is consumed and the call returns (`waitEnd … true`); not marked and force-quit set → the call returns
(`waitEnd … false`); otherwise → one more non-blocking iteration of the same context, then the same test again. -/
theorem C20c_wait_only_after (P : Prog) (c : Cfg) (cls : Cls) (t q : Nat) (rest : List Instr)
    (hc : c.code = .gWait cls t q :: rest) :
    (c.L.tickets.any (fun k => k.line = cls ∧ k.id = t ∧ k.marked) = true →
      step P c = .ok { c with code := rest, tr := .m (.waitEnd cls t true) :: c.tr,
                              L := { c.L with tickets := c.L.tickets.filter fun k => ¬ (k.line = cls ∧ k.id = t) } }) ∧
    (c.L.tickets.any (fun k => k.line = cls ∧ k.id = t ∧ k.marked) = false → c.L.forceQuit = true →
      step P c = .ok { c with code := rest, tr := .m (.waitEnd cls t false) :: c.tr }) ∧
    (c.L.tickets.any (fun k => k.line = cls ∧ k.id = t ∧ k.marked) = false → c.L.forceQuit = false →
      step P c = .ok { c with code := .gIter q .poll :: .gWait cls t q :: rest }) := by
  refine ⟨fun hm => ?_, fun hm hf => ?_, fun hm hf => ?_⟩
  · simp only [step, hc, hm]; rfl
  · simp only [step, hc, hm, hf]; rfl
  · simp only [step, hc, hm, hf]; rfl

/-- **Ticket lines change in three places only**, for every transition of every execution (every instruction of the
machine, deliveries of the reader thread included): `take_ticket` at the start of a waiting call appends a fresh unmarked
ticket; a released wait consumes its ticket; and the epilogue of `_run_handlers` (`endRun`) marks the line of the class of
the signal whose handlers have just run (or were skipped / abandoned by an exception).  Nothing else — in particular no
step *before* or *during* the handlers — touches them. -/
theorem C20c_tickets_change_only_by (P : Prog) (c c' : Cfg) (ht : Trans P c c') :
    c'.L.tickets = c.L.tickets ∨
    (∃ cls, c.code.head? = some (.procWait cls) ∧
      c'.L.tickets = c.L.tickets ++ [({ line := cls, id := c.L.tcounter, marked := false } : Ticket)]) ∨
    (∃ cls t q, c.code.head? = some (.gWait cls t q) ∧ c'.L.tickets = c.L.tickets.filter fun k => ¬ (k.line = cls ∧ k.id = t)) ∨
    (∃ q g, c.code.head? = some (.endRun q g) ∧ c'.L.tickets = mark c.L.tickets g.sig.cls) := by
  rcases trans_cases ht with sf | ⟨_, hk⟩
  · rcases sf.tickets with h | h
    · exact Or.inl h
    · unfold TicketOK at h
      split at h
      · rename_i cls hh; exact Or.inr (Or.inl ⟨cls, hh, h⟩)
      · rename_i cls t q hh; exact Or.inr (Or.inr (Or.inl ⟨cls, t, q, hh, h⟩))
      · rename_i q g hh; exact Or.inr (Or.inr (Or.inr ⟨q, g, hh, h⟩))
      · exact h.elim
  · exact Or.inl hk.tickets

/-- **A ticket gets marked only by the epilogue of the dispatch of a signal of its class**: if after a transition the
ticket lines contain a marked ticket that was not there (as a marked ticket) before, the transition is the `endRun` of a
source whose signal has exactly the ticket's class.  With `C20c_wait_only_after`: a waiting `process_signals(c)` that
returns without force-quit has seen the *end* of the dispatch of a signal of class `c` that ended after the call began. -/
theorem C20c_marked_only_after_handlers (P : Prog) (c c' : Cfg) (ht : Trans P c c') (k : Ticket)
    (hk : k ∈ c'.L.tickets) (hm : k.marked = true) (hn : k ∉ c.L.tickets) :
    ∃ q g, c.code.head? = some (.endRun q g) ∧ g.sig.cls = k.line := by
  rcases C20c_tickets_change_only_by P c c' ht with h | ⟨cls, _, h⟩ | ⟨cls, t, q, _, h⟩ | ⟨q, g, hh, h⟩
  · rw [h] at hk; exact absurd hk hn
  · rw [h] at hk
    rcases List.mem_append.1 hk with h1 | h1
    · exact absurd h1 hn
    · simp at h1; subst h1; cases hm
  · rw [h] at hk; exact absurd (List.mem_filter.1 hk).1 hn
  · refine ⟨q, g, hh, ?_⟩
    rw [h] at hk
    unfold mark at hk
    obtain ⟨k0, hk0, rfl⟩ := List.mem_map.1 hk
    split at hn
    · rename_i hl; simp [hl]
    · exact absurd hk0 hn

/-- **The mark happens after the handlers** (`endRun`, see `C20c_failure_contained_per_signal` (3)), not before them as on
`MainLoop` (`processSignal` marks first).  Kernel-checked on the program below: at the moment the handler of the awaited
signal (class U1, signal 2) is entered, the waiting call's ticket is *not* marked on the GLib machine and *is* marked on
the `MainLoop` machine.

No difference in the observable log follows from the timing alone in the programs I tried (a handler of the awaited class
that itself waits for that class finds, on both loops, that the signal being dispatched does not count: on `MainLoop` the
mark is over, on GLib the source is in dispatch); the observable divergence of waiting calls is the next theorem. -/
theorem C20c_mark_after_handlers :
    let P := mkProg fun hid n => if hid = 0 ∧ n = 0 then [.enq (.user 1) 0 .none 2, .enq (.user 2) 0 .none 3, .proc (some (.user 1))] else []
    let hs : List (Cls × HRef × Option Nat) := [(.user 0, .user 0, none), (.user 1, .user 1, none), (.user 2, .user 2, none)]
    let g := runFuel P 17 (initCfg [.enq (.user 0) 0 .none 1] hs none [])
    let m := Simpleline.runFuel P 15 (Simpleline.initCfg [.enq (.user 0) 0 .none 1] hs none [])
    (match g.1.code.head? with | some (.callH (.user 1) none s) => s.id == 2 | _ => false) = true ∧
    g.1.L.tickets = [{ line := .user 1, id := 0, marked := false }] ∧
    (match m.1.code.head? with | some (.callH (.user 1) none s) => s.id == 2 | _ => false) = true ∧
    m.1.L.tickets = [{ line := .user 1, id := 0, marked := true }] := by
  decide +kernel

def exWait : Prog :=
  mkProg fun hid n => if hid = 0 ∧ n = 0 then [.enq (.user 1) 0 .none 2, .enq (.user 2) 0 .none 3, .proc (some (.user 1))] else []
def exWaitHandlers : List (Cls × HRef × Option Nat) := [(.user 0, .user 0, none), (.user 1, .user 1, none), (.user 2, .user 2, none)]

/-- **REFUTED on GLib (G4): "a waiting call returns right after the awaited signal was dispatched"** (the waiting call of
`MainLoop` tests its ticket after every single signal).  A handler enqueues a signal of the awaited class U1 and one of
another class U2 with the same priority, then waits for U1.  On the GLib machine the polling iteration dispatches its whole
batch — U1 *and* U2 — before the ticket is looked at: the handler of U2 runs inside the waiting call; on the `MainLoop`
machine the call returns after U1 and U2 is dispatched after the waiting handler has returned.

    "handlers": [{"cls": "U0", "hid": 0, "data": null, "scripts": [[["enq", "U1", 0, null, 2], ["enq", "U2", 0, null, 3], ["proc", "U1"]]]},
                 {"cls": "U1", "hid": 1, "data": null, "scripts": []}, {"cls": "U2", "hid": 2, "data": null, "scripts": []}],
    "init": [["enq", "U0", 0, null, 1]], "exc_handler": false, "quit_cb": null
    GLib log:     H 0 1, H 1 2, h< 1, H 2 3, h< 2, proc<, h< 0          MainLoop log: H 0 1, H 1 2, h< 1, proc<, h< 0, H 2 3, h< 2 -/
theorem C20c_wait_returns_after_batch :
    let g := runFuel exWait 300 (initCfg [.enq (.user 0) 0 .none 1] exWaitHandlers none [])
    let m := Simpleline.runFuel exWait 300 (Simpleline.initCfg [.enq (.user 0) 0 .none 1] exWaitHandlers none [])
    g.1.log.reverse = [.h 0 1 none 1, .h 1 2 none 1, .hret 1, .h 2 3 none 1, .hret 2, .note "proc<", .hret 0] ∧
    m.1.log.reverse = [.h 0 1 none 1, .h 1 2 none 1, .hret 1, .note "proc<", .hret 0, .h 2 3 none 1, .hret 2] := by
  decide +kernel

/-! ### 4. C03 on GLib -/

/-- **Routing.**  Outside force-quit, `enqueue_signal(s)` attaches one new source carrying `s` to the context of the loop
`q` that `_find_loop_data_for_source` gives: `q` is a loop of `_event_loops`, and either it owns the source of `s` and no
loop above it (more inner) does, or no loop at all owns it and `q` is the top loop.  With no loop left the call raises
(`IndexError`). -/
theorem C20c_routing (c : Cfg) (s : Sig) (hf : c.L.forceQuit = false) :
    (∀ c', c.enq? s = some c' →
      ∃ q, c.L.route s.src = some q ∧ q ∈ c.L.loops ∧
        ((∃ inner outer, c.L.loops = outer ++ q :: inner ∧ (c.L.ctx q).srcset.contains s.src = true ∧
            ∀ a ∈ inner, (c.L.ctx a).srcset.contains s.src = false) ∨
         (c.L.loops.getLast? = some q ∧ ∀ a ∈ c.L.loops, (c.L.ctx a).srcset.contains s.src = false)) ∧
        c'.tr = .attach q (GSource.mk c.L.nextSrc s (c.L.hlistFor s) false) :: .m (.enq q s) :: c.tr ∧
        c'.L.ctxs = listSet c.L.ctxs q (fun x => { x with sources := x.sources ++ [GSource.mk c.L.nextSrc s (c.L.hlistFor s) false] }) ∧
        c'.L.loops = c.L.loops) ∧
    (c.L.loops = [] → c.enq? s = none) := by
  refine ⟨fun c' h => ?_, fun hl => by simp [Cfg.enq?, hf, route_none c.L s.src hl]⟩
  unfold Cfg.enq? at h
  simp only [hf, Bool.false_eq_true, ↓reduceIte] at h
  split at h
  · cases h
  · rename_i q hq
    cases h
    obtain ⟨h1, h2⟩ := route_spec c.L s.src q hq
    exact ⟨q, hq, h1, h2, rfl, rfl, rfl⟩

/-- `close_loop` pops the top loop and quits it — and does nothing else: nothing is dispatched, the sources attached to
its context stay where they are. -/
theorem C20c_close_loop_pops (P : Prog) (c : Cfg) (q : Nat) (rest : List Instr) (hc : c.code = .closeLoop :: rest)
    (hq : c.L.loops.getLast? = some q) :
    step P c = .ok { c with code := rest, tr := .m (.closeLevel q) :: c.tr,
                            L := { c.L with loops := c.L.loops.dropLast, ctxs := listSet c.L.ctxs q fun x => { x with running := false } } } := by
  simp only [step, hc, hq]; rfl

def exClose : Prog :=
  mkProg fun hid n => if hid = 0 ∧ n = 0 then [.newLoop (.user 1) 0 2]
    else if hid = 1 ∧ n = 0 then [.enq (.user 2) 0 .none 3, .closeLoop] else []

/-- **REFUTED on GLib (G3, close): "`close_loop` dispatches what is pending in the closing loop before it closes"**
(`MainLoop.close_loop` calls `process_signals()` first).  A handler opens a nested loop; the handler running there
enqueues a signal (routed to the nested loop) and closes the loop.  On the `MainLoop` machine that signal is dispatched
inside `close_loop`; on the GLib machine it is never dispatched: it stays attached to the context of the popped loop
(lost), and the run blocks with it still attached.

    "handlers": [{"cls": "U0", "hid": 0, "data": null, "scripts": [[["new_loop", "U1", 0, 2]]]},
                 {"cls": "U1", "hid": 1, "data": null, "scripts": [[["enq", "U2", 0, null, 3], ["close_loop"]]]}, {"cls": "U2", "hid": 2, "data": null, "scripts": []}],
    "init": [["enq", "U0", 0, null, 1]], "exc_handler": false, "quit_cb": null
    GLib log:     H 0 1, H 1 2 (depth 2), closed<, h< 1, new<, h< 0        MainLoop log: H 0 1, H 1 2, H 2 3, h< 2, closed<, h< 1, new<, h< 0 -/
theorem C20c_close_loop_does_not_drain :
    let g := runFuel exClose 300 (initCfg [.enq (.user 0) 0 .none 1] exWaitHandlers none [])
    let m := Simpleline.runFuel exClose 300 (Simpleline.initCfg [.enq (.user 0) 0 .none 1] exWaitHandlers none [])
    g.2 = .blocked ∧ m.2 = .blocked ∧
    g.1.log.reverse = [.h 0 1 none 1, .h 1 2 none 2, .note "closed<", .hret 1, .note "new<", .hret 0] ∧
    -- the signal is still attached to the context of the popped loop, which is not running and not in the loop list
    g.1.L.loops = [0] ∧ g.1.L.ctxs.map (fun x => (x.running, x.sources.map (·.sig.id))) = [(true, []), (false, [3])] ∧
    m.1.log.reverse = [.h 0 1 none 1, .h 1 2 none 2, .h 2 3 none 2, .hret 2, .note "closed<", .hret 1, .note "new<", .hret 0] := by
  decide +kernel

end Simpleline.G
