/-
  C20d — The abstract scheduling core of C20 (`Model/GLoop.lean`: `mrun` = `MainLoop`, `grun` = `GLibEventLoop`, about
  which `Props/C20.lean` speaks) *is* what the two validated machines do, for flat applications.

  A flat application (`Spec/FlatSpec.lean`) registers user handlers `hs` for user signal classes
  (`FlatHandlers hs`), enqueues the signals `init` before `App.run()`, and its handlers only enqueue further user
  signals (`Flat P`); `absProg P hs` is its abstract handler program (the driver's `flatProg`, which the C20 check runs
  against both real loops): the state is the invocation counter per handler id, dispatching a signal runs the handlers
  of its class in registration order.  The theorems quantify over every flat program, every handler registration,
  every start-up enqueue list, every quit callback and typed input (both irrelevant), and every number `n` of dispatches.

  `MRel hs c m` / `GRel hs c g` (`Spec/FlatSpec.lean`) say that the machine configuration `c` is at a dispatch boundary
  and corresponds to the abstract state: pending code = the loop frame (+ the `gDisp`s of the rest of the batch), pending
  signals = `m.queue` (attached sources = `g.attached`, rest of the batch = `g.batch`), invocation counters = `st`, and
  the whole observable log (oldest first) = `runLog hs done`, i.e. for every dispatched signal, in order, the events
  `H hid sid data 1`, `h< hid` of every handler registered for its class, in registration order.

  `runFuel P k c0 = (c, .fuel)` means: the first `k` steps from `c0` succeed and lead to `c`.
-/
import Simpleline.Lemmas.FlatMRun
import Simpleline.Lemmas.FlatGSim
import Simpleline.Lemmas.FlatExamples
import Simpleline.Props.C20

namespace Simpleline.Flat
open Simpleline Simpleline.GLoop

/-- The MainLoop machine refines `mrun`: for every flat application and every `n`, the machine, started from its start
configuration, reaches (by some number `k` of successful steps) a dispatch boundary that corresponds to the abstract
`MainLoop` state after `n` dispatches: the same signals are pending in the same order, the handlers have been invoked
the same number of times, and the log is exactly `(mrun … n …).done` expanded into the per-handler invocations. So
the machine's macro step "take the head, run all its handlers, insert what they enqueue" is `mstep`
(`mrel_step`), and the theorems of `Props/C20.lean` about `mrun` are theorems about the validated machine. -/
theorem C20d_machine_refines_mrun (P : Prog) (hP : Flat P) (hs : List (Cls × HRef × Option Nat)) (hhs : FlatHandlers hs)
    (init : List GSig) (quitCb : Option Nat) (stdin : List Str) (n : Nat) :
    ∃ k c, runFuel P k (initCfg (initActs init) hs quitCb stdin) = (c, .fuel) ∧
      MRel hs c (mrun (absProg P hs) n (minit [] init)) := by
  obtain ⟨c, hst, _, hrel⟩ := machine_reaches P hP hhs init quitCb stdin n
  obtain ⟨k, hk⟩ := hst.runFuel
  exact ⟨k, c, by simpa [runFuel] using hk 0, hrel⟩

/-- … and the machine blocks in `get()` exactly when `mstep` has nothing to dispatch: if the abstract run is quiescent
after `n` dispatches, then with any sufficiently large fuel the machine run ends `blocked`, in one and the same
configuration, whose log is `(mrun … n …).done` expanded. (If `mstep` has something to dispatch the machine goes on to
the next boundary: the previous theorem for `n + 1`.) -/
theorem C20d_machine_quiescent (P : Prog) (hP : Flat P) (hs : List (Cls × HRef × Option Nat)) (hhs : FlatHandlers hs)
    (init : List GSig) (quitCb : Option Nat) (stdin : List Str) (n : Nat)
    (hq : mstep (absProg P hs) (mrun (absProg P hs) n (minit [] init)) = none) :
    ∃ K c, (∀ k, K ≤ k → runFuel P k (initCfg (initActs init) hs quitCb stdin) = (c, .blocked)) ∧
      c.log.reverse = runLog hs (mrun (absProg P hs) n (minit [] init)).done := by
  obtain ⟨c1, hst, hinv, hrel⟩ := machine_reaches P hP hhs init quitCb stdin n
  obtain ⟨k0, hk0⟩ := hst.runFuel
  obtain ⟨c2, hb, hlog⟩ := mrel_blocked P hinv hrel hq
  refine ⟨k0 + 2, c2, fun k hk => ?_, by rw [hlog]; exact hrel.log⟩
  have : k = k0 + (2 + (k - (k0 + 2))) := by omega
  rw [this, hk0, hb]

/-- The GLib machine refines `grun`: for every flat application and every `n`, the GLib machine reaches a dispatch
boundary that corresponds to the abstract GLib state after `n` dispatches: the sources attached to the context are
`attached` (attach order), the pending `gDisp` instructions of the current iteration are `batch`, same counters, and
the log is `(grun … n …).done` expanded. So one dispatch of the machine — preceded by the collection of a new batch when
the current one is exhausted — is `gstep` (`grel_step`). -/
theorem C20d_gmachine_refines_grun (P : Prog) (hP : Flat P) (hs : List (Cls × HRef × Option Nat)) (hhs : FlatHandlers hs)
    (init : List GSig) (quitCb : Option Nat) (stdin : List Str) (n : Nat) :
    ∃ k c, G.runFuel P k (G.initCfg (initActs init) hs quitCb stdin) = (c, .fuel) ∧
      GRel hs c (grun (absProg P hs) n (ginit [] init)) := by
  obtain ⟨c, hst, hrel⟩ := gmachine_reaches P hP hhs init quitCb stdin n
  obtain ⟨k, hk⟩ := hst.runFuel
  exact ⟨k, c, by simpa [G.runFuel] using hk 0, hrel.toRel⟩

/-- … and the GLib machine blocks in a blocking iteration exactly when `gstep` has nothing to dispatch. -/
theorem C20d_gmachine_quiescent (P : Prog) (hP : Flat P) (hs : List (Cls × HRef × Option Nat)) (hhs : FlatHandlers hs)
    (init : List GSig) (quitCb : Option Nat) (stdin : List Str) (n : Nat)
    (hq : gstep (absProg P hs) (grun (absProg P hs) n (ginit [] init)) = none) :
    ∃ K c, (∀ k, K ≤ k → G.runFuel P k (G.initCfg (initActs init) hs quitCb stdin) = (c, .blocked)) ∧
      c.log.reverse = runLog hs (grun (absProg P hs) n (ginit [] init)).done := by
  obtain ⟨c1, hst, hrel⟩ := gmachine_reaches P hP hhs init quitCb stdin n
  obtain ⟨k0, hk0⟩ := hst.runFuel
  obtain ⟨c2, hb, hlog⟩ := grel_blocked P hrel hq
  refine ⟨k0 + 2, c2, fun k hk => ?_, by rw [hlog]; exact hrel.toRel.log⟩
  have : k = k0 + (2 + (k - (k0 + 2))) := by omega
  rw [this, hk0, hb]

/-- The two machines agree on calm flat applications: if the abstract `MainLoop` run is calm along its first `n`
dispatches (`calmRun`, the hypothesis of `C20_flat_calm_equiv`: while other signals are pending, handlers enqueue
nothing more urgent than the signal being dispatched), then the MainLoop machine and the GLib machine reach dispatch
boundaries — corresponding to `mrun … n` and `grun … n` — with the *same log*: the same handlers invoked with the same
signals and data in the same order (`invocations`), for every `n`. -/
theorem C20d_flat_machines_agree (P : Prog) (hP : Flat P) (hs : List (Cls × HRef × Option Nat)) (hhs : FlatHandlers hs)
    (init : List GSig) (quitCb : Option Nat) (stdin : List Str) (n : Nat)
    (hcalm : calmRun (absProg P hs) n (minit [] init) = true) :
    ∃ k k' c c', runFuel P k (initCfg (initActs init) hs quitCb stdin) = (c, .fuel) ∧
      G.runFuel P k' (G.initCfg (initActs init) hs quitCb stdin) = (c', .fuel) ∧
      MRel hs c (mrun (absProg P hs) n (minit [] init)) ∧ GRel hs c' (grun (absProg P hs) n (ginit [] init)) ∧
      c.log = c'.log ∧ invocations c.log = invocations c'.log := by
  obtain ⟨k, c, hk, hm⟩ := C20d_machine_refines_mrun P hP hs hhs init quitCb stdin n
  obtain ⟨k', c', hk', hg⟩ := C20d_gmachine_refines_grun P hP hs hhs init quitCb stdin n
  have hdone := (C20_flat_calm_equiv (absProg P hs) [] init n hcalm).1
  have hlog : c.log = c'.log := by
    have : c.log.reverse = c'.log.reverse := by rw [hm.log, hg.log, hdone]
    simpa using this
  exact ⟨k, k', c, c', hk, hk', hm, hg, hlog, invocations_congr hlog⟩

/-- … and they stop together: if moreover the abstract run is quiescent after `n` dispatches, both machine runs end
`blocked` for every sufficiently large fuel, with the same final log, which is `(mrun … n …).done` expanded. -/
theorem C20d_flat_machines_agree_final (P : Prog) (hP : Flat P) (hs : List (Cls × HRef × Option Nat))
    (hhs : FlatHandlers hs) (init : List GSig) (quitCb : Option Nat) (stdin : List Str) (n : Nat)
    (hcalm : calmRun (absProg P hs) n (minit [] init) = true)
    (hq : mstep (absProg P hs) (mrun (absProg P hs) n (minit [] init)) = none) :
    ∃ K c c', (∀ k, K ≤ k → runFuel P k (initCfg (initActs init) hs quitCb stdin) = (c, .blocked) ∧
        G.runFuel P k (G.initCfg (initActs init) hs quitCb stdin) = (c', .blocked)) ∧
      c.log = c'.log ∧ c.log.reverse = runLog hs (mrun (absProg P hs) n (minit [] init)).done := by
  have hq' := (C20_quiescent (absProg P hs) [] init n hcalm).1 hq
  obtain ⟨K, c, hk, hl⟩ := C20d_machine_quiescent P hP hs hhs init quitCb stdin n hq
  obtain ⟨K', c', hk', hl'⟩ := C20d_gmachine_quiescent P hP hs hhs init quitCb stdin n hq'
  have hdone := (C20_flat_calm_equiv (absProg P hs) [] init n hcalm).1
  refine ⟨max K K', c, c', fun k hkk => ⟨hk k (by omega), hk' k (by omega)⟩, ?_, hl⟩
  have : c.log.reverse = c'.log.reverse := by rw [hl, hl', hdone]
  simpa using this

/-- the programs of the examples are flat (they are given by tables) and so are their handlers -/
example : Flat exCalmP ∧ Flat exUrgentP ∧ FlatHandlers exHs :=
  ⟨flat_tableProg _ _, flat_tableProg _ _, by decide⟩

/-- Non-vacuity: a flat application with two classes and three handlers (two of them on the same class, one with
data), handlers that enqueue; the abstract run is calm; both machines, run by `runFuel`, end `blocked` with the same
log: eight handler invocations for five signals, equal to the abstract runs `mrun` and `grun` expanded. -/
example :
    calmRun (absProg exCalmP exHs) 10 (minit [] exCalmInit) = true ∧
    (mLog exCalmP exCalmInit 200).2 = .blocked ∧ (gLog exCalmP exCalmInit 200).2 = .blocked ∧
    (mLog exCalmP exCalmInit 200).1 = (gLog exCalmP exCalmInit 200).1 ∧
    invocations (mLog exCalmP exCalmInit 200).1 = [(10, 1), (11, 1), (12, 2), (12, 3), (10, 4), (11, 4), (10, 5), (11, 5)] ∧
    (mLog exCalmP exCalmInit 200).1.reverse = runLog exHs (mrun (absProg exCalmP exHs) 10 (minit [] exCalmInit)).done ∧
    (gLog exCalmP exCalmInit 200).1.reverse = runLog exHs (grun (absProg exCalmP exHs) 10 (ginit [] exCalmInit)).done := by
  decide +kernel

/-- Calm is needed at the level of the machines too (finding G1): signals 1 and 2 of priority 0 are pending and handler
10, called for signal 1, enqueues signal 3 of priority -10. The MainLoop machine calls handler 12 for signal 3 before
the handlers of signal 2, the GLib machine finishes its batch first; each machine still follows its abstract run. -/
theorem C20d_machines_need_calm :
    calmRun (absProg exUrgentP exHs) 3 (minit [] exUrgentInit) = false ∧
    invocations (mLog exUrgentP exUrgentInit 200).1 = [(10, 1), (11, 1), (12, 3), (10, 2), (11, 2)] ∧
    invocations (gLog exUrgentP exUrgentInit 200).1 = [(10, 1), (11, 1), (10, 2), (11, 2), (12, 3)] ∧
    (mLog exUrgentP exUrgentInit 200).1.reverse = runLog exHs (mrun (absProg exUrgentP exHs) 3 (minit [] exUrgentInit)).done ∧
    (gLog exUrgentP exUrgentInit 200).1.reverse = runLog exHs (grun (absProg exUrgentP exHs) 3 (ginit [] exUrgentInit)).done := by
  decide +kernel

end Simpleline.Flat
