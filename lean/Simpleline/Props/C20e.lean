/-
  C20e — "everything above the loop API is the table of A.3 unchanged", formally (partial: see the list of covered
  instructions at `covered`).

  `View` (`Lemmas/GMeSame.lean`) is the part of a configuration the scheduler / screen / input instructions read and write:
  application state `A` (screen stack, screen objects, input subsystem, console output), the observable `log`, the framework
  signal-id counter, the callbacks' return registers, the handler registrations.  `tI` translates the shared instructions
  constructor by constructor.  `ResRel` relates the results of one step: both machines go on with equal views and the
  *same instructions pushed* in front of their pending code; or both raise the same kind of exception from configurations
  with equal views (where it lands differs: the catchers of the two loops differ — difference (ii)); or both skip to the
  end of `_process_screen`'s `try`; or both halt with the same outcome.

  Side condition (difference (i)): `g.L.loops ≠ []` — on GLib `enqueue_signal` / `register_signal_source` raise `IndexError`
  when no loop is left, on `MainLoop` they never raise.  Not covered (difference (iii)): `waitInput`, whose livelock test
  reads `_force_quit` and the loop list on GLib and `_run_loop` on `MainLoop`.
-/
import Simpleline.Lemmas.GMeSame

namespace Simpleline.G

macro "vw" : tactic =>
  `(tactic| simp [Cfg.view, mview, push, Simpleline.push, Cfg.trace, Simpleline.Cfg.trace, Cfg.gtrace, Cfg.write,
      Simpleline.Cfg.write, Cfg.newSig, Simpleline.Cfg.newSig, newIH, Simpleline.newIH, *])

/-- the instructions covered by `C20e_same_scheduler_partial` -/
def covered : Instr → Bool
  -- screen stack / scheduler
  | .pushModal .. | .modalRet .. | .closeScreen .. | .closeScreen2 .. | .processScreen | .afterSetupFail ..
  | .identCheck .. | .catchPS | .drawScreen .. | .catchDraw | .maybeInput .. => true
  -- screen callbacks and printing
  | .callScr .. | .printWidget .. | .printLines .. => true
  -- input
  | .getInput .. | .getInput2 .. | .blockingInput .. | .inputReady .. | .processInput .. | .classify .. | .catchPI ..
  | .endPI => true
  -- logging
  | .note .. | .hret .. => true
  -- instructions that call the loop API (enqueue / redraw / register_signal_source)
  | .afterSetup .. | .afterSetup2 .. | .closeScreen3 .. | .afterQuit .. | .countAndAct .. => true
  | _ => false

theorem startRequest_rel (rg : List Instr) (rm : List Simpleline.Instr) (gc : Cfg) (mc : Simpleline.Cfg) (ih : Nat) (r : Src) (t : Str)
    (pushed : List Instr) (hv : gc.view = mview mc) (hgc : gc.code = pushed ++ rg) (hmc : mc.code = pushed.map tI ++ rm)
    (hp : ∀ j ∈ pushed, mapped j = true) :
    ResRel rg rm (startRequest gc ih r t) (Simpleline.startRequest mc ih r t) := by
  obtain ⟨gc, gL, gA, gl, gt, gs, g1, g2, g3, g4, g5⟩ := gc
  obtain ⟨mc, mL, mA, ml, mt, ms, m1, m2, m3, m4, m5⟩ := mc
  simp only [Cfg.view, mview, View.mk.injEq] at hv
  obtain ⟨rfl, rfl, rfl, rfl, rfl, rfl, rfl, rfl, hh⟩ := hv
  simp only at hgc hmc
  subst hgc hmc
  simp only [startRequest, Simpleline.startRequest]
  split
  · exact ResRel.raise _ pushed (by vw) rfl rfl
  · split
    · exact ResRel.ok pushed (by vw) rfl rfl hp
    · exact ResRel.ok pushed (by vw) rfl rfl hp

theorem redraw_rel (rg : List Instr) (rm : List Simpleline.Instr) (gc : Cfg) (mc : Simpleline.Cfg) (hv : gc.view = mview mc)
    (hgc : gc.code = rg) (hmc : mc.code = rm) (hl : gc.L.loops ≠ []) :
    ResRel rg rm gc.redraw (.ok mc.redraw) := by
  obtain ⟨c', h1, h2, h3, _⟩ := redraw_ok gc hl
  rw [h1]
  refine ResRel.ok [] ?_ (by simpa [hgc] using h3) (by simpa [hmc] using (m_redraw_view mc).2) (by simp)
  rw [h2, (m_redraw_view mc).1, hv, show gc.nextSid = mc.nextSid from congrArg View.nextSid hv]

/-- **The scheduler / screen / input instructions are the same functions of the application state on both machines**
(partial: the instructions listed at `covered`).  Take a configuration `g` of the GLib machine and a configuration `m` of
the `MainLoop` machine with the same view, whose next instructions correspond (`i` and `tI i`), `i` covered, a loop left
on the GLib side.  Then the results of the step correspond (`ResRel`): equal views again — same screen stack, same screen
objects, same input state, same console output, same log — and the same instructions pushed in front of the respective
rest; or the same kind of exception raised; or the same halt. -/
theorem C20e_same_scheduler_partial (P : Prog) (g : Cfg) (m : Simpleline.Cfg) (i : Instr) (rg : List Instr)
    (rm : List Simpleline.Instr) (hi : covered i = true) (hg : g.code = i :: rg) (hm : m.code = tI i :: rm)
    (hv : g.view = mview m) (hl : g.L.loops ≠ []) :
    ResRel rg rm (step P g) (Simpleline.step P m) := by
  obtain ⟨gc, gL, gA, gl, gt, gs, g1, g2, g3, g4, g5⟩ := g
  obtain ⟨mc, mL, mA, ml, mt, ms, m1, m2, m3, m4, m5⟩ := m
  simp only [Cfg.view, mview, View.mk.injEq] at hv
  obtain ⟨rfl, rfl, rfl, rfl, rfl, rfl, rfl, rfl, hh⟩ := hv
  simp only at hg hm hl
  subst hg hm
  cases i <;> simp only [covered, Bool.false_eq_true] at hi <;> simp only [tI, step, Simpleline.step]
  case modalRet e => exact ResRel.ok [] (by vw) rfl rfl (by simp)
  case catchPS => exact ResRel.ok [] (by vw) rfl rfl (by simp)
  case catchDraw => exact ResRel.ok [] (by vw) rfl rfl (by simp)
  case catchPI scr => exact ResRel.ok [] (by vw) rfl rfl (by simp)
  case endPI => exact ResRel.ok [] (by vw) rfl rfl (by simp)
  case classify scr => exact ResRel.ok [] (by vw) rfl rfl (by simp)
  case printLines ls => exact ResRel.ok [] (by vw) rfl rfl (by simp)
  case getInput scr args => exact ResRel.ok [_, _] (by vw) rfl rfl (by simp [mapped])
  case processInput scr key => exact ResRel.ok [_, _, _, _, _] (by vw) rfl rfl (by simp [mapped])
  case pushModal scr args => exact ResRel.ok [_, _] (by vw) rfl rfl (by simp [mapped])
  case maybeInput top =>
    by_cases h : (P.spec top.screen).inputRequired = true
    · simp only [h, if_true]; exact ResRel.ok [_] (by vw) rfl rfl (by simp [mapped])
    · simp only [h]; exact ResRel.ok [] (by vw) rfl rfl (by simp)
  case drawScreen top =>
    by_cases h : (P.spec top.screen).noSeparator = true
    · simp only [h, if_true]; exact ResRel.ok [_, _] (by vw) rfl rfl (by simp [mapped])
    · simp only [h]; exact ResRel.ok [_, _] (by vw) rfl rfl (by simp [mapped])
  case afterSetupFail e =>
    by_cases h : gA.stack = []
    · simp only [h, if_true]; exact ResRel.raise _ [] (by vw) rfl rfl
    · simp only [h]; exact ResRel.ok [] (by vw) rfl rfl (by simp)
  case processScreen =>
    cases hs : gA.stack.getLast? with
    | none => exact ResRel.raise _ [] (by vw) rfl rfl
    | some top =>
      simp only
      by_cases hr : (gA.scr top.screen).ready = true
      · simp only [hr, if_true]; exact ResRel.ok [_] (by vw) rfl rfl (by simp [mapped])
      · simp only [hr]; exact ResRel.ok [_, _] (by vw) rfl rfl (by simp [mapped])
  case closeScreen frm =>
    cases hs : gA.stack.getLast? with
    | none => exact ResRel.raise _ [] (by vw) rfl rfl
    | some e =>
      simp only
      by_cases h : frm ≠ none ∧ frm ≠ some (.scr e.screen)
      · simp only [if_pos h]; exact ResRel.raise _ [] (by vw) rfl rfl
      · simp only [if_neg h]; exact ResRel.ok [_, _] (by vw) rfl rfl (by simp [mapped])
  case closeScreen2 e frm =>
    by_cases h : frm ≠ none ∧ frm ≠ some (.scr e.screen)
    · simp only [if_pos h]; exact ResRel.raise _ [] (by vw) rfl rfl
    · simp only [if_neg h]
      by_cases h2 : e.modal = true
      · simp only [h2, if_true]; exact ResRel.ok [_, _] (by vw) rfl rfl (by simp [mapped])
      · simp only [h2]; exact ResRel.ok [_] (by vw) rfl rfl (by simp [mapped])
  case identCheck top =>
    cases hs : gA.stack.getLast? with
    | none => exact ResRel.raise _ [] (by vw) rfl rfl
    | some l =>
      simp only
      by_cases h : l.eid ≠ top.eid
      · simp only [if_pos h]; exact ResRel.skip (by vw) rfl rfl
      · simp only [if_neg h]; exact ResRel.ok [_, _] (by vw) rfl rfl (by simp [mapped])
  case inputReady n sg =>
    by_cases h : sg.ih ≠ n
    · simp only [if_pos h]; exact ResRel.ok [] (by vw) rfl rfl (by simp)
    · simp only [if_neg h]
      by_cases h2 : ¬ sg.ok = true
      · simp only [if_pos h2]; exact ResRel.ok [] (by vw) rfl rfl (by simp)
      · simp only [if_neg h2]
        cases hc : (gA.ihs.getD n default).cb with
        | none => exact ResRel.ok [] (by vw) rfl rfl (by simp)
        | some scr => exact ResRel.ok [_] (by vw) rfl rfl (by simp [mapped])
  case getInput2 scr args =>
    by_cases h : g2 = true
    · simp only [h, if_true]; exact ResRel.ok [] (by vw) rfl rfl (by simp)
    · simp only [h]
      exact startRequest_rel rg rm _ _ _ _ _ [] (by vw) rfl rfl (by simp)
  case blockingInput scr cont =>
    exact startRequest_rel rg rm _ _ _ _ _ [.waitInput gA.ihs.length] (by vw) rfl rfl (by simp [mapped])
  case note w =>
    have := emit_views P ({ code := rg, L := gL, A := gA, log := gl, tr := gt, nextSid := gs, retSetup := g1, retPromptNone := g2, retInput := g3, retKey := g4, retAction := g5 } : Cfg)
      ({ code := rm, L := mL, A := gA, log := gl, tr := mt, nextSid := gs, retSetup := g1, retPromptNone := g2, retInput := g3, retKey := g4, retAction := g5 } : Simpleline.Cfg) (.note w) (by vw)
    exact ResRel.ok [] this.1 this.2.1 this.2.2.1 (by simp)
  case hret hid =>
    have := emit_views P ({ code := rg, L := gL, A := gA, log := gl, tr := gt, nextSid := gs, retSetup := g1, retPromptNone := g2, retInput := g3, retKey := g4, retAction := g5 } : Cfg)
      ({ code := rm, L := mL, A := gA, log := gl, tr := mt, nextSid := gs, retSetup := g1, retPromptNone := g2, retInput := g3, retKey := g4, retAction := g5 } : Simpleline.Cfg) (.hret hid) (by vw)
    exact ResRel.ok [] this.1 this.2.1 this.2.2.1 (by simp)
  case printWidget scr =>
    cases hw : windowLines P scr with
    | error e => exact ResRel.raise _ [] (by vw) rfl rfl
    | ok lines =>
      simp only
      cases hp : printWidget lines (P.spec scr).height with
      | none => exact ResRel.halt _ (by vw)
      | some evs =>
        refine ResRel.ok (chunkOut scr evs [] []) (by vw) rfl ?_ (chunkOut_mapped scr evs [] [] (by simp))
        simp only [Simpleline.push, (chunkOut_map scr evs [] []).1, List.map_nil]
  case callScr scr cb arg key =>
    have ev := emit_views P
      ({ code := rg, L := gL, A := gA.setScr scr fun s => { s with counts := bump s.counts cb }, log := gl, tr := gt, nextSid := gs, retSetup := g1, retPromptNone := g2, retInput := g3, retKey := g4, retAction := g5 } : Cfg)
      ({ code := rm, L := mL, A := gA.setScr scr fun s => { s with counts := bump s.counts cb }, log := gl, tr := mt, nextSid := gs, retSetup := g1, retPromptNone := g2, retInput := g3, retKey := g4, retAction := g5 } : Simpleline.Cfg)
      (.cb scr cb arg key) (by vw)
    refine ResRel.ok ((if cb = .show then [.printWidget scr] else []) ++ (P.screenScript scr cb (countOf (gA.scr scr).counts cb)).acts.map .act ++
      [.scrRet scr cb (P.screenScript scr cb (countOf (gA.scr scr).counts cb)).ret key]) ev.1 ?_ ?_ ?_
    · simp only [push, ev.2.1]
    · simp only [Simpleline.push, ev.2.2.1]
      by_cases hcb : cb = .show <;> simp [hcb, tI, Function.comp]
    · intro j hj
      simp only [List.mem_append, List.mem_map, List.mem_singleton] at hj
      rcases hj with (hj | ⟨a, _, rfl⟩) | rfl
      · split at hj
        · simp at hj; subst hj; rfl
        · cases hj
      · rfl
      · rfl
  case afterQuit q =>
    cases ha : (P.spec q).answer with
    | none => exact ResRel.raise _ [] (by vw) rfl rfl
    | some a =>
      cases a with
      | none => exact redraw_rel rg rm _ _ (by vw) rfl rfl hl
      | some b =>
        cases b with
        | true => exact ResRel.raise _ [] (by vw) rfl rfl
        | false => exact redraw_rel rg rm _ _ (by vw) rfl rfl hl
  case afterSetup top =>
    by_cases h : g1 = true
    · simp only [h, if_true]; exact ResRel.ok [_] (by vw) rfl rfl (by simp [mapped])
    · simp only [h]
      cases hs : gA.stack.getLast? with
      | none => exact ResRel.raise _ [] (by vw) rfl rfl
      | some e =>
        simp only
        by_cases h2 : e.modal = true
        · simp only [h2, if_true]; exact ResRel.ok [_, _] (by vw) rfl rfl (by simp [mapped])
        · simp only [h2]; exact redraw_rel rg rm _ _ (by vw) rfl rfl hl
  case afterSetup2 top =>
    obtain ⟨c', h1, h2, h3, _⟩ := regSource_ok
      ({ code := rg, L := gL, A := gA, log := gl, tr := gt, nextSid := gs, retSetup := g1, retPromptNone := g2, retInput := g3, retKey := g4, retAction := g5 } : Cfg) (.scr top.screen) hl
    simp only [h1]
    simp only [Cfg.view, View.mk.injEq] at h2
    obtain ⟨e1, e2, e3, e4, e5, e6, e7, e8, e9⟩ := h2
    exact ResRel.ok [.callScr top.screen .refresh top.args none, .identCheck top, .catchPS] (by vw) (by simp [push, Cfg.trace, h3]) rfl (by simp [mapped])
  case countAndAct scr =>
    generalize gA.setScr scr _ = A'
    cases hs : A'.stack.getLast? with
    | none => exact ResRel.raise _ [] (by vw) rfl rfl
    | some top =>
      simp only
      cases g5 with
      | error =>
        simp only
        by_cases h : (A'.scr scr).err % 5 = 0
        · simp only [if_pos h]; exact redraw_rel rg rm _ _ (by vw) rfl rfl hl
        · simp only [if_neg h]; exact ResRel.ok [_] (by vw) rfl rfl (by simp [mapped])
      | noop => exact ResRel.ok [] (by vw) rfl rfl (by simp)
      | redraw => exact redraw_rel rg rm _ _ (by vw) rfl rfl hl
      | close => exact ResRel.ok [_] (by vw) rfl rfl (by simp [mapped])
      | quit =>
        simp only
        cases hq : P.quitScreen with
        | none => exact ResRel.raise _ [] (by vw) rfl rfl
        | some q => exact ResRel.ok [_, _] (by vw) rfl rfl (by simp [mapped])
  case closeScreen3 e =>
    by_cases h : gA.stack ≠ [] ∧ ¬ e.modal = true
    · obtain ⟨c', h1, h2, h3, _⟩ := redraw_ok
        ({ code := rg, L := gL, A := gA, log := gl, tr := gt, nextSid := gs, retSetup := g1, retPromptNone := g2, retInput := g3, retKey := g4, retAction := g5 } : Cfg) hl
      simp only [if_pos h, h1]
      have hA : c'.A = gA := congrArg View.A h2
      have hm := m_redraw_view ({ code := rm, L := mL, A := gA, log := gl, tr := mt, nextSid := gs, retSetup := g1, retPromptNone := g2, retInput := g3, retKey := g4, retAction := g5 } : Simpleline.Cfg)
      have hA' : (Simpleline.Cfg.redraw ({ code := rm, L := mL, A := gA, log := gl, tr := mt, nextSid := gs, retSetup := g1, retPromptNone := g2, retInput := g3, retKey := g4, retAction := g5 } : Simpleline.Cfg)).A = gA := congrArg View.A hm.1
      show ResRel rg rm (if c'.A.stack = [] then c'.raise .exit else pure c') _
      rw [hA, hA']
      have hv' : c'.view = mview (Simpleline.Cfg.redraw ({ code := rm, L := mL, A := gA, log := gl, tr := mt, nextSid := gs, retSetup := g1, retPromptNone := g2, retInput := g3, retKey := g4, retAction := g5 } : Simpleline.Cfg)) := by
        rw [h2, hm.1]; vw
      by_cases h0 : gA.stack = []
      · simp only [if_pos h0]; exact ResRel.raise _ [] hv' (by simpa using h3) (by simpa using hm.2)
      · simp only [if_neg h0]; exact ResRel.ok [] hv' (by simpa using h3) (by simpa using hm.2) (by simp)
    · simp only [if_neg h]
      show ResRel rg rm (if gA.stack = [] then _ else _) _
      by_cases h0 : gA.stack = []
      · simp only [if_pos h0]; exact ResRel.raise _ [] (by vw) rfl rfl
      · simp only [if_neg h0]; exact ResRel.ok [] (by vw) rfl rfl (by simp)

/-- the two machines start with the same view (same start-up actions, same registrations, same typed lines), with a loop
on the GLib side — the hypotheses of `C20e_same_scheduler_partial` are satisfiable, and stay so as long as the loop-level
instructions keep the views equal -/
theorem C20e_init_same_view (init : List Act) (hs : List (Cls × HRef × Option Nat)) (q : Option Nat) (stdin : List Str) :
    (initCfg init hs q stdin).view = mview (Simpleline.initCfg init hs q stdin) ∧ (initCfg init hs q stdin).L.loops ≠ [] ∧
    (initCfg init hs q stdin).code.map tI = (Simpleline.initCfg init hs q stdin).code := by
  refine ⟨rfl, by simp [initCfg], ?_⟩
  simp [initCfg, Simpleline.initCfg, tI, Function.comp]

/-
  NOT DONE (time): `C20e_batch_dispatch_order` (the history-level order of the dispatch events of one batch; the two missing
  invariants are described in `Props/C20b.lean`).  Not covered by `C20e_same_scheduler_partial`: `scrRet` (the `setup` case
  calls `register_signal_source`; same pattern as `afterSetup2`), `inputReceived` (a fold of `enqueue_signal` calls; same
  pattern as `redraw_rel`), the scheduler's user actions `act (schedule | push | replace | closeDirect | closeSig | redrawSig |
  schedRedraw | pushModal | getUserInput)`, and `waitInput` (difference (iii)).
-/

end Simpleline.G
