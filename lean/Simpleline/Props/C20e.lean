/-
  C20e — "everything above the loop API is the table of A.3 unchanged", formally.

  `View` (`Lemmas/GMeSame.lean`) is the part of a configuration the scheduler / screen / input instructions read and write:
  application state `A` (screen stack, screen objects, input subsystem, console output), the observable `log`, the framework
  signal-id counter, the callbacks' return registers, the handler registrations, the quit-callback registration.  `tI`
  translates the shared instructions constructor by constructor.  `ResRel` relates the results of one step: both machines go
  on with equal views and the *same instructions pushed* in front of their pending code; or both raise the same kind of
  exception from configurations with equal views (where it lands differs: the catchers of the two loops differ — difference
  (ii)); or both skip to the end of `_process_screen`'s `try`; or both halt with the same outcome.

  Side condition (difference (i)): `g.L.loops ≠ []` — on GLib `enqueue_signal` / `register_signal_source` raise `IndexError`
  when no loop is left, on `MainLoop` they never raise.  The single scheduler / input instruction excluded is `waitInput`
  (difference (iii)): the test with which `InputHandler.wait_on_input` is modelled to spin for ever reads `_force_quit` and
  the loop list on GLib and `_run_loop` on `MainLoop` — loop state that is not part of the view.
-/
import Simpleline.Lemmas.GMeSame

namespace Simpleline.G

macro "vw" : tactic =>
  `(tactic| simp [Cfg.view, mview, push, Simpleline.push, Cfg.trace, Simpleline.Cfg.trace, Cfg.gtrace, Cfg.write,
      Simpleline.Cfg.write, Cfg.newSig, Simpleline.Cfg.newSig, newIH, Simpleline.newIH, *])

/-- the user actions that are calls of the scheduler / screen API (the others are calls of the loop API itself) -/
def schedAct : Act → Bool
  | .schedule .. | .push .. | .pushModal .. | .replace .. | .closeDirect | .closeSig .. | .redrawSig .. | .schedRedraw
  | .getUserInput .. => true
  | _ => false

/-- the instructions covered by `C20e_same_scheduler`: every shared instruction above the loop API except `waitInput` -/
def covered : Instr → Bool
  -- screen stack / scheduler
  | .pushModal .. | .modalRet .. | .closeScreen .. | .closeScreen2 .. | .processScreen | .afterSetupFail ..
  | .identCheck .. | .catchPS | .drawScreen .. | .catchDraw | .maybeInput .. => true
  -- screen callbacks and printing
  | .callScr .. | .printWidget .. | .printLines .. => true
  -- input
  | .getInput .. | .getInput2 .. | .blockingInput .. | .inputReady .. | .processInput .. | .classify .. | .catchPI ..
  | .endPI => true
  -- logging
  | .note .. | .hret .. | .quitCb => true
  -- instructions that call the loop API (enqueue / redraw / register_signal_source)
  | .afterSetup .. | .afterSetup2 .. | .closeScreen3 .. | .afterQuit .. | .countAndAct .. | .scrRet .. | .inputReceived .. => true
  -- the scheduler's user actions
  | .act a => schedAct a
  | _ => false

theorem startRequest_rel (rg : List Instr) (rm : List Simpleline.Instr) (gc : Cfg) (mc : Simpleline.Cfg) (ih : Nat) (r : Src) (t : Str)
    (pushed : List Instr) (hv : gc.view = mview mc) (hgc : gc.code = pushed ++ rg) (hmc : mc.code = pushed.map tI ++ rm)
    (hp : ∀ j ∈ pushed, mapped j = true) :
    ResRel rg rm (startRequest gc ih r t) (Simpleline.startRequest mc ih r t) := by
  obtain ⟨gc, gL, gA, gl, gt, gs, g1, g2, g3, g4, g5⟩ := gc
  obtain ⟨mc, mL, mA, ml, mt, ms, m1, m2, m3, m4, m5⟩ := mc
  simp only [Cfg.view, mview, View.mk.injEq] at hv
  obtain ⟨rfl, rfl, rfl, rfl, rfl, rfl, rfl, rfl, hh, hq⟩ := hv
  simp only at hgc hmc
  subst hgc hmc
  simp only [startRequest, Simpleline.startRequest]
  split
  · exact ResRel.raise _ pushed (by vw) rfl rfl
  · split
    · exact ResRel.ok pushed (by vw) rfl rfl hp
    · exact ResRel.ok pushed (by vw) rfl rfl hp

theorem redraw_rel (rg : List Instr) (rm : List Simpleline.Instr) (gc : Cfg) (mc : Simpleline.Cfg) (hv : gc.view = mview mc)
    (hgc : gc.code = rg) (hmc : mc.code = rm) (hl : gc.L.loops ≠ []) :
    ResRel rg rm gc.redraw (.ok mc.redraw) := by
  obtain ⟨c', h1, h2, h3, _⟩ := redraw_ok gc hl
  rw [h1]
  refine ResRel.ok [] ?_ (by simpa [hgc] using h3) (by simpa [hmc] using (m_redraw_view mc).2) (by simp)
  rw [h2, (m_redraw_view mc).1, hv, show gc.nextSid = mc.nextSid from congrArg View.nextSid hv]

theorem enqueue_rel (rg : List Instr) (rm : List Simpleline.Instr) (gc : Cfg) (mc : Simpleline.Cfg) (s : Sig) (hv : gc.view = mview mc)
    (hgc : gc.code = rg) (hmc : mc.code = rm) (hl : gc.L.loops ≠ []) :
    ResRel rg rm (gc.enqueue s) (.ok (mc.enqueue s)) := by
  obtain ⟨c', h1, h2, h3, _⟩ := enqueue_ok gc s hl
  rw [h1]
  refine ResRel.ok [] ?_ (by simpa [hgc] using h3) (by simpa [hmc] using (m_enqueue_view mc s).2) (by simp)
  rw [h2, (m_enqueue_view mc s).1, hv]

/-- `do let c ← redraw; pure (f c)` against `f' (redraw …)` -/
theorem redraw_bind_rel (rg : List Instr) (rm : List Simpleline.Instr) (gc : Cfg) (mc : Simpleline.Cfg) (hv : gc.view = mview mc)
    (hgc : gc.code = rg) (hmc : mc.code = rm) (hl : gc.L.loops ≠ []) (f : Cfg → Cfg) (f' : Simpleline.Cfg → Simpleline.Cfg)
    (hf : ∀ c m, c.view = mview m → (f c).view = mview (f' m) ∧ (f c).code = c.code ∧ (f' m).code = m.code) :
    ResRel rg rm (gc.redraw >>= fun c => pure (f c)) (.ok (f' mc.redraw)) := by
  obtain ⟨c', h1, h2, h3, _⟩ := redraw_ok gc hl
  rw [h1]
  have hv' : c'.view = mview mc.redraw := by
    rw [h2, (m_redraw_view mc).1, hv, show gc.nextSid = mc.nextSid from congrArg View.nextSid hv]
  obtain ⟨k1, k2, k3⟩ := hf c' mc.redraw hv'
  exact ResRel.ok [] k1 (by simp [k2, h3, hgc]) (by simp [k3, (m_redraw_view mc).2, hmc]) (by simp)

/-- one turn of `InputThreadManager._input_received_handler`'s loop over the other pending requests, on either machine -/
abbrev foldG : Cfg → Nat → Except (Outcome × Cfg) Cfg := fun c t =>
  (c.newSig Cls.inputReady 0 (c.A.reqs.getD t default).requester [] (c.A.reqs.getD t default).ih false).snd.enqueue
    (c.newSig Cls.inputReady 0 (c.A.reqs.getD t default).requester [] (c.A.reqs.getD t default).ih false).fst
abbrev foldM : Simpleline.Cfg → Nat → Simpleline.Cfg := fun c t =>
  (c.newSig Cls.inputReady 0 (c.A.reqs.getD t default).requester [] (c.A.reqs.getD t default).ih false).snd.enqueue
    (c.newSig Cls.inputReady 0 (c.A.reqs.getD t default).requester [] (c.A.reqs.getD t default).ih false).fst

/-- with a loop left every `enqueue_signal` of the fold succeeds on GLib, and the two folds keep the views equal -/
theorem fold_rel : ∀ (l : List Nat) (gc : Cfg) (mc : Simpleline.Cfg), gc.view = mview mc → gc.L.loops ≠ [] →
    ∃ gc', l.foldlM foldG gc = .ok gc' ∧ gc'.view = mview (l.foldl foldM mc) ∧ gc'.code = gc.code ∧
      (l.foldl foldM mc).code = mc.code
  | [], gc, mc, hv, _ => ⟨gc, rfl, hv, rfl, rfl⟩
  | t :: l, gc, mc, hv, hl => by
    obtain ⟨c1, h1, h2, h3, h4⟩ := enqueue_ok
      (gc.newSig Cls.inputReady 0 (gc.A.reqs.getD t default).requester [] (gc.A.reqs.getD t default).ih false).snd
      (gc.newSig Cls.inputReady 0 (gc.A.reqs.getD t default).requester [] (gc.A.reqs.getD t default).ih false).fst hl
    have hm := m_enqueue_view
      (mc.newSig Cls.inputReady 0 (mc.A.reqs.getD t default).requester [] (mc.A.reqs.getD t default).ih false).snd
      (mc.newSig Cls.inputReady 0 (mc.A.reqs.getD t default).requester [] (mc.A.reqs.getD t default).ih false).fst
    have hv1 : c1.view = mview (foldM mc t) := by
      rw [h2, hm.1]
      have := hv
      simp only [Cfg.view, mview, View.mk.injEq] at this
      obtain ⟨e1, e2, e3, e4, e5, e6, e7, e8, e9, e10⟩ := this
      simp [Cfg.view, mview, Cfg.newSig, Simpleline.Cfg.newSig, *]
    obtain ⟨c2, k1, k2, k3, k4⟩ := fold_rel l c1 (foldM mc t) hv1 (by rw [h4]; exact hl)
    refine ⟨c2, ?_, k2, by rw [k3, h3]; rfl, by rw [List.foldl_cons, k4, hm.2]; rfl⟩
    rw [List.foldlM_cons]
    show (foldG gc t >>= fun c => List.foldlM foldG c l) = _
    rw [show foldG gc t = Except.ok c1 from h1]
    exact k1

/-- **The scheduler / screen / input instructions are the same functions of the application state on both machines.**
Take a configuration `g` of the GLib machine and a configuration `m` of the `MainLoop` machine with the same view, whose next
instructions correspond (`i` and `tI i`), `i` covered, a loop left on the GLib side.  Then the results of the step
correspond (`ResRel`): equal views again — same screen stack, same screen objects, same input state, same console output,
same log, same registrations — and the same instructions pushed in front of the respective rest; or the same kind of
exception raised; or the same halt.

`covered` is every instruction above the loop API that the two machines share — the whole scheduler (`pushModal`, `modalRet`,
`closeScreen`, `closeScreen2`, `closeScreen3`, `processScreen`, `afterSetup`, `afterSetupFail`, `afterSetup2`, `identCheck`,
`catchPS`, `drawScreen`, `catchDraw`, `maybeInput`), the screen callbacks and printing (`callScr`, `scrRet`, `printWidget`,
`printLines`), the input pipeline (`getInput`, `getInput2`, `blockingInput`, `inputReceived`, `inputReady`, `processInput`,
`classify`, `catchPI`, `countAndAct`, `endPI`, `afterQuit`), logging and the epilogue of `run()` (`note`, `hret`, `quitCb`),
and the user actions that call the scheduler / screen API (`schedule`, `push`, `pushModal`, `replace`, `closeDirect`,
`closeSig`, `redrawSig`, `schedRedraw`, `getUserInput`) — **with the single exception of `waitInput`**: the model of
`wait_on_input` detects the spinning wait by a test on loop state (`_force_quit` and the loop list on GLib, `_run_loop` on
`MainLoop`), which is not a function of the view.  Not in the scope of the statement, by definition: the loop group itself
(the GLib / MainLoop loop instructions, `apprun`, `kill`, `callH`, the loop API entry points `procWait` / `newLoop` /
`closeLoop` and the user actions that call the loop API directly), which is what differs between the two machines. -/
theorem C20e_same_scheduler (P : Prog) (g : Cfg) (m : Simpleline.Cfg) (i : Instr) (rg : List Instr)
    (rm : List Simpleline.Instr) (hi : covered i = true) (hg : g.code = i :: rg) (hm : m.code = tI i :: rm)
    (hv : g.view = mview m) (hl : g.L.loops ≠ []) :
    ResRel rg rm (step P g) (Simpleline.step P m) := by
  obtain ⟨gc, gL, gA, gl, gt, gs, g1, g2, g3, g4, g5⟩ := g
  obtain ⟨mc, mL, mA, ml, mt, ms, m1, m2, m3, m4, m5⟩ := m
  simp only [Cfg.view, mview, View.mk.injEq] at hv
  obtain ⟨rfl, rfl, rfl, rfl, rfl, rfl, rfl, rfl, hh, hq⟩ := hv
  simp only at hg hm hl
  subst hg hm
  cases i <;> simp only [covered, Bool.false_eq_true] at hi <;> simp only [tI, step, Simpleline.step]
  case modalRet e => exact ResRel.ok [] (by vw) rfl rfl (by simp)
  case catchPS => exact ResRel.ok [] (by vw) rfl rfl (by simp)
  case catchDraw => exact ResRel.ok [] (by vw) rfl rfl (by simp)
  case catchPI scr => exact ResRel.ok [] (by vw) rfl rfl (by simp)
  case endPI => exact ResRel.ok [] (by vw) rfl rfl (by simp)
  case classify scr => exact ResRel.ok [] (by vw) rfl rfl (by simp)
  case printLines ls => exact ResRel.ok [] (by vw) rfl rfl (by simp)
  case getInput scr args => exact ResRel.ok [_, _] (by vw) rfl rfl (by simp [mapped])
  case processInput scr key => exact ResRel.ok [_, _, _, _, _] (by vw) rfl rfl (by simp [mapped])
  case pushModal scr args => exact ResRel.ok [_, _] (by vw) rfl rfl (by simp [mapped])
  case maybeInput top =>
    by_cases h : (P.spec top.screen).inputRequired = true
    · simp only [h, if_true]; exact ResRel.ok [_] (by vw) rfl rfl (by simp [mapped])
    · simp only [h]; exact ResRel.ok [] (by vw) rfl rfl (by simp)
  case drawScreen top =>
    by_cases h : (P.spec top.screen).noSeparator = true
    · simp only [h, if_true]; exact ResRel.ok [_, _] (by vw) rfl rfl (by simp [mapped])
    · simp only [h]; exact ResRel.ok [_, _] (by vw) rfl rfl (by simp [mapped])
  case afterSetupFail e =>
    by_cases h : gA.stack = []
    · simp only [h, if_true]; exact ResRel.raise _ [] (by vw) rfl rfl
    · simp only [h]; exact ResRel.ok [] (by vw) rfl rfl (by simp)
  case processScreen =>
    cases hs : gA.stack.getLast? with
    | none => exact ResRel.raise _ [] (by vw) rfl rfl
    | some top =>
      simp only
      by_cases hr : (gA.scr top.screen).ready = true
      · simp only [hr, if_true]; exact ResRel.ok [_] (by vw) rfl rfl (by simp [mapped])
      · simp only [hr]; exact ResRel.ok [_, _] (by vw) rfl rfl (by simp [mapped])
  case closeScreen frm =>
    cases hs : gA.stack.getLast? with
    | none => exact ResRel.raise _ [] (by vw) rfl rfl
    | some e =>
      simp only
      by_cases h : frm ≠ none ∧ frm ≠ some (.scr e.screen)
      · simp only [if_pos h]; exact ResRel.raise _ [] (by vw) rfl rfl
      · simp only [if_neg h]; exact ResRel.ok [_, _] (by vw) rfl rfl (by simp [mapped])
  case closeScreen2 e frm =>
    by_cases h : frm ≠ none ∧ frm ≠ some (.scr e.screen)
    · simp only [if_pos h]; exact ResRel.raise _ [] (by vw) rfl rfl
    · simp only [if_neg h]
      by_cases h2 : e.modal = true
      · simp only [h2, if_true]; exact ResRel.ok [_, _] (by vw) rfl rfl (by simp [mapped])
      · simp only [h2]; exact ResRel.ok [_] (by vw) rfl rfl (by simp [mapped])
  case identCheck top =>
    cases hs : gA.stack.getLast? with
    | none => exact ResRel.raise _ [] (by vw) rfl rfl
    | some l =>
      simp only
      by_cases h : l.eid ≠ top.eid
      · simp only [if_pos h]; exact ResRel.skip (by vw) rfl rfl
      · simp only [if_neg h]; exact ResRel.ok [_, _] (by vw) rfl rfl (by simp [mapped])
  case inputReady n sg =>
    by_cases h : sg.ih ≠ n
    · simp only [if_pos h]; exact ResRel.ok [] (by vw) rfl rfl (by simp)
    · simp only [if_neg h]
      by_cases h2 : ¬ sg.ok = true
      · simp only [if_pos h2]; exact ResRel.ok [] (by vw) rfl rfl (by simp)
      · simp only [if_neg h2]
        cases hc : (gA.ihs.getD n default).cb with
        | none => exact ResRel.ok [] (by vw) rfl rfl (by simp)
        | some scr => exact ResRel.ok [_] (by vw) rfl rfl (by simp [mapped])
  case getInput2 scr args =>
    by_cases h : g2 = true
    · simp only [h, if_true]; exact ResRel.ok [] (by vw) rfl rfl (by simp)
    · simp only [h]
      exact startRequest_rel rg rm _ _ _ _ _ [] (by vw) rfl rfl (by simp)
  case blockingInput scr cont =>
    exact startRequest_rel rg rm _ _ _ _ _ [.waitInput gA.ihs.length] (by vw) rfl rfl (by simp [mapped])
  case note w =>
    have := emit_views P ({ code := rg, L := gL, A := gA, log := gl, tr := gt, nextSid := gs, retSetup := g1, retPromptNone := g2, retInput := g3, retKey := g4, retAction := g5 } : Cfg)
      ({ code := rm, L := mL, A := gA, log := gl, tr := mt, nextSid := gs, retSetup := g1, retPromptNone := g2, retInput := g3, retKey := g4, retAction := g5 } : Simpleline.Cfg) (.note w) (by vw)
    exact ResRel.ok [] this.1 this.2.1 this.2.2.1 (by simp)
  case hret hid =>
    have := emit_views P ({ code := rg, L := gL, A := gA, log := gl, tr := gt, nextSid := gs, retSetup := g1, retPromptNone := g2, retInput := g3, retKey := g4, retAction := g5 } : Cfg)
      ({ code := rm, L := mL, A := gA, log := gl, tr := mt, nextSid := gs, retSetup := g1, retPromptNone := g2, retInput := g3, retKey := g4, retAction := g5 } : Simpleline.Cfg) (.hret hid) (by vw)
    exact ResRel.ok [] this.1 this.2.1 this.2.2.1 (by simp)
  case printWidget scr =>
    cases hw : windowLines P scr with
    | error e => exact ResRel.raise _ [] (by vw) rfl rfl
    | ok lines =>
      simp only
      cases hp : printWidget lines (P.spec scr).height with
      | none => exact ResRel.halt _ (by vw)
      | some evs =>
        refine ResRel.ok (chunkOut scr evs [] []) (by vw) rfl ?_ (chunkOut_mapped scr evs [] [] (by simp))
        simp only [Simpleline.push, (chunkOut_map scr evs [] []).1, List.map_nil]
  case callScr scr cb arg key =>
    have ev := emit_views P
      ({ code := rg, L := gL, A := gA.setScr scr fun s => { s with counts := bump s.counts cb }, log := gl, tr := gt, nextSid := gs, retSetup := g1, retPromptNone := g2, retInput := g3, retKey := g4, retAction := g5 } : Cfg)
      ({ code := rm, L := mL, A := gA.setScr scr fun s => { s with counts := bump s.counts cb }, log := gl, tr := mt, nextSid := gs, retSetup := g1, retPromptNone := g2, retInput := g3, retKey := g4, retAction := g5 } : Simpleline.Cfg)
      (.cb scr cb arg key) (by vw)
    refine ResRel.ok ((if cb = .show then [.printWidget scr] else []) ++ (P.screenScript scr cb (countOf (gA.scr scr).counts cb)).acts.map .act ++
      [.scrRet scr cb (P.screenScript scr cb (countOf (gA.scr scr).counts cb)).ret key]) ev.1 ?_ ?_ ?_
    · simp only [push, ev.2.1]
    · simp only [Simpleline.push, ev.2.2.1]
      by_cases hcb : cb = .show <;> simp [hcb, tI, Function.comp]
    · intro j hj
      simp only [List.mem_append, List.mem_map, List.mem_singleton] at hj
      rcases hj with (hj | ⟨a, _, rfl⟩) | rfl
      · split at hj
        · simp at hj; subst hj; rfl
        · cases hj
      · rfl
      · rfl
  case afterQuit q =>
    cases ha : (P.spec q).answer with
    | none => exact ResRel.raise _ [] (by vw) rfl rfl
    | some a =>
      cases a with
      | none => exact redraw_rel rg rm _ _ (by vw) rfl rfl hl
      | some b =>
        cases b with
        | true => exact ResRel.raise _ [] (by vw) rfl rfl
        | false => exact redraw_rel rg rm _ _ (by vw) rfl rfl hl
  case afterSetup top =>
    by_cases h : g1 = true
    · simp only [h, if_true]; exact ResRel.ok [_] (by vw) rfl rfl (by simp [mapped])
    · simp only [h]
      cases hs : gA.stack.getLast? with
      | none => exact ResRel.raise _ [] (by vw) rfl rfl
      | some e =>
        simp only
        by_cases h2 : e.modal = true
        · simp only [h2, if_true]; exact ResRel.ok [_, _] (by vw) rfl rfl (by simp [mapped])
        · simp only [h2]; exact redraw_rel rg rm _ _ (by vw) rfl rfl hl
  case afterSetup2 top =>
    obtain ⟨c', h1, h2, h3, _⟩ := regSource_ok
      ({ code := rg, L := gL, A := gA, log := gl, tr := gt, nextSid := gs, retSetup := g1, retPromptNone := g2, retInput := g3, retKey := g4, retAction := g5 } : Cfg) (.scr top.screen) hl
    simp only [h1]
    simp only [Cfg.view, View.mk.injEq] at h2
    obtain ⟨e1, e2, e3, e4, e5, e6, e7, e8, e9, e10⟩ := h2
    exact ResRel.ok [.callScr top.screen .refresh top.args none, .identCheck top, .catchPS] (by vw) (by simp [push, Cfg.trace, h3]) rfl (by simp [mapped])
  case quitCb =>
    rw [hq]
    cases mL.quitCb with
    | none => exact ResRel.ok [] (by vw) rfl rfl (by simp)
    | some d =>
      have := emit_views P ({ code := rg, L := gL, A := gA, log := gl, tr := gt, nextSid := gs, retSetup := g1, retPromptNone := g2, retInput := g3, retKey := g4, retAction := g5 } : Cfg)
        ({ code := rm, L := mL, A := gA, log := gl, tr := mt, nextSid := gs, retSetup := g1, retPromptNone := g2, retInput := g3, retKey := g4, retAction := g5 } : Simpleline.Cfg) (.quitcb d) (by vw)
      exact ResRel.ok [] this.1 this.2.1 this.2.2.1 (by simp)
  case scrRet scr cb ret key =>
    cases cb with
    | setup =>
      simp only
      by_cases h : ret = .failBefore
      · simp only [if_pos h]; exact ResRel.ok [] (by vw) rfl rfl (by simp)
      · simp only [if_neg h]
        obtain ⟨c', h1, h2, h3, _⟩ := regSource_ok
          ({ code := rg, L := gL, A := gA.setScr scr fun s => { s with ready := true }, log := gl, tr := gt, nextSid := gs, retSetup := g1, retPromptNone := g2, retInput := g3, retKey := g4, retAction := g5 } : Cfg) (.scr scr) hl
        simp only [h1]
        simp only [Cfg.view, View.mk.injEq] at h2
        obtain ⟨e1, e2, e3, e4, e5, e6, e7, e8, e9, e10⟩ := h2
        exact ResRel.ok [] (by vw) (by simpa using h3) rfl (by simp)
    | prompt => exact ResRel.ok [] (by vw) rfl rfl (by simp)
    | input => exact ResRel.ok [] (by vw) rfl rfl (by simp)
    | refresh => exact ResRel.ok [] (by vw) rfl rfl (by simp)
    | «show» => exact ResRel.ok [] (by vw) rfl rfl (by simp)
    | closed => exact ResRel.ok [] (by vw) rfl rfl (by simp)
  case act a =>
    cases a <;> simp only [schedAct, Bool.false_eq_true] at hi <;> simp only [doAct, Simpleline.doAct]
    case schedule scr args =>
      by_cases h : gA.firstScheduled = true
      · simp only [Cfg.trace, Simpleline.Cfg.trace, h, if_true]; exact ResRel.ok [] (by vw) rfl rfl (by simp)
      · simp only [Cfg.trace, Simpleline.Cfg.trace, h]
        refine redraw_bind_rel rg rm _ _ (by vw) rfl rfl hl (fun c => { c with A := { c.A with firstScheduled := true } })
          (fun m => { m with A := { m.A with firstScheduled := true } }) ?_
        intro c m hcm
        simp only [Cfg.view, mview, View.mk.injEq] at hcm ⊢
        obtain ⟨e1, e2, e3, e4, e5, e6, e7, e8, e9, e10⟩ := hcm
        simp [*]
    case push scr args => exact redraw_rel rg rm _ _ (by vw) rfl rfl hl
    case pushModal scr args => exact ResRel.ok [_, _] (by vw) rfl rfl (by simp [mapped])
    case replace scr args =>
      cases hs : gA.stack.getLast? with
      | none => exact ResRel.raise _ [] (by vw) rfl rfl
      | some old => exact redraw_rel rg rm _ _ (by vw) rfl rfl hl
    case closeDirect => exact ResRel.ok [_] (by vw) rfl rfl (by simp [mapped])
    case closeSig scr => exact enqueue_rel rg rm _ _ _ (by vw) rfl rfl hl
    case redrawSig scr => exact enqueue_rel rg rm _ _ _ (by vw) rfl rfl hl
    case schedRedraw => exact redraw_rel rg rm _ _ (by vw) rfl rfl hl
    case getUserInput scr hidden => exact ResRel.ok [_, _] (by vw) rfl rfl (by simp [mapped])
  case inputReceived sg =>
    cases hs : gA.inputStack.getLast? with
    | none => exact ResRel.raise _ [] (by vw) rfl rfl
    | some r =>
      simp only
      obtain ⟨c1, h1, h2, h3, h4⟩ := enqueue_ok
        (({ code := rg, L := gL, A := gA, log := gl, tr := gt, nextSid := gs, retSetup := g1, retPromptNone := g2, retInput := g3, retKey := g4, retAction := g5 } : Cfg).newSig
          Cls.inputReady 0 (gA.reqs.getD r default).requester sg.line (gA.reqs.getD r default).ih true).snd
        (({ code := rg, L := gL, A := gA, log := gl, tr := gt, nextSid := gs, retSetup := g1, retPromptNone := g2, retInput := g3, retKey := g4, retAction := g5 } : Cfg).newSig
          Cls.inputReady 0 (gA.reqs.getD r default).requester sg.line (gA.reqs.getD r default).ih true).fst hl
      have hm := m_enqueue_view
        (({ code := rm, L := mL, A := gA, log := gl, tr := mt, nextSid := gs, retSetup := g1, retPromptNone := g2, retInput := g3, retKey := g4, retAction := g5 } : Simpleline.Cfg).newSig
          Cls.inputReady 0 (gA.reqs.getD r default).requester sg.line (gA.reqs.getD r default).ih true).snd
        (({ code := rm, L := mL, A := gA, log := gl, tr := mt, nextSid := gs, retSetup := g1, retPromptNone := g2, retInput := g3, retKey := g4, retAction := g5 } : Simpleline.Cfg).newSig
          Cls.inputReady 0 (gA.reqs.getD r default).requester sg.line (gA.reqs.getD r default).ih true).fst
      have hv1 := h2
      rw [show (({ code := rg, L := gL, A := gA, log := gl, tr := gt, nextSid := gs, retSetup := g1, retPromptNone := g2, retInput := g3, retKey := g4, retAction := g5 } : Cfg).newSig
          Cls.inputReady 0 (gA.reqs.getD r default).requester sg.line (gA.reqs.getD r default).ih true).snd.view = mview _ from (by rw [hm.1]; vw)] at hv1
      obtain ⟨c2, k1, k2, k3, k4⟩ := fold_rel gA.inputStack.dropLast c1 _ hv1 (by rw [h4]; exact hl)
      simp only [h1]
      show ResRel rg rm ((List.foldlM foldG c1 gA.inputStack.dropLast) >>= _) _
      rw [k1]
      generalize hM : List.foldl foldM _ gA.inputStack.dropLast = mF at k2 k4
      have hM' : ∀ (X : Simpleline.Cfg), X = mF → ResRel rg rm
          (pure { c2 with A := { c2.A with inputStack := [], processing := false } })
          (Except.ok ({ X with A := { X.A with inputStack := [], processing := false } } : Simpleline.Cfg)) := by
        intro X hX
        subst hX
        simp only [Cfg.view, mview, View.mk.injEq] at k2
        obtain ⟨e1, e2, e3, e4, e5, e6, e7, e8, e9, e10⟩ := k2
        refine ResRel.ok [] (by vw) ?_ ?_ (by simp)
        · simp [k3, h3, Cfg.newSig]
        · show X.code = [].map tI ++ rm
          rw [k4, hm.2]; rfl
      first | exact hM' _ hM | exact hM' _ rfl
  case countAndAct scr =>
    generalize gA.setScr scr _ = A'
    cases hs : A'.stack.getLast? with
    | none => exact ResRel.raise _ [] (by vw) rfl rfl
    | some top =>
      simp only
      cases g5 with
      | error =>
        simp only
        by_cases h : (A'.scr scr).err % 5 = 0
        · simp only [if_pos h]; exact redraw_rel rg rm _ _ (by vw) rfl rfl hl
        · simp only [if_neg h]; exact ResRel.ok [_] (by vw) rfl rfl (by simp [mapped])
      | noop => exact ResRel.ok [] (by vw) rfl rfl (by simp)
      | redraw => exact redraw_rel rg rm _ _ (by vw) rfl rfl hl
      | close => exact ResRel.ok [_] (by vw) rfl rfl (by simp [mapped])
      | quit =>
        simp only
        cases hq : P.quitScreen with
        | none => exact ResRel.raise _ [] (by vw) rfl rfl
        | some q => exact ResRel.ok [_, _] (by vw) rfl rfl (by simp [mapped])
  case closeScreen3 e =>
    by_cases h : gA.stack ≠ [] ∧ ¬ e.modal = true
    · obtain ⟨c', h1, h2, h3, _⟩ := redraw_ok
        ({ code := rg, L := gL, A := gA, log := gl, tr := gt, nextSid := gs, retSetup := g1, retPromptNone := g2, retInput := g3, retKey := g4, retAction := g5 } : Cfg) hl
      simp only [if_pos h, h1]
      have hA : c'.A = gA := congrArg View.A h2
      have hm := m_redraw_view ({ code := rm, L := mL, A := gA, log := gl, tr := mt, nextSid := gs, retSetup := g1, retPromptNone := g2, retInput := g3, retKey := g4, retAction := g5 } : Simpleline.Cfg)
      have hA' : (Simpleline.Cfg.redraw ({ code := rm, L := mL, A := gA, log := gl, tr := mt, nextSid := gs, retSetup := g1, retPromptNone := g2, retInput := g3, retKey := g4, retAction := g5 } : Simpleline.Cfg)).A = gA := congrArg View.A hm.1
      show ResRel rg rm (if c'.A.stack = [] then c'.raise .exit else pure c') _
      rw [hA, hA']
      have hv' : c'.view = mview (Simpleline.Cfg.redraw ({ code := rm, L := mL, A := gA, log := gl, tr := mt, nextSid := gs, retSetup := g1, retPromptNone := g2, retInput := g3, retKey := g4, retAction := g5 } : Simpleline.Cfg)) := by
        rw [h2, hm.1]; vw
      by_cases h0 : gA.stack = []
      · simp only [if_pos h0]; exact ResRel.raise _ [] hv' (by simpa using h3) (by simpa using hm.2)
      · simp only [if_neg h0]; exact ResRel.ok [] hv' (by simpa using h3) (by simpa using hm.2) (by simp)
    · simp only [if_neg h]
      show ResRel rg rm (if gA.stack = [] then _ else _) _
      by_cases h0 : gA.stack = []
      · simp only [if_pos h0]; exact ResRel.raise _ [] (by vw) rfl rfl
      · simp only [if_neg h0]; exact ResRel.ok [] (by vw) rfl rfl (by simp)

/-- the two machines start with the same view (same start-up actions, same registrations, same typed lines), with a loop
on the GLib side — the hypotheses of `C20e_same_scheduler` are satisfiable, and stay so as long as the loop-level
instructions keep the views equal -/
theorem C20e_init_same_view (init : List Act) (hs : List (Cls × HRef × Option Nat)) (q : Option Nat) (stdin : List Str) :
    (initCfg init hs q stdin).view = mview (Simpleline.initCfg init hs q stdin) ∧ (initCfg init hs q stdin).L.loops ≠ [] ∧
    (initCfg init hs q stdin).code.map tI = (Simpleline.initCfg init hs q stdin).code := by
  refine ⟨rfl, by simp [initCfg], ?_⟩
  simp [initCfg, Simpleline.initCfg, tI, Function.comp]

/-
  NOT DONE: `C20e_batch_dispatch_order` (the history-level order of the dispatch events of one batch; the two missing
  invariants are described in `Props/C20b.lean`).
-/

end Simpleline.G
