/-
  C20f — the quit callback on the GLib machine (the clause left open in `Props/C20c.lean`; the analogue of
  `C09_quit_callback_once` for `MainLoop`).  Lemmas in `Lemmas/GMf*.lean`.
-/
import Simpleline.Lemmas.GMfInv

namespace Simpleline.G

/-- **The quit callback is invoked at most once, with the argument it was registered with.**  In every execution of the
GLib machine — every program, every start-up, every reachable configuration, every timing of the reader thread — the log
contains at most one quit-callback event; every such event carries the datum registered before `run()`; the registration
itself never changes; and once the event is logged neither `apprun` nor the `quitCb` instruction is pending any more (so it
cannot happen again). -/
theorem C20f_quit_callback_at_most_once (P : Prog) (c0 c : Cfg) (h0 : Started c0) (hr : Reach P c0 c) :
    c.log.countP isQ ≤ 1 ∧ (∀ d, Ev.quitcb d ∈ c.log → c0.L.quitCb = some d) ∧ c.L.quitCb = c0.L.quitCb ∧
    (c.log.countP isQ = 1 → Instr.quitCb ∉ c.code ∧ Instr.apprun ∉ c.code) := by
  obtain ⟨h1, h2, h3⟩ := qInv_reach h0 hr
  rw [← List.countP_eq_length_filter] at h2
  refine ⟨by omega, h3, h1, fun h => ?_⟩
  have hz : c.code.countP qa = 0 := by omega
  rw [List.countP_eq_zero] at hz
  exact ⟨fun hm => by simpa [qa] using hz _ hm, fun hm => by simpa [qa] using hz _ hm⟩

/-- non-vacuity: a run that ends by an exit request logs the registered quit callback exactly once, as the last event
(the program of `C20c_exit_batch_continues`) -/
example :
    let P : Prog := { cc := asciiClass, runEmpty := true, handlerScript := fun hid n => if hid = 0 ∧ n = 0 then [.raiseExit] else [] }
    let r := runFuel P 200 (initCfg [.enq (.user 0) 0 .none 7, .enq (.user 0) 0 .none 8] [(.user 0, .user 0, none), (.user 0, .user 1, none)] (some 9) [])
    r.2 = .returned ∧ r.1.log.countP isQ = 1 ∧ r.1.log.head? = some (.quitcb 9) := by
  decide +kernel

end Simpleline.G
