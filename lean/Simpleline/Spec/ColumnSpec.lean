/-
  Specification-level vocabulary for C15b / C16b (`ColumnWidget`). Definitions only.

  A rendered `ColumnWidget` is described by the *grids* of its columns: for every column its declared
  width (or `None`) and the renderings (`get_lines()`) of its widgets, top to bottom.
-/
import Simpleline.Model.Column
import Simpleline.Spec.WidgetSpec

namespace Simpleline

/-! ### C16b: forgetting the object state -/

/-- the `ColumnWidget` with every Python object's mutable rendering state forgotten: its own buffer
and cursor and (by `Wd.reset`) those of every widget in every column; what is left is the contents:
the spacing, the column widths and the widgets' contents -/
def ColW.reset (c : ColW) : ColW :=
  { st := {}, spacing := c.spacing, cols := c.cols.map fun p => (p.1, resetList p.2) }

/-! ### C15b: what is drawn, and where -/

/-- the renderings of the widgets of every column -/
def colGrids (cols : List (Option Nat × List Wd)) : List (Option Nat × List Grid) :=
  cols.map fun p => (p.1, p.2.map Wd.lines)

/-- the widgets of one column drawn one below the other from `(row, col)` on (block mode) -/
def drawStack : Grid → Nat → Nat → List Grid → Grid
  | B, _, _, [] => B
  | B, row, col, g :: gs => drawStack (drawInto B g row col) (row + g.length) col gs

/-- the columns drawn left to right, the first one starting at character column `pos` -/
def drawCols (spacing : Nat) : Grid → Nat → List (Option Nat × List Grid) → Grid
  | B, _, [] => B
  | B, pos, (cw, gs) :: rest =>
    drawCols spacing (drawStack B 0 pos gs)
      (max (pos + cw.getD 0) (gridWidth (drawStack B 0 pos gs)) + spacing) rest

/-- how far right a column that starts at `pos` reaches: a widget with at least one row reaches
`pos +` its width (an empty row still pads the target up to `pos`), a widget without rows draws nothing -/
def gridsExtent (pos : Nat) : List Grid → Nat
  | [] => 0
  | g :: gs => max (if g = [] then 0 else pos + gridWidth g) (gridsExtent pos gs)

/-- the `col_pos` recurrence, without any buffer: `wide` is the widest row so far, `pos` the start of
the next column; the list of the starts of all columns -/
def colStartsFrom (spacing : Nat) : Nat → Nat → List (Option Nat × List Grid) → List Nat
  | _, _, [] => []
  | wide, pos, (cw, gs) :: rest =>
    pos :: colStartsFrom spacing (max wide (gridsExtent pos gs))
      (max (pos + cw.getD 0) (max wide (gridsExtent pos gs)) + spacing) rest

/-- the first buffer row of widget `j` of a column: the sum of the heights of the widgets above it -/
def gridsTop (gs : List Grid) (j : Nat) : Nat := ((gs.take j).map List.length).sum

/-- the height of a column: the sum of the heights of its widgets -/
def gridsHeight (gs : List Grid) : Nat := (gs.map List.length).sum

/-- the height of the layout: the highest column (0 without columns) -/
def colsHeight : List (Option Nat × List Grid) → Nat
  | [] => 0
  | (_, gs) :: rest => max (gridsHeight gs) (colsHeight rest)

/-- the width a column's widgets are rendered at: the declared one, or what is left of `width` right
of the column's start -/
def colMaxW (cw : Option Nat) (width : Int) (start : Nat) : Int :=
  match cw with
  | some c => (c : Int)
  | none => width - (start : Int)

/-- the renderings held by a `ColumnWidget` object -/
def ColW.grids (c : ColW) : List (Option Nat × List Grid) := colGrids c.cols

/-- the character column where column `k` starts -/
def ColW.colStart (c : ColW) (k : Nat) : Nat := (colStartsFrom c.spacing 0 0 c.grids).getD k 0

/-- the buffer row where widget `j` of column `k` starts -/
def ColW.widgetTop (c : ColW) (k j : Nat) : Nat := gridsTop (c.grids.getD k (none, [])).2 j

/-- the rendering of widget `j` of column `k` (no rows if there is no such widget) -/
def ColW.widgetGrid (c : ColW) (k j : Nat) : Grid := ((c.grids.getD k (none, [])).2).getD j []

end Simpleline
