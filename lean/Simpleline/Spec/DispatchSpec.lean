/-
  Specification vocabulary for C02 (dispatch), C09 (stopping) and C10 (waiting): executions, the origin of
  trace events, exception catchers.  Definitions only.
-/
import Simpleline.Spec.MachineSpec

namespace Simpleline.Dispatch
open Simpleline

/-! ### executions -/

/-- `c'` is reached from `c` by finitely many transitions (steps, deliveries, the halting step) -/
inductive Steps (P : Prog) : Cfg → Cfg → Prop
  | refl (c : Cfg) : Steps P c c
  | tail {c c' c'' : Cfg} : Steps P c c' → Trans P c' c'' → Steps P c c''

/-- the configurations of a run that has not halted: closed under machine steps and deliveries (not under the
halting step — `Reach` also contains the final configuration of a run that died, which has no code left either) -/
inductive Live (P : Prog) (c0 : Cfg) : Cfg → Prop
  | init : Live P c0 c0
  | step {c c' : Cfg} : Live P c0 c → step P c = .ok c' → Live P c0 c'
  | deliver {c c' : Cfg} : Live P c0 c → c.deliver = some c' → Live P c0 c'

/-- run for at most `n` steps and stop *before* the halting step: the last configuration of the run that is still live -/
def runLive (P : Prog) : Nat → Cfg → Cfg
  | 0, c => c
  | n + 1, c =>
    match step P c with
    | .ok c' => runLive P n c'
    | .error _ => c

def isQuitcbEv : Ev → Bool
  | .quitcb _ => true
  | _ => false

def isApprun : Instr → Bool
  | .apprun => true
  | _ => false

/-- `App.run()` has been entered (or the start-up code died before reaching it): no `apprun` is pending -/
def AfterStart (c : Cfg) : Prop := c.code.all (fun i => !isApprun i) = true

instance (c : Cfg) : Decidable (AfterStart c) := inferInstanceAs (Decidable (_ = _))

/-! ### `enqueue_signal` -/

/-- the queue store after `enqueue_signal` -/
def enqQ (L : LoopSt) (s : Sig) : List EQueue :=
  if L.forceQuit then L.queues else listSet L.queues (L.route s.src) (·.put s)

/-- the trace event `enqueue_signal` adds -/
def enqT (L : LoopSt) (s : Sig) : Tr :=
  if L.forceQuit then .dropped s else .enq (L.route s.src) s

def renderSig (n : Nat) : Sig := { id := n + 1, cls := .render, prio := 0, src := .sched }

def lineSig (c : Cfg) (r : Nat) : Sig :=
  { id := c.nextSid + 1, cls := .inputReceived, prio := 0, src := .req r, line := c.A.stdin.headD [] }

/-! ### exceptions -/

/-- the catchers of an ordinary exception, with the source the resulting `ExceptionSignal` carries -/
def errCatch : Instr → Option Src
  | .catchHandler => some .loop
  | .catchPS => some .sched
  | .catchDraw => some .sched
  | .catchPI scr => some (.im scr)
  | _ => none

def isCatchExit : Instr → Bool
  | .catchExit => true
  | _ => false

def notEndPI : Instr → Bool
  | .endPI => false
  | _ => true

/-- where execution continues after catcher `ins` caught an exception (`rest` = what follows the catcher) -/
def afterCatch : Instr → List Instr → List Instr
  | .catchPI _, rest => (rest.dropWhile notEndPI).drop 1
  | _, rest => rest

def excSig (n : Nat) (src : Src) : Sig := { id := n + 1, cls := .exception, prio := -20, src := src }

/-- the effect of a catcher on the state: one `ExceptionSignal` from `src` is enqueued -/
def excEnq (c : Cfg) (src : Src) : Cfg :=
  { c with L := { c.L with queues := enqQ c.L (excSig c.nextSid src) },
           tr := enqT c.L (excSig c.nextSid src) :: c.tr, nextSid := c.nextSid + 1 }

/-- the outcome of an uncaught exception -/
def failOutcome : Kind → Outcome
  | .sysexit => .killed 1
  | .exit => .raised "exit"
  | .err => .raised "err"

/-- the state in which unwinding starts: an exit request is traced -/
def preRaise (c : Cfg) (k : Kind) : Cfg :=
  match k with
  | .exit => { c with tr := .exit :: c.tr }
  | _ => c

/-! ### where trace and log events come from -/

/-- What must have been the case in `c` for a transition `c → c'` to add trace event `t`:
the instruction that was executed (the head of `c.code`) and the relevant part of the state. -/
def TrOrigin (c c' : Cfg) : Tr → Prop
  | .call h d s => c.code.head? = some (.callH h d s)
  | .dispatched s n =>
      (c.code.head? = some (.dispatch s n) ∧ ((handlersOf c.L s.cls)[n]? = none ∨ c.L.forceQuit = true)) ∨
      (c.code.head? = some (.processSignal s) ∧ n = 0 ∧ handlersOf c.L s.cls = [] ∧ s.cls ≠ .exception)
  | .loopReturn q => c.code.head? = some (.mainCheck q) ∧ c.L.runLoop = false
  | .waitBegin cls t => c.code.head? = some (.procWait cls) ∧ t = c.L.tcounter
  | .waitEnd cls t true =>
      c.code.head? = some (.waitCheck cls t) ∧ ∃ k ∈ c.L.tickets, k.line = cls ∧ k.id = t ∧ k.marked = true
  | .waitEnd cls t false => c.code.head? = some (.waitStep cls t) ∧ c.L.runLoop = false
  | .take _ s =>
      c'.code.head? = some (.processSignal s) ∧
      (c.code.head? = some .getDispatch ∨ (∃ cls t, c.code.head? = some (.waitStep cls t) ∧ c.L.runLoop = true) ∨
       (∃ p, c.code.head? = some (.procIter p) ∧ (p = none ∨ p = some s.prio) ∧ c.L.runLoop = true ∧
          ∃ e es, c.L.activeQ.entries = e :: es ∧ e.2.2 = s))
  | .procEnd =>
      ∃ p, c.code.head? = some (.procIter p) ∧ c'.L.queues = c.L.queues ∧
        (c.L.activeQ.entries = [] ∨ c.L.runLoop = false ∨
          ∃ pr e es, p = some pr ∧ c.L.activeQ.entries = e :: es ∧ e.2.2.prio ≠ pr)
  | .putBack q s =>
      ∃ pr e es, c.code.head? = some (.procIter (some pr)) ∧ q = c.L.active ∧ c.L.activeQ.entries = e :: es ∧
        e.2.2 = s ∧ s.prio ≠ pr
  | .forceQuit => c.code.head? = some (.act .forceQuit)
  | .kill => ∃ s, c.code.head? = some (.kill s)
  | .closeLevel q => c.code.head? = some .popLevel ∧ c.L.levels.getLast? = some q
  | .closeReq r n => c.code.head? = some .closeLoop ∧ r = c.L.runLoop ∧ n = c.L.activeQ.entries.length
  | .openLevel q r =>
      ∃ s, c.code.head? = some (.newLoop s) ∧ c.L.forceQuit = false ∧ q = c.L.queues.length ∧ r = c.L.runLoop
  | _ => True

/-- … and for it to log the observable event `e` -/
def LogOrigin (c : Cfg) : Ev → Prop
  | .quitcb d => c.code.head? = some .quitCb ∧ c.L.quitCb = some d
  | .h hid sid d depth =>
      ∃ s, c.code.head? = some (.callH (.user hid) d s) ∧ s.id = sid ∧ depth = c.L.levels.length
  | .hret hid => c.code.head? = some (.hret hid)
  | _ => True

/-! ### waiting -/

/-- the part of a history (newest first) that is newer than the newest occurrence of event `e` -/
def since (e : Tr) (tr : List Tr) : List Tr := tr.takeWhile (· ≠ e)

/-! ### the history of one signal -/

/-- the handler invocations `(callback, data)` made for signal `s`, oldest first -/
def callsOf (s : Sig) : List Tr → List (HRef × Option Nat)
  | [] => []
  | .call h d s' :: tr => if s' = s then callsOf s tr ++ [(h, d)] else callsOf s tr
  | _ :: tr => callsOf s tr

/-- the handler call for `s` that is the next instruction (pushed by `dispatch`, not yet executed), if any -/
def pend (s : Sig) : List Instr → List (HRef × Option Nat)
  | .callH h d s' :: _ => if s' = s then [(h, d)] else []
  | _ => []

/-- how often signal `s` was taken from a queue for dispatch -/
def takeCount (s : Sig) : List Tr → Nat
  | [] => 0
  | .take _ s' :: tr => if s' = s then takeCount s tr + 1 else takeCount s tr
  | _ :: tr => takeCount s tr

end Simpleline.Dispatch
