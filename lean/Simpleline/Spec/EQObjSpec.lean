/-
  Vocabulary for C03c: kinds of calls on an `EventQueue`, and "the source is registered" as a property of the
  call history.
-/
import Simpleline.Model.EventQueueObj

namespace Simpleline.EQObj

/-- is the call one of the source API that does not enqueue (`add_source`, `remove_source`, `contains_source`)? -/
def Op.isSourceOp : Op → Bool
  | .addSource _ | .removeSource _ | .contains _ => true
  | _ => false

/-- is the call one of `enqueue`, `get`, `get_top_event_if_priority`? -/
def Op.isSignalOp : Op → Bool
  | .put _ | .get | .getTop _ => true
  | _ => false

/-- In the call history `ops` (oldest first) the source `x` is registered: there is an `add_source(x)` that is not
followed by any `remove_source(x)`. (Equivalently "not followed by a *successful* `remove_source(x)`": the first
`remove_source(x)` after an `add_source(x)` always succeeds.) -/
def Registered (x : Src) (ops : List Op) : Prop :=
  ∃ pre post, ops = pre ++ Op.addSource x :: post ∧ Op.removeSource x ∉ post

/-- the same, computed by one pass over the history, starting from "registered = `b`" -/
def regAfter (x : Src) (b : Bool) : List Op → Bool
  | [] => b
  | o :: os =>
    regAfter x (match o with
      | .addSource x' => decide (x = x') || b
      | .removeSource x' => b && !decide (x = x')
      | _ => b) os

end Simpleline.EQObj
