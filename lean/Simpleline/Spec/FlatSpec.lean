/-
  C20d — vocabulary that connects the abstract one-level scheduling core of `Model/GLoop.lean` (`mrun` / `grun`, about
  which `Props/C20.lean` speaks) with the two validated machines (`Model/Machine.lean`: `MainLoop`;
  `Model/GMachine.lean`: `GLibEventLoop`), for *flat* programs.  Definitions only.

  A flat application registers handlers for user signal classes, enqueues user signals before `run()`, and its
  handlers do nothing but enqueue further user signals (no signal source): no screens, no input, no nested loops, no
  exceptions.  This is the class of programs the C20 check (`Driver/GLoopIO.lean: flatProg`) runs on both real loops.
-/
import Simpleline.Model.GLoop
import Simpleline.Model.GMachine

namespace Simpleline.Flat
open Simpleline Simpleline.GLoop

/-! ### signals: `Sig ↔ GSig` -/

/-- the machine signal of an abstract signal: class `user cls`, no source -/
def sigOf (g : GSig) : Sig := { id := g.id, cls := .user g.cls, prio := g.prio, src := .none }

def clsNum : Cls → Nat
  | .user n => n
  | _ => 0

/-- the abstract signal of a machine signal (inverse of `sigOf` on flat signals) -/
def gsigOf (s : Sig) : GSig := { id := s.id, cls := clsNum s.cls, prio := s.prio }

/-- the one action of flat scripts: `enqueue_signal` of a user-class signal without source -/
def actOf (g : GSig) : Act := .enq (.user g.cls) g.prio .none g.id

/-- the abstract signal a flat action enqueues; `none` for every other action -/
def actSig : Act → Option GSig
  | .enq (.user k) p .none sid => some { id := sid, cls := k, prio := p }
  | _ => none

/-! ### flat programs -/

/-- A machine program is flat when `App.run()` may start with nothing scheduled and every handler script consists of
enqueues of user-class signals without source only.  (Scripts are functions of the handler id and the invocation
number, so this is a `∀` over the decidable per-script check; programs given by a finite table — `tableProg` — are flat
(`flat_tableProg`).  Screens and delivery points of `P` need not be restricted: a flat program never shows a screen and
never starts a reader thread, so nothing is ever delivered.) -/
def Flat (P : Prog) : Prop :=
  P.runEmpty = true ∧ ∀ hid n, (P.handlerScript hid n).all (fun a => (actSig a).isSome) = true

/-- registered handlers of a flat application: user handlers on user classes -/
def flatHandler (h : Cls × HRef × Option Nat) : Bool :=
  match h with
  | (.user _, .user _, _) => true
  | _ => false

def FlatHandlers (hs : List (Cls × HRef × Option Nat)) : Prop := hs.all flatHandler = true

instance (hs : List (Cls × HRef × Option Nat)) : Decidable (FlatHandlers hs) := by
  unfold FlatHandlers; infer_instance

/-- a program given by a finite table: `(hid, scripts)`, the `n`-th script is the `n`-th invocation's -/
def tableProg (cc : CharClass) (tbl : List (Nat × List (List GSig))) : Prog :=
  { cc := cc, runEmpty := true,
    handlerScript := fun hid n =>
      ((((tbl.find? (·.1 = hid)).map (·.2)).getD [])[n]?.getD []).map actOf }

/-- the start-up enqueues -/
def initActs (init : List GSig) : List Act := init.map actOf

/-! ### the abstraction of a flat program -/

/-- what handler `hid` enqueues at its `n`-th invocation -/
def script (P : Prog) (hid n : Nat) : List GSig := (P.handlerScript hid n).filterMap actSig

/-- invocation counter of handler `hid` -/
def cntOf (st : List (Nat × Nat)) (hid : Nat) : Nat := ((st.find? (·.1 = hid)).map (·.2)).getD 0

def bumpSt (st : List (Nat × Nat)) (hid : Nat) : List (Nat × Nat) :=
  if st.any (·.1 = hid) then st.map (fun p => if p.1 = hid then (p.1, p.2 + 1) else p) else st ++ [(hid, 1)]

/-- the callbacks registered for a class, in registration order (`handlersOf` of both machines) -/
def hsOf (hs : List (Cls × HRef × Option Nat)) (c : Cls) : List (HRef × Option Nat) :=
  (hs.filter (·.1 = c)).map (·.2)

/-- one handler call: bump its counter, append the script of this invocation -/
def hStep (P : Prog) (acc : List (Nat × Nat) × List GSig) (h : HRef × Option Nat) : List (Nat × Nat) × List GSig :=
  match h.1 with
  | .user hid => (bumpSt acc.1 hid, acc.2 ++ script P hid (cntOf acc.1 hid))
  | _ => acc

/-- The abstract handler program of a flat machine program with registered handlers `hs` (the driver's `flatProg`):
the state is the invocation counter per handler id; dispatching `s` runs every handler registered for `s.cls` in
registration order, each contributing its script for its current invocation number. -/
def absProg (P : Prog) (hs : List (Cls × HRef × Option Nat)) : GLoop.Prog (List (Nat × Nat)) := fun st s =>
  (hsOf hs (.user s.cls)).foldl (hStep P) (st, [])

/-! ### the observable log of a run -/

/-- the events of dispatching signal `sid` to the callbacks `l`: `H hid sid data depth` and `h< hid` per handler -/
def hLog (l : List (HRef × Option Nat)) (sid : Nat) : List Ev :=
  l.flatMap fun h => match h.1 with
    | .user hid => [.h hid sid h.2 1, .hret hid]
    | _ => []

/-- the `done` list of an abstract run expanded into the per-handler invocation events, oldest first -/
def runLog (hs : List (Cls × HRef × Option Nat)) (done : List GSig) : List Ev :=
  done.flatMap fun g => hLog (hsOf hs (.user g.cls)) g.id

/-- the handler invocations `(hid, signal id)` of a machine log (newest first), oldest first -/
def invocations (log : List Ev) : List (Nat × Nat) :=
  log.reverse.filterMap fun e => match e with
    | .h hid sid _ _ => some (hid, sid)
    | _ => none

/-! ### machine runs -/

/-- the handlers every application starts with (`initCfg` of both machines) -/
def baseH : List (Cls × HRef × Option Nat) :=
  [(.render, .render, none), (.close, .close, none), (.inputReceived, .itm, none)]

/-- the pending code of the MainLoop machine between two dispatches of `App.run()`'s loop -/
def mFrame : List Instr := [.loopCheck, .mainCheck 0, .catchExit, .quitCb]

/-- any number of successful steps of the MainLoop machine -/
inductive MSteps (P : Prog) : Cfg → Cfg → Prop
  | refl (c : Cfg) : MSteps P c c
  | head {c c' c'' : Cfg} : step P c = .ok c' → MSteps P c' c'' → MSteps P c c''

/-- any number of successful steps of the GLib machine -/
inductive GSteps (P : Prog) : G.Cfg → G.Cfg → Prop
  | refl (c : G.Cfg) : GSteps P c c
  | head {c c' c'' : G.Cfg} : G.step P c = .ok c' → GSteps P c' c'' → GSteps P c c''

/-- the signals pending in the active queue of the MainLoop machine, in the order they will be taken -/
def mqueue (c : Cfg) : List GSig := c.L.activeQ.entries.map fun x => gsigOf x.2.2

/-- number of calls of user handler `hid` so far (the machines compute invocation numbers from the trace) -/
def callCount (tr : List Tr) (hid : Nat) : Nat :=
  (tr.filter fun t => match t with | .call (.user h') _ _ => h' = hid | _ => false).length

def gcallCount (tr : List G.Tr) (hid : Nat) : Nat :=
  (tr.filter fun t => match t with | .m (.call (.user h') _ _) => h' = hid | _ => false).length

/-- The MainLoop machine at a dispatch boundary `c` corresponds to the abstract state `m`: the loop frame is pending,
the active queue holds `m.queue`, the invocation counters are `m.st`, and the log is `m.done` expanded. -/
structure MRel (hs : List (Cls × HRef × Option Nat)) (c : Cfg) (m : MState (List (Nat × Nat))) : Prop where
  code : c.code = mFrame
  queue : mqueue c = m.queue
  cnt : ∀ hid, callCount c.tr hid = cntOf m.st hid
  log : c.log.reverse = runLog hs m.done

/-- the sources attached to the context of the GLib machine, in attach order -/
def gattached (c : G.Cfg) : List GSig := (c.ctx 0).sources.map fun g => gsigOf g.sig

/-- the batch elements of the pending `gDisp` instructions at the head of the code -/
def gbatchOf : List G.Instr → List G.GSource
  | .gDisp _ _ g :: rest => g :: gbatchOf rest
  | _ => []

/-- the code after the pending `gDisp` instructions -/
def gafterBatch : List G.Instr → List G.Instr
  | .gDisp _ _ _ :: rest => gafterBatch rest
  | l => l

/-- The GLib machine at a dispatch boundary `c` corresponds to the abstract state `g`: the rest of the current
iteration's batch (pending `gDisp`s) then `run()`'s loop are pending, the context's attached sources are `g.attached`,
the invocation counters are `g.st`, and the log is `g.done` expanded. -/
structure GRel (hs : List (Cls × HRef × Option Nat)) (c : G.Cfg) (g : GState (List (Nat × Nat))) : Prop where
  code : gafterBatch c.code = [.gRun 0, .quitCb]
  batch : (gbatchOf c.code).map (fun x => gsigOf x.sig) = g.batch
  attached : gattached c = g.attached
  cnt : ∀ hid, gcallCount c.tr hid = cntOf g.st hid
  log : c.log.reverse = runLog hs g.done

end Simpleline.Flat
