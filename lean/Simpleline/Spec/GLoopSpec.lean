/-
  C20, loop level: vocabulary for comparing the two dispatch disciplines of `Model/GLoop.lean`.

  * `stableSort l` — the stable priority sort of an attach-ordered list: what the `MainLoop` queue looks like after
    the signals of `l` have been enqueued in that order into an empty queue.
  * `collect attached` — the batch a GLib iteration collects: all attached sources of the most urgent priority
    present, in attach order.
  * `Sim m g` — the simulation relation between a `MainLoop` state and a GLib state that calm runs preserve.
-/
import Simpleline.Model.GLoop

namespace Simpleline.GLoop

/-- enqueue the signals of `l`, in order, into an empty `MainLoop` queue -/
def stableSort (l : List GSig) : List GSig := l.foldl (fun q e => insertStable e q) []

/-- the batch one GLib iteration collects from the attached sources -/
def collect (attached : List GSig) : List GSig :=
  match minPrio attached with
  | some p => attached.filter (fun s => s.prio = p)
  | none => []

/-- Sibling-calm, a weaker hypothesis than `calmStep`: when a signal is dispatched while another signal *of the
same priority* is pending, its handlers enqueue nothing more urgent than it (`calmStep` asks this whenever any
other signal is pending). -/
def sibCalmStep {σ : Type} (P : Prog σ) (m : MState σ) : Bool :=
  match m.queue with
  | [] => true
  | s :: rest => rest.all (fun x => decide (x.prio ≠ s.prio)) || (P m.st s).2.all (fun e => decide (s.prio ≤ e.prio))

/-- sibling-calm along the first `n` steps of the MainLoop run -/
def sibCalmRun {σ : Type} (P : Prog σ) : Nat → MState σ → Bool
  | 0, _ => true
  | n + 1, m => sibCalmStep P m && (match mstep P m with
    | some m' => sibCalmRun P n m'
    | none => true)

/-- The two loops are in step: same program state, same dispatch history, the `MainLoop` queue is the stable
priority sort of GLib's attached sources (same pending signals), and the rest of GLib's current batch is what
`MainLoop` is going to take next: it heads the queue and nothing pending is more urgent than any of it. -/
structure Sim {σ : Type} (m : MState σ) (g : GState σ) : Prop where
  st : m.st = g.st
  done : m.done = g.done
  queue : m.queue = stableSort g.attached
  batch_prefix : g.batch <+: m.queue
  batch_urgent : ∀ b ∈ g.batch, ∀ x ∈ m.queue, b.prio ≤ x.prio

end Simpleline.GLoop
