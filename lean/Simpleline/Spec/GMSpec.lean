/-
  Specification-level vocabulary for the GLib machine (`Model/GMachine.lean`): reachability (every execution, every
  timing of the reader thread), started configurations, transitions, trace helpers.  Definitions only.
  (Mirror of `Spec/MachineSpec.lean`.)
-/
import Simpleline.Model.GMachine

namespace Simpleline.G

/-- the initial configurations of `App.run()` on a `GLibEventLoop`: any start-up actions, any registered handlers -/
def Started (c0 : Cfg) : Prop :=
  ∃ init handlers quitCb stdin, c0 = initCfg init handlers quitCb stdin

/-- Every configuration an execution of program `P` from `c0` can be in: closed under machine steps, under the
environment transition `deliver` (the reader thread handing in the next typed line) at any moment, and containing the
final configuration of a step that ends the run. -/
inductive Reach (P : Prog) (c0 : Cfg) : Cfg → Prop
  | init : Reach P c0 c0
  | step {c c' : Cfg} : Reach P c0 c → step P c = .ok c' → Reach P c0 c'
  | deliver {c c' : Cfg} : Reach P c0 c → c.deliver = some c' → Reach P c0 c'
  | halt {c c' : Cfg} {o : Outcome} : Reach P c0 c → step P c = .error (o, c') → Reach P c0 c'

/-- one transition of an execution: a machine step, a delivery, or the halting step -/
inductive Trans (P : Prog) : Cfg → Cfg → Prop
  | step {c c' : Cfg} : step P c = .ok c' → Trans P c c'
  | deliver {c c' : Cfg} : c.deliver = some c' → Trans P c c'
  | halt {c c' : Cfg} {o : Outcome} : step P c = .error (o, c') → Trans P c c'

/-- any number of transitions -/
inductive Steps (P : Prog) : Cfg → Cfg → Prop
  | refl {c : Cfg} : Steps P c c
  | tail {c c' c'' : Cfg} : Steps P c c' → Trans P c' c'' → Steps P c c''

/-- the trace events a transition added (the trace is newest first and only grows) -/
def newTr (c c' : Cfg) : List Tr := c'.tr.take (c'.tr.length - c.tr.length)

/-- `App.run()` has been entered: the `apprun` instruction (which resets the force-quit flag) is no longer pending -/
def AfterStart (c : Cfg) : Prop := Instr.apprun ∉ c.code

end Simpleline.G
