/-
  Specification-level vocabulary for C11b: the greedy word wrap of a list of chunks, written as the
  textbook rule, independently of the stage functions of `wrapStep` (Model/Text.lean). From the model
  it reuses only `blank` (a whitespace-only chunk) and `cutPoint` (where a word longer than a whole
  line is cut: at the room left, or earlier right after a hyphen).

  Definitions only, plus the termination argument of `greedyFrom` (every line consumes something).
  `WithBlanks` is the vocabulary of "no word is lost or repeated".
-/
import Simpleline.Model.Text

namespace Simpleline

/-- number of characters of a list of chunks -/
def chunksWidth (cs : List (List Char)) : Nat := cs.flatten.length

/-- How many of the first chunks fit together in `room` columns: the length of the longest prefix of
`chunks` that fits (`C11_greedy_longest_prefix`). -/
def fitCount (room : Nat) : List (List Char) → Nat
  | [] => 0
  | c :: cs => if c.length ≤ room then fitCount (room - c.length) cs + 1 else 0

/-- One line of width `w`: (the chunks put on the line, the chunks left for the following lines).
The line takes the longest prefix `fit` of the chunks that fits. The next chunk `c` starts the next
line — unless it is longer than a whole line: then it is cut, its beginning fills the room left on
this line (possibly no room at all) and the remainder is left as a chunk. -/
def greedyLine (w : Nat) (chunks : List (List Char)) : List (List Char) × List (List Char) :=
  let fit := chunks.take (fitCount w chunks)
  match chunks.drop (fitCount w chunks) with
  | [] => (fit, [])
  | c :: rest =>
    if c.length ≤ w then (fit, c :: rest)
    else (fit ++ [c.take (cutPoint c (w - chunksWidth fit))],
          c.drop (cutPoint c (w - chunksWidth fit)) :: rest)

/-- drop a whitespace-only chunk at the front -/
def dropBlankHead (cc : CharClass) : List (List Char) → List (List Char)
  | [] => []
  | c :: cs => if blank cc c then cs else c :: cs

/-- drop a whitespace-only chunk at the end -/
def dropBlankLast (cc : CharClass) (line : List (List Char)) : List (List Char) :=
  (dropBlankHead cc line.reverse).reverse

/-! ### termination argument: for a width ≥ 1 every line consumes a character or a chunk -/

/-- characters left + chunks left -/
def chunksMeasure (cs : List (List Char)) : Nat := chunksWidth cs + cs.length

theorem chunksMeasure_append (a b : List (List Char)) :
    chunksMeasure (a ++ b) = chunksMeasure a + chunksMeasure b := by
  simp [chunksMeasure, chunksWidth]; omega

theorem chunksMeasure_cons (c : List Char) (cs : List (List Char)) :
    chunksMeasure (c :: cs) = c.length + 1 + chunksMeasure cs := by
  simp [chunksMeasure, chunksWidth]; omega

theorem fitCount_fits : ∀ (room : Nat) (chunks : List (List Char)),
    chunksWidth (chunks.take (fitCount room chunks)) ≤ room
  | _, [] => by simp [fitCount, chunksWidth]
  | room, c :: cs => by
    unfold fitCount
    split
    · have := fitCount_fits (room - c.length) cs
      simp only [chunksWidth, List.take_succ_cons, List.flatten_cons, List.length_append] at this ⊢
      omega
    · simp [chunksWidth]

theorem cutPoint_ge_one (chunk : List Char) (space : Nat) (hs : 1 ≤ space) :
    1 ≤ cutPoint chunk space := by
  unfold cutPoint
  split
  · split <;> omega
  · exact hs

theorem greedyLine_rest_lt (w : Nat) (hw : 1 ≤ w) (chunks : List (List Char)) (hne : chunks ≠ []) :
    chunksMeasure (greedyLine w chunks).2 < chunksMeasure chunks := by
  have hsplit : chunksMeasure chunks = chunksMeasure (chunks.take (fitCount w chunks)) +
      chunksMeasure (chunks.drop (fitCount w chunks)) := by
    rw [← chunksMeasure_append, List.take_append_drop]
  have hfits := fitCount_fits w chunks
  -- if nothing was taken, the first chunk is longer than the line
  have hzero : ∀ c rest, chunks.drop (fitCount w chunks) = c :: rest → c.length ≤ w →
      1 ≤ chunksMeasure (chunks.take (fitCount w chunks)) := by
    intro c rest heq hc
    cases hn : fitCount w chunks with
    | zero =>
      rw [hn, List.drop_zero] at heq
      rw [heq, fitCount, if_pos hc] at hn
      omega
    | succ n =>
      cases chunks with
      | nil => exact absurd rfl hne
      | cons d ds => simp only [List.take_succ_cons, chunksMeasure_cons]; omega
  unfold greedyLine
  split
  · cases chunks with
    | nil => exact absurd rfl hne
    | cons d ds =>
      show chunksMeasure [] < _
      simp only [chunksMeasure_cons]
      show 0 + 0 < _
      omega
  · next c rest heq =>
    rw [hsplit, heq]
    split
    · next hc =>
      have := hzero c rest heq hc
      show chunksMeasure (c :: rest) < _
      omega
    · next hc =>
      show chunksMeasure (_ :: rest) < _
      simp only [chunksMeasure_cons, List.length_drop]
      by_cases hroom : chunksWidth (chunks.take (fitCount w chunks)) = w
      · -- the line is full: it holds at least one chunk
        have : 1 ≤ chunksMeasure (chunks.take (fitCount w chunks)) := by
          simp only [chunksMeasure]; omega
        omega
      · have := cutPoint_ge_one c (w - chunksWidth (chunks.take (fitCount w chunks))) (by omega)
        omega

theorem dropBlankHead_measure_le (cc : CharClass) (chunks : List (List Char)) :
    chunksMeasure (dropBlankHead cc chunks) ≤ chunksMeasure chunks := by
  cases chunks with
  | nil => exact Nat.le_refl _
  | cons c cs =>
    simp only [dropBlankHead]
    split
    · simp only [chunksMeasure_cons]; omega
    · exact Nat.le_refl _

theorem greedy_rest_lt (cc : CharClass) (w : Nat) (first : Bool) (chunks : List (List Char))
    (h : ¬ (chunks = [] ∨ w = 0)) :
    chunksMeasure (greedyLine w (if first then chunks else dropBlankHead cc chunks)).2 <
      chunksMeasure chunks := by
  have hne : chunks ≠ [] := fun e => h (Or.inl e)
  have hw : 1 ≤ w := by have : w ≠ 0 := fun e => h (Or.inr e); omega
  have hpos : 0 < chunksMeasure chunks := by
    cases chunks with
    | nil => exact absurd rfl hne
    | cons c cs => simp only [chunksMeasure_cons]; omega
  cases first with
  | true => exact greedyLine_rest_lt w hw chunks hne
  | false =>
    by_cases hd : dropBlankHead cc chunks = []
    · simpa [hd, greedyLine, fitCount, chunksMeasure, chunksWidth] using hpos
    · exact Nat.lt_of_lt_of_le (greedyLine_rest_lt w hw _ hd) (dropBlankHead_measure_le cc chunks)

/-! ### the greedy wrap -/

/-- The lines (each as its list of chunks) of the greedy wrap of `chunks` on width `w`; `first` holds
while no line has been emitted. A line other than the first does not start with a whitespace-only
chunk (one such chunk is dropped); the line is `greedyLine`; a whitespace-only chunk at its end is
dropped; a line that ends up empty is not emitted. (No line for `w = 0`.) -/
def greedyFrom (cc : CharClass) (w : Nat) (first : Bool) (chunks : List (List Char)) :
    List (List (List Char)) :=
  if _ : chunks = [] ∨ w = 0 then []
  else
    let start := if first then chunks else dropBlankHead cc chunks
    let line := dropBlankLast cc (greedyLine w start).1
    let rest := (greedyLine w start).2
    if line = [] then greedyFrom cc w first rest
    else line :: greedyFrom cc w false rest
termination_by chunksMeasure chunks
decreasing_by all_goals exact greedy_rest_lt cc w first chunks (by assumption)

/-- the greedy wrap of `chunks` on width `w` -/
def greedyLines (cc : CharClass) (w : Nat) (chunks : List (List Char)) : List (List (List Char)) :=
  greedyFrom cc w true chunks

/-! ### nothing but blanks is lost -/

/-- `WithBlanks cc src lines`: the text `src` is the concatenation of `lines`, in order, with
whitespace-only stretches re-inserted before, between and after them — i.e. `lines` is `src` cut into
pieces, from which only whitespace-only pieces were deleted. -/
inductive WithBlanks (cc : CharClass) : List Char → List (List Char) → Prop
  | nil : WithBlanks cc [] []
  | blank {b src : List Char} {lines : List (List Char)} :
      blank cc b = true → WithBlanks cc src lines → WithBlanks cc (b ++ src) lines
  | line {l src : List Char} {lines : List (List Char)} :
      WithBlanks cc src lines → WithBlanks cc (l ++ src) (l :: lines)

end Simpleline
