/-
  Specification-level vocabulary for C15 (cells and typewriter paths). Definitions only.
-/
import Simpleline.Model.Grid

namespace Simpleline

/-- the character at `(r, c)` of a grid, if the cell exists -/
def cell (g : Grid) (r c : Nat) : Option Char := (g.getD r [])[c]?

/-- the typewriter position after a character (pure position arithmetic, no buffer) -/
def advance (col : Nat) (width : Option Int) (block : Bool) (p : Nat × Nat) (c : Char) : Nat × Nat :=
  if c = '\n' then (p.1 + 1, if block then col else 0)
  else match width with
    | some w => if (col : Int) + w ≤ ((p.2 + 1 : Nat) : Int) then (p.1 + 1, if block then col else 0)
                else (p.1, p.2 + 1)
    | none => (p.1, p.2 + 1)

/-- the position of the typewriter at each character of the text -/
def pathFrom (col : Nat) (width : Option Int) (block : Bool) : Nat × Nat → List Char → List (Nat × Nat)
  | _, [] => []
  | p, c :: cs => p :: pathFrom col width block (advance col width block p c) cs

end Simpleline
