/-
  Specification vocabulary for C06b ("typed lines reach `input()` in the order typed"): decidable
  predicates over the history (the trace `tr`, newest first) that say when the order is guaranteed.
  Definitions only.
-/
import Simpleline.Spec.InputSpec

namespace Simpleline

/-- a successful `InputReadySignal`: the signal that carries a typed line to its `InputHandler` -/
def Sig.okReady (s : Sig) : Bool := decide (s.cls = .inputReady) && s.ok

/-! ### replaying the history -/

/-- `MainLoop._event_queues` (bottom … top) according to the history alone: `execute_new_loop` pushes the
new queue object, `close_loop` pops the top one, `force_quit` empties the list -/
def levelsOf : List Tr → List Nat
  | [] => [0]
  | .openLevel q _ :: tr => levelsOf tr ++ [q]
  | .closeLevel _ :: tr => (levelsOf tr).dropLast
  | .forceQuit :: _ => []
  | _ :: tr => levelsOf tr

/-- the number of successful `InputReadySignal`s pending in queue object `q` according to the history alone:
enqueued into `q` and not yet taken from it for dispatch -/
def readyPending (q : Nat) : List Tr → Nat
  | [] => 0
  | .enq q' s :: tr => readyPending q tr + (if q' = q ∧ s.okReady = true then 1 else 0)
  | .take q' s :: tr => readyPending q tr - (if q' = q ∧ s.okReady = true then 1 else 0)
  | _ :: tr => readyPending q tr

/-- at the moment described by the history `tr`: no successful `InputReadySignal` is pending in a *covered*
level (a level of the stack of loops that is not the innermost one) -/
def coveredFree (tr : List Tr) : Prop := ∀ q ∈ (levelsOf tr).dropLast, readyPending q tr = 0

instance (tr : List Tr) : Decidable (coveredFree tr) := by unfold coveredFree; infer_instance

/-- **`NoReadyCovered`.** At no moment of the history was a successful `InputReadySignal` pending in a covered
level. It fails in exactly two ways: a hand-off *routes* the signal into a level that is not the innermost one
(the requester is a source of an enclosing loop only — the situation of `C06_order_can_be_violated`), or a
nested loop is *opened* (`execute_new_loop`: a modal screen, …) while such a signal is waiting in the queue of
the loop that becomes covered. In both cases the line is held back while the nested loop runs, and a line typed
later can reach `input()` first. -/
def NoReadyCovered : List Tr → Prop
  | [] => True
  | t :: tr => coveredFree (t :: tr) ∧ NoReadyCovered tr

instance instDecNoReadyCovered : (tr : List Tr) → Decidable (NoReadyCovered tr)
  | [] => isTrue trivial
  | _ :: tr => @instDecidableAnd _ _ _ (instDecNoReadyCovered tr)

/-- according to the history: a successful `InputReadySignal` has been taken for dispatch and the handler of the
`InputHandler` it is meant for has not been called yet (handlers the application registered for
`InputReadySignal` before `run()` come first in the dispatch order: they run in this window) -/
def readyInDispatch : List Tr → Bool
  | [] => false
  | .take _ s :: tr => s.okReady || readyInDispatch tr
  | .call (.ih n) _ s :: tr => if s.okReady = true ∧ s.ih = n then false else readyInDispatch tr
  | _ :: tr => readyInDispatch tr

/-- **`NoReadyReentry`.** No successful `InputReadySignal` was taken for dispatch while an earlier one was still
on its way to its `InputHandler` (`readyInDispatch`). It fails only if the application registered a handler of
its own for `InputReadySignal` and that handler re-enters the loop (`process_signals`, a modal screen, a
blocking `get_user_input`, …) and a further line is typed and handed off in there: the inner line then reaches
`input()` before the outer one. For applications without a handler for `InputReadySignal` (`NoReadyHandler`)
the hypothesis is not needed at all (`C06_order_no_ready_handler`). -/
def NoReadyReentry : List Tr → Prop
  | [] => True
  | .take _ s :: tr => (s.okReady = true → readyInDispatch tr = false) ∧ NoReadyReentry tr
  | _ :: tr => NoReadyReentry tr

instance instDecNoReadyReentry : (tr : List Tr) → Decidable (NoReadyReentry tr)
  | [] => isTrue trivial
  | .take _ _ :: tr => @instDecidableAnd _ _ _ (instDecNoReadyReentry tr)
  | .enq .. :: tr | .dropped .. :: tr | .putBack .. :: tr | .call .. :: tr | .dispatched .. :: tr | .exit :: tr
  | .forceQuit :: tr | .kill :: tr | .openLevel .. :: tr | .closeLevel .. :: tr | .loopReturn .. :: tr
  | .closeReq .. :: tr | .waitBegin .. :: tr | .waitEnd .. :: tr | .procBegin :: tr | .procEnd :: tr
  | .stackOp .. :: tr | .show .. :: tr | .refresh .. :: tr | .modalBegin .. :: tr | .modalEnd .. :: tr =>
    instDecNoReadyReentry tr

/-- the static alternative to `NoReadyReentry`: the application registered no handler (before `run()`) for
`InputReadySignal` -/
def NoReadyHandler (c0 : Cfg) : Prop := ∀ h ∈ c0.L.handlers, h.1 ≠ .inputReady

instance (c0 : Cfg) : Decidable (NoReadyHandler c0) := by unfold NoReadyHandler; infer_instance

/-- **`ReadyInTop`** (the weaker, routing-only condition; *not* sufficient, see `C06_order_needs_NoReadyCovered`):
every `InputReadySignal` (successful or not) was put into the level that was the innermost one at that moment. -/
def ReadyInTop : List Tr → Prop
  | [] => True
  | .enq q s :: tr => (s.cls = .inputReady → (levelsOf tr).getLast? = some q) ∧ ReadyInTop tr
  | _ :: tr => ReadyInTop tr

instance instDecReadyInTop : (tr : List Tr) → Decidable (ReadyInTop tr)
  | [] => isTrue trivial
  | .enq _ _ :: tr => @instDecidableAnd _ _ _ (instDecReadyInTop tr)
  | .take .. :: tr | .dropped .. :: tr | .putBack .. :: tr | .call .. :: tr | .dispatched .. :: tr | .exit :: tr
  | .forceQuit :: tr | .kill :: tr | .openLevel .. :: tr | .closeLevel .. :: tr | .loopReturn .. :: tr
  | .closeReq .. :: tr | .waitBegin .. :: tr | .waitEnd .. :: tr | .procBegin :: tr | .procEnd :: tr
  | .stackOp .. :: tr | .show .. :: tr | .refresh .. :: tr | .modalBegin .. :: tr | .modalEnd .. :: tr =>
    instDecReadyInTop tr

/-- the history records no `execute_new_loop`: the application never opened a nested (modal) loop -/
def NoOpenLevel (tr : List Tr) : Prop := ∀ t ∈ tr, ∀ q r, t ≠ .openLevel q r

def Tr.isOpenLevel : Tr → Bool
  | .openLevel .. => true
  | _ => false

instance (tr : List Tr) : Decidable (NoOpenLevel tr) :=
  decidable_of_iff (∀ t ∈ tr, t.isOpenLevel = false) (by
    unfold NoOpenLevel
    constructor
    · intro h t ht q r heq; have := h t ht; rw [heq] at this; cases this
    · intro h t ht
      cases t <;> first | rfl | exact absurd rfl (h _ ht _ _))

/-! ### positions -/

/-- `f` embeds `l₁` into `l₂` position by position, strictly increasing: element `k` of `l₁` is element `f k`
of `l₂`. (This is `List.Sublist` with the positions made explicit.) -/
def EmbedsAt {α} (f : Nat → Nat) (l₁ l₂ : List α) : Prop :=
  (∀ i j, i < j → j < l₁.length → f i < f j) ∧ ∀ k, k < l₁.length → f k < l₂.length ∧ l₁[k]? = l₂[f k]?

end Simpleline
