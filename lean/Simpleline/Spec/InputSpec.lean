/-
  Specification vocabulary for the input pipeline (C06, C18): the hypotheses on the application
  (`UserHandlers`, `NoForge`), the pipeline invariant `InputInv`, the signals of a hand-off, and the
  history projections the theorems talk about. Definitions only.
-/
import Simpleline.Spec.MachineSpec

namespace Simpleline

/-- the configuration a step ends in, whether the run goes on (`.ok c`) or ends there (`.error (o, c)`) -/
def final : Except (Outcome × Cfg) Cfg → Cfg
  | .ok c => c
  | .error (_, c) => c

/-! ### hypotheses on the application -/

/-- an application callback (a scripted handler or an `ExceptionSignal` handler) -/
def HRef.isApp : HRef → Bool
  | .user _ | .exc => true
  | _ => false

/-- The handlers the application registered before `run()` (everything behind the three the library
registers itself: render, close, input-received) are application callbacks: the application does not
register the library's private `InputThreadManager._input_received_handler` /
`InputHandler._input_received_handler` methods as handlers of its own. -/
def UserHandlers (c0 : Cfg) : Prop :=
  ∀ h ∈ c0.L.handlers.drop 3, h.2.1.isApp = true

instance (c0 : Cfg) : Decidable (UserHandlers c0) := by unfold UserHandlers; infer_instance

/-- the library's two internal input signal classes -/
def Cls.isInput : Cls → Bool
  | .inputReceived | .inputReady => true
  | _ => false

/-- the action enqueues a signal of one of the library's internal input classes
(`InputReceivedSignal`, `InputReadySignal`) made up by the application itself -/
def Act.forges : Act → Bool
  | .enq cls _ _ _ => cls.isInput
  | .newLoop cls _ _ => cls.isInput
  | _ => false

/-- no script of the program forges an input signal -/
def Prog.NoForge (P : Prog) : Prop :=
  (∀ scr cb n, ∀ a ∈ (P.screenScript scr cb n).acts, a.forges = false) ∧
  (∀ hid n, ∀ a ∈ P.handlerScript hid n, a.forges = false)

/-- the instruction is a user action that forges an input signal -/
def Instr.forges : Instr → Bool
  | .act a => a.forges
  | _ => false

/-- no start-up action forges an input signal -/
def Cfg.NoForge (c : Cfg) : Prop := ∀ ins ∈ c.code, ins.forges = false

instance (c : Cfg) : Decidable c.NoForge := by unfold Cfg.NoForge; infer_instance

/-- The application never enqueues an `InputReceivedSignal` / `InputReadySignal` of its own making
(neither in the start-up actions nor in any handler or screen callback): these two classes are only
produced by the reader thread and by `InputThreadManager`. -/
def NoForge (P : Prog) (c0 : Cfg) : Prop := P.NoForge ∧ c0.NoForge

/-! ### pending signals -/

/-- all signals waiting in any queue object (every level, open or closed) -/
def Cfg.pending (c : Cfg) : List Sig := c.L.queues.flatMap EQueue.sigs

/-- the `InputReceivedSignal`s an instruction sequence is still going to hand to
`InputThreadManager._input_received_handler`: a signal about to be dispatched, one whose dispatch has not
got past the first handler of its class (which is that handler), and the handler invocation itself -/
def Instr.irPending : Instr → Nat
  | .processSignal s => if s.cls = .inputReceived then 1 else 0
  | .dispatch s i => if s.cls = .inputReceived ∧ i = 0 then 1 else 0
  | .callH .itm _ _ => 1
  | .inputReceived _ => 1
  | _ => 0

def irCode (code : List Instr) : Nat := (code.map Instr.irPending).sum

/-- number of `InputReceivedSignal`s waiting in queues -/
def irQueued (c : Cfg) : Nat := c.pending.countP (·.cls = .inputReceived)

/-- typed lines in flight between the console and the hand-off: started readers that have not delivered,
delivered lines waiting in a queue, and lines being dispatched to the thread manager -/
def inFlight (c : Cfg) : Nat := c.A.readers.length + irQueued c + irCode c.code

/-! ### the pipeline invariant (C18) -/

/-- the handler registered for input handler object `n` -/
def ihReg (n : Nat) : Cls × HRef × Option Nat := (.inputReady, .ih n, none)

structure InputInv (c0 c : Cfg) : Prop where
  /-- every request on the stack exists -/
  stack_valid : ∀ r ∈ c.A.inputStack, r < c.A.reqs.length
  /-- every reader thread reads for an existing request -/
  readers_valid : ∀ r ∈ c.A.readers, r < c.A.reqs.length
  /-- every request belongs to an existing `InputHandler` -/
  reqs_valid : ∀ R ∈ c.A.reqs, R.ih < c.A.ihs.length
  /-- the registered handlers: those present at start, then one per `InputHandler`, in creation order -/
  handlers : c.L.handlers = c0.L.handlers ++ (List.range c.A.ihs.length).map ihReg
  /-- at most one typed line is in flight: only one reader thread exists at a time, and while a delivered
  line has not been handed off no reader exists -/
  one_flight : inFlight c ≤ 1
  /-- a line in flight means the subsystem is busy -/
  flight_processing : inFlight c = 1 → c.A.processing = true
  /-- busy exactly while requests are outstanding -/
  processing_iff : c.A.processing = true ↔ c.A.inputStack ≠ []

/-! ### C06 / C18 signal vocabulary -/

/-- the signal carries a typed line: an `InputReceivedSignal`, or a successful `InputReadySignal` -/
def Sig.carriesLine (s : Sig) : Bool :=
  s.cls = .inputReceived || (s.cls = .inputReady && s.ok)

/-- the lines read from the console so far, oldest first -/
def readLines (log : List Ev) : List Str :=
  (log.filterMap fun e => match e with | .read l => some l | _ => none).reverse

/-- the lines handed to `input` callbacks so far, oldest first -/
def inputLines (log : List Ev) : List Str :=
  (log.filterMap fun e => match e with | .cb _ .input _ (some l) => some l | _ => none).reverse

/-- the `InputReceivedSignal` the reader thread of request `r` enqueues for the next typed line
(the empty line at end of input) -/
def readSig (c : Cfg) (r : Nat) : Sig :=
  { id := c.nextSid + 1, cls := .inputReceived, prio := 0, src := .req r, line := c.A.stdin.headD [] }

/-- the trace event `enqueue_signal` leaves for `s` in configuration `c` -/
def enqEvent (c : Cfg) (s : Sig) : Tr :=
  if c.L.forceQuit then .dropped s else .enq (c.L.route s.src) s

/-- the successful `InputReadySignal` for request `r`: addressed to the requester and handler of that
request, carrying the typed line -/
def okSig (reqs : List Request) (r : Nat) (line : Str) (sid : Nat) : Sig :=
  { id := sid, cls := .inputReady, prio := 0, src := (reqs.getD r default).requester, line := line,
    ih := (reqs.getD r default).ih, ok := true }

/-- the failed `InputReadySignal` for request `t`: addressed to its requester and handler, no line -/
def failSig (reqs : List Request) (t : Nat) (sid : Nat) : Sig :=
  { id := sid, cls := .inputReady, prio := 0, src := (reqs.getD t default).requester, line := [],
    ih := (reqs.getD t default).ih, ok := false }

/-- the failed `InputReadySignal`s for the requests `ts` (in that order), with ids from `sid` on -/
def failSigs (reqs : List Request) : List Nat → Nat → List Sig
  | [], _ => []
  | t :: ts, sid => failSig reqs t sid :: failSigs reqs ts (sid + 1)

/-- the signals `InputThreadManager._input_received_handler` emits for the typed `line` when the request
stack is `rs ++ [r]` (oldest … newest) and the next fresh signal id is `sid`: first the successful one for the
newest request `r`, carrying the line, then a failed one for every earlier request, oldest first -/
def handoffSigs (reqs : List Request) (rs : List Nat) (r : Nat) (line : Str) (sid : Nat) : List Sig :=
  okSig reqs r line sid :: failSigs reqs rs (sid + 1)

/-- `enqueue_signal` for each of the signals in turn -/
def enqueueAll (c : Cfg) (sigs : List Sig) : Cfg := sigs.foldl Cfg.enqueue c

/-! ### what happens to an `InputHandler` object -/

/-- `get_input` starts over: no result yet -/
def IHandler.cleared (h : IHandler) : IHandler := { h with received := false, value := none }

/-- the handler's request failed (a newer request took the line) -/
def IHandler.failed (h : IHandler) : IHandler := { h with received := true, ok := false }

/-- the handler's request was answered with `line`; the one-shot callback is used up -/
def IHandler.answered (h : IHandler) (line : Str) : IHandler :=
  { h with received := true, ok := true, value := some line, cb := none }

/-! ### a new request -/

/-- the application state once a request of handler `ih` is recorded by `start_input_thread`: the handler is
reset (`get_input` cleared result and value), the request is appended to the list of all requests -/
def reqRecorded (A : AppSt) (ih : Nat) (requester : Src) (text : Str) : AppSt :=
  { A with ihs := listSet A.ihs ih IHandler.cleared,
           reqs := A.reqs ++ [{ ih := ih, requester := requester, text := text }] }

/-- the prompt text of a blocking request: the pager's “press ENTER to continue”, or the message prompt of
`get_user_input` -/
def blockingText (P : Prog) (cont : Bool) : Str :=
  if cont then promptText P contPrompt else
    (match textPrompt P.cc msgPrompt P.width with | .ok s => s | .error _ => [])

/-- the freshly created `InputHandler` object -/
def freshIH (source : Src) (skip : Bool) (cb : Option Nat) : IHandler := { source := source, skip := skip, cb := cb }

/-- A new `InputHandler` `h` was created and asked for input with prompt `text`: the handler, its
request and its signal handler are recorded, and the request is either refused (stack and reader
untouched, nothing printed) or accepted (pushed on the stack, prompt printed, a reader thread started
iff none was running). -/
structure Requested (c c' : Cfg) (h : IHandler) (text : Str) : Prop where
  ihs : c'.A.ihs = c.A.ihs ++ [h]
  reqs : c'.A.reqs = c.A.reqs ++ [{ ih := c.A.ihs.length, requester := h.source, text := text }]
  handlers : c'.L.handlers = c.L.handlers ++ [ihReg c.A.ihs.length]
  stdin : c'.A.stdin = c.A.stdin
  log : c'.log = c.log
  outcome :
    (c.A.inputStack ≠ [] ∧ h.skip = false ∧ c'.A.inputStack = c.A.inputStack ∧
      c'.A.processing = c.A.processing ∧ c'.A.readers = c.A.readers ∧ c'.A.out = c.A.out) ∨
    ((c.A.inputStack = [] ∨ h.skip = true) ∧ c'.A.inputStack = c.A.inputStack ++ [c.A.reqs.length] ∧
      c'.A.processing = true ∧ c'.A.out = c.A.out ++ [text] ∧
      ((c.A.processing = true ∧ c'.A.readers = c.A.readers) ∨
       (c.A.processing = false ∧ c'.A.readers = c.A.readers ++ [c.A.reqs.length])))

end Simpleline
