/-
  Specification-level vocabulary for C13b (discharging `LayoutOK` from the render itself).
  Definitions only.
-/
import Simpleline.Spec.WidgetSpec

namespace Simpleline

/-! ### key patterns whose labels stay on one row -/

/-- The text around the number of a key pattern contains no line break and no tab: the two
characters that make `textwrap` produce more than one row for a label rendered at its own length
(a line break starts a new row; a tab is expanded to up to eight blanks, so that the label no longer
fits the width it was measured with). -/
def KeyPat.Plain (k : KeyPat) : Prop := ∀ c ∈ k.pre ++ k.post, c ≠ '\n' ∧ c ≠ '\t'

instance (k : KeyPat) : Decidable k.Plain := by
  unfold KeyPat.Plain; infer_instance

/-- `KeyPat.Plain` for the optional key pattern of a list container (nothing to ask without
numbering) -/
def kpPlain : Option KeyPat → Prop
  | some k => k.Plain
  | none => True

instance : (kp : Option KeyPat) → Decidable (kpPlain kp)
  | some k => inferInstanceAs (Decidable k.Plain)
  | none => inferInstanceAs (Decidable True)

/-! ### what `C13_render_shape` exposes, as a structure -/

/-- `_lines_per_every_row`'s input: for every item the larger of the heights of its rendering and
of its label -/
def listHeights (grids : List Grid) (labels : List (Option NumW)) : List Nat :=
  (grids.zip labels).map fun (g, l) =>
    max g.length (match l with | some nw => nw.st.buf.length | none => 0)

/-- The facts `C13_render_shape` gives about a successful render `r` of the list container
`Wd.list _ cm columns cw spacing kp _ _ items` at width `w`: the rendered items `items'` and the
number labels `labels`. -/
structure ListShape (cc : CharClass) (cm : Bool) (columns : Nat) (cw : Option Int) (spacing : Nat)
    (kp : Option KeyPat) (items : List Wd) (w : Int) (r : Wd)
    (items' : List Wd) (labels : List (Option NumW)) : Prop where
  len_items : items'.length = items.length
  len_labels : labels.length = items.length
  item_render : ∀ i, (hi : i < items.length) → (hi' : i < items'.length) →
    items[i].render cc (usedWidth cw columns spacing w - labelLen labels i) = .ok items'[i]
  label_render : ∀ i, i < items.length →
    match kp with
    | some k => ∃ s, renderTextSt cc {} (k.label i) (k.label i).length = .ok s ∧
                  labels.getD i none = some ⟨s, k.label i⟩
    | none => labels.getD i none = none
  lines : r.lines = (drawColumns (usedWidth cw columns spacing w) spacing labels (items'.map Wd.lines)
    (rowHeight cm columns (listHeights (items'.map Wd.lines) labels))
    (orderedMap cm columns items'.length) {} 0).buf

/-! ### widgets that respect the width they are rendered at -/

/-- the widget is a `TextWidget` -/
def Wd.isText : Wd → Bool
  | .text _ _ => true
  | _ => false

/-- every row of a successful rendering of `it` at width `w` is at most `w` characters long (a
negative width counts as 0) -/
def RespectsWidth (cc : CharClass) (it : Wd) (w : Int) : Prop :=
  ∀ r, it.render cc w = .ok r → ∀ row ∈ r.lines, row.length ≤ w.toNat

mutual
  /-- A syntactic (decidable) sufficient condition for respecting *every* width: text, separators,
  centered widgets (a child wider than the width is refused by the model), checkboxes with a title
  or a text (without either nothing checks the width and the 3 characters of the box are drawn at
  any width), windows of such widgets, list containers of such widgets with no forced columns
  width. -/
  def Wd.Fits : Wd → Bool
    | .text _ _ => true
    | .sep _ _ => true
    | .center _ _ => true
    | .checkbox _ _ title text _ => (truthy title).isSome || (truthy text).isSome
    | .window _ _ items => fitsList items
    | .list _ _ _ cw _ _ _ _ items => cw.isNone && fitsList items
  def fitsList : List Wd → Bool
    | [] => true
    | x :: xs => x.Fits && fitsList xs
end

/-- `LayoutOK` without the clause `label_rows` ("a label is at most one row high"): the part that is
about widths. It holds for every key pattern, and it is all the placement proofs use. -/
structure WidthOK (used : Int) (labels : List (Option NumW)) (grids : List Grid) : Prop where
  used_pos : 0 < used
  len : labels.length = grids.length
  item_fits : ∀ i, (hi : i < grids.length) → ∀ row ∈ grids[i], (row.length : Int) + labelLen labels i ≤ used
  label_fits : ∀ i, i < grids.length → ∀ row ∈ labelBuf labels i, row.length ≤ labelLen labels i
  label_room : ∀ i, i < grids.length → (labelLen labels i : Int) < used ∨ labelBuf labels i = []

end Simpleline
