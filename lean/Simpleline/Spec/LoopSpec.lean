/-
  Specification vocabulary for the event-loop properties C01 (priority / FIFO dispatch) and
  C03 (isolation of nested loops).  Definitions only.
-/
import Simpleline.Spec.MachineSpec

namespace Simpleline

/-- a queue entry: (priority, arrival number, signal) -/
abbrev QEntry := Int × Nat × Sig

/-- dispatch order of queue entries: more urgent (numerically lower priority) first, and among equal
priorities the one with the lower arrival number first -/
def entryLt (a b : QEntry) : Prop := a.1 < b.1 ∨ (a.1 = b.1 ∧ a.2.1 < b.2.1)

instance : DecidableRel entryLt := fun _ _ => inferInstanceAs (Decidable (_ ∨ _))

/-- a well-formed `EventQueue`: entries strictly increasing in dispatch order, all arrival numbers
already handed out, stored priority = the signal's priority -/
structure EQueue.Sorted (q : EQueue) : Prop where
  ordered : q.entries.Pairwise entryLt
  fresh : ∀ e ∈ q.entries, e.2.1 < q.seq
  prio : ∀ e ∈ q.entries, e.1 = e.2.2.prio

/-- what a *stable priority queue* holds after signal `s` is enqueued when `l` was pending: `s` stands
behind every pending signal that is at least as urgent (in particular behind all of its own
priority) and in front of every less urgent one -/
def stableInsert (s : Sig) (l : List Sig) : List Sig :=
  l.filter (·.prio ≤ s.prio) ++ s :: l.filter (s.prio < ·.prio)

/-- the pending signals of queue object `q` according to the history alone (trace newest first):
a stable priority queue fed by the `.enq q _` events and popped at the head by every `.take q _` -/
def replayQ (q : Nat) : List Tr → List Sig
  | [] => []
  | .enq q' s :: tr => if q' = q then stableInsert s (replayQ q tr) else replayQ q tr
  | .take q' _ :: tr => if q' = q then (replayQ q tr).tail else replayQ q tr
  | _ :: tr => replayQ q tr

/-- every `.take q s` event of the history took the head of the replayed stable priority queue -/
def TakesAreHeads : List Tr → Prop
  | [] => True
  | .take q s :: tr => (replayQ q tr).head? = some s ∧ TakesAreHeads tr
  | _ :: tr => TakesAreHeads tr

/-- `src` is registered with queue object `q` (`q._contained_screens`) -/
def LoopSt.owns (L : LoopSt) (q : Nat) (src : Src) : Prop := src ∈ (L.queues.getD q {}).sources

instance (L : LoopSt) (q : Nat) (src : Src) : Decidable (L.owns q src) :=
  inferInstanceAs (Decidable (_ ∈ _))

/-- the `.take` events of a trace, oldest first: the dispatch order -/
def takesOf : List Tr → List (Nat × Sig)
  | [] => []
  | .take q s :: tr => takesOf tr ++ [(q, s)]
  | _ :: tr => takesOf tr

end Simpleline
