/-
  Specification-level vocabulary for the abstract machine: reachability (every execution, every
  timing of the reader thread), started configurations, trace helpers. Definitions only.
-/
import Simpleline.Model.Machine

namespace Simpleline

/-- the initial configurations of `App.run()`: any start-up actions, any registered handlers -/
def Started (c0 : Cfg) : Prop :=
  ∃ init handlers quitCb stdin, c0 = initCfg init handlers quitCb stdin

/-- Every configuration an execution of program `P` from `c0` can be in. Closed under machine
steps **and** under the environment transition `deliver` (the reader thread handing in the next typed
line) at any moment — "every timing of the input thread relative to the main loop" at the granularity
of machine instructions — and containing the final configuration of a step that ends the run. -/
inductive Reach (P : Prog) (c0 : Cfg) : Cfg → Prop
  | init : Reach P c0 c0
  | step {c c' : Cfg} : Reach P c0 c → step P c = .ok c' → Reach P c0 c'
  | deliver {c c' : Cfg} : Reach P c0 c → c.deliver = some c' → Reach P c0 c'
  | halt {c c' : Cfg} {o : Outcome} : Reach P c0 c → step P c = .error (o, c') → Reach P c0 c'

/-- one transition of an execution: a machine step, a delivery, or the halting step -/
inductive Trans (P : Prog) : Cfg → Cfg → Prop
  | step {c c' : Cfg} : step P c = .ok c' → Trans P c c'
  | deliver {c c' : Cfg} : c.deliver = some c' → Trans P c c'
  | halt {c c' : Cfg} {o : Outcome} : step P c = .error (o, c') → Trans P c c'

/-- the trace events a transition added (the trace is newest first and only grows) -/
def newTr (c c' : Cfg) : List Tr := c'.tr.take (c'.tr.length - c.tr.length)

/-- the log events a transition added -/
def newLog (c c' : Cfg) : List Ev := c'.log.take (c'.log.length - c.log.length)

def EQueue.sigs (q : EQueue) : List Sig := q.entries.map (·.2.2)

/-- queue object `q` of a configuration -/
def Cfg.queue (c : Cfg) (q : Nat) : EQueue := c.L.queues.getD q {}

end Simpleline
