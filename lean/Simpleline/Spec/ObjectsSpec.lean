/-
  Specification-level vocabulary for C10b (TicketMachine object) and C04b (ScreenStack object).
  Definitions only.

  * `FlatTM κ`     : the flat ticket list of `Model/Machine.lean` (`LoopSt.tickets`, `LoopSt.tcounter`), generic
                     in the line type; `take`/`mark`/`check` are written exactly like the machine's
                     `procWait` / `mark` / `waitCheck` instructions (the check is extended to the three results of
                     the Python method; the machine only issues the first two).
  * `TM.get`       : the user's view of the dictionary of dictionaries: `_lines[line][t]` if both keys exist.
  * `TM.Abs`       : the abstraction relation dictionary-of-dictionaries ↔ flat list. CHOICE: stated *up to order*
                     (the flat list is in take order, the dictionaries group by line): same counter, and for every
                     `(line, t, b)`: `_lines[line][t]` exists and is `b` iff `(line, t, b)` is in the flat list.
  * `TM.WF`        : the representation invariant.
  * `ideal`        : the history-based reference of the TicketMachine: every answer is computed by *looking back
                     into the list of operations issued so far* (indices into the prefix), with no state.
  * `idealStack`   : the obvious list machine for the ScreenStack, written independently of the model
                     (a `foldl`, `pop` through `reverse`).
-/
import Simpleline.Model.Objects

namespace Simpleline.Objects

variable {κ : Type} [DecidableEq κ]

/-! ### the flat ticket list of the abstract machine -/

/-- `(line, id, marked)` — `Machine.Ticket` with a generic line type -/
structure FlatTM (κ : Type) where
  tickets : List (κ × Nat × Bool) := []      -- take order
  counter : Nat := 0
  deriving Repr, DecidableEq, Inhabited

/-- `Machine.step (.procWait cls)`: append an unmarked ticket whose id is the counter -/
def FlatTM.take (f : FlatTM κ) (l : κ) : Nat × FlatTM κ :=
  let t := f.counter
  (t, { counter := t + 1, tickets := f.tickets ++ [(l, t, false)] })

/-- `Machine.mark` -/
def FlatTM.mark (f : FlatTM κ) (l : κ) : FlatTM κ :=
  { f with tickets := f.tickets.map fun k => if k.1 = l then (k.1, k.2.1, true) else k }

/-- `Machine.step (.waitCheck cls t)`: `any (line = cls ∧ id = t ∧ marked)` then `filter` the ticket out; a ticket
that is present and unmarked waits; a ticket that is not there is the `KeyError` of the Python method (the
machine never issues such a check) -/
def FlatTM.check (f : FlatTM κ) (l : κ) (t : Nat) : CheckRes × FlatTM κ :=
  if f.tickets.any (fun k => k.1 = l ∧ k.2.1 = t ∧ k.2.2) then
    (.ready, { f with tickets := f.tickets.filter fun k => ¬ (k.1 = l ∧ k.2.1 = t) })
  else if f.tickets.any (fun k => k.1 = l ∧ k.2.1 = t) then (.wait, f)
  else (.keyError, f)

def FlatTM.step (f : FlatTM κ) : TMOp κ → TMOut × FlatTM κ
  | .take l => let r := f.take l; (.ticket r.1, r.2)
  | .check l t => let r := f.check l t; (.checked r.1, r.2)
  | .mark l => (.unit, f.mark l)

def FlatTM.run (f : FlatTM κ) : List (TMOp κ) → List TMOut × FlatTM κ
  | [] => ([], f)
  | op :: ops => let r := f.step op; let rest := r.2.run ops; (r.1 :: rest.1, rest.2)

/-! ### the dictionary of dictionaries seen by its user, the abstraction relation, well-formedness -/

/-- `_lines[line][t]` when both keys exist -/
def TM.get (m : TM κ) (l : κ) (t : Nat) : Option Bool := (alookup l m.lines).bind (alookup t)

/-- abstraction relation (up to order): same counter, same outstanding tickets with the same mark bits -/
def TM.Abs (m : TM κ) (f : FlatTM κ) : Prop :=
  m.counter = f.counter ∧ ∀ l t b, m.get l t = some b ↔ (l, t, b) ∈ f.tickets

/-- representation invariant: line keys distinct; ticket keys inside a line distinct; every ticket id below the
counter; a ticket id occurs in at most one line -/
structure TM.WF (m : TM κ) : Prop where
  linesNodup : (m.lines.map Prod.fst).Nodup
  ticketsNodup : ∀ p ∈ m.lines, (p.2.map Prod.fst).Nodup
  idLt : ∀ p ∈ m.lines, ∀ q ∈ p.2, q.1 < m.counter
  oneLine : ∀ p ∈ m.lines, ∀ p' ∈ m.lines, ∀ q ∈ p.2, ∀ q' ∈ p'.2, q.1 = q'.1 → p.1 = p'.1

instance (m : TM κ) : Decidable m.WF :=
  decidable_of_iff
    ((m.lines.map Prod.fst).Nodup ∧ (∀ p ∈ m.lines, (p.2.map Prod.fst).Nodup) ∧
      (∀ p ∈ m.lines, ∀ q ∈ p.2, q.1 < m.counter) ∧
      (∀ p ∈ m.lines, ∀ p' ∈ m.lines, ∀ q ∈ p.2, ∀ q' ∈ p'.2, q.1 = q'.1 → p.1 = p'.1))
    ⟨fun h => ⟨h.1, h.2.1, h.2.2.1, h.2.2.2⟩, fun h => ⟨h.1, h.2, h.3, h.4⟩⟩

/-! ### the history-based reference -/

def TMOp.isTake : TMOp κ → Bool
  | .take _ => true
  | _ => false

/-- the number of `take`s among the first `j` operations of the history `h` -/
def ticketAt (h : List (TMOp κ)) (j : Nat) : Nat := (h.take j).countP TMOp.isTake

/-- operation `j` of the history is `take l` and it returned ticket `t` -/
def Issued (h : List (TMOp κ)) (j : Nat) (l : κ) (t : Nat) : Prop :=
  h[j]? = some (.take l) ∧ ticketAt h j = t

/-- some operation after position `j` is `mark l` -/
def Released (h : List (TMOp κ)) (j : Nat) (l : κ) : Prop :=
  ∃ k < h.length, j < k ∧ h[k]? = some (.mark l)

/-- some `check l t` comes after some `mark l` that comes after position `j` (that check — the first such one —
answered ready and consumed the ticket) -/
def Consumed (h : List (TMOp κ)) (j : Nat) (l : κ) (t : Nat) : Prop :=
  ∃ k' < h.length, ∃ k < k', j < k ∧ h[k]? = some (.mark l) ∧ h[k']? = some (.check l t)

instance (h : List (TMOp κ)) (j l t) : Decidable (Issued h j l t) := by unfold Issued; infer_instance
instance (h : List (TMOp κ)) (j l) : Decidable (Released h j l) := by unfold Released; infer_instance
instance (h : List (TMOp κ)) (j l t) : Decidable (Consumed h j l t) := by unfold Consumed; infer_instance

/-- the answer of `check l t` issued after the history `h`, read off the history alone -/
def idealCheck (h : List (TMOp κ)) (l : κ) (t : Nat) : CheckRes :=
  if ∃ j < h.length, Issued h j l t ∧ ¬ Consumed h j l t ∧ Released h j l then .ready
  else if ∃ j < h.length, Issued h j l t ∧ ¬ Consumed h j l t ∧ ¬ Released h j l then .wait
  else .keyError

/-- the answer to operation `op` issued after the history `h` -/
def idealOut (h : List (TMOp κ)) : TMOp κ → TMOut
  | .take _ => .ticket (ticketAt h h.length)
  | .check l t => .checked (idealCheck h l t)
  | .mark _ => .unit

/-- the answers to a whole session: answer `i` looks back into the first `i` operations -/
def ideal (ops : List (TMOp κ)) : List TMOut := ops.mapIdx fun i op => idealOut (ops.take i) op

/-! ### the user-level reading of a session: operations `ops` and the answers `outs` they got -/

/-- operation `j < i` was `take l`, it returned ticket `t`, and no `check l t` issued after it and before
position `i` answered ready -/
def PendingSince (ops : List (TMOp κ)) (outs : List TMOut) (i j : Nat) (l : κ) (t : Nat) : Prop :=
  j < i ∧ ops[j]? = some (.take l) ∧ outs[j]? = some (.ticket t) ∧
    ∀ k, j < k → k < i → ops[k]? = some (.check l t) → outs[k]? ≠ some (.checked .ready)

/-- some operation strictly between positions `j` and `i` is `mark l` -/
def MarkedBetween (ops : List (TMOp κ)) (j i : Nat) (l : κ) : Prop :=
  ∃ k, j < k ∧ k < i ∧ ops[k]? = some (.mark l)

/-! ### ScreenStack: the ideal list machine -/

def idealStackStep (s : List Nat) : SOp → SOut × List Nat
  | .append e => (.unit, s ++ [e])
  | .addFirst e => (.unit, e :: s)
  | .pop remove =>
    match s.reverse with
    | [] => (.stackEmpty, s)
    | e :: below => (.entry e, if remove then below.reverse else s)
  | .size => (.num s.length, s)
  | .empty => (.bool (decide (s = [])), s)
  | .dump => (.order s.reverse, s)

/-- outputs so far and the stack (bottom … top), folded over the operations from the empty stack -/
def idealStack (ops : List SOp) : List SOut × List Nat :=
  ops.foldl (fun acc op => let r := idealStackStep acc.2 op; (acc.1 ++ [r.1], r.2)) ([], [])

/-- operations that add an entry -/
def SOp.isPush : SOp → Bool
  | .append _ => true
  | .addFirst _ => true
  | _ => false

/-- a removing pop that returned an entry -/
def removedOne : SOp × SOut → Bool
  | (.pop true, .entry _) => true
  | _ => false

/-- what an operation leaves of the old stack: everything, except the top for a removing pop -/
def keptBy (s : List Nat) : SOp → List Nat
  | .pop true => s.dropLast
  | _ => s

end Simpleline.Objects
