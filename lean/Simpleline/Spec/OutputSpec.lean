/-
  Specification vocabulary for C17 (console output): the alphabet the framework may write, the width
  clause for one written chunk, the kinds of chunks. Definitions only.

  The console of the machine is `c.A.out : List Str`: the chunks written to stdout, in order; the byte
  stream is `c.A.out.flatten`.
-/
import Simpleline.Spec.MachineSpec

namespace Simpleline

/-! ### the alphabet -/

/-- every literal string of the framework that can reach the console: the default prompt (message,
option keys and descriptions), the punctuation of `str(prompt)`, the "press ENTER" prompt of the pager,
the prompt of `get_user_input`, the frame lines and the punctuation of the screen stack dump, the
`repr` of `None`/`True`/`False` and the decimal digits -/
def frameworkLiterals : List Str :=
  [ "Please make a selection from the above".toList, "to refresh".toList, "to continue".toList,
    "to quit".toList, ['r'], ['c'], ['q'],
    ['['], [']'], ['\''], [','], [':'],
    "Press ENTER to continue".toList,
    "msg".toList,
    "======= Screen stack =======".toList, "----------- TOP ------------".toList,
    "============================".toList,
    "ScreenData(".toList, [')'], "None".toList, "True".toList, "False".toList,
    "0123456789".toList ]

/-- `ch` occurs in a name of a screen of the application -/
def nameChar (P : Prog) (ch : Char) : Prop := ∃ sp ∈ P.screens, ch ∈ sp.name

/-- `ch` occurs in a title or a text of a screen of the application -/
def textChar (P : Prog) (ch : Char) : Prop :=
  ∃ sp ∈ P.screens, ch ∈ sp.title.getD [] ∨ ch ∈ sp.text.getD []

instance (P : Prog) (ch : Char) : Decidable (nameChar P ch) := by unfold nameChar; infer_instance
instance (P : Prog) (ch : Char) : Decidable (textChar P ch) := by unfold textChar; infer_instance

/-- the characters that can appear on the console: the line break, the blank, the separator character,
the characters of the framework's literals, the characters of screen names (they are printed as they
are by the crash dump), and the characters of titles and texts that are not one of
`'\t' '\n' '\x0b' '\x0c' '\r' ' '` (a `TextWidget` turns those into blanks or line breaks) -/
def allowed (P : Prog) (ch : Char) : Prop :=
  ch = '\n' ∨ ch = ' ' ∨ ch = '=' ∨ ch ∈ frameworkLiterals.flatten ∨ nameChar P ch ∨
    (textChar P ch ∧ isWs6 ch = false)

instance (P : Prog) (ch : Char) : Decidable (allowed P ch) := by unfold allowed; infer_instance

/-! ### the width clause -/

/-- a line without its trailing blanks -/
def stripTrail (l : Str) : Str := (l.reverse.dropWhile (· == ' ')).reverse

/-- every line of a written chunk (split at the line breaks) has, ignoring trailing blanks, at most `w`
characters -/
def chunkLinesOK (w : Nat) (chunk : Str) : Prop := ∀ l ∈ splitOn '\n' chunk, (stripTrail l).length ≤ w

instance (w : Nat) (chunk : Str) : Decidable (chunkLinesOK w chunk) := by unfold chunkLinesOK; infer_instance

/-! ### the kinds of chunks -/

/-- `ls` are lines of the window of some screen -/
def WindowLines (P : Prog) (ls : List Str) : Prop := ∃ scr g, windowLines P scr = .ok g ∧ ∀ l ∈ ls, l ∈ g

/-- the prompt text of a `get_user_input("msg")` request -/
def msgText (P : Prog) : Str :=
  match textPrompt P.cc msgPrompt P.width with
  | .ok s => s
  | .error _ => []

/-- the chunks of a run that has not crashed: the separator, lines of a window each ended by a line
break, one of the three prompt texts -/
inductive NormalChunk (P : Prog) : Str → Prop
  | separator : NormalChunk P (spacer P.width)
  | lines (ls : List Str) : WindowLines P ls → NormalChunk P (ls.flatMap fun l => l ++ ['\n'])
  | prompt : NormalChunk P (promptText P defaultPrompt)
  | continue : NormalChunk P (promptText P contPrompt)
  | msg : NormalChunk P (msgText P)

/-- the two chunks of the crash dump (`kill`, the `sys.exit(1)` path of C02) for a screen stack -/
def killChunks (P : Prog) (stack : List Entry) : List Str := [['\n'], dumpStack P stack ++ ['\n']]

/-- the console of a configuration: normal chunks, followed — if and only if the run was killed — by the
two chunks of the crash dump, after which nothing is executed any more -/
def OutShape (P : Prog) (c : Cfg) : Prop :=
  (Tr.kill ∉ c.tr ∧ ∀ ch ∈ c.A.out, NormalChunk P ch) ∨
  (Tr.kill ∈ c.tr ∧ c.code = [] ∧
    ∃ pre stack, c.A.out = pre ++ killChunks P stack ∧ ∀ ch ∈ pre, NormalChunk P ch)

end Simpleline
