/-
  Specification vocabulary for the screen scheduler properties (C04, C07, C08): the ideal screen
  stack and its operations, which instruction of the machine is which stack operation, and names for
  kinds of trace / log events. Definitions only.
-/
import Simpleline.Spec.MachineSpec

namespace Simpleline

/-! ### the ideal stack -/

namespace Spec

/-- The ideal screen stack: the entries from the bottom to the top (the last element is the screen
shown). -/
abbrev Stack := List Entry

/-- the screen shown -/
def Stack.top (s : Stack) : Option Entry := s.getLast?

/-- the entries beneath the top, bottom first -/
def Stack.beneath (s : Stack) : List Entry := s.dropLast

/-- put an entry on top -/
def Stack.push (s : Stack) (e : Entry) : Stack := s ++ [e]

/-- put an entry at the bottom: it is shown last -/
def Stack.schedule (s : Stack) (e : Entry) : Stack := e :: s

/-- remove the top; `none` on an empty stack -/
def Stack.pop (s : Stack) : Option Stack := s.top.map fun _ => s.beneath

/-- `close_screen(closed_from)`: remove the top on behalf of `frm` — the source of the close request
(`some (.scr s)`: screen `s` asked, through a close signal; `none`: `close_screen()` without an
argument). `none` (refused, nothing happens to the stack) on an empty stack and when `frm` names
anything but the screen that is on top: the request is checked against the top *before* anything is
popped. -/
def Stack.close (s : Stack) (frm : Option Src) : Option Stack :=
  match s.top with
  | none => none
  | some e => if frm ≠ none ∧ frm ≠ some (.scr e.screen) then none else some s.beneath

/-- substitute the top by a screen, which inherits the modality of the entry it replaces;
`none` on an empty stack -/
def Stack.replace (s : Stack) (eid scr : Nat) (args : Option Nat) : Option Stack :=
  s.top.map fun old => s.beneath ++ [{ eid := eid, screen := scr, args := args, modal := old.modal }]

/-- the stack operations of the scheduler's public interface (`close`) and of the rendering of a
screen whose `setup` failed (`discard`) -/
inductive Op where
  | schedule (scr : Nat) (args : Option Nat)
  | push (scr : Nat) (args : Option Nat)
  | pushModal (scr : Nat) (args : Option Nat)
  | replace (scr : Nat) (args : Option Nat)
  | close (frm : Option Src)
  | discard
  deriving Repr, DecidableEq

/-- the name under which the machine traces the operation -/
def Op.name : Op → String
  | .schedule .. => "schedule"
  | .push .. => "push"
  | .pushModal .. => "pushModal"
  | .replace .. => "replace"
  | .close _ => "close"
  | .discard => "discard"

/-- The ideal stack after an operation; `eid` is the identity given to the new entry, if one is
created. `none`: the operation is refused (close / replace / discard on an empty stack; a close
requested on behalf of a screen that is not the top). -/
def Op.apply (eid : Nat) : Op → Stack → Option Stack
  | .schedule scr args, s => some (s.schedule { eid := eid, screen := scr, args := args, modal := false })
  | .push scr args, s => some (s.push { eid := eid, screen := scr, args := args, modal := false })
  | .pushModal scr args, s => some (s.push { eid := eid, screen := scr, args := args, modal := true })
  | .replace scr args, s => s.replace eid scr args
  | .close frm, s => s.close frm
  | .discard, s => s.pop

/-- does the operation create an entry (and so use up an identity)? -/
def Op.creates : Op → Bool
  | .close _ | .discard => false
  | _ => true

end Spec

/-- Which stack operation the next instruction of a configuration is: the API calls `schedule_screen`,
`push_screen`, `replace_screen` (scripted actions), the instruction `pushModal` (the body of
`push_screen_modal`), `closeScreen frm` (the body of `close_screen(frm)`, called directly or for an
input answer — `frm = none` — or through the close signal of source `frm`) and `afterSetup` when the `setup` that just returned reported
failure. Every other instruction is none. -/
def Cfg.stackOp (c : Cfg) : Option Spec.Op :=
  match c.code with
  | .act (.schedule scr args) :: _ => some (.schedule scr args)
  | .act (.push scr args) :: _ => some (.push scr args)
  | .act (.replace scr args) :: _ => some (.replace scr args)
  | .pushModal scr args :: _ => some (.pushModal scr args)
  | .closeScreen frm :: _ => some (.close frm)
  | .afterSetup _ :: _ => if c.retSetup then none else some .discard
  | _ => none

/-- the stack recorded by the newest stack operation of a trace (newest first); empty if there is none -/
def lastStack : List Tr → List Entry
  | [] => []
  | .stackOp _ s :: _ => s
  | _ :: l => lastStack l

/-- a machine step out of `c` ending in `c'`: continuing or halting the run -/
def StepTo (P : Prog) (c c' : Cfg) : Prop :=
  step P c = .ok c' ∨ ∃ o, step P c = .error (o, c')

/-- `c` after `countAndAct scr` has consumed its instruction (the code continues with `rest`) and
updated the consecutive-rejections counter of `scr`: one more for a rejected line, reset otherwise -/
def Cfg.counted (c : Cfg) (scr : Nat) (rest : List Instr) : Cfg :=
  { c with code := rest,
           A := c.A.setScr scr fun s => { s with err := if c.retAction = UAction.error then s.err + 1 else 0 } }

/-- `c` after `afterSetup` has discarded the top entry (the code continues with `rest`): the entry is
popped and the operation traced -/
def Cfg.discarded (c : Cfg) (rest : List Instr) : Cfg :=
  ({ c with code := rest, A := { c.A with stack := c.A.stack.dropLast } } : Cfg).trace
    (.stackOp "discard" c.A.stack.dropLast)

/-- the consecutive-rejections counter of screen `s` after the step out of `c`: only the counting step
of `process_input` for `s` and an input request of `s` whose prompt is `None` touch it -/
def Cfg.errAfter (c : Cfg) (s : Nat) : Nat :=
  match c.code with
  | .countAndAct scr :: _ =>
    if s = scr then (if c.retAction = UAction.error then (c.A.scr s).err + 1 else 0) else (c.A.scr s).err
  | .getInput2 scr _ :: _ => if s = scr ∧ c.retPromptNone = true then 0 else (c.A.scr s).err
  | _ => (c.A.scr s).err

/-! ### kinds of trace and log events -/

/-- scheduler events of the trace: stack operations, refreshes, draws -/
def Tr.isSched : Tr → Bool
  | .stackOp .. | .show _ | .refresh _ => true
  | _ => false

def Tr.isStackOp : Tr → Bool
  | .stackOp .. => true
  | _ => false

/-- a render request of the scheduler being enqueued (or dropped after a force-quit) -/
def Tr.isRedraw : Tr → Bool
  | .enq _ s | .dropped s => s.cls = .render ∧ s.src = .sched
  | _ => false

/-- an exception signal with source `src` being enqueued (or dropped after a force-quit) -/
def Tr.isExcFrom (src : Src) : Tr → Bool
  | .enq _ s | .dropped s => s.cls = .exception ∧ s.src = src
  | _ => false

/-- callback invocations in the log -/
def Ev.isCb : Ev → Bool
  | .cb .. => true
  | _ => false

/-- invocations of callback `cb` of screen `scr` in the log -/
def Ev.isCbOf (scr : Nat) (cb : Cb) : Ev → Bool
  | .cb s b _ _ => s = scr ∧ b = cb
  | _ => false

/-- invocations of a `closed` callback in the log -/
def Ev.isClosed : Ev → Bool
  | .cb _ .closed _ _ => true
  | _ => false

/-- stack operations named `what` in the trace -/
def Tr.isOp (what : String) : Tr → Bool
  | .stackOp w _ => w = what
  | _ => false

/-- What handling one answer of `input()` may do, seen from outside: `c'` is `c` with the instruction
at the head of the code replaced by `pushed`, the rejections counter of `scr` updated, and exactly
`renders` render requests of the scheduler added to the trace (enqueued, or dropped after a
force-quit) — the stack, the log and every other screen's record are untouched. -/
structure InputOutcome (c c' : Cfg) (scr : Nat) (pushed : List Instr) (renders : Nat) : Prop where
  code : c'.code = pushed ++ c.code.tail
  stack : c'.A.stack = c.A.stack
  log : c'.log = c.log
  tr : ∃ evs, c'.tr = evs ++ c.tr ∧ evs.length = renders ∧ ∀ t ∈ evs, t.isRedraw = true
  scr : ∀ s, c'.A.scr s =
    if s = scr then { c.A.scr s with err := if c.retAction = UAction.error then (c.A.scr s).err + 1 else 0 }
    else c.A.scr s

/-- instructions that run as soon as they are pushed (callback invocations, the draw step, the
refresh step): in reachable configurations they only ever occur at the head of the code -/
def Instr.immediate : Instr → Bool
  | .callScr .. | .drawScreen _ | .afterSetup2 _ => true
  | _ => false

/-- 1 if a `closed` callback is the next instruction (popped, not yet notified), else 0 -/
def pendClosed : List Instr → Nat
  | .callScr _ .closed _ _ :: _ => 1
  | _ => 0

/-- the exception kinds a catcher instruction handles -/
def Instr.catches : Kind → Instr → Bool
  | .err, .catchHandler | .err, .catchPS | .err, .catchDraw | .err, .catchPI _ | .exit, .catchExit => true
  | _, _ => false

end Simpleline
