/-
  Specification vocabulary for the "shape" properties of the abstract machine: how the pending
  instruction list (`code`) relates to the stack of loop levels (C03: blocks / resumes) and to the
  screen stack (C05: modal screens).  Definitions only.
-/
import Simpleline.Spec.MachineSpec

namespace Simpleline

/-! ### markers: the `_mainloop` activations that are on the Python call stack -/

/-- the ghost levels of the `mainCheck` instructions of a code list, head (innermost activation) to
tail (outermost): one per `_mainloop` activation that has not returned yet -/
def markers : List Instr → List Nat
  | [] => []
  | .mainCheck q :: r => q :: markers r
  | _ :: r => markers r

/-- `markers`, with a pending `apprun` counted as the activation for level 0 it is going to start
(so that the start-up phase, in which `App.run()` has not been reached yet, needs no special case) -/
def markersA : List Instr → List Nat
  | [] => []
  | .mainCheck q :: r => q :: markersA r
  | .apprun :: r => 0 :: markersA r
  | _ :: r => markersA r

/-- the head instruction is `restoreRun`: a `_mainloop` activation has just left its loop and is about to
set `_run_loop` back to `True` (`execute_new_loop` / `run` is returning) -/
def headIsRestore : List Instr → Bool
  | .restoreRun :: _ => true
  | _ => false

/-- the run is over: an `ExitMainLoop`/uncaught exception/`sys.exit` has unwound all activations
(at most the quit callback is left to run) -/
def overCode : List Instr → Bool
  | [] => true
  | [.quitCb] => true
  | _ => false

def Cfg.Over (c : Cfg) : Prop := overCode c.code = true

instance (c : Cfg) : Decidable c.Over := inferInstanceAs (Decidable (_ = _))

/-! ### history hypotheses (decidable predicates over the trace; newest event first) -/

def wfCloseEv : Tr → Bool
  | .closeReq false _ => false
  | .openLevel _ false => false
  | _ => true

/-- **WF-close, call-time part** (finding K1): `close_loop` was never called, and `execute_new_loop`
never called, while `_run_loop` was `False` (i.e. while an earlier `close_loop` had not yet been
consumed by its `_mainloop` activation). -/
def WFClose (c : Cfg) : Prop := c.tr.all wfCloseEv = true

instance (c : Cfg) : Decidable (WFClose c) := inferInstanceAs (Decidable (_ = _))

/-- the half of `WFClose` that concerns `execute_new_loop` only -/
def wfOpenEv : Tr → Bool
  | .openLevel _ false => false
  | _ => true

def WFOpen (c : Cfg) : Prop := c.tr.all wfOpenEv = true

instance (c : Cfg) : Decidable (WFOpen c) := inferInstanceAs (Decidable (_ = _))

/-- according to the history, a level has been popped by `close_loop` and no `_mainloop` activation
has returned since -/
def closePending : List Tr → Bool
  | [] => false
  | .closeLevel _ :: _ => true
  | .loopReturn _ :: _ => false
  | _ :: tr => closePending tr

def noDoubleClose : List Tr → Bool
  | [] => true
  | .closeLevel _ :: tr => !closePending tr && noDoubleClose tr
  | _ :: tr => noDoubleClose tr

/-- **WF-close, pop-time part** (finding K1, the variant the call-time flags cannot see): no level was
popped while an earlier pop had not yet been consumed by a returning `_mainloop` activation.
`close_loop` first drains (`process_signals`), then pops.  A handler dispatched by that drain may itself
call `close_loop`; both calls then *start* with `_run_loop = True` (both log `.closeReq true _`), two
levels are popped, and only one activation returns. -/
def WFDrain (c : Cfg) : Prop := noDoubleClose c.tr = true

instance (c : Cfg) : Decidable (WFDrain c) := inferInstanceAs (Decidable (_ = _))

/-- the level popped by the newest `close_loop` of the history -/
def lastClosed : List Tr → Option Nat
  | [] => none
  | .closeLevel q :: _ => some q
  | _ :: tr => lastClosed tr

/-- `MainLoop.force_quit()` has not been called -/
def NoForceQuit (c : Cfg) : Prop := Tr.forceQuit ∉ c.tr

instance (c : Cfg) : Decidable (NoForceQuit c) := inferInstanceAs (Decidable (¬ _))

/-- the trace events added between `c` and a later configuration `c'` contain none of the run-ending
events: `ExitMainLoop` raised, the uncaught-exception `sys.exit`, `force_quit` -/
def Tr.isEnd : Tr → Bool
  | .exit | .kill | .forceQuit => true
  | _ => false

/-! ### the levels / activations correspondence -/

/-- **The exact correspondence** between the `_mainloop` activations on the call stack (`markersA`,
innermost first) and the open levels `MainLoop._event_queues` (bottom … top):
* the run is over (all activations unwound), or force-quit is not set and
* `_run_loop` is `True` and the activations serve exactly the open levels, in order; or
* `_run_loop` is `False` and the innermost activation has just left its loop (`restoreRun` is next):
  again the remaining activations serve exactly the open levels; or
* `_run_loop` is `False` because `close_loop` popped level `q` (the newest `.closeLevel` of the history)
  and no activation has returned since: the activations are `q`'s — which is about to return — followed by
  those of the open levels. -/
def LevelsInv (c : Cfg) : Prop :=
  c.Over ∨
  (c.L.forceQuit = false ∧
   ((c.L.runLoop = true ∧ markersA c.code = c.L.levels.reverse) ∨
    (c.L.runLoop = false ∧ headIsRestore c.code = true ∧ markersA c.code = c.L.levels.reverse) ∨
    (c.L.runLoop = false ∧ headIsRestore c.code = false ∧ closePending c.tr = true ∧ c.L.levels ≠ [] ∧
       ∃ q, lastClosed c.tr = some q ∧ markersA c.code = q :: c.L.levels.reverse)))

/-! ### exceptions -/

/-- loop-control instructions: the frames of `run()` / `_mainloop` / `_process_signal`; everything
else is (part of) the body of a handler or of the start-up code -/
def Instr.isLC : Instr → Bool
  | .apprun | .catchExit | .quitCb | .mainCheck _ | .restoreRun | .loopCheck | .getDispatch
  | .processSignal _ | .dispatch .. | .catchHandler | .kill _ => true
  | _ => false

/-- the instructions at which an ordinary exception (`Kind.err`) is caught -/
def Instr.catchesErr : Instr → Bool
  | .catchHandler | .catchPS | .catchDraw | .catchPI _ => true
  | _ => false

/-- the instructions an ordinary exception must never unwind: the `while` tests of a `_mainloop`
activation and the `except ExitMainLoop` scope of `run()` -/
def Instr.isLoopFrame : Instr → Bool
  | .mainCheck _ | .loopCheck | .catchExit => true
  | _ => false

/-- the part of `code` an ordinary exception raised by the head instruction unwinds before it reaches a
catcher (all of `code`, if there is none) -/
def errSegment (code : List Instr) : List Instr := code.takeWhile fun i => !i.catchesErr

/-- an `ExceptionSignal` was enqueued (an ordinary exception was caught by one of the `except Exception`
scopes of the library — or application code enqueued such a signal itself) -/
def Tr.isExc : Tr → Bool
  | .enq _ s => s.cls == .exception
  | .dropped s => s.cls == .exception
  | _ => false

/-- no `ExceptionSignal` in the history -/
def cleanTr (l : List Tr) : Bool := l.all fun t => !t.isExc

/-! ### modal screens (C05) -/

/-- **No exception escaped a callback**: no `ExceptionSignal` was enqueued in the whole history.  (An
exception raised by `closed()` of a modal screen skips the rest of `close_screen`, in particular
`close_loop`: the nested loop stays open without its screen — the modal correspondence is lost.  The
`RenderUnexpectedError` of `close_screen` no longer has that effect: `closed_from` is checked before
anything is popped.) -/
def NoErr (c : Cfg) : Prop := cleanTr c.tr = true

instance (c : Cfg) : Decidable (NoErr c) := inferInstanceAs (Decidable (_ = _))

/-- the public API a *screen-level* program uses: everything except the raw nested-loop API
`execute_new_loop`, `close_loop`, `force_quit` (which create / remove levels that belong to no screen) -/
def Act.screenLevel : Act → Bool
  | .newLoop .. | .closeLoop | .forceQuit => false
  | _ => true

/-- no script of the program uses the raw nested-loop API -/
def ScreenOnly (P : Prog) : Prop :=
  (∀ hid n, ∀ a ∈ P.handlerScript hid n, a.screenLevel = true) ∧
  (∀ scr cb n, ∀ a ∈ (P.screenScript scr cb n).acts, a.screenLevel = true)

/-- … and neither do the start-up actions performed before `App.run()` -/
def InitScreenOnly (c0 : Cfg) : Prop := ∀ a, Instr.act a ∈ c0.code → a.screenLevel = true

/-- the `closed()` callbacks of the program do nothing (they run between the pop of a screen and the
`close_loop` of its nested loop) -/
def ClosedSilent (P : Prog) : Prop := ∀ scr n, (P.screenScript scr .closed n).acts = []

/-- the `closed()` callbacks of the program call no library API — but, unlike `ClosedSilent`, they may
raise an ordinary exception -/
def ClosedNoApi (P : Prog) : Prop := ∀ scr n, ∀ a ∈ (P.screenScript scr .closed n).acts, a = .raiseErr

/-- number of modal entries on a screen stack -/
def modalCount (st : List Entry) : Nat := (st.filter (·.modal)).length

/-- `execute_new_loop` calls that are about to happen (pending `newLoop` instructions) -/
def pendOpens : List Instr → Nat
  | [] => 0
  | .newLoop _ :: r => pendOpens r + 1
  | _ :: r => pendOpens r

/-- level pops that are about to happen: pending `close_loop` calls — as the instruction itself, as its
final `popLevel`, or as a `close_screen` of a modal entry that has popped the entry already -/
def pendCloses : List Instr → Nat
  | [] => 0
  | .closeLoop :: r => pendCloses r + 1
  | .popLevel :: r => pendCloses r + 1
  | .closeScreen2 e _ :: r => pendCloses r + (if e.modal then 1 else 0)
  | _ :: r => pendCloses r

/-- **WF-quiet, drain-time** (finding K2): the drain of `close_loop` (`process_signals`) dispatched
nothing: in the history no `.take` occurs between a `.closeReq` and the next `.procEnd`.
(`scan seen tr`: `tr` newest first; `seen` = a `.take` newer than the current position is not separated
from it by a `.procEnd`.) -/
def drainQuietScan : Bool → List Tr → Bool
  | _, [] => true
  | _, .take _ _ :: tr => drainQuietScan true tr
  | _, .procEnd :: tr => drainQuietScan false tr
  | seen, .closeReq _ _ :: tr => !seen && drainQuietScan seen tr
  | seen, _ :: tr => drainQuietScan seen tr

def WFQuietDrain (c : Cfg) : Prop := drainQuietScan false c.tr = true

instance (c : Cfg) : Decidable (WFQuietDrain c) := inferInstanceAs (Decidable (_ = _))

def wfQuietEv : Tr → Bool
  | .closeReq _ n => n == 0
  | _ => true

/-- **WF-quiet, call-time** (finding K2): whenever `close_loop` was called, no signal was pending in the
closing level.  (Weaker than `WFQuietDrain` when the reader thread may deliver a line between the call
and its drain.) -/
def WFQuiet (c : Cfg) : Prop := c.tr.all wfQuietEv = true

instance (c : Cfg) : Decidable (WFQuiet c) := inferInstanceAs (Decidable (_ = _))

/-- the events about modal screens and levels -/
def Tr.isModalEv : Tr → Bool
  | .modalBegin _ | .modalEnd _ | .openLevel .. | .closeLevel _ | .loopReturn _ => true
  | _ => false

/-- according to the history, level `q` was opened by the `push_screen_modal` call for entry `e`:
among the modal/level events, `.openLevel q _` directly follows `.modalBegin e` -/
def OpenedFor (q : Nat) (e : Entry) (tr : List Tr) : Prop :=
  ∃ b t1 t0, tr.filter Tr.isModalEv = t1 ++ .openLevel q b :: .modalBegin e :: t0

/-- the heads of the straight-line *windows* between the push of a modal entry and its
`execute_new_loop`, and between the pop of a (modal) entry and the pop of its level -/
def Instr.isWindowHead : Instr → Bool
  | .newLoop _ | .callScr _ .closed _ _ | .scrRet _ .closed _ _ | .closeScreen2 .. | .closeLoop | .procIter none
  | .popLevel => true
  | _ => false

def Tr.isStackOp' : Tr → Bool
  | .stackOp .. => true
  | _ => false

/-- in the history segment `tr` (newest first) no stack operation is newer than the pop of level `q` -/
def noOpAfterCloseB (q : Nat) : List Tr → Bool
  | [] => true
  | t :: tr => (!t.isStackOp' || !tr.contains (.closeLevel q)) && noOpAfterCloseB q tr

/-- once `close_loop` has popped level `q` (the loop of a modal screen), the code that closed the screen
performs no further stack operation (in the history segment `tr`) -/
def NoStackOpAfterClose (q : Nat) (tr : List Tr) : Prop := noOpAfterCloseB q tr = true

instance (q : Nat) (tr : List Tr) : Decidable (NoStackOpAfterClose q tr) := inferInstanceAs (Decidable (_ = _))

end Simpleline
