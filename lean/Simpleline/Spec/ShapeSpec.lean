/-
  Specification vocabulary for the "shape" properties of the abstract machine: how the pending
  instruction list (`code`) relates to the stack of loop levels (C03: blocks / resumes) and to the
  screen stack (C05: modal screens).  Definitions only.
-/
import Simpleline.Spec.MachineSpec

namespace Simpleline

/-! ### markers: the `_mainloop` activations that are on the Python call stack -/

/-- the ghost levels of the `mainCheck` instructions of a code list, head (innermost activation) to
tail (outermost): one per `_mainloop` activation that has not returned yet -/
def markers : List Instr → List Nat
  | [] => []
  | .mainCheck q :: r => q :: markers r
  | _ :: r => markers r

/-- `markers`, with a pending `apprun` counted as the activation for level 0 it is going to start
(so that the start-up phase, in which `App.run()` has not been reached yet, needs no special case) -/
def markersA : List Instr → List Nat
  | [] => []
  | .mainCheck q :: r => q :: markersA r
  | .apprun :: r => 0 :: markersA r
  | _ :: r => markersA r

/-- the head instruction is `restoreRun`: a `_mainloop` activation has just left its loop and is about to
set `_run_loop` back to `True` (`execute_new_loop` / `run` is returning) -/
def headIsRestore : List Instr → Bool
  | .restoreRun :: _ => true
  | _ => false

/-- the run is over: an `ExitMainLoop`/uncaught exception/`sys.exit` has unwound all activations
(at most the quit callback is left to run) -/
def overCode : List Instr → Bool
  | [] => true
  | [.quitCb] => true
  | _ => false

def Cfg.Over (c : Cfg) : Prop := overCode c.code = true

instance (c : Cfg) : Decidable c.Over := inferInstanceAs (Decidable (_ = _))

/-! ### history hypotheses (decidable predicates over the trace; newest event first) -/

def wfCloseEv : Tr → Bool
  | .closeReq false _ => false
  | .openLevel _ false => false
  | _ => true

/-- **WF-close, call-time part** (finding K1): `close_loop` was never called, and `execute_new_loop`
never called, while `_run_loop` was `False` (i.e. while an earlier `close_loop` had not yet been
consumed by its `_mainloop` activation). -/
def WFClose (c : Cfg) : Prop := c.tr.all wfCloseEv = true

instance (c : Cfg) : Decidable (WFClose c) := inferInstanceAs (Decidable (_ = _))

/-- the half of `WFClose` that concerns `execute_new_loop` only -/
def wfOpenEv : Tr → Bool
  | .openLevel _ false => false
  | _ => true

def WFOpen (c : Cfg) : Prop := c.tr.all wfOpenEv = true

instance (c : Cfg) : Decidable (WFOpen c) := inferInstanceAs (Decidable (_ = _))

/-- according to the history, a level has been popped by `close_loop` and no `_mainloop` activation
has returned since -/
def closePending : List Tr → Bool
  | [] => false
  | .closeLevel _ :: _ => true
  | .loopReturn _ :: _ => false
  | _ :: tr => closePending tr

def noDoubleClose : List Tr → Bool
  | [] => true
  | .closeLevel _ :: tr => !closePending tr && noDoubleClose tr
  | _ :: tr => noDoubleClose tr

/-- **WF-close, pop-time part** (finding K1, the variant the call-time flags cannot see): no level was
popped while an earlier pop had not yet been consumed by a returning `_mainloop` activation.
`close_loop` first drains (`process_signals`), then pops.  A handler dispatched by that drain may itself
call `close_loop`; both calls then *start* with `_run_loop = True` (both log `.closeReq true _`), two
levels are popped, and only one activation returns. -/
def WFDrain (c : Cfg) : Prop := noDoubleClose c.tr = true

instance (c : Cfg) : Decidable (WFDrain c) := inferInstanceAs (Decidable (_ = _))

/-- the level popped by the newest `close_loop` of the history -/
def lastClosed : List Tr → Option Nat
  | [] => none
  | .closeLevel q :: _ => some q
  | _ :: tr => lastClosed tr

/-- `MainLoop.force_quit()` has not been called -/
def NoForceQuit (c : Cfg) : Prop := Tr.forceQuit ∉ c.tr

instance (c : Cfg) : Decidable (NoForceQuit c) := inferInstanceAs (Decidable (¬ _))

/-- the trace events added between `c` and a later configuration `c'` contain none of the run-ending
events: `ExitMainLoop` raised, the uncaught-exception `sys.exit`, `force_quit` -/
def Tr.isEnd : Tr → Bool
  | .exit | .kill | .forceQuit => true
  | _ => false

/-! ### the levels / activations correspondence -/

/-- **The exact correspondence** between the `_mainloop` activations on the call stack (`markersA`,
innermost first) and the open levels `MainLoop._event_queues` (bottom … top):
* the run is over (all activations unwound), or force-quit is not set and
* `_run_loop` is `True` and the activations serve exactly the open levels, in order; or
* `_run_loop` is `False` and the innermost activation has just left its loop (`restoreRun` is next):
  again the remaining activations serve exactly the open levels; or
* `_run_loop` is `False` because `close_loop` popped level `q` (the newest `.closeLevel` of the history)
  and no activation has returned since: the activations are `q`'s — which is about to return — followed by
  those of the open levels. -/
def LevelsInv (c : Cfg) : Prop :=
  c.Over ∨
  (c.L.forceQuit = false ∧
   ((c.L.runLoop = true ∧ markersA c.code = c.L.levels.reverse) ∨
    (c.L.runLoop = false ∧ headIsRestore c.code = true ∧ markersA c.code = c.L.levels.reverse) ∨
    (c.L.runLoop = false ∧ headIsRestore c.code = false ∧ closePending c.tr = true ∧ c.L.levels ≠ [] ∧
       ∃ q, lastClosed c.tr = some q ∧ markersA c.code = q :: c.L.levels.reverse)))

/-! ### exceptions -/

/-- loop-control instructions: the frames of `run()` / `_mainloop` / `_process_signal`; everything
else is (part of) the body of a handler or of the start-up code -/
def Instr.isLC : Instr → Bool
  | .apprun | .catchExit | .quitCb | .mainCheck _ | .restoreRun | .loopCheck | .getDispatch
  | .processSignal _ | .dispatch .. | .catchHandler | .kill _ => true
  | _ => false

/-- the instructions at which an ordinary exception (`Kind.err`) is caught -/
def Instr.catchesErr : Instr → Bool
  | .catchHandler | .catchPS | .catchDraw | .catchPI _ => true
  | _ => false

/-- the instructions an ordinary exception must never unwind: the `while` tests of a `_mainloop`
activation and the `except ExitMainLoop` scope of `run()` -/
def Instr.isLoopFrame : Instr → Bool
  | .mainCheck _ | .loopCheck | .catchExit => true
  | _ => false

/-- the part of `code` an ordinary exception raised by the head instruction unwinds before it reaches a
catcher (all of `code`, if there is none) -/
def errSegment (code : List Instr) : List Instr := code.takeWhile fun i => !i.catchesErr

end Simpleline
